import Pfst.Scan

/-!
Lemmas about `parsModel` (`FST.pars()`), `nextDelims` and `prevDelims`: "parenthesis queries report exactly the
balanced grouping parentheses that belong to the node".

* A. `pars_min`, `pars_min_soloShared`, `pars_soloGenexp`, `pars_not_parenthesizable`: the counting rule of
  `parsModel` for arbitrary lines in terms of the two delimiter lists.
* B. `nextDelims_single_line`: on one line `next_delims` = the character-level scan `scanClose`;
  `nextDelims_closeRunL` / `nextDelims_closeRun`: its value on `pre ++ closeRun g s ++ post`.
* C. `prevDelims_single_line`: on one line (prefix without `#` and backslash) `prev_delims` with its `state` cache = the
  character-level scan `scanOpenK` of the reversed prefix; `prevDelims_openRunL` / `prevDelims_openRun`.
* D. `pars_layout_unbalanced`, `pars_layout`, `pars_layout_indent`: `parsModel` on
  `pre ++ openRun g s ++ node ++ closeRun g s ++ post`.
All of B, C, D are single-line statements (bounds `(0, 0)` and `(0, line length)`).
-/

namespace Pfst.Scan

/-! ## A. the counting rule of `parsModel` -/

theorem nextDelims_length_pos (lines : List Line) (a b c d : Nat) (ch : Char) :
    1 ≤ (nextDelims lines a b c d ch).length := by
  simp [nextDelims]

theorem prevDelims_length_pos (lines : List Line) (a b c d : Nat) (ch : Char) :
    1 ≤ (prevDelims lines a b c d ch).length := by
  simp [prevDelims]

theorem pairAt_nextDelims_zero (lines : List Line) (a b c d : Nat) (ch : Char) :
    pairAt (nextDelims lines a b c d ch) 0 = (a, b) := by
  simp [nextDelims, pairAt]

theorem pairAt_prevDelims_zero (lines : List Line) (a b c d : Nat) (ch : Char) :
    pairAt (prevDelims lines a b c d ch) 0 = (c, d) := by
  simp [prevDelims, pairAt]

/-- the body of `parsModel` with the two delimiter lists abstracted -/
def parsCore (a : ParsIn) (rpars lpars : List (Nat × Nat)) : Loc × Int :=
  if !a.parenthesizable && a.shared != .n then (a.loc, 0)
  else
    let lr := rpars.length
    if lr == 1 then
      if a.shared != .t && a.soloGenexp then (⟨a.loc.ln, a.loc.col + 1, a.loc.endLn, a.loc.endCol - 1⟩, -1)
      else (a.loc, 0)
    else
      let ll := lpars.length
      if ll == 1 then (a.loc, 0)
      else
        let ll' := if decide (ll ≤ lr) && a.shared != .n && a.soloShared then ll - 1 else ll
        let n := if ll' != lr then min ll' lr - 1 else ll' - 1
        (⟨(pairAt lpars n).1, (pairAt lpars n).2, (pairAt rpars n).1, (pairAt rpars n).2⟩, (n : Int))

theorem parsModel_eq_core (lines : List Line) (a : ParsIn) :
    parsModel lines a =
      parsCore a (nextDelims lines a.loc.endLn a.loc.endCol a.nextBound.1 a.nextBound.2)
        (prevDelims lines a.prevBound.1 a.prevBound.2 a.loc.ln a.loc.col) := rfl

theorem parsCore_min (a : ParsIn) (rp lp : List (Nat × Nat))
    (hr : 1 ≤ rp.length) (hl : 1 ≤ lp.length)
    (hp : a.parenthesizable = true)
    (hg : a.shared = .t ∨ a.soloGenexp = false)
    (hs : a.shared = .n ∨ a.soloShared = false) :
    parsCore a rp lp =
      (if min lp.length rp.length - 1 = 0 then a.loc
       else ⟨(pairAt lp (min lp.length rp.length - 1)).1, (pairAt lp (min lp.length rp.length - 1)).2,
             (pairAt rp (min lp.length rp.length - 1)).1, (pairAt rp (min lp.length rp.length - 1)).2⟩,
       ((min lp.length rp.length - 1 : Nat) : Int)) := by
  unfold parsCore
  have hs' : (a.shared != Shared.n && a.soloShared) = false := by
    rcases hs with h | h <;> simp [h]
  have hg' : (a.shared != Shared.t && a.soloGenexp) = false := by
    rcases hg with h | h <;> simp [h]
  simp only [hp, Bool.and_assoc, hs', hg']
  by_cases h1 : rp.length = 1
  · simp [h1]; omega
  · by_cases h2 : lp.length = 1
    · simp [h1, h2]; omega
    · have : ¬ (min lp.length rp.length - 1 = 0) := by omega
      have e : (if lp.length = rp.length then lp.length - 1 else min lp.length rp.length - 1)
          = min lp.length rp.length - 1 := by split <;> omega
      simp [h1, h2, this, e]

/-- **A.**  For a parenthesizable node (not the `-1` solo-genexp case, not the shared-solo-argument case) the number
of pairs is `min (#opening found) (#closing found)` (both lists start with the start position, hence the `- 1`), and
the location is that of the `n`-th opening / closing parenthesis, or the node's own location when `n = 0`. -/
theorem pars_min (lines : List Line) (a : ParsIn)
    (hp : a.parenthesizable = true)
    (hg : a.shared = .t ∨ a.soloGenexp = false)
    (hs : a.shared = .n ∨ a.soloShared = false) :
    let rp := nextDelims lines a.loc.endLn a.loc.endCol a.nextBound.1 a.nextBound.2
    let lp := prevDelims lines a.prevBound.1 a.prevBound.2 a.loc.ln a.loc.col
    let n := min lp.length rp.length - 1
    parsModel lines a =
      (if n = 0 then a.loc
       else ⟨(pairAt lp n).1, (pairAt lp n).2, (pairAt rp n).1, (pairAt rp n).2⟩, (n : Int)) := by
  intro rp lp n
  rw [parsModel_eq_core]
  exact parsCore_min a _ _ (nextDelims_length_pos ..) (prevDelims_length_pos ..) hp hg hs


theorem parsCore_soloShared (a : ParsIn) (rp lp : List (Nat × Nat))
    (hr : 1 ≤ rp.length) (hl : 1 ≤ lp.length)
    (hr0 : pairAt rp 0 = (a.loc.endLn, a.loc.endCol)) (hl0 : pairAt lp 0 = (a.loc.ln, a.loc.col))
    (hp : a.parenthesizable = true)
    (hg : a.shared = .t ∨ a.soloGenexp = false)
    (hs : a.shared ≠ .n) (hss : a.soloShared = true) :
    parsCore a rp lp =
      (if min (if lp.length ≤ rp.length then lp.length - 1 else lp.length) rp.length - 1 = 0 then a.loc
       else ⟨(pairAt lp (min (if lp.length ≤ rp.length then lp.length - 1 else lp.length) rp.length - 1)).1,
             (pairAt lp (min (if lp.length ≤ rp.length then lp.length - 1 else lp.length) rp.length - 1)).2,
             (pairAt rp (min (if lp.length ≤ rp.length then lp.length - 1 else lp.length) rp.length - 1)).1,
             (pairAt rp (min (if lp.length ≤ rp.length then lp.length - 1 else lp.length) rp.length - 1)).2⟩,
       ((min (if lp.length ≤ rp.length then lp.length - 1 else lp.length) rp.length - 1 : Nat) : Int)) := by
  unfold parsCore
  have hs' : (a.shared != Shared.n) = true := by simpa using hs
  have hg' : (a.shared != Shared.t && a.soloGenexp) = false := by
    rcases hg with h | h <;> simp [h]
  simp only [hp, hs', hss, hg']
  by_cases h1 : rp.length = 1
  · simp [h1]; split <;> omega
  · by_cases h2 : lp.length = 1
    · simp [h1, h2]; split <;> omega
    · simp only [Bool.not_true, Bool.false_eq_true, ↓reduceIte, beq_iff_eq, h1, h2,
        Bool.and_true, decide_eq_true_eq, bne_iff_ne, ne_eq, ite_not]
      by_cases h3 : lp.length ≤ rp.length
      · simp only [h3, ↓reduceIte]
        have e : (if lp.length - 1 = rp.length then lp.length - 1 - 1 else min (lp.length - 1) rp.length - 1)
            = lp.length - 1 - 1 := by split <;> omega
        have e2 : min (lp.length - 1) rp.length - 1 = lp.length - 1 - 1 := by omega
        rw [e, e2]
        by_cases h4 : lp.length - 1 - 1 = 0
        · simp [h4, hl0, hr0]
        · simp [h4]
      · simp only [h3, ↓reduceIte]
        have e : (if lp.length = rp.length then lp.length - 1 else min lp.length rp.length - 1)
            = min lp.length rp.length - 1 := by split <;> omega
        have : ¬ (min lp.length rp.length - 1 = 0) := by omega
        simp [e, this]

/-- **A (soloShared variant).**  When the node is the sole argument of a call / sole class base / sole MatchClass
pattern (and `shared` is not `None`), the innermost-to-outermost list of opening parentheses contains, as its LAST
candidate, the opening parenthesis of the call itself whenever there are not more opening than closing parentheses;
that one is not counted: the left count is reduced by one when `lp.length ≤ rp.length`. -/
theorem pars_min_soloShared (lines : List Line) (a : ParsIn)
    (hp : a.parenthesizable = true)
    (hg : a.shared = .t ∨ a.soloGenexp = false)
    (hs : a.shared ≠ .n) (hss : a.soloShared = true) :
    let rp := nextDelims lines a.loc.endLn a.loc.endCol a.nextBound.1 a.nextBound.2
    let lp := prevDelims lines a.prevBound.1 a.prevBound.2 a.loc.ln a.loc.col
    let ll' := if lp.length ≤ rp.length then lp.length - 1 else lp.length
    let n := min ll' rp.length - 1
    parsModel lines a =
      (if n = 0 then a.loc
       else ⟨(pairAt lp n).1, (pairAt lp n).2, (pairAt rp n).1, (pairAt rp n).2⟩, (n : Int)) := by
  intro rp lp ll' n
  rw [parsModel_eq_core]
  exact parsCore_soloShared a _ _ (nextDelims_length_pos ..) (prevDelims_length_pos ..)
    (pairAt_nextDelims_zero ..) (pairAt_prevDelims_zero ..) hp hg hs hss

/-- the `-1` answer: an unparenthesized solo call-argument generator expression asked with `shared` ≠ `True` and no
closing parenthesis found after it (the caller guarantees the bound excludes the call's own parenthesis in that case) -/
theorem pars_soloGenexp (lines : List Line) (a : ParsIn)
    (hp : a.parenthesizable = true ∨ a.shared = .n)
    (hs : a.shared ≠ .t) (hg : a.soloGenexp = true)
    (hr : (nextDelims lines a.loc.endLn a.loc.endCol a.nextBound.1 a.nextBound.2).length = 1) :
    parsModel lines a = (⟨a.loc.ln, a.loc.col + 1, a.loc.endLn, a.loc.endCol - 1⟩, -1) := by
  have hs' : (a.shared != Shared.t) = true := by simpa using hs
  have h0 : (!a.parenthesizable && a.shared != Shared.n) = false := by
    rcases hp with h | h <;> simp [h]
  unfold parsModel
  simp [h0, hr, hs', hg]

/-- a node that cannot be parenthesized has no parentheses (unless `shared=None` forces the scan) -/
theorem pars_not_parenthesizable (lines : List Line) (a : ParsIn)
    (hp : a.parenthesizable = false) (hs : a.shared ≠ .n) :
    parsModel lines a = (a.loc, 0) := by
  have hs' : (a.shared != Shared.n) = true := by simpa using hs
  unfold parsModel
  simp [hp, hs']


/-! ## regex / fragment lemmas on explicit decompositions -/

private theorem take_len_add {α} (A Y : List α) (n : Nat) : (A ++ Y).take (A.length + n) = A ++ Y.take n := by
  induction A with
  | nil => simp
  | cons a A ih => simp [Nat.succ_add, ih]

private theorem drop_len_add {α} (A Y : List α) (n : Nat) : (A ++ Y).drop (A.length + n) = Y.drop n := by
  induction A with
  | nil => simp
  | cons a A ih => simp [Nat.succ_add, ih]

private theorem window_eq (A w B : Line) : ((A ++ w ++ B).take (A.length + w.length)).drop A.length = w := by
  rw [List.append_assoc, take_len_add]
  have := drop_len_add A (List.take w.length (w ++ B)) 0
  simp at this
  simp

theorem reMatch_ff_window (A w B : Line) :
    reMatch false false (A ++ w ++ B) A.length (A.length + w.length) =
      match w.dropWhile isSpace with
      | [] => none
      | ch :: t =>
        if isCode ch then
          some ⟨A.length + (w.takeWhile isSpace).length,
                A.length + (w.takeWhile isSpace).length + ((ch :: t).takeWhile isCode).length⟩
        else none := by
  unfold reMatch
  have e1 : min (A.length + w.length) (A ++ w ++ B).length = A.length + w.length := by simp
  have e2 : min A.length (A ++ w ++ B).length = A.length := by simp
  simp only [e1, e2, window_eq]
  have hlt : ¬ (A.length + w.length < A.length) := by omega
  simp only [hlt, ↓reduceIte]
  cases hr : w.dropWhile isSpace with
  | nil => rfl
  | cons ch t =>
    by_cases hc : isCode ch = true
    · simp [hc]
    · simp [hc]

private theorem group_window (A sp code X : Line) :
    group (A ++ sp ++ code ++ X) ⟨A.length + sp.length, A.length + sp.length + code.length⟩ = code := by
  simp only [group]
  rw [List.append_assoc, List.append_assoc, ← List.append_assoc A, ← List.length_append, take_len_add]
  have := drop_len_add (A ++ sp) (List.take code.length (code ++ X)) 0
  simp at this
  simp


private theorem tw_dw {α} (p : α → Bool) (w : List α) : w = w.takeWhile p ++ w.dropWhile p := by
  induction w with
  | nil => rfl
  | cons a w ih => by_cases h : p a = true <;> simp [List.takeWhile, List.dropWhile, h, ← ih]

private theorem tw_all {α} (p : α → Bool) (w : List α) : ∀ c ∈ w.takeWhile p, p c = true := by
  induction w with
  | nil => simp
  | cons a w ih => by_cases h : p a = true <;> simp [List.takeWhile, h]; exact ih

private theorem dw_head {α} (p : α → Bool) (w : List α) (c : α) (t : List α) (h : w.dropWhile p = c :: t) :
    p c = false := by
  induction w with
  | nil => simp at h
  | cons a w ih =>
    by_cases h' : p a = true
    · simp [List.dropWhile, h'] at h; exact ih h
    · simp [List.dropWhile, h'] at h; simpa [h.1] using h'

private theorem tw_append_stop {α} (p : α → Bool) (a b : List α) (ha : ∀ c ∈ a, p c = true)
    (hb : ∀ c t, b = c :: t → p c = false) : (a ++ b).takeWhile p = a := by
  induction a with
  | nil =>
    cases b with
    | nil => rfl
    | cons c t => simp [hb c t rfl]
  | cons x a ih =>
    simp [ha x (by simp)]
    exact ih (fun c hc => ha c (by simp [hc]))

private theorem dw_append_stop {α} (p : α → Bool) (a b : List α) (ha : ∀ c ∈ a, p c = true)
    (hb : ∀ c t, b = c :: t → p c = false) : (a ++ b).dropWhile p = b := by
  induction a with
  | nil =>
    cases b with
    | nil => rfl
    | cons c t => simp [hb c t rfl]
  | cons x a ih =>
    simp [ha x (by simp)]
    exact ih (fun c hc => ha c (by simp [hc]))

private theorem isSpace_rparen : isSpace ')' = false := by decide
private theorem isSpace_lparen : isSpace '(' = false := by decide
private theorem isCode_rparen : isCode ')' = true := by decide
private theorem isCode_lparen : isCode '(' = true := by decide
private theorem isSpace_space : isSpace ' ' = true := by decide

private theorem isCode_not_space (c : Char) (h : isCode c = true) : isSpace c = false := by
  unfold isCode at h
  cases hs : isSpace c <;> simp [hs] at h ⊢

/-! ## B. `next_delims` on one line = a character-level scan -/

/-- character-level meaning of `next_delims` on one line: skip white space, record the position after every `')'`,
stop at anything else (other code, a comment, a backslash, the end). -/
def scanClose (base : Nat) : Line → List (Nat × Nat)
  | [] => []
  | c :: r =>
    if isSpace c then scanClose (base + 1) r
    else if c == ')' then (0, base + 1) :: scanClose (base + 1) r
    else []

theorem scanClose_spaces (sp r : Line) (base : Nat) (h : ∀ c ∈ sp, isSpace c = true) :
    scanClose base (sp ++ r) = scanClose (base + sp.length) r := by
  induction sp generalizing base with
  | nil => simp
  | cons c sp ih =>
    have hc : isSpace c = true := h c (by simp)
    simp only [List.cons_append, scanClose, hc, ↓reduceIte, List.length_cons]
    rw [ih _ (fun c hc => h c (by simp [hc]))]
    congr 1; omega

theorem scanClose_parens (ps r : Line) (base : Nat) (h : ∀ c ∈ ps, c = ')') :
    scanClose base (ps ++ r) =
      (List.range ps.length).map (fun j => (0, base + j + 1)) ++ scanClose (base + ps.length) r := by
  induction ps generalizing base with
  | nil => simp
  | cons c ps ih =>
    have hc : c = ')' := h c (by simp)
    subst hc
    simp only [List.cons_append, scanClose, isSpace_rparen, Bool.false_eq_true, ↓reduceIte, beq_self_eq_true,
      List.length_cons, List.range_succ_eq_map, List.map_cons, List.map_map]
    rw [ih _ (fun c hc => h c (by simp [hc]))]
    simp only [Nat.add_zero, List.cons.injEq, true_and]
    congr 1
    · apply List.map_congr_left; intro j _; simp; omega
    · congr 1; omega


private theorem nextFrag_single (l : Line) (col e : Nat) :
    nextFrag [l] 0 col 0 e false .f = (reMatch false false l col e).map (fragOf l 0) := by
  have : (LCont.f == LCont.t) = false := by decide
  simp [nextFrag, lineAt, this]

theorem nextDelimsLoop_single (fuel : Nat) (A w : Line) (h : w.length < fuel) :
    nextDelimsLoop [A ++ w] 0 (A ++ w).length ')' fuel 0 A.length = scanClose A.length w := by
  induction fuel generalizing A w with
  | zero => omega
  | succ fuel ih =>
    have hw := tw_dw isSpace w
    have hsp := tw_all isSpace w
    have hm := reMatch_ff_window A w []
    simp only [List.append_nil] at hm
    unfold nextDelimsLoop
    rw [nextFrag_single, List.length_append, hm]
    cases hr : w.dropWhile isSpace with
    | nil =>
      rw [hr] at hw
      rw [hw, scanClose_spaces _ _ _ hsp]
      simp [scanClose]
    | cons ch t =>
      have hns := dw_head _ _ _ _ hr
      by_cases hc : isCode ch = true
      · have hcd := tw_dw isCode (ch :: t)
        have hcode := tw_all isCode (ch :: t)
        have hps := tw_dw (· == ')') ((ch :: t).takeWhile isCode)
        have hpsall := tw_all (· == ')') ((ch :: t).takeWhile isCode)
        have hc2 := dw_head (· == ')') ((ch :: t).takeWhile isCode)
        have hne : 1 ≤ ((ch :: t).takeWhile isCode).length := by simp [List.takeWhile, hc]
        simp only [hc, ↓reduceIte, Option.map_some, fragOf]
        clear hm
        rw [hr] at hw
        generalize (ch :: t).takeWhile isCode = code at *
        generalize (ch :: t).dropWhile isCode = rest2 at *
        generalize w.takeWhile isSpace = sp at *
        rw [hcd] at hw
        subst hw
        generalize code.takeWhile (· == ')') = ps at *
        generalize code.dropWhile (· == ')') = c2 at *
        subst hps
        have hg : group (A ++ (sp ++ (ps ++ c2 ++ rest2)))
            ⟨A.length + sp.length, A.length + sp.length + (ps ++ c2).length⟩ = ps ++ c2 := by
          have := group_window A sp (ps ++ c2) rest2
          simpa [List.append_assoc] using this
        rw [hg, tw_append_stop _ ps c2 hpsall hc2]
        have hps' : ∀ c ∈ ps, c = ')' := fun c hc => by simpa using hpsall c hc
        rw [scanClose_spaces _ _ _ hsp, List.append_assoc ps, scanClose_parens _ _ _ hps']
        cases c2 with
        | nil =>
          have key := ih (A ++ sp ++ ps) rest2 (by simp at h hne ⊢; omega)
          simp only [List.append_nil, beq_self_eq_true, ↓reduceIte, List.nil_append]
          simp only [List.append_assoc, List.length_append] at key ⊢
          rw [← Nat.add_assoc (List.length A) sp.length ps.length] at key
          rw [key]
        | cons x c2' =>
          have hx : (x == ')') = false := hc2 x c2' rfl
          have hxs : isSpace x = false := isCode_not_space x (hcode x (by simp))
          simp [scanClose, hx, hxs]
      · rw [hw, scanClose_spaces _ _ _ hsp, hr]
        have : ch ≠ ')' := by intro h; subst h; simp [isCode_rparen] at hc
        simp [hc, scanClose, hns, this]


/-- **B (general form).**  On a single line, with the bound at the end of the line, `next_delims` is exactly the
character-level scan `scanClose` of the text that follows the start column. -/
theorem nextDelims_single_line (A w : Line) :
    nextDelims [A ++ w] 0 A.length 0 (A ++ w).length = (0, A.length) :: scanClose A.length w := by
  unfold nextDelims
  rw [nextDelimsLoop_single]
  simp [fuelOf, totalChars]
  omega

/-- the scan reports nothing when the first non-blank character is not `')'` -/
theorem scanClose_stop (base : Nat) (post : Line) (h : (post.dropWhile isSpace).head? ≠ some ')') :
    scanClose base post = [] := by
  rw [tw_dw isSpace post, scanClose_spaces _ _ _ (tw_all isSpace post)]
  cases hr : post.dropWhile isSpace with
  | nil => rfl
  | cons x t =>
    have hx : isSpace x = false := dw_head _ _ _ _ hr
    have : (x == ')') = false := by
      rw [hr] at h
      simpa using h
    simp [scanClose, hx, this]

/-- `g` closing parentheses, each preceded by its own number of blanks -/
def closeRunL (ss : List Nat) : Line := (ss.map (fun s => List.replicate s ' ' ++ [')'])).flatten

/-- `g` copies of (`s` blanks followed by `')'`) -/
def closeRun (g s : Nat) : Line := (List.replicate g (List.replicate s ' ' ++ [')'])).flatten

theorem closeRun_eq (g s : Nat) : closeRun g s = closeRunL (List.replicate g s) := by
  simp [closeRun, closeRunL]

/-- the positions just after each `')'` of `closeRunL ss` when the run starts at column `base` -/
def closePos (base : Nat) : List Nat → List (Nat × Nat)
  | [] => []
  | s :: r => (0, base + s + 1) :: closePos (base + s + 1) r

theorem closeRunL_cons (s : Nat) (r : List Nat) :
    closeRunL (s :: r) = List.replicate s ' ' ++ ')' :: closeRunL r := by
  simp [closeRunL]

theorem closeRunL_length (ss : List Nat) : (closeRunL ss).length = ss.sum + ss.length := by
  induction ss with
  | nil => rfl
  | cons s r ih => rw [closeRunL_cons]; simp [ih]; omega

theorem closeRun_length (g s : Nat) : (closeRun g s).length = g * (s + 1) := by
  induction g with
  | zero => simp [closeRun]
  | succ g ih =>
    have : closeRun (g + 1) s = (List.replicate s ' ' ++ [')']) ++ closeRun g s := by
      simp [closeRun, List.replicate_succ]
    rw [this, List.length_append, ih, Nat.succ_mul]; simp; omega

theorem scanClose_closeRunL (base : Nat) (ss : List Nat) (post : Line) :
    scanClose base (closeRunL ss ++ post) =
      closePos base ss ++ scanClose (base + (closeRunL ss).length) post := by
  induction ss generalizing base with
  | nil => simp [closeRunL, closePos]
  | cons s r ih =>
    rw [closeRunL_cons, List.append_assoc, scanClose_spaces _ _ _ (by simp [isSpace_space])]
    simp only [List.cons_append, scanClose, isSpace_rparen, Bool.false_eq_true, ↓reduceIte, beq_self_eq_true,
      List.length_replicate, closePos, List.length_append, List.length_cons]
    rw [ih]
    simp only [List.cons.injEq, true_and]
    congr 2; omega

theorem closePos_replicate (base g s : Nat) :
    closePos base (List.replicate g s) = (List.range g).map (fun j => (0, base + (j + 1) * (s + 1))) := by
  induction g generalizing base with
  | zero => rfl
  | succ g ih =>
    simp only [List.replicate_succ, closePos, ih, List.range_succ_eq_map, List.map_cons, List.map_map]
    congr 1
    · simp; omega
    · apply List.map_congr_left; intro j _
      simp only [Function.comp, Prod.mk.injEq, true_and]
      rw [Nat.succ_mul (j + 1) (s + 1)]; omega

/-- **B (general spacing).**  `pre ++ closeRunL ss ++ post`, scan started right after `pre`, the text after the run
not starting (after blanks) with another `')'`: the positions after each of the `ss.length` parentheses. -/
theorem nextDelims_closeRunL (pre post : Line) (ss : List Nat)
    (hpost : (post.dropWhile isSpace).head? ≠ some ')') :
    nextDelims [pre ++ closeRunL ss ++ post] 0 pre.length 0 (pre ++ closeRunL ss ++ post).length =
      (0, pre.length) :: closePos pre.length ss := by
  rw [List.append_assoc, nextDelims_single_line, scanClose_closeRunL, scanClose_stop _ _ hpost]
  simp

/-- **B.**  `pre ++ closeRun g s ++ post`: the `g` positions just after each `')'`.  `post` may be empty, or begin
(after optional blanks) with any character other than `')'` — a code character glued directly to the run
(`)))x`, `))),`), a blank, a comment `#` or a continuation backslash. -/
theorem nextDelims_closeRun (pre post : Line) (g s : Nat)
    (hpost : (post.dropWhile isSpace).head? ≠ some ')') :
    nextDelims [pre ++ closeRun g s ++ post] 0 pre.length 0 (pre ++ closeRun g s ++ post).length =
      (0, pre.length) :: (List.range g).map (fun j => (0, pre.length + (j + 1) * (s + 1))) := by
  rw [closeRun_eq, nextDelims_closeRunL _ _ _ hpost, closePos_replicate]


/-! ## C. `prev_delims` on one line = a character-level scan of the reversed prefix -/

/-- character-level meaning of `prev_delims` on one line, run over the REVERSED text that precedes the start column
`e`: skip white space, record the position of every `'('`, stop at anything else; `k` = what to answer when the text
is exhausted. -/
def scanOpenK (e : Nat) : Line → List (Nat × Nat) → List (Nat × Nat)
  | [], k => k
  | c :: r, k =>
    if isSpace c then scanOpenK (e - 1) r k
    else if c == '(' then (0, e - 1) :: scanOpenK (e - 1) r k
    else []

theorem scanOpenK_append (e : Nat) (X Y : Line) (k : List (Nat × Nat)) :
    scanOpenK e (X ++ Y) k = scanOpenK e X (scanOpenK (e - X.length) Y k) := by
  induction X generalizing e with
  | nil => simp [scanOpenK]
  | cons c X ih =>
    simp only [List.cons_append, scanOpenK, ih, List.length_cons]
    have : e - 1 - X.length = e - (X.length + 1) := by omega
    rw [this]

theorem scanOpenK_spaces (e : Nat) (sp : Line) (k : List (Nat × Nat)) (h : ∀ c ∈ sp, isSpace c = true) :
    scanOpenK e sp k = k := by
  induction sp generalizing e with
  | nil => rfl
  | cons c sp ih =>
    simp only [scanOpenK, h c (by simp), ↓reduceIte]
    exact ih _ (fun c hc => h c (by simp [hc]))

theorem scanOpenK_parens (e : Nat) (ps r : Line) (k : List (Nat × Nat)) (h : ∀ c ∈ ps, c = '(') :
    scanOpenK e (ps ++ r) k =
      (List.range ps.length).map (fun j => (0, e - (j + 1))) ++ scanOpenK (e - ps.length) r k := by
  induction ps generalizing e with
  | nil => simp
  | cons c ps ih =>
    have hc : c = '(' := h c (by simp)
    subst hc
    simp only [List.cons_append, scanOpenK, isSpace_lparen, Bool.false_eq_true, ↓reduceIte, beq_self_eq_true,
      List.length_cons, List.range_succ_eq_map, List.map_cons, List.map_map]
    rw [ih _ (fun c hc => h c (by simp [hc]))]
    simp only [Nat.zero_add, List.cons.injEq, true_and]
    congr 1
    · apply List.map_congr_left; intro j _; simp; omega
    · congr 1; omega

/-- what `prev_delims` answers by popping a stack of cached matches (top first) -/
def popScan : List PM → List (Nat × Nat)
  | [] => []
  | m :: st =>
    let k := (m.src.reverse.takeWhile (· == '(')).length
    let new := (List.range k).map (fun j => (0, m.s + m.src.length - (j + 1)))
    if k == m.src.length then new ++ popScan st else new

private theorem isCode_ne (c : Char) (h : isCode c = true) : c ≠ '#' ∧ c ≠ '\\' := by
  unfold isCode at h
  simp at h
  exact ⟨h.1.2, h.2⟩

theorem popScan_cons (s e : Nat) (code : Line) (st : List PM) (hcode : ∀ c ∈ code, isCode c = true) :
    popScan (⟨s, e, code⟩ :: st) = scanOpenK (s + code.length) code.reverse (popScan st) := by
  have hps := tw_dw (· == '(') code.reverse
  have hpsall := tw_all (· == '(') code.reverse
  have hc2 := dw_head (· == '(') code.reverse
  have hlen : code.length = code.reverse.length := by simp
  have hcode' : ∀ c ∈ code.reverse, isCode c = true := fun c hc => hcode c (by simpa using hc)
  simp only [popScan]
  rw [hlen]
  generalize code.reverse = rc at *
  generalize rc.takeWhile (· == '(') = ps at *
  generalize rc.dropWhile (· == '(') = c2 at *
  subst hps
  have hps' : ∀ c ∈ ps, c = '(' := fun c hc => by simpa using hpsall c hc
  rw [scanOpenK_parens _ _ _ _ hps']
  cases c2 with
  | nil => simp [scanOpenK]
  | cons x c2' =>
    have hx : (x == '(') = false := hc2 x c2' rfl
    have hxs : isSpace x = false := isCode_not_space x (hcode' x (by simp))
    simp [scanOpenK, hx, hxs]


/-- one iteration of the `last_match` loop of `prev_frag` (no comments, no continuations) on a window of blanks -/
theorem lastMatchLoop_blank (A w B : Line) (fuel : Nat) (st : List PM) (hw : ∀ c ∈ w, isSpace c = true) :
    lastMatchLoop false .f false false (A ++ w ++ B) (A.length + w.length) fuel A.length st = st := by
  cases fuel with
  | zero => rfl
  | succ fuel =>
    unfold lastMatchLoop
    rw [reMatch_ff_window]
    have : w.dropWhile isSpace = [] := by
      have := dw_append_stop isSpace w [] hw (by simp)
      simpa using this
    simp [this]

/-- one iteration of the `last_match` loop on a window `blanks ++ code ++ rest` -/
theorem lastMatchLoop_frag (A sp code rest B : Line) (fuel : Nat) (st : List PM)
    (hsp : ∀ c ∈ sp, isSpace c = true) (hcode : ∀ c ∈ code, isCode c = true) (hne : code ≠ [])
    (hrest : ∀ c t, rest = c :: t → isCode c = false) :
    lastMatchLoop false .f false false (A ++ (sp ++ code ++ rest) ++ B) (A.length + (sp ++ code ++ rest).length)
        (fuel + 1) A.length st =
      lastMatchLoop false .f false false (A ++ (sp ++ code ++ rest) ++ B) (A.length + (sp ++ code ++ rest).length)
        fuel (A.length + sp.length + code.length) (⟨A.length + sp.length, A.length + sp.length + code.length, code⟩ :: st) := by
  conv => lhs; unfold lastMatchLoop
  rw [reMatch_ff_window]
  cases code with
  | nil => exact absurd rfl hne
  | cons ch t =>
    have hch : isCode ch = true := hcode ch (by simp)
    have hcr : ∀ c t', (ch :: t) ++ rest = c :: t' → isSpace c = false := by
      intro c t' h
      simp at h
      rw [← h.1]; exact isCode_not_space _ hch
    have e1 : (sp ++ (ch :: t) ++ rest).dropWhile isSpace = (ch :: t) ++ rest := by
      rw [List.append_assoc]; exact dw_append_stop isSpace sp _ hsp hcr
    have e2 : (sp ++ (ch :: t) ++ rest).takeWhile isSpace = sp := by
      rw [List.append_assoc]; exact tw_append_stop isSpace sp _ hsp hcr
    have e3 : ((ch :: t) ++ rest).takeWhile isCode = ch :: t := tw_append_stop isCode _ _ hcode hrest
    rw [e1, e2]
    simp only [List.cons_append] at e3 ⊢
    simp only [hch, ↓reduceIte, e3]
    have hg : group (A ++ (sp ++ ch :: t ++ rest) ++ B)
        ⟨A.length + sp.length, A.length + sp.length + (ch :: t).length⟩ = ch :: t := by
      have := group_window A sp (ch :: t) (rest ++ B)
      simpa [List.append_assoc] using this
    rw [hg]
    have h1 : ch ≠ '#' := (isCode_ne ch hch).1
    have h2 : ch ≠ '\\' := (isCode_ne ch hch).2
    simp [h1, h2]


/-- coherence of the cached stack with the line: to the left of the bottom entry (of column `c` when the stack is
empty) there are only blanks -/
def StackInv (l : Line) : Nat → List PM → Prop
  | c, [] => ∃ sp B, l = sp ++ B ∧ sp.length = c ∧ ∀ x ∈ sp, isSpace x = true
  | _, m :: st => StackInv l m.s st

theorem StackInv_blank (l A sp B : Line) (st : List PM) (hl : l = A ++ sp ++ B)
    (hsp : ∀ c ∈ sp, isSpace c = true) (h : StackInv l A.length st) : StackInv l (A.length + sp.length) st := by
  cases st with
  | nil =>
    obtain ⟨sp0, B0, h1, h2, h3⟩ := h
    have : sp0 = A := by
      rw [hl, List.append_assoc] at h1
      exact (List.append_inj_left h1 h2.symm).symm
    subst this
    refine ⟨sp0 ++ sp, B, hl, by simp, ?_⟩
    intro x hx
    rcases List.mem_append.1 hx with h | h
    · exact h3 x h
    · exact hsp x h
  | cons m st => exact h

theorem lastMatchLoop_spec (fuel : Nat) : ∀ (A w B : Line) (st : List PM), w.length < fuel →
    (∀ x ∈ w, isSpace x = true ∨ isCode x = true) → StackInv (A ++ w ++ B) A.length st →
    StackInv (A ++ w ++ B) (A.length + w.length)
        (lastMatchLoop false .f false false (A ++ w ++ B) (A.length + w.length) fuel A.length st) ∧
      popScan (lastMatchLoop false .f false false (A ++ w ++ B) (A.length + w.length) fuel A.length st) =
        scanOpenK (A.length + w.length) w.reverse (popScan st) := by
  induction fuel with
  | zero => intro A w B st h; omega
  | succ fuel ih =>
    intro A w B st h hsc hinv
    have hw := tw_dw isSpace w
    have hsp := tw_all isSpace w
    cases hr : w.dropWhile isSpace with
    | nil =>
      rw [hr, List.append_nil] at hw
      rw [← hw] at hsp
      rw [lastMatchLoop_blank _ _ _ _ _ hsp]
      refine ⟨StackInv_blank _ A w B st rfl hsp hinv, ?_⟩
      rw [scanOpenK_spaces]
      intro c hc; exact hsp c (by simpa using hc)
    | cons ch t =>
      have hns := dw_head _ _ _ _ hr
      rw [hr] at hw
      have hc : isCode ch = true := by
        rcases hsc ch (by rw [hw]; simp) with h | h
        · rw [hns] at h; cases h
        · exact h
      have hcd := tw_dw isCode (ch :: t)
      have hcode := tw_all isCode (ch :: t)
      have hrest := dw_head isCode (ch :: t)
      have hne : (ch :: t).takeWhile isCode ≠ [] := by simp [List.takeWhile, hc]
      generalize (ch :: t).takeWhile isCode = code at *
      generalize (ch :: t).dropWhile isCode = rest2 at *
      generalize w.takeWhile isSpace = sp at *
      rw [hcd] at hw
      subst hw
      rw [← List.append_assoc sp, lastMatchLoop_frag A sp code rest2 B fuel st hsp hcode hne hrest]
      have key := ih (A ++ sp ++ code) rest2 B (⟨A.length + sp.length, A.length + sp.length + code.length, code⟩ :: st)
        (by
          have : 1 ≤ code.length := by
            cases code with
            | nil => exact absurd rfl hne
            | cons _ _ => simp
          simp at h; omega)
        (fun x hx => hsc x (by simp [hx]))
        (by
          show StackInv _ (A.length + sp.length) st
          exact StackInv_blank _ A sp (code ++ rest2 ++ B) st (by simp) hsp (by simpa using hinv))
      simp only [List.length_append, List.append_assoc, Nat.add_assoc] at key ⊢
      obtain ⟨k1, k2⟩ := key
      refine ⟨k1, ?_⟩
      rw [k2, popScan_cons _ _ _ _ hcode]
      have hsp' : ∀ c ∈ sp.reverse, isSpace c = true := fun c hc => hsp c (by simpa using hc)
      rw [List.reverse_append, List.reverse_append, scanOpenK_append, scanOpenK_append,
        scanOpenK_spaces _ _ _ hsp']
      simp only [List.length_reverse]
      congr 2
      omega


private theorem prevFragSt_single (l : Line) (c : Nat) (st : List PM) :
    prevFragSt [l] 0 0 0 c false .f st =
      ((lastMatch false .f false false st l 0 c).1.map (pmFrag 0), (lastMatch false .f false false st l 0 c).2) := by
  have : (LCont.f == LCont.t) = false := by decide
  simp [prevFragSt, lineAt, this]

/-- popping a coherent cached stack: `prev_delims` never looks at the line again until the stack is empty, and then
finds only blanks -/
theorem prevDelimsLoop_pop (l : Line) : ∀ (st : List PM) (fuel c : Nat), st.length < fuel → StackInv l c st →
    prevDelimsLoop [l] 0 0 '(' fuel 0 c st = popScan st := by
  intro st
  induction st with
  | nil =>
    intro fuel c hf hinv
    obtain ⟨sp, B, h1, h2, h3⟩ := hinv
    subst h1 h2
    cases fuel with
    | zero => simp at hf
    | succ fuel =>
      have := lastMatchLoop_blank [] sp B ((sp ++ B).length + 1) [] h3
      simp only [List.nil_append, List.length_nil, Nat.zero_add] at this
      unfold prevDelimsLoop
      rw [prevFragSt_single]
      simp only [lastMatch, this]
      simp [popScan]
  | cons m st ih =>
    intro fuel c hf hinv
    cases fuel with
    | zero => simp at hf
    | succ fuel =>
      unfold prevDelimsLoop
      rw [prevFragSt_single]
      simp only [lastMatch, Option.map_some, pmFrag, popScan]
      rw [ih fuel m.s (by simp at hf; omega) hinv]

private theorem lastMatchLoop_length (comment : Bool) (lcont : LCont) (pc pl : Bool) (l : Line) (ec : Nat) :
    ∀ (fuel c : Nat) (st : List PM),
      (lastMatchLoop comment lcont pc pl l ec fuel c st).length ≤ st.length + fuel := by
  intro fuel
  induction fuel with
  | zero => intro c st; simp [lastMatchLoop]
  | succ fuel ih =>
    intro c st
    unfold lastMatchLoop
    split
    · omega
    · dsimp only
      split
      · omega
      · rename_i m _ _
        have := ih m.e (⟨m.s, m.e, group l m⟩ :: st)
        simp only [List.length_cons] at this
        omega


/-- **C (general form).**  On a single line with the bound at column 0, when the text `W` before the start column
consists of blanks and code characters only (no `#`, no backslash), `prev_delims` is exactly the character-level
scan `scanOpenK` of the reversed `W`. -/
theorem prevDelims_single_line (W B : Line) (hsc : ∀ x ∈ W, isSpace x = true ∨ isCode x = true) :
    prevDelims [W ++ B] 0 0 0 W.length = (0, W.length) :: scanOpenK W.length W.reverse [] := by
  have hf : fuelOf [W ++ B] = (W ++ B).length + 1 + 1 := by simp [fuelOf, totalChars]
  unfold prevDelims
  rw [hf]
  congr 1
  unfold prevDelimsLoop
  rw [prevFragSt_single]
  simp only [lastMatch]
  have spec := lastMatchLoop_spec ((W ++ B).length + 1) [] W B [] (by simp; omega) hsc
    ⟨[], W ++ B, by simp, rfl, by simp⟩
  simp only [List.nil_append, List.length_nil, Nat.zero_add, popScan] at spec
  obtain ⟨s1, s2⟩ := spec
  rw [← s2]
  have hlen := lastMatchLoop_length false .f false false (W ++ B) W.length ((W ++ B).length + 1) 0 []
  generalize lastMatchLoop false .f false false (W ++ B) W.length ((W ++ B).length + 1) 0 [] = R at *
  cases R with
  | nil => simp [popScan]
  | cons m st' =>
    simp only [Option.map_some, pmFrag]
    rw [prevDelimsLoop_pop _ st' _ m.s (by simp only [List.length_cons, List.length_nil] at hlen; omega) s1]
    simp [popScan]


/-- the scan reports nothing when the first non-blank character (going left) is not `'('` -/
theorem scanOpenK_stop (e : Nat) (X : Line) (h : (X.dropWhile isSpace).head? ≠ some '(') :
    scanOpenK e X [] = [] := by
  rw [tw_dw isSpace X, scanOpenK_append, scanOpenK_spaces _ _ _ (tw_all isSpace X)]
  cases hr : X.dropWhile isSpace with
  | nil => rfl
  | cons x t =>
    have hx : isSpace x = false := dw_head _ _ _ _ hr
    have : (x == '(') = false := by
      rw [hr] at h
      simpa using h
    simp [scanOpenK, hx, this]

/-- `g` opening parentheses, each followed by its own number of blanks -/
def openRunL (ss : List Nat) : Line := (ss.map (fun s => '(' :: List.replicate s ' ')).flatten

/-- `g` copies of (`'('` followed by `s` blanks) -/
def openRun (g s : Nat) : Line := (List.replicate g ('(' :: List.replicate s ' ')).flatten

theorem openRun_eq (g s : Nat) : openRun g s = openRunL (List.replicate g s) := by
  simp [openRun, openRunL]

/-- the positions of each `'('` of `openRunL ss`, innermost (rightmost) first, when the run starts at column `base` -/
def openPos (base : Nat) : List Nat → List (Nat × Nat)
  | [] => []
  | s :: r => openPos (base + s + 1) r ++ [(0, base)]

theorem openRunL_cons (s : Nat) (r : List Nat) :
    openRunL (s :: r) = '(' :: List.replicate s ' ' ++ openRunL r := by
  simp [openRunL]

theorem openRunL_length (ss : List Nat) : (openRunL ss).length = ss.sum + ss.length := by
  induction ss with
  | nil => rfl
  | cons s r ih => rw [openRunL_cons]; simp [ih]; omega

theorem openRun_length (g s : Nat) : (openRun g s).length = g * (s + 1) := by
  induction g with
  | zero => simp [openRun]
  | succ g ih =>
    have : openRun (g + 1) s = ('(' :: List.replicate s ' ') ++ openRun g s := by
      simp [openRun, List.replicate_succ]
    rw [this, List.length_append, ih, Nat.succ_mul]; simp; omega

theorem openRunL_chars (ss : List Nat) : ∀ x ∈ openRunL ss, isSpace x = true ∨ isCode x = true := by
  induction ss with
  | nil => simp [openRunL]
  | cons s r ih =>
    rw [openRunL_cons]
    intro x hx
    simp only [List.cons_append, List.mem_cons, List.mem_append, List.mem_replicate] at hx
    rcases hx with h | h | h
    · subst h; exact Or.inr isCode_lparen
    · rw [h.2]; exact Or.inl isSpace_space
    · exact ih x h

theorem scanOpenK_openRunL (base : Nat) (ss : List Nat) (k : List (Nat × Nat)) :
    scanOpenK (base + (openRunL ss).length) (openRunL ss).reverse k = openPos base ss ++ k := by
  induction ss generalizing base k with
  | nil => simp [openRunL, openPos, scanOpenK]
  | cons s r ih =>
    rw [openRunL_cons]
    simp only [List.cons_append, List.reverse_cons, List.reverse_append, List.reverse_replicate,
      List.length_cons, List.length_append, List.length_replicate, List.append_assoc]
    rw [scanOpenK_append]
    have e1 : base + (s + (openRunL r).length + 1) = (base + s + 1) + (openRunL r).length := by omega
    rw [e1, ih]
    simp only [List.length_reverse]
    rw [scanOpenK_append, scanOpenK_spaces _ _ _ (by simp [isSpace_space])]
    simp only [List.length_replicate, scanOpenK, isSpace_lparen, Bool.false_eq_true, ↓reduceIte,
      beq_self_eq_true, openPos, List.append_assoc, List.cons_append, List.nil_append]
    congr 3
    omega

theorem openPos_replicate (base g s : Nat) :
    openPos base (List.replicate g s) = (List.range g).map (fun j => (0, base + (g - 1 - j) * (s + 1))) := by
  induction g generalizing base with
  | zero => rfl
  | succ g ih =>
    simp only [List.replicate_succ, openPos, ih, List.range_succ, List.map_append, List.map_cons, List.map_nil]
    congr 1
    · apply List.map_congr_left; intro j hj
      have hj' : j < g := List.mem_range.1 hj
      have e : g + 1 - 1 - j = (g - 1 - j) + 1 := by omega
      simp only [Prod.mk.injEq, true_and]
      rw [e, Nat.succ_mul]; omega
    · simp

/-- **C (general spacing).**  `pre ++ openRunL ss ++ rest`, scan started right after the run, `pre` made of blanks and
code characters only and not ending (before blanks) with another `'('`: the positions of each of the `ss.length`
parentheses, innermost first. -/
theorem prevDelims_openRunL (pre rest : Line) (ss : List Nat)
    (hpre : ∀ x ∈ pre, isSpace x = true ∨ isCode x = true)
    (hpre' : (pre.reverse.dropWhile isSpace).head? ≠ some '(') :
    prevDelims [pre ++ openRunL ss ++ rest] 0 0 0 (pre ++ openRunL ss).length =
      (0, (pre ++ openRunL ss).length) :: openPos pre.length ss := by
  rw [prevDelims_single_line]
  · rw [List.reverse_append, scanOpenK_append, List.length_reverse, List.length_append,
      Nat.add_sub_cancel, scanOpenK_stop _ _ hpre', scanOpenK_openRunL]
    simp
  · intro x hx
    rcases List.mem_append.1 hx with h | h
    · exact hpre x h
    · exact openRunL_chars ss x h

/-- **C.**  `pre ++ openRun g s ++ rest`: the positions OF each `'('`, innermost first.  `pre` may be empty, blanks
only, or any text of blanks and code characters (no `#`, no backslash) whose last non-blank character is not `'('`. -/
theorem prevDelims_openRun (pre rest : Line) (g s : Nat)
    (hpre : ∀ x ∈ pre, isSpace x = true ∨ isCode x = true)
    (hpre' : (pre.reverse.dropWhile isSpace).head? ≠ some '(') :
    prevDelims [pre ++ openRun g s ++ rest] 0 0 0 (pre ++ openRun g s).length =
      (0, (pre ++ openRun g s).length) ::
        (List.range g).map (fun j => (0, pre.length + (g - 1 - j) * (s + 1))) := by
  rw [openRun_eq, prevDelims_openRunL _ _ _ hpre hpre', openPos_replicate]


/-! ## D. the layout family -/

private theorem pairAt_cons_map_range (a : Nat × Nat) (f : Nat → Nat × Nat) (g n : Nat) (h : n < g) :
    pairAt (a :: (List.range g).map f) (n + 1) = f n := by
  simp [pairAt, h]

/-- **D (unbalanced form = `pars_min` on the family).**  `g1` opening parentheses (spacing `s1`) before the node and
`g2` closing ones (spacing `s2`) after it, nothing parenthesis-like adjacent outside: exactly `min g1 g2` pairs are
reported and the span is that of the `min g1 g2`-th pair counted from the node. -/
theorem pars_layout_unbalanced (pre node post : Line) (g1 s1 g2 s2 : Nat)
    (hpre : ∀ x ∈ pre, isSpace x = true ∨ isCode x = true)
    (hpre' : (pre.reverse.dropWhile isSpace).head? ≠ some '(')
    (hpost : (post.dropWhile isSpace).head? ≠ some ')') :
    parsModel [pre ++ openRun g1 s1 ++ node ++ closeRun g2 s2 ++ post]
        ⟨⟨0, (pre ++ openRun g1 s1).length, 0, (pre ++ openRun g1 s1 ++ node).length⟩,
         (0, (pre ++ openRun g1 s1 ++ node ++ closeRun g2 s2 ++ post).length), (0, 0), .t, true, false, false⟩ =
      (if min g1 g2 = 0 then ⟨0, (pre ++ openRun g1 s1).length, 0, (pre ++ openRun g1 s1 ++ node).length⟩
       else ⟨0, pre.length + (g1 - min g1 g2) * (s1 + 1),
             0, (pre ++ openRun g1 s1 ++ node).length + min g1 g2 * (s2 + 1)⟩,
       ((min g1 g2 : Nat) : Int)) := by
  have hr := nextDelims_closeRun (pre ++ openRun g1 s1 ++ node) post g2 s2 hpost
  have hl := prevDelims_openRun pre (node ++ closeRun g2 s2 ++ post) g1 s1 hpre hpre'
  have hl1 : pre ++ openRun g1 s1 ++ (node ++ closeRun g2 s2 ++ post) =
      pre ++ openRun g1 s1 ++ node ++ closeRun g2 s2 ++ post := by simp [List.append_assoc]
  rw [hl1] at hl
  have hm := pars_min [pre ++ openRun g1 s1 ++ node ++ closeRun g2 s2 ++ post]
    ⟨⟨0, (pre ++ openRun g1 s1).length, 0, (pre ++ openRun g1 s1 ++ node).length⟩,
     (0, (pre ++ openRun g1 s1 ++ node ++ closeRun g2 s2 ++ post).length), (0, 0), .t, true, false, false⟩
    rfl (Or.inl rfl) (Or.inr rfl)
  dsimp only at hm
  rw [hm, hr, hl]
  have hn : min ((0, (pre ++ openRun g1 s1).length) ::
        (List.range g1).map (fun j => (0, pre.length + (g1 - 1 - j) * (s1 + 1)))).length
      ((0, (pre ++ openRun g1 s1 ++ node).length) ::
        (List.range g2).map (fun j => (0, (pre ++ openRun g1 s1 ++ node).length + (j + 1) * (s2 + 1)))).length - 1
      = min g1 g2 := by
    simp only [List.length_cons, List.length_map, List.length_range]; omega
  rw [hn]
  by_cases h0 : min g1 g2 = 0
  · simp [h0]
  · obtain ⟨n, hn'⟩ : ∃ n, min g1 g2 = n + 1 := ⟨min g1 g2 - 1, by omega⟩
    rw [hn']
    rw [pairAt_cons_map_range _ _ _ _ (by omega), pairAt_cons_map_range _ _ _ _ (by omega)]
    have e : g1 - 1 - n = g1 - (n + 1) := by omega
    simp [e]

/-- **D (headline).**  The node wrapped in exactly `g` balanced pairs of grouping parentheses (uniform spacing `s`),
in a non-parenthesis context: `pars()` reports exactly `g` pairs and the span of the outermost pair. -/
theorem pars_layout (pre node post : Line) (g s : Nat)
    (hpre : ∀ x ∈ pre, isSpace x = true ∨ isCode x = true)
    (hpre' : (pre.reverse.dropWhile isSpace).head? ≠ some '(')
    (hpost : (post.dropWhile isSpace).head? ≠ some ')') :
    parsModel [pre ++ openRun g s ++ node ++ closeRun g s ++ post]
        ⟨⟨0, (pre ++ openRun g s).length, 0, (pre ++ openRun g s ++ node).length⟩,
         (0, (pre ++ openRun g s ++ node ++ closeRun g s ++ post).length), (0, 0), .t, true, false, false⟩ =
      (if g = 0 then ⟨0, (pre ++ openRun g s).length, 0, (pre ++ openRun g s ++ node).length⟩
       else ⟨0, pre.length, 0, (pre ++ openRun g s ++ node ++ closeRun g s).length⟩,
       (g : Int)) := by
  rw [pars_layout_unbalanced pre node post g s g s hpre hpre' hpost]
  simp only [Nat.min_self, Nat.sub_self, Nat.zero_mul, Nat.add_zero]
  rw [List.length_append (as := pre ++ openRun g s ++ node) (bs := closeRun g s), closeRun_length]


/-- `pre` = indentation only -/
theorem pars_layout_indent (pre node post : Line) (g s : Nat)
    (hpre : ∀ x ∈ pre, isSpace x = true)
    (hpost : (post.dropWhile isSpace).head? ≠ some ')') :
    parsModel [pre ++ openRun g s ++ node ++ closeRun g s ++ post]
        ⟨⟨0, (pre ++ openRun g s).length, 0, (pre ++ openRun g s ++ node).length⟩,
         (0, (pre ++ openRun g s ++ node ++ closeRun g s ++ post).length), (0, 0), .t, true, false, false⟩ =
      (if g = 0 then ⟨0, (pre ++ openRun g s).length, 0, (pre ++ openRun g s ++ node).length⟩
       else ⟨0, pre.length, 0, (pre ++ openRun g s ++ node ++ closeRun g s).length⟩,
       (g : Int)) := by
  apply pars_layout pre node post g s (fun x hx => Or.inl (hpre x hx)) _ hpost
  have : pre.reverse.dropWhile isSpace = [] := by
    have := dw_append_stop isSpace pre.reverse [] (fun c hc => hpre c (by simpa using hc)) (by simp)
    simpa using this
  simp [this]

/-! ## non-vacuity: the model evaluated on concrete lines, and the family theorems instantiated -/

example : parsModel ["x = ((a))".toList] ⟨⟨0, 6, 0, 7⟩, (0, 9), (0, 0), .t, true, false, false⟩
    = (⟨0, 4, 0, 9⟩, 2) := by decide

/-- spaces inside, code glued directly after the closing run -/
example : parsModel ["f(( (a) ), b)".toList] ⟨⟨0, 5, 0, 6⟩, (0, 13), (0, 0), .t, true, false, false⟩
    = (⟨0, 2, 0, 9⟩, 2) := by decide

/-- unbalanced: two opening, one closing parenthesis around `a` in `((a) + b)` -/
example : parsModel ["((a) + b)".toList] ⟨⟨0, 2, 0, 3⟩, (0, 9), (0, 0), .t, true, false, false⟩
    = (⟨0, 1, 0, 4⟩, 1) := by decide

/-- several lines, a line continuation and comments between the parentheses -/
example : parsModel
    ["x = ( \\".toList, "  ( # comment".toList, "a".toList, ") # c2".toList, " )".toList]
    ⟨⟨2, 0, 2, 1⟩, (4, 2), (0, 0), .t, true, false, false⟩ = (⟨0, 4, 4, 2⟩, 2) := by decide

/-- the sole argument of a call shares the call's parentheses: asked as a plain node both pairs are counted ... -/
example : parsModel ["f((a))".toList] ⟨⟨0, 3, 0, 4⟩, (0, 6), (0, 0), .t, true, false, false⟩
    = (⟨0, 1, 0, 6⟩, 2) := by decide

/-- ... with `soloShared` the call's own pair is left out -/
example : parsModel ["f((a))".toList] ⟨⟨0, 3, 0, 4⟩, (0, 6), (0, 0), .t, true, false, true⟩
    = (⟨0, 2, 0, 5⟩, 1) := by decide

/-- the unparenthesized solo generator-expression argument asked with `shared=False` -/
example : parsModel ["f(i for i in j)".toList] ⟨⟨0, 1, 0, 15⟩, (0, 15), (0, 1), .f, true, true, true⟩
    = (⟨0, 2, 0, 14⟩, -1) := by decide

/-- the hypotheses of `pars_layout` are satisfiable: `x = ((a))` is `pre ++ openRun 2 0 ++ node ++ closeRun 2 0` -/
example :=
  pars_layout "x = ".toList "a".toList [] 2 0 (by decide) (by decide) (by decide)

/-- `y = ( ( ( a+b ) ) ), z` -/
example :=
  pars_layout "y = ".toList "a+b".toList ", z".toList 3 1 (by decide) (by decide) (by decide)

example : "x = ".toList ++ openRun 2 0 ++ "a".toList ++ closeRun 2 0 ++ [] = "x = ((a))".toList := by decide

example : "y = ".toList ++ openRun 3 1 ++ "a+b".toList ++ closeRun 3 1 ++ ", z".toList
    = "y = ( ( ( a+b ) ) ), z".toList := by decide

end Pfst.Scan
