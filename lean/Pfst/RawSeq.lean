import Pfst.Raw
import Pfst.Modifying
/-
Histories of raw edits: the entry point `FST.put_src(action='reparse')` (src/fst/fst.py) — and likewise the raw branch of
`_put_one` (src/fst/fst_put_one.py), already modelled as `Modifying.putRun` — runs the raw reparse inside
`with parent._modifying(False, True):`, i.e. `enter()` on the containing node, `_reparse_raw` (`runRaw`: incremental attempt, guard, whole-source fallback), then `__exit__`
(`success()` without exception, `fail()` with one).  This file composes the order-of-effects machine of
`Pfst/Raw.lean` with the registry model of `Pfst/Modifying.lean` (C12) and runs sequences of edits on one world
(lines + tree + the process-global registry).  No imports except import-free model files.
-/
namespace Pfst.Raw
open Pfst.Modifying

/-- Everything a raw edit can touch: the tree state and the global registry `_MODIFYING`. -/
structure World (T : Type) where
  st : St T
  reg : Reg

/-- One request: the node the modification is entered on (`parent = root.find_contains_loc(...) or root`), how the
wrapper copy is built from the current lines (`plan`), the new text and the rectangle. -/
structure Edit where
  node : NodeRef
  copyOf : Lines → Lines
  new : Lines
  rect : Rect

/-- `with parent._modifying(False, True): return parent._reparse_raw(code, ln, col, end_ln, end_col)` -/
def rawPut {T W : Type} (parse : Lines → Option W) (guard : W → Bool) (fix : T → W → T) (parseFull : Lines → Option T)
    (w : World T) (e : Edit) : World T × Option Exc :=
  match enter e.node true false w.reg with
  | .error x => (w, some x)                                   -- `__enter__` raised: body not run
  | .ok reg1 =>
    let m := runRaw parse guard fix parseFull w.st (e.copyOf w.st.lines) e.new e.rect
    let exc := if m.raised then some (Exc.user true) else none
    match exit_ e.node.root exc reg1 with                      -- `__exit__`: success() or fail()
    | .ok reg2 => (⟨m.self, reg2⟩, exc)
    | .error x => (⟨m.self, reg1⟩, some x)

/-- A history of requests on the same world, refused ones included; the outcome of every step is recorded. -/
def runSeq {T W : Type} (parse : Lines → Option W) (guard : W → Bool) (fix : T → W → T) (parseFull : Lines → Option T) :
    World T → List Edit → World T × List (Option Exc)
  | w, [] => (w, [])
  | w, e :: es =>
    let a := rawPut parse guard fix parseFull w e
    let b := runSeq parse guard fix parseFull a.1 es
    (b.1, a.2 :: b.2)

/-- NOT the code: the manual protocol `m = enter(); r = _reparse_raw(); m.success(); return r` without `fail()` on the
exception path (a refactoring that looks equivalent on every single call). -/
def rawPutLeaky {T W : Type} (parse : Lines → Option W) (guard : W → Bool) (fix : T → W → T)
    (parseFull : Lines → Option T) (w : World T) (e : Edit) : World T × Option Exc :=
  match enter e.node true false w.reg with
  | .error x => (w, some x)
  | .ok reg1 =>
    let m := runRaw parse guard fix parseFull w.st (e.copyOf w.st.lines) e.new e.rect
    if m.raised then (⟨m.self, reg1⟩, some (Exc.user true))   -- exception propagates, nobody releases the entry
    else
      match success e.node.root reg1 with
      | .ok reg2 => (⟨m.self, reg2⟩, none)
      | .error x => (⟨m.self, reg1⟩, some x)

def runSeqLeaky {T W : Type} (parse : Lines → Option W) (guard : W → Bool) (fix : T → W → T)
    (parseFull : Lines → Option T) : World T → List Edit → World T × List (Option Exc)
  | w, [] => (w, [])
  | w, e :: es =>
    let a := rawPutLeaky parse guard fix parseFull w e
    let b := runSeqLeaky parse guard fix parseFull a.1 es
    (b.1, a.2 :: b.2)

end Pfst.Raw
