/-
Model of `fst_core._offset` / `_params_offset` (src/fst/fst_core.py).

Positions are CPython AST positions: 1-based line numbers, byte column offsets.  The model mirrors the control structure
of the code that exists: the stack walk pops the *last* child first and has two early `break`s (discarding the rest of
the current sibling stack) and one `continue` (not descending below a node that starts on a later line when dln = 0).
No imports: this file is linked into the native driver.
-/
namespace Pfst.Offset

structure Pos where
  lno  : Int
  col  : Int
  elno : Int
  ecol : Int
deriving DecidableEq, Repr, Inhabited

/-- Python's `False | True | None` for the `tail` / `head` parameters. -/
inductive Tri where
  | f | t | n
deriving DecidableEq, Repr, Inhabited

structure Params where
  lno  : Int          -- `lno = ln + 1`
  colo : Int          -- byte column of the offset point
  dln  : Int
  dcol : Int
  tail : Tri
  head : Tri
  exclude : Option Nat := none   -- id of the excluded node
  offsetExcluded : Bool := true
deriving Repr, Inhabited

def Params.fwd (π : Params) : Bool := decide (π.dln > 0) || (π.dln == 0 && decide (π.dcol ≥ 0))

def Pos.zero (p : Pos) : Bool := p.col == p.ecol && p.lno == p.elno

/-- The node ends strictly before the offset point (the two `break` conditions). -/
def endsBefore (π : Params) (p : Pos) : Bool :=
  decide (p.elno < π.lno) || (p.elno == π.lno && decide (p.ecol < π.colo))

/-- Does the end position move?  (`fend_colo > colo or (tail and ...) or (tail is None and head and fwd and zero)`) -/
def endMoves (π : Params) (p : Pos) : Bool :=
  if p.elno < π.lno then false
  else if p.elno > π.lno then true           -- only the line changes, see `offsetPos`
  else if p.ecol < π.colo then false
  else decide (p.ecol > π.colo)
    || (π.tail == .t && (π.fwd || π.head != .f || !p.zero))
    || (π.tail == .n && π.head == .t && π.fwd && p.zero)

def startMoves (π : Params) (p : Pos) : Bool :=
  if p.lno > π.lno then true                  -- only the line changes
  else if p.lno == π.lno then
    decide (p.col > π.colo)
    || (p.col == π.colo
        && ((π.head == .t && (!π.fwd || π.tail != .f || !p.zero))
            || (π.head == .n && π.tail == .t && !π.fwd && p.zero)))
  else false

/-- New position of one node (the body of the inner loop of `_offset`, without the traversal decisions). -/
def offsetPos (π : Params) (p : Pos) : Pos :=
  let (elno', ecol') :=
    if endMoves π p then
      (p.elno + π.dln, if p.elno > π.lno then p.ecol else p.ecol + π.dcol)
    else (p.elno, p.ecol)
  let (lno', col') :=
    if startMoves π p then
      (p.lno + π.dln, if p.lno > π.lno then p.col else p.col + π.dcol)
    else (p.lno, p.col)
  { lno := lno', col := col', elno := elno', ecol := ecol' }

/-- AST node as `_offset` sees it: an id, an optional position, the line of the first decorator (if any), and the
syntax-ordered children. -/
inductive Node where
  | mk (id : Nat) (pos : Option Pos) (deco : Option Int) (kids : List Node)
deriving Repr, Inhabited

def Node.id : Node → Nat | .mk i _ _ _ => i
def Node.pos : Node → Option Pos | .mk _ p _ _ => p
def Node.deco : Node → Option Int | .mk _ _ d _ => d
def Node.kids : Node → List Node | .mk _ _ _ k => k

/-- `not dln and (not decos or decos[0].lineno > lno)` under `flno > lno`: do not descend. -/
def skipKids (π : Params) (p : Pos) (deco : Option Int) : Bool :=
  decide (p.lno > π.lno) && π.dln == 0 && (match deco with | none => true | some d => decide (d > π.lno))

mutual
/-- One popped node.  The Boolean is `true` when the node triggered a `break`. -/
def goNode (π : Params) : Node → Node × Bool
  | .mk i pos deco kids =>
    if π.exclude == some i && !π.offsetExcluded then (.mk i pos deco kids, false)   -- `continue`
    else
      let recurse := !(π.exclude == some i)
      match pos with
      | none => (.mk i none deco (if recurse then (goList π kids).1 else kids), false)
      | some p =>
        if endsBefore π p then (.mk i (some p) deco kids, true)                      -- `break`
        else
          let p' := offsetPos π p
          if skipKids π p deco then (.mk i (some p') deco kids, false)              -- `continue`
          else (.mk i (some p') deco (if recurse then (goList π kids).1 else kids), false)
/-- A sibling stack: the last element is popped first; a `break` leaves everything before it untouched. -/
def goList (π : Params) : List Node → List Node × Bool
  | [] => ([], false)
  | n :: rest =>
    let r := goList π rest
    if r.2 then (n :: r.1, true)
    else
      let m := goNode π n
      (m.1 :: r.1, m.2)
end

/-- `_offset(self_=True)` on a (sub)tree. -/
def offsetTree (π : Params) (t : Node) : Node := (goNode π t).1

/-- `_offset(self_=False)`: start from the children stack. -/
def offsetKids (π : Params) : Node → Node
  | .mk i pos deco kids => if π.exclude == some i then .mk i pos deco kids else .mk i pos deco (goList π kids).1

mutual
/-- Reference: apply `offsetPos` to every node (what the code would do with `continue` instead of `break`). -/
def naiveNode (π : Params) : Node → Node
  | .mk i pos deco kids =>
    if π.exclude == some i && !π.offsetExcluded then .mk i pos deco kids
    else
      let recurse := !(π.exclude == some i)
      .mk i (pos.map (offsetPos π)) deco (if recurse then naiveList π kids else kids)
def naiveList (π : Params) : List Node → List Node
  | [] => []
  | n :: rest => naiveNode π n :: naiveList π rest
end

mutual
/-- Preorder list of (id, position): what the correspondence compares. -/
def flatten : Node → List (Nat × Option Pos)
  | .mk i pos _ kids => (i, pos) :: flattenList kids
def flattenList : List Node → List (Nat × Option Pos)
  | [] => []
  | n :: rest => flatten n ++ flattenList rest
end

/-- `_params_offset` on byte lengths (the caller supplies the three byte lengths the code computes with `.encode()`):
`endPrefixBytes = len(lines[end_ln][:end_col].encode())`, `putLastBytes = len(put_lines[-1].encode())`,
`startPrefixBytes = len(lines[ln][:col].encode())`. -/
def paramsOffset (nPut ln endLn : Int) (endPrefixBytes putLastBytes startPrefixBytes : Int) : Int × Int × Int × Int :=
  let dfst := nPut - 1
  let dln := dfst - (endLn - ln)
  let colOffset := -endPrefixBytes
  let dcol := putLastBytes + colOffset + (if dfst == 0 then startPrefixBytes else 0)
  (endLn, colOffset, dln, dcol)

mutual
/-- apply `f` at the node with id `i` (ids are unique preorder numbers in the harness) -/
def atId (i : Nat) (f : Node → Node) : Node → Node
  | .mk j p d ks => if j == i then f (.mk j p d ks) else .mk j p d (atIdList i f ks)
def atIdList (i : Nat) (f : Node → Node) : List Node → List Node
  | [] => []
  | n :: rest => atId i f n :: atIdList i f rest
end

/-- The tree part of `put_src(..., action='offset')` called on node `selfId` (fst.py):
`root._offset(*params, tail=True, head=False, exclude=self)` then `self._offset(*params, False, True, self_=False)`.
`po` is the result of `paramsOffset` (column as a negated byte offset, as the code passes it). -/
def putSrcOffset (selfId : Nat) (po : Int × Int × Int × Int) (t : Node) : Node :=
  let π1 : Params := { lno := po.1 + 1, colo := -po.2.1, dln := po.2.2.1, dcol := po.2.2.2, tail := .t, head := .f,
                       exclude := some selfId, offsetExcluded := true }
  let π2 : Params := { π1 with tail := .f, head := .t, exclude := none }
  atId selfId (offsetKids π2) (offsetTree π1 t)

end Pfst.Offset
