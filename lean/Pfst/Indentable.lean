import Pfst.Quote
/-
Model of the "indentable lines" decision of pfst (no imports except the import-free `Pfst/Quote.lean`).

* `indentable`   — `fst_core._get_indentable_lns`: every line of a node may be re-indented except the continuation lines
  of a multi-line string token (`_multiline_str_continuation_lns`: the lines after the first line of each STRING token or
  of a whole f/t-string), unless the string is a docstring: a `str` `Constant` that is the value of an `Expr` statement
  (`docstr=True`), and with `docstr='strict'` only the first statement of a def / class / module.  A `bytes` literal and a
  string inside any other expression are never docstrings.
* `indentBlock` / `dedentBlock` — what `_indent_lns` / `_dedent_lns` do to the text of the indentable non-empty lines
  (`dedentLine` is the rule shared with `get_docstr`, `Pfst.Quote.dedentLine`).

The harness computes the list of multi-line string tokens with CPython (`tokenize` for the token lines, `ast` for the kind).
-/
namespace Pfst.Indentable
open Pfst.Quote

/-- what a multi-line string token belongs to -/
inductive StrKind where
  | docFirst    -- `str` Constant that is the value of the `Expr` at body[0] of a def / class / module
  | docOther    -- `str` Constant that is the value of an `Expr` statement anywhere else
  | bytesExpr   -- `bytes` Constant that is the value of an `Expr` statement
  | other       -- string inside any other expression, f-string, t-string
deriving DecidableEq, Repr

/-- the `docstr` option: `False`, `True`, `'strict'` -/
inductive DocMode where
  | off | all | strict
deriving DecidableEq, Repr

/-- a multi-line string token: its kind, the line it starts on and the line it ends on -/
structure MStr where
  kind  : StrKind
  first : Nat
  last  : Nat
deriving Repr

/-- the test inside `_get_indentable_lns` that lets the lines of a `Constant` be re-indented -/
def isDoc : DocMode → StrKind → Bool
  | .all, .docFirst => true
  | .all, .docOther => true
  | .strict, .docFirst => true
  | _, _ => false

/-- `ln` is a continuation line of the token (its first character follows a newline inside the literal) -/
def contLine (s : MStr) (ln : Nat) : Bool := decide (s.first < ln) && decide (ln ≤ s.last)

/-- line `ln` is protected by some non-docstring token -/
def protectedLn (m : DocMode) (strs : List MStr) (ln : Nat) : Bool :=
  strs.any (fun s => !isDoc m s.kind && contLine s ln)

/-- `ln ∈ _get_indentable_lns(...)` for a line inside the node -/
def indentable (m : DocMode) (strs : List MStr) (ln : Nat) : Bool := !protectedLn m strs ln

/-- `_get_indentable_lns(skip, docstr=m)` of a node whose block spans lines `lo..hi`: the line numbers, ascending -/
def indentableLns (m : DocMode) (strs : List MStr) (lo skip hi : Nat) : List Nat :=
  ((List.range (hi + 1 - (lo + skip))).map (· + (lo + skip))).filter (indentable m strs)

/-- `_indent_lns` on the text: `lines` are the lines numbered `lo, lo+1, ...`; only indentable non-empty lines change -/
def indentBlock (ind : List Char) (m : DocMode) (strs : List MStr) : Nat → List (List Char) → List (List Char)
  | _, [] => []
  | ln, l :: ls =>
    (if indentable m strs ln && !l.isEmpty then ind ++ l else l) :: indentBlock ind m strs (ln + 1) ls

/-- `_dedent_lns` on the text -/
def dedentBlock (ind : List Char) (m : DocMode) (strs : List MStr) : Nat → List (List Char) → List (List Char)
  | _, [] => []
  | ln, l :: ls =>
    (if indentable m strs ln && !l.isEmpty then dedentLine ind l else l) :: dedentBlock ind m strs (ln + 1) ls

end Pfst.Indentable
