import Pfst.Edit
/-! Lemmas for the one-dimensional replacement model. -/
namespace Pfst.Edit

variable {α : Type}

theorem shiftPt_mono (ed : Ed α) {p q : Nat} (_hp : ed.e ≤ p) (h : p ≤ q) : shiftPt ed p ≤ shiftPt ed q := by
  unfold shiftPt; omega

theorem shiftPt_ge (ed : Ed α) {p : Nat} (hp : ed.e ≤ p) : ed.s + ed.new.length ≤ shiftPt ed p := by
  unfold shiftPt; omega

/-! ### text -/

theorem textAt_before (t : List α) (ed : Ed α) (sp : Span) (h1 : sp.e ≤ ed.s) (h2 : ed.s ≤ t.length) :
    textAt (applyText t ed) sp = textAt t sp := by
  unfold textAt applyText
  by_cases hs : sp.s ≤ sp.e
  · -- both sides are `extract sp.s sp.e` of a list whose first `ed.s` elements agree
    have e1 : ∀ (l : List α), (l.drop sp.s).take (sp.e - sp.s) = ((l.take sp.e).drop sp.s) := by
      intro l; rw [List.drop_take]
    rw [e1, e1]
    congr 1
    rw [List.append_assoc, List.take_append_of_le_length (by simp; omega)]
    rw [List.take_take]; congr 1; omega
  · have : sp.e - sp.s = 0 := by omega
    simp [this]

theorem textAt_new (t : List α) (ed : Ed α) (h2 : ed.s ≤ t.length) :
    textAt (applyText t ed) ⟨ed.s, ed.s + ed.new.length⟩ = ed.new := by
  simp only [textAt, applyText]
  have hl : (t.take ed.s).length = ed.s := by simp; omega
  have e : t.take ed.s ++ ed.new ++ t.drop ed.e = t.take ed.s ++ (ed.new ++ t.drop ed.e) := by simp
  rw [e, List.drop_left' hl]
  have : ed.s + ed.new.length - ed.s = ed.new.length := by omega
  rw [this, List.take_left']
  rfl

theorem textAt_after (t : List α) (ed : Ed α) (sp : Span) (h1 : ed.e ≤ sp.s) (h0 : ed.s ≤ ed.e) (h2 : ed.e ≤ t.length) :
    textAt (applyText t ed) (shiftSpan ed sp) = textAt t sp := by
  simp only [textAt, applyText, shiftSpan, shiftPt]
  have hcnt : sp.e - ed.e + (ed.s + ed.new.length) - (sp.s - ed.e + (ed.s + ed.new.length)) = sp.e - sp.s := by omega
  rw [hcnt]
  have hl : (t.take ed.s ++ ed.new).length = ed.s + ed.new.length := by simp; omega
  have hd : sp.s - ed.e + (ed.s + ed.new.length) = (t.take ed.s ++ ed.new).length + (sp.s - ed.e) := by omega
  rw [hd, List.drop_length_add_append, List.drop_drop]
  have h3 : ed.e + (sp.s - ed.e) = sp.s := by omega
  have h4 : sp.s - ed.e + ed.e = sp.s := by omega
  first
    | rw [h3]
    | rw [h4]

/-! ### trees -/

mutual
theorem placeT_wf (o : Nat) : ∀ t : T, wfT t = true → wfT (placeT o t) = true
  | .mk i sp kids, h => by
    simp only [wfT, Bool.and_eq_true, decide_eq_true_eq] at h
    simp only [placeT, wfT, Bool.and_eq_true, decide_eq_true_eq]
    exact ⟨by omega, placeL_wf o sp.s sp.e kids h.2⟩
theorem placeL_wf (o : Nat) : ∀ (lo hi : Nat) (l : List T), wfL lo hi l = true → wfL (lo + o) (hi + o) (placeL o l) = true
  | lo, hi, [], h => by
    simp only [wfL, decide_eq_true_eq] at h
    simp only [placeL, wfL, decide_eq_true_eq]; omega
  | lo, hi, .mk i sp kids :: r, h => by
    simp only [wfL, Bool.and_eq_true, decide_eq_true_eq] at h
    have h2 := placeT_wf o (.mk i sp kids) h.1.2
    have h3 := placeL_wf o sp.e hi r h.2
    simp only [placeT] at h2
    simp only [placeL, placeT, wfL, Bool.and_eq_true, decide_eq_true_eq]
    exact ⟨⟨by omega, h2⟩, h3⟩
end

mutual
theorem shiftT_wf (ed : Ed α) : ∀ t : T, wfT t = true → ed.e ≤ t.sp.s → wfT (shiftT ed t) = true
  | .mk i sp kids, h, hs => by
    simp only [wfT, Bool.and_eq_true, decide_eq_true_eq] at h
    simp only [T.sp] at hs
    simp only [shiftT, wfT, shiftSpan, Bool.and_eq_true, decide_eq_true_eq]
    exact ⟨shiftPt_mono ed hs h.1, shiftL_wf ed sp.s sp.e kids h.2 hs⟩
theorem shiftL_wf (ed : Ed α) : ∀ (lo hi : Nat) (l : List T), wfL lo hi l = true → ed.e ≤ lo →
    wfL (shiftPt ed lo) (shiftPt ed hi) (shiftL ed l) = true
  | lo, hi, [], h, hl => by
    simp only [wfL, decide_eq_true_eq] at h
    simp only [shiftL, wfL, decide_eq_true_eq]
    exact shiftPt_mono ed hl h
  | lo, hi, .mk i sp kids :: r, h, hl => by
    simp only [wfL, Bool.and_eq_true, decide_eq_true_eq] at h
    obtain ⟨⟨h1, h2⟩, h3⟩ := h
    have hk : sp.s ≤ sp.e := by
      simp only [wfT, Bool.and_eq_true, decide_eq_true_eq] at h2; exact h2.1
    have a2 := shiftT_wf ed (.mk i sp kids) h2 (by simp only [T.sp]; omega)
    have a3 := shiftL_wf ed sp.e hi r h3 (by omega)
    simp only [shiftT, shiftSpan] at a2
    simp only [shiftL, shiftT, shiftSpan, wfL, Bool.and_eq_true, decide_eq_true_eq]
    exact ⟨⟨shiftPt_mono ed hl h1, a2⟩, a3⟩
end

theorem pathOk_contains (ed : Ed α) (h0 : ed.s ≤ ed.e) : ∀ (path : List Nat) (t : T), pathOk ed path t = true →
    t.sp.s ≤ ed.s ∧ ed.e ≤ t.sp.e
  | [], .mk _ sp _, h => by
    simp only [pathOk, Bool.and_eq_true, beq_iff_eq] at h
    simp only [T.sp]; omega
  | i :: rest, .mk _ sp kids, h => by
    simp only [pathOk, Bool.and_eq_true, decide_eq_true_eq] at h
    simp only [T.sp]; omega

mutual
/-- the replaced tree is well formed and its root span is (old start, shifted old end) -/
theorem replaceAt_wf (ed : Ed α) (sub : T) (hsub : wfT sub = true) (hsp : sub.sp = ⟨0, ed.new.length⟩) (h0 : ed.s ≤ ed.e) :
    ∀ (path : List Nat) (t : T), wfT t = true → pathOk ed path t = true →
      wfT (replaceAt ed sub path t) = true ∧ (replaceAt ed sub path t).sp = ⟨t.sp.s, shiftPt ed t.sp.e⟩
  | [], .mk i sp kids, _, hp => by
    simp only [pathOk, Bool.and_eq_true, beq_iff_eq] at hp
    obtain ⟨j, ssp, skids⟩ := sub
    simp only [T.sp] at hsp
    subst hsp
    refine ⟨by simpa [replaceAt] using placeT_wf ed.s _ hsub, ?_⟩
    simp only [replaceAt, placeT, T.sp, shiftPt, Span.mk.injEq]
    omega
  | n :: rest, .mk i sp kids, hw, hp => by
    simp only [wfT, Bool.and_eq_true, decide_eq_true_eq] at hw
    simp only [pathOk, Bool.and_eq_true, decide_eq_true_eq] at hp
    obtain ⟨⟨hp1, hp2⟩, hp3⟩ := hp
    have hk := replaceKids_wf ed sub hsub hsp h0 n rest sp.s sp.e kids hw.2 hp3
    simp only [replaceAt, wfT, growSpan, T.sp, Bool.and_eq_true, decide_eq_true_eq, and_true]
    refine ⟨?_, hk⟩
    have := shiftPt_ge ed hp2
    omega
theorem replaceKids_wf (ed : Ed α) (sub : T) (hsub : wfT sub = true) (hsp : sub.sp = ⟨0, ed.new.length⟩) (h0 : ed.s ≤ ed.e) :
    ∀ (n : Nat) (rest : List Nat) (lo hi : Nat) (kids : List T), wfL lo hi kids = true → pathOkKids ed n rest kids = true →
      wfL lo (shiftPt ed hi) (replaceKids ed sub n rest kids) = true
  | _, _, _, _, [], _, hp => by simp [pathOkKids] at hp
  | 0, rest, lo, hi, .mk i sp kids :: r, hw, hp => by
    simp only [pathOkKids] at hp
    have hc := pathOk_contains ed h0 rest (.mk i sp kids) hp
    simp only [T.sp] at hc
    simp only [wfL, Bool.and_eq_true, decide_eq_true_eq] at hw
    obtain ⟨⟨hw1, hw2⟩, hw3⟩ := hw
    obtain ⟨h1, h2⟩ := replaceAt_wf ed sub hsub hsp h0 rest (.mk i sp kids) hw2 hp
    simp only [T.sp] at h2
    have hs := shiftL_wf ed sp.e hi r hw3 hc.2
    -- the replaced child, whatever it is, has the span recorded in h2
    generalize hq : replaceAt ed sub rest (.mk i sp kids) = q at h1 h2
    obtain ⟨qi, qsp, qk⟩ := q
    simp only [T.sp] at h2
    subst h2
    simp only [replaceKids, hq, wfL, Bool.and_eq_true, decide_eq_true_eq]
    exact ⟨⟨hw1, h1⟩, hs⟩
  | n + 1, rest, lo, hi, .mk i sp kids :: r, hw, hp => by
    simp only [pathOkKids] at hp
    simp only [wfL, Bool.and_eq_true, decide_eq_true_eq] at hw
    simp only [replaceKids, wfL, Bool.and_eq_true, decide_eq_true_eq]
    exact ⟨hw.1, replaceKids_wf ed sub hsub hsp h0 n rest sp.e hi r hw.2 hp⟩
end

end Pfst.Edit
