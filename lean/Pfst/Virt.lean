/-
Model of the virtual combined fields (src/fst/view.py `FSTView_Dict`, `FSTView_MatchMapping`, `FSTView_Compare`,
`FSTView_arguments`, `FSTView__body`, `FSTView_arglikes`, `FSTView_pattern_attrlikes`; src/fst/fst_misc.py
`_cached_allargs`, `_cached_arglikes`; src/fst/astutil.py `merge_arglikes`): which real-field positions element `i` of
the virtual field stands for, and the length of the virtual field.

Elements are abstract (`α`); real fields are plain lists / options.  No imports.
-/
namespace Pfst.Virt

/-! ### Dict._all : element i = (keys[i], values[i]) ; length = len(keys) -/

def dictLen {κ} (keys : List κ) : Nat := keys.length
def dictAll {κ ν} (keys : List κ) (values : List ν) : List (κ × ν) := keys.zip values
def dictOfAll {κ ν} (all : List (κ × ν)) : List κ × List ν := all.unzip

/-! ### MatchMapping._all : element i < len(keys) = (keys[i], patterns[i]); a last element for `rest` if present -/

inductive MMItem (κ ν ρ : Type) where
  | kv (k : κ) (p : ν)
  | rest (r : ρ)
deriving DecidableEq, Repr

def mmLen {κ ρ} (keys : List κ) (rest : Option ρ) : Nat := keys.length + (if rest.isSome then 1 else 0)
def mmAll {κ ν ρ} (keys : List κ) (pats : List ν) (rest : Option ρ) : List (MMItem κ ν ρ) :=
  (keys.zip pats).map (fun (k, p) => .kv k p) ++ (match rest with | none => [] | some r => [.rest r])

/-- inverse: split a well-formed `_all` list (at most one `rest`, and only last) back into the real fields -/
def mmOfAll {κ ν ρ} : List (MMItem κ ν ρ) → List κ × List ν × Option ρ
  | [] => ([], [], none)
  | .kv k p :: t => let (ks, ps, r) := mmOfAll t; (k :: ks, p :: ps, r)
  | .rest r :: _ => ([], [], some r)

/-! ### Compare._all : element 0 = left, element i = comparators[i-1]; length = 1 + len(comparators) -/

def cmpLen {α} (comparators : List α) : Nat := 1 + comparators.length
/-- `FSTView_Compare._getitem(idx)` : `comparators[idx - 1] if idx else left` -/
def cmpGet {α} (left : α) (comparators : List α) (idx : Nat) : Option α :=
  if idx = 0 then some left else comparators[idx - 1]?
def cmpAll {α} (left : α) (comparators : List α) : List α := left :: comparators
def cmpOfAll {α} : List α → Option (α × List α)
  | [] => none
  | l :: cs => some (l, cs)

/-! ### arguments._all : posonlyargs + args + [vararg] + kwonlyargs + [kwarg]  (`_cached_allargs`) with defaults -/

structure Arguments (α δ : Type) where
  posonly : List α
  args : List α
  vararg : Option α
  kwonly : List α
  kwDefaults : List (Option δ)
  kwarg : Option α
  defaults : List δ
deriving DecidableEq, Repr

inductive ArgKind where
  | posonly | arg | vararg | kwonly | kwarg
deriving DecidableEq, Repr, Inhabited

/-- `_cached_allargs()` -/
def allargs {α δ} (a : Arguments α δ) : List α :=
  a.posonly ++ a.args ++ (match a.vararg with | none => [] | some v => [v]) ++ a.kwonly
    ++ (match a.kwarg with | none => [] | some k => [k])

/-- which real field (and index in it) element `i` of `_all` is -/
def argSlot {α δ} (a : Arguments α δ) (i : Nat) : Option (ArgKind × Nat) :=
  let np := a.posonly.length
  let na := a.args.length
  let nv := if a.vararg.isSome then 1 else 0
  let nk := a.kwonly.length
  let nw := if a.kwarg.isSome then 1 else 0
  if i < np then some (.posonly, i)
  else if i < np + na then some (.arg, i - np)
  else if i < np + na + nv then some (.vararg, 0)
  else if i < np + na + nv + nk then some (.kwonly, i - (np + na + nv))
  else if i < np + na + nv + nk + nw then some (.kwarg, 0)
  else none

/-- index into `defaults` (right-aligned over posonlyargs + args) or `kw_defaults` of element `i`, if it has one -/
def argDefault {α δ} (a : Arguments α δ) (i : Nat) : Option δ :=
  let npa := a.posonly.length + a.args.length
  let nd := a.defaults.length
  match argSlot a i with
  | some (.posonly, _) | some (.arg, _) => if i + nd ≥ npa then a.defaults[i + nd - npa]? else none
  | some (.kwonly, j) => (a.kwDefaults[j]?).join
  | _ => none

/-- element of the virtual field: kind, the arg, its default -/
def argsAll {α δ} (a : Arguments α δ) : List (ArgKind × α × Option δ) :=
  let go (k : ArgKind) (off : Nat) (l : List α) : List (ArgKind × α × Option δ) :=
    (l.zipIdx off).map (fun (x, i) => (k, x, argDefault a i))
  let np := a.posonly.length
  let na := a.args.length
  let nv := if a.vararg.isSome then 1 else 0
  go .posonly 0 a.posonly ++ go .arg np a.args
    ++ (match a.vararg with | none => [] | some v => [(.vararg, v, none)])
    ++ go .kwonly (np + na + nv) a.kwonly
    ++ (match a.kwarg with | none => [] | some k => [(.kwarg, k, none)])

/-- inverse of `argsAll` on the arg fields (defaults: the `some` values of positional elements, in order) -/
def argsOfAll {α δ} (l : List (ArgKind × α × Option δ)) : Arguments α δ :=
  let pick (k : ArgKind) := (l.filter (fun x => x.1 == k))
  { posonly := (pick .posonly).map (·.2.1)
    args := (pick .arg).map (·.2.1)
    vararg := ((pick .vararg).map (·.2.1)).head?
    kwonly := (pick .kwonly).map (·.2.1)
    kwDefaults := (pick .kwonly).map (·.2.2)
    kwarg := ((pick .kwarg).map (·.2.1)).head?
    defaults := ((pick .posonly ++ pick .arg).filterMap (·.2.2)) }

/-! ### _body : body without the docstring -/

def bodyLen (lenBody : Nat) (hasDocstr : Bool) : Nat := lenBody - (if hasDocstr then 1 else 0)
/-- `FSTView__body._getitem(idx)` real index -/
def bodyReal (idx : Nat) (hasDocstr : Bool) : Nat := idx + (if hasDocstr then 1 else 0)

/-! ### MatchClass._attrs : patterns + (kwd_attrs[i], kwd_patterns[i]) ; length = len(patterns) + len(kwd_patterns) -/

def attrsLen {π} (patterns kwdPatterns : List π) : Nat := patterns.length + kwdPatterns.length
/-- `(False, i)` = patterns[i], `(True, i)` = kwd pair i   (`_put_one` return-value arithmetic:
`patterns[idx] if (i := idx - len(patterns)) < 0 else kwd_patterns[i]`) -/
def attrsSlot (nPatterns nKwd : Nat) (idx : Nat) : Option (Bool × Nat) :=
  if idx < nPatterns then some (false, idx)
  else if idx - nPatterns < nKwd then some (true, idx - nPatterns) else none

/-! ### Call._args / ClassDef._bases : args + keywords merged by source position (`merge_arglikes`) -/

/-- lexicographic `(lineno, col_offset)` order -/
def posLe (a b : Nat × Nat) : Bool := a.1 < b.1 || (a.1 == b.1 && a.2 ≤ b.2)

/-- stable insertion (Python's `list.sort` is stable): insert before the first element that is not smaller -/
def insertBy {α} (le : α → α → Bool) (a : α) : List α → List α
  | [] => [a]
  | b :: bs => if le a b then a :: b :: bs else b :: insertBy le a bs

def insSort {α} (le : α → α → Bool) : List α → List α
  | [] => []
  | a :: as => insertBy le a (insSort le as)

/-- `merge_arglikes(exprs, keywords)` with the two early returns -/
def mergeArglikes {α} (key : α → Nat × Nat) (exprs keywords : List α) : List α :=
  if keywords.isEmpty then exprs
  else if exprs.isEmpty then keywords
  else insSort (fun a b => posLe (key a) (key b)) (exprs ++ keywords)

end Pfst.Virt
