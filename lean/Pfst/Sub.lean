/-
Model of `FST.subn` / `FST.sub` (src/fst/match.py) on generic labelled trees.

A tree node is a label plus a list of children.  AST fields are represented by pseudo nodes (one per field, the harness
chooses their labels), so "a list field" is simply the child list of such a pseudo node.  Every node carries the mark
`dirty`, which is the model of membership in the Python set `dirty` of `subn` (a set of AST identities): nodes of the
copied template are dirty, the root of a copy of the whole match is dirty, copies of captured nodes are clean.

The matcher is a parameter (`matches : Tree → Option Env`; the matcher itself is the subject of C17).  The model mirrors
the control structure of the code that exists: the `search`/`walk` order with the mutation rules of `walk`
(fst_traverse.py), the `dirty` test, the `while True` loop for `loop`, the `count` countdown with its `break`, the
slice-vs-one decision for every template slot and the index arithmetic of `_sub_quantifier_list_edge_item`.
No imports: this file is linked into the native driver.
-/
namespace Pfst.Sub

inductive Tree where
  | node (lbl : Nat) (dirty : Bool) (kids : List Tree)
deriving Repr, Inhabited

namespace Tree
def lbl : Tree → Nat | node l _ _ => l
def dirty : Tree → Bool | node _ d _ => d
def kids : Tree → List Tree | node _ _ k => k
end Tree

mutual
/-- `FST.copy()` of a subtree: new AST objects, none of which is in `dirty`. -/
def clean : Tree → Tree
  | .node l _ ks => .node l false (cleanList ks)
def cleanList : List Tree → List Tree
  | [] => []
  | t :: ts => clean t :: cleanList ts
end

/-- `dirty.add(root.a)` (b = true) on the root of a fresh copy. -/
def markRoot (b : Bool) : Tree → Tree
  | .node l _ ks => .node l b ks

mutual
def Tree.beq : Tree → Tree → Bool
  | .node l d ks, .node l' d' ks' => l == l' && d == d' && Tree.beqL ks ks'
def Tree.beqL : List Tree → List Tree → Bool
  | [], [] => true
  | a :: as, b :: bs => Tree.beq a b && Tree.beqL as bs
  | _, _ => false
end

mutual
def isClean : Tree → Bool
  | .node _ d ks => !d && isCleanL ks
def isCleanL : List Tree → Bool
  | [] => true
  | t :: ts => isClean t && isCleanL ts
end

mutual
def height : Tree → Nat
  | .node _ _ ks => heightL ks + 1
def heightL : List Tree → Nat
  | [] => 0
  | t :: ts => max (height t) (heightL ts)
end

/-! ## Captures -/

/-- One `FSTMatch` of a quantifier capture list as `_sub_quantifier_list_edge_item` sees it: `.matched` is either one
element (`FST` at `pfield.idx`: start = idx, stop = idx + 1; or a one-element `FSTView`: its start/stop) or a list of
such elements (a sub-sequence match, possibly empty). -/
inductive QItem where
  | one (start stop : Nat)
  | many (items : List (Nat × Nat))
deriving Repr, Inhabited

/-- `_sub_quantifier_list_edge_item(qlist, last=False)`: the start index of the first element found. -/
def edgeFirst : List QItem → Option Nat
  | [] => none
  | .one s _ :: _ => some s
  | .many [] :: rest => edgeFirst rest
  | .many ((s, _) :: _) :: _ => some s

/-- stop index of the last pair of a non-empty list (`matched[-1]`) -/
def lastStop : List (Nat × Nat) → Option Nat
  | [] => none
  | [(_, e)] => some e
  | _ :: b :: r => lastStop (b :: r)

/-- the `for match in reversed(qlist)` loop, on the already reversed list: stop index (last + 1) -/
def edgeLastRev : List QItem → Option Nat
  | [] => none
  | .one _ e :: _ => some e
  | .many l :: rest =>
    match lastStop l with
    | some e => some e
    | none => edgeLastRev rest

/-- `_sub_quantifier_list_edge_item(qlist, last)` (match.py ~6014), index part. -/
def edgeItem (q : List QItem) (last : Bool) : Option Nat :=
  if last then edgeLastRev q.reverse else edgeFirst q

/-- The `isinstance(repl_slot_new, list)` branch of `subn`: `None` (delete) when the list is empty or holds no element,
else `first_base._get_slice(first_idx, last_idx, first_field)`. -/
def qSlice (field : List Tree) (q : List QItem) : Option (List Tree) :=
  match q with
  | [] => none
  | _ =>
    match edgeItem q false with
    | none => none
    | some f =>
      match edgeItem q true with
      | none => none
      | some l => some ((field.drop f).take (l - f))

/-! ### virtual fields (`Call._args`, `ClassDef._bases`): args and keywords merged in source order -/

/-- One `FSTMatch` of a quantifier capture before the index mapping: an element is named by its real field
(`kind`: 0 = `args` / `bases` / any ordinary list field, 1 = `keywords`) and its index in that field (`pfield.idx`). -/
inductive RItem where
  | one (kind idx : Nat)
  | many (items : List (Nat × Nat))
deriving Repr, Inhabited

/-- `parent._cached_arglikes().index(matched.a)`: position of the element (kind, idx) in the virtual field, whose
layout `order` lists the (kind, idx) of every element in source order.  For an ordinary list field `order` is
`[(0,0), (0,1), …]` and the mapping is the identity. -/
def virtIdx : List (Nat × Nat) → Nat × Nat → Nat
  | [], _ => 0
  | o :: rest, p => if o.1 == p.1 && o.2 == p.2 then 0 else virtIdx rest p + 1

/-- an element at virtual index v: start = v, stop = v + 1 (`idx + 1 if last else idx`) -/
def virtPairs (order : List (Nat × Nat)) : List (Nat × Nat) → List (Nat × Nat)
  | [] => []
  | p :: r => (virtIdx order p, virtIdx order p + 1) :: virtPairs order r

/-- the `if parent_cls is Call: if field in ('args', 'keywords'): idx = parent._cached_arglikes().index(matched.a)`
step of `_sub_quantifier_list_edge_item`, applied to every element -/
def virtQ (order : List (Nat × Nat)) : List RItem → List QItem
  | [] => []
  | .one k i :: r => .one (virtIdx order (k, i)) (virtIdx order (k, i) + 1) :: virtQ order r
  | .many l :: r => .many (virtPairs order l) :: virtQ order r

/-- A tag value of a match: a node, a whole list field (`FSTView`), or a quantifier list (with the content of the
list field the matched elements live in). `stmts`: the slice container is a `Module` (statement slice).
`qlistV`: quantifier list whose elements live in real fields of a virtual field (`field` = the virtual field's
elements in source order, `order` = their (kind, idx)). -/
inductive Cap where
  | one (t : Tree) (isRoot : Bool)          -- `isRoot`: `repl_slot_new is matched`
  | view (ts : List Tree) (stmts : Bool)
  | qlist (field : List Tree) (q : List QItem) (stmts : Bool)
  | qlistV (field : List Tree) (order : List (Nat × Nat)) (q : List RItem) (stmts : Bool)
deriving Repr, Inhabited

abbrev Env := List (Nat × Cap)

/-- what goes into a slot after the `copy` step -/
inductive RCap where
  | none
  | one (t : Tree)
  | slice (ts : List Tree) (stmts : Bool)
deriving Repr, Inhabited

/-- The per-slot prologue of the `for tag, one_override, path, child in paths` loop: `not tag` = the whole match
(copy, root marked dirty), `m.tags.get(tag)`; copies are clean. -/
def resolve (env : Env) (matched : Tree) : Option Nat → RCap
  | none => .one (markRoot true (clean matched))
  | some g =>
    match env.lookup g with
    | none => .none
    | some (.one t r) => .one (markRoot r (clean t))
    | some (.view ts s) => .slice (cleanList ts) s
    | some (.qlist f q s) =>
      match qSlice f q with
      | none => .none
      | some ts => .slice (cleanList ts) s
    | some (.qlistV f order q s) =>
      match qSlice f (virtQ order q) with
      | none => .none
      | some ts => .slice (cleanList ts) s

/-! ## Templates -/

/-- result of filling: `refuse` = pfst raises (documented refusal), `unsup` = outside the modelled set -/
inductive R (α : Type) where
  | ok (a : α)
  | refuse
  | unsup
deriving Repr, Inhabited

/-- Template (`repl`) with the `Name` slots found by `_sub_repl_path_Name`.
`slot`: a `Name` `__FS[TSO]_<tag>` in an expression position; `inList` = `pfield.idx is not None` (or a virtual list
field such as `Call._args`); `ovr` = `one_override` (`_TAG2ONE`: T ↦ none, S ↦ false, O ↦ true).
`stmtSlot`: the same `Name` as the value of an `Expr` statement in a statement list (`parenta_cls is Expr` branch);
`exprLbl`, `valueLbl`: labels of the `Expr` node and of its `value` field pseudo node. -/
inductive Tmpl where
  | node (lbl : Nat) (kids : List Tmpl)
  | slot (tag : Option Nat) (inList : Bool) (ovr : Option Bool)
  | stmtSlot (tag : Option Nat) (ovr : Option Bool) (exprLbl valueLbl : Nat)
deriving Repr, Inhabited

/-- The `one` decision of `subn` for a slot with a parent: `one = not slice`; `one_override` wins; otherwise a slice
put to a non-list field (`pfield.idx is None`) is turned into a single put. -/
def decideOne (capSlice : Bool) (ovr : Option Bool) (idxNone : Bool) : Bool :=
  let one := !capSlice
  match ovr with
  | some o => o
  | none => if !one && idxNone then true else one

/-- expression slot: `repl_slot.replace(repl_slot_new, one=one)` / `parent._put_slice(..., virt_field, one)` -/
def fillSlot (rc : RCap) (inList : Bool) (ovr : Option Bool) : R (List Tree) :=
  match rc with
  | .none => if inList then .ok [] else .refuse            -- delete: list element removed / "cannot delete X.f"
  | .one t => if decideOne false ovr (!inList) then .ok [t] else (if inList then .unsup else .refuse)
  | .slice ts _ => if decideOne true ovr (!inList) then .unsup else (if inList then .ok ts else .refuse)

/-- `Name` slot whose parent is an `Expr` statement. -/
def fillStmtSlot (isStmt : Nat → Bool) (rc : RCap) (ovr : Option Bool) (exprLbl valueLbl : Nat) : R (List Tree) :=
  match rc with
  | .none => .ok []                                         -- `repl_slot = parent`; deleted
  | .one t =>
    if isStmt t.lbl then                                    -- `repl_slot = parent` (the Expr statement)
      (if decideOne false ovr false then .ok [t] else .unsup)
    else                                                    -- the Name inside Expr.value is replaced
      (if decideOne false ovr true then .ok [.node exprLbl true [.node valueLbl true [t]]] else .refuse)
  | .slice ts stmts =>
    if stmts then                                           -- Module: `repl_slot = parent; one = False`
      (if decideOne true ovr false then .unsup else .ok ts)
    else .unsup

def R.cat : R (List Tree) → R (List Tree) → R (List Tree)
  | .ok a, .ok b => .ok (a ++ b)
  | .unsup, _ => .unsup
  | _, .unsup => .unsup
  | _, _ => .refuse

mutual
/-- fill one template element; the result is spliced into the parent's child list.  Template nodes are dirty
(`dirty.update(walk(repl_.a))`). -/
def fillT (isStmt : Nat → Bool) (env : Env) (m : Tree) : Tmpl → R (List Tree)
  | .node l ks =>
    match fillKids isStmt env m ks with
    | .ok r => .ok [.node l true r]
    | .refuse => .refuse
    | .unsup => .unsup
  | .slot tag il ov => fillSlot (resolve env m tag) il ov
  | .stmtSlot tag ov e v => fillStmtSlot isStmt (resolve env m tag) ov e v
def fillKids (isStmt : Nat → Bool) (env : Env) (m : Tree) : List Tmpl → R (List Tree)
  | [] => .ok []
  | k :: ks => R.cat (fillT isStmt env m k) (fillKids isStmt env m ks)
end

/-- the parsed template: one node (`single`) or a `Module` of statements (`module`) -/
inductive TRoot where
  | single (t : Tmpl)
  | module (ks : List Tmpl)
deriving Repr, Inhabited

/-- Fill the template and decide how it is put back: `(trees, slice)`; `slice = true` is
`matched.replace(repl_, one=False)` (matched is a statement and the filled template is a `Module`). -/
def fillRoot (isStmt : Nat → Bool) (root : TRoot) (env : Env) (m : Tree) : R (List Tree × Bool) :=
  match root with
  | .module ks =>
    if isStmt m.lbl then
      match fillKids isStmt env m ks with
      | .ok r => .ok (r, true)
      | .refuse => .refuse
      | .unsup => .unsup
    else .unsup
  | .single (.slot tag _ _) =>                      -- slot without parent: `one` plays no role
    match resolve env m tag with
    | .none => .refuse                               -- "cannot delete root node"
    | .one t => .ok ([t], false)
    | .slice ts stmts => if stmts && isStmt m.lbl then .ok (ts, true) else .unsup
  | .single (.stmtSlot _ _ _ _) => .unsup
  | .single (.node l ks) =>
    match fillKids isStmt env m ks with
    | .ok r => .ok ([.node l true r], false)
    | .refuse => .refuse
    | .unsup => .unsup

/-! ## The driver -/

structure Params where
  mtch : Tree → Option Env
  isStmt : Nat → Bool
  tmpl : TRoot
  nested : Bool
  loop : Option Int          -- `False` = none; `True` = some 0
  lfuel : Nat                -- bound on re-applications of `loop` (model only; err = 3 when exhausted)

/-- `count`: the Python variable counted down; `stop`: the `break` of `for m in gen` was taken (or an error ended the
run); `err`: 0 ok, 1 pfst raises, 2 outside the modelled set, 3 fuel; `log`: every tree handed to the matcher. -/
structure St where
  count : Int
  total : Nat
  stop : Bool
  err : Nat
  log : List Tree
deriving Repr, Inhabited

/-- children in syntax order; results are spliced -/
def mapKids (f : Tree → St → List Tree × St) : List Tree → St → List Tree × St
  | [], st => ([], st)
  | k :: ks, st =>
    let r := f k st
    let r2 := mapKids f ks r.2
    (r.1 ++ r2.1, r2.2)

def St.fail (st : St) (e : Nat) : St := { st with err := e, stop := true }

/-- The `while True:  # for loop` body of `subn` on one matched node: fill, put back, `total_count += 1`, then
`if loop is not False: if loop := loop - 1: if m := replaced.match(pat): matched = replaced; continue`.
`replaced` after a slice put is the node now at the same index, i.e. the first new statement.
Returns (replacement, a slice put happened, state). -/
def loopSub (P : Params) : Nat → Env → Tree → Option Int → St → List Tree × Bool × St
  | 0, _, t, _, st => ([t], false, st.fail 3)
  | f + 1, env, t, loop, st =>
    match fillRoot P.isStmt P.tmpl env t with
    | .refuse => ([t], false, st.fail 1)
    | .unsup => ([t], false, st.fail 2)
    | .ok (r, slice) =>
      let st1 : St := { st with total := st.total + 1 }
      match loop with
      | none => (r, slice, st1)
      | some l =>
        if l - 1 == 0 then (r, slice, st1) else
        match r with
        | [] => (r, slice, st1.fail 2)        -- `replaced` is the following sibling or None: not modelled
        | h :: tl =>
          let st2 : St := { st1 with log := h :: st1.log }
          match P.mtch h with
          | none => (r, slice, st2)
          | some env' =>
            let q := loopSub P f env' h (some (l - 1)) st2
            (q.1 ++ tl, slice || q.2.1, q.2.2)

/-- `if not skip_sub: if not (count := count - 1): break` -/
def bump (st : St) : St :=
  { st with count := st.count - 1, stop := st.stop || (st.count - 1 == 0) }

/-- `search(..., on='enter')` driven by `subn`: one node popped from the walk stack. -/
def enterNode (P : Params) : Nat → Tree → St → List Tree × St
  | 0, t, st => ([t], if st.stop then st else st.fail 3)
  | f + 1, .node l d ks, st =>
    if st.stop then ([.node l d ks], st) else
    let st0 : St := { st with log := .node l d ks :: st.log }
    match P.mtch (.node l d ks) with
    | none =>                                              -- not yielded by search: walk pushes the children
      let r := mapKids (enterNode P f) ks st0
      ([.node l d r.1], r.2)
    | some env =>
      if d then                                            -- `if matched.a in dirty: continue`
        if P.nested then
          let r := mapKids (enterNode P f) ks st0
          ([.node l d r.1], r.2)
        else ([.node l d ks], st0)                         -- search: `elif not nested: gen.send(False)`
      else
        let q := loopSub P (P.lfuel + 1) env (.node l d ks) P.loop st0
        if q.2.2.stop then (q.1, q.2.2) else
        let st2 := bump q.2.2
        if st2.stop || !P.nested || q.2.1 then (q.1, st2) else
        match q.1 with
        | [.node l' d' ks'] =>                             -- walk: `ast := fst_.a`, push the NEW children
          let r := mapKids (enterNode P f) ks' st2
          ([.node l' d' r.1], r.2)
        | _ => (q.1, st2)

/-- `search(..., on='leave')` driven by `subn`: children first, then the node itself is yielded (if it still
exists); `nested` is ignored (send(False) on leaving does nothing); the replacement is never walked. -/
def leaveNode (P : Params) : Nat → Tree → St → List Tree × St
  | 0, t, st => ([t], if st.stop then st else st.fail 3)
  | f + 1, .node l d ks, st =>
    if st.stop then ([.node l d ks], st) else
    let r := mapKids (leaveNode P f) ks st
    if r.2.stop then ([.node l d r.1], r.2) else
    let st0 : St := { r.2 with log := .node l d r.1 :: r.2.log }
    match P.mtch (.node l d r.1) with
    | none => ([.node l d r.1], st0)
    | some env =>
      if d then ([.node l d r.1], st0) else
      let q := loopSub P (P.lfuel + 1) env (.node l d r.1) P.loop st0
      if q.2.2.stop then (q.1, q.2.2) else (q.1, bump q.2.2)

structure Result where
  trees : List Tree
  unique : Int
  total : Nat
  err : Nat
  log : List Tree
deriving Repr, Inhabited

/-- `if count < 0: count = 0` -/
def clamp (c : Int) : Int := if c < 0 then 0 else c

/-- `(-count if count < 0 else count_start - count)` -/
def uniqueOf (c0 c : Int) : Int := if c < 0 then -c else c0 - c

/-- `subn(pat, repl, nested, count=count, loop=loop, on=on)` on the tree `t` (the walk root).
`return self, (-count if count < 0 else count_start - count), total_count`. -/
def run (P : Params) (onLeave : Bool) (count : Int) (fuel : Nat) (t : Tree) : Result :=
  let st0 : St := ⟨clamp count, 0, false, 0, []⟩
  let r := if onLeave then leaveNode P fuel t st0 else enterNode P fuel t st0
  ⟨r.1, uniqueOf (clamp count) r.2.count, r.2.total, r.2.err, r.2.log⟩

/-- `FST.sub(pat, repl, nested, count=…, loop=…, on=…, …)`: the public wrapper.  It forwards every parameter to `subn`
unchanged and returns the first component (`return self.subn(pat, repl, nested, count=count, …)[0]`). -/
def sub (P : Params) (onLeave : Bool) (count : Int) (fuel : Nat) (t : Tree) : List Tree :=
  (run P onLeave count fuel t).trees

/-! ## Reference transformer (written independently of the driver) -/

mutual
/-- Replace every outermost matching node by `f env node`; do not look inside replaced nodes. -/
def rewriteOutermost (m : Tree → Option Env) (f : Env → Tree → List Tree) : Tree → List Tree
  | .node l d ks =>
    match m (.node l d ks) with
    | some env => f env (.node l d ks)
    | none => [.node l d (rewriteOutermostL m f ks)]
def rewriteOutermostL (m : Tree → Option Env) (f : Env → Tree → List Tree) : List Tree → List Tree
  | [] => []
  | k :: ks => rewriteOutermost m f k ++ rewriteOutermostL m f ks
end

mutual
/-- number of outermost matching nodes -/
def countOutermost (m : Tree → Option Env) : Tree → Nat
  | .node l d ks =>
    match m (.node l d ks) with
    | some _ => 1
    | none => countOutermostL m ks
def countOutermostL (m : Tree → Option Env) : List Tree → Nat
  | [] => 0
  | k :: ks => countOutermost m k + countOutermostL m ks
end

mutual
/-- number of matching nodes at any depth -/
def countAll (m : Tree → Option Env) : Tree → Nat
  | .node l d ks => (if (m (.node l d ks)).isSome then 1 else 0) + countAllL m ks
def countAllL (m : Tree → Option Env) : List Tree → Nat
  | [] => 0
  | k :: ks => countAll m k + countAllL m ks
end

mutual
/-- no node of the tree matches -/
def noMatch (m : Tree → Option Env) : Tree → Bool
  | .node l d ks => (m (.node l d ks)).isNone && noMatchL m ks
def noMatchL (m : Tree → Option Env) : List Tree → Bool
  | [] => true
  | k :: ks => noMatch m k && noMatchL m ks
end

/-- the replacement `subn` computes for one match when nothing refuses (used as `f` of the reference) -/
def fillD (P : Params) (env : Env) (t : Tree) : List Tree :=
  match fillRoot P.isStmt P.tmpl env t with
  | .ok (r, _) => r
  | _ => [t]

end Pfst.Sub
