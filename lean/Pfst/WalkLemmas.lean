import Pfst.Walk
namespace Pfst.Walk

def itemPost (back : Bool) : Item → List Node | .enter n => post back n | .leave n => [n]
def itemBrk (back : Bool) : Item → List (Node × Bool) | .enter n => brk back n | .leave n => [(n, true)]

/-! ## unfolding lemmas -/
theorem pre_eq (back : Bool) (n : Node) : pre back n = n :: preL back n.kids := by
  cases n; simp [pre, Node.kids]

theorem post_eq (back : Bool) (n : Node) : post back n = postL back n.kids ++ [n] := by
  cases n; simp [post, Node.kids]

theorem brk_eq (back : Bool) (n : Node) : brk back n = (n, false) :: (brkL back n.kids ++ [(n, true)]) := by
  cases n; simp [brk, Node.kids]

/-! ## 1. orient / flatMap -/
theorem flatMap_orient_pre (back : Bool) (ks : List Node) :
    (orient back ks).flatMap (pre back) = preL back ks := by
  cases back
  · simp only [orient, cond_false]
    induction ks with
    | nil => simp [preL]
    | cons k ks ih => simp [preL, ih]
  · simp only [orient, cond_true]
    induction ks with
    | nil => simp [preL]
    | cons k ks ih => simp [preL, ih]

theorem flatMap_orient_post (back : Bool) (ks : List Node) :
    (orient back ks).flatMap (post back) = postL back ks := by
  cases back
  · simp only [orient, cond_false]
    induction ks with
    | nil => simp [postL]
    | cons k ks ih => simp [postL, ih]
  · simp only [orient, cond_true]
    induction ks with
    | nil => simp [postL]
    | cons k ks ih => simp [postL, ih]

theorem flatMap_orient_brk (back : Bool) (ks : List Node) :
    (orient back ks).flatMap (brk back) = brkL back ks := by
  cases back
  · simp only [orient, cond_false]
    induction ks with
    | nil => simp [brkL]
    | cons k ks ih => simp [brkL, ih]
  · simp only [orient, cond_true]
    induction ks with
    | nil => simp [brkL]
    | cons k ks ih => simp [brkL, ih]

/-! ## 2–5. enter -/
theorem enterLoop_rec (p : Node → Bool) (back : Bool) (st : List Node) :
    enterLoop p back true st = ids ((st.flatMap (pre back)).filter p) := by
  generalize hm : sizeL st = m
  induction m using Nat.strongRecOn generalizing st with
  | ind m ih =>
    cases st with
    | nil => simp [enterLoop, ids]
    | cons n st =>
      have hlt : sizeL (orient back n.kids ++ st) < m := by
        rw [← hm]; simp only [sizeL, sizeL_append, sizeL_orient, size_eq]; omega
      have h := ih _ hlt (orient back n.kids ++ st) rfl
      rw [enterLoop]
      simp only [Bool.not_true, Bool.false_eq_true, if_false, h]
      simp only [List.flatMap_append, flatMap_orient_pre, List.flatMap_cons, pre_eq back n]
      by_cases hp : p n = true <;> simp [hp, ids]

theorem enterLoop_norec (p : Node → Bool) (back : Bool) (st : List Node) :
    enterLoop p back false st = ids (st.filter p) := by
  induction st with
  | nil => simp [enterLoop, ids]
  | cons n st ih =>
    rw [enterLoop]
    by_cases hp : p n = true <;> simp [hp, ids, ih]

theorem walkEnter_eq (p : Node → Bool) (back self_ : Bool) (t : Node) :
    walkEnter p back true self_ t = ids (((if self_ then [t] else []) ++ preL back t.kids).filter p) := by
  simp only [walkEnter, enterLoop_rec, flatMap_orient_pre]
  cases self_ <;> by_cases hp : p t = true <;> simp [hp, ids]

theorem walkEnter_self (p : Node → Bool) (back : Bool) (t : Node) :
    walkEnter p back true true t = ids ((pre back t).filter p) := by
  rw [walkEnter_eq, pre_eq]; simp

theorem walkEnter_norec_eq (p : Node → Bool) (back self_ : Bool) (t : Node) :
    walkEnter p back false self_ t = ids (((if self_ then [t] else []) ++ orient back t.kids).filter p) := by
  simp only [walkEnter, enterLoop_norec]
  cases self_ <;> by_cases hp : p t = true <;> simp [hp, ids]

/-! ## 6–7. leave -/
theorem flatMap_itemPost_enter (back : Bool) (l : List Node) :
    (l.map Item.enter).flatMap (itemPost back) = l.flatMap (post back) := by
  induction l with
  | nil => rfl
  | cons x xs ih => simp [itemPost, ih]

theorem flatMap_itemPost_leave (back : Bool) (l : List Node) :
    (l.map Item.leave).flatMap (itemPost back) = l := by
  induction l with
  | nil => rfl
  | cons x xs ih => simp [itemPost, ih]

theorem postL_of_isEmpty (back : Bool) (ks : List Node) (h : ks.isEmpty = true) : postL back ks = [] := by
  cases ks with
  | nil => simp [postL]
  | cons _ _ => simp at h

theorem leaveLoop_eq (p : Node → Bool) (back : Bool) (st : List Item) :
    leaveLoop p back st = ids ((st.flatMap (itemPost back)).filter p) := by
  generalize hm : weight st = m
  induction m using Nat.strongRecOn generalizing st with
  | ind m ih =>
    cases st with
    | nil => simp [leaveLoop, ids]
    | cons it st =>
      cases it with
      | leave n =>
        have hlt : weight st < m := by rw [← hm]; simp only [weight]; omega
        have h := ih _ hlt st rfl
        rw [leaveLoop]
        by_cases hp : p n = true <;> simp [hp, h, ids, itemPost]
      | enter n =>
        rw [leaveLoop]
        by_cases hp : p n = true
        · by_cases hk : n.kids.isEmpty = true
          · have hlt : weight st < m := by rw [← hm]; simp only [weight, size_eq]; omega
            have h := ih _ hlt st rfl
            simp [hp, hk, h, ids, itemPost, post_eq, postL_of_isEmpty back _ hk]
          · have hne : 0 < sizeL n.kids := by
              cases hks : n.kids with
              | nil => simp [hks] at hk
              | cons a b => simp only [sizeL]; have := size_pos a; omega
            have hlt : weight ((orient back n.kids).map Item.enter ++ Item.leave n :: st) < m := by
              rw [← hm]; simp only [weight, weight_append, weight_enter, sizeL_orient, size_eq]; omega
            have h := ih _ hlt _ rfl
            simp only [hp, hk, h, Bool.not_true, Bool.false_eq_true, if_false, Bool.not_false, if_true]
            simp [List.flatMap_append, flatMap_itemPost_enter, flatMap_orient_post, itemPost, post_eq, hp,
              ids]
        · have hlt : weight ((orient back n.kids).map Item.enter ++ st) < m := by
            rw [← hm]; simp only [weight, weight_append, weight_enter, sizeL_orient, size_eq]; omega
          have h := ih _ hlt _ rfl
          simp [hp, h, List.flatMap_append, flatMap_itemPost_enter, flatMap_orient_post, itemPost, post_eq,
            ids]

theorem walkLeave_eq (p : Node → Bool) (back self_ : Bool) (t : Node) :
    walkLeave p back true self_ t = ids ((postL back t.kids).filter p) ++ (if self_ && p t then [t.id] else []) := by
  simp only [walkLeave, cond_true, leaveLoop_eq, flatMap_itemPost_enter, flatMap_orient_post]

theorem walkLeave_self (p : Node → Bool) (back : Bool) (t : Node) :
    walkLeave p back true true t = ids ((post back t).filter p) := by
  rw [walkLeave_eq, post_eq]
  cases h : p t <;> simp [h, ids]

theorem walkLeave_norec_eq (p : Node → Bool) (back self_ : Bool) (t : Node) :
    walkLeave p back false self_ t = ids ((orient back t.kids).filter p) ++ (if self_ && p t then [t.id] else []) := by
  simp only [walkLeave, cond_false, leaveLoop_eq, flatMap_itemPost_leave]

/-! ## 8. both -/
theorem flatMap_itemBrk_enter (back : Bool) (l : List Node) :
    (l.map Item.enter).flatMap (itemBrk back) = l.flatMap (brk back) := by
  induction l with
  | nil => rfl
  | cons x xs ih => simp [itemBrk, ih]

theorem bothLoop_rec (p : Node → Bool) (back : Bool) (st : List Item) :
    bothLoop p back true st = ids2 ((st.flatMap (itemBrk back)).filter (fun x => p x.1)) := by
  generalize hm : weight st = m
  induction m using Nat.strongRecOn generalizing st with
  | ind m ih =>
    cases st with
    | nil => simp [bothLoop, ids2]
    | cons it st =>
      cases it with
      | leave n =>
        have hlt : weight st < m := by rw [← hm]; simp only [weight]; omega
        have h := ih _ hlt st rfl
        rw [bothLoop]
        by_cases hp : p n = true <;> simp [hp, h, ids2, itemBrk]
      | enter n =>
        rw [bothLoop]
        by_cases hp : p n = true
        · have hlt : weight ((orient back n.kids).map Item.enter ++ Item.leave n :: st) < m := by
            rw [← hm]; simp only [weight, weight_append, weight_enter, sizeL_orient, size_eq]; omega
          have h := ih _ hlt _ rfl
          simp [hp, h, List.flatMap_append, flatMap_itemBrk_enter, flatMap_orient_brk, itemBrk, brk_eq,
            ids2]
        · have hlt : weight ((orient back n.kids).map Item.enter ++ st) < m := by
            rw [← hm]; simp only [weight, weight_append, weight_enter, sizeL_orient, size_eq]; omega
          have h := ih _ hlt _ rfl
          simp [hp, h, List.flatMap_append, flatMap_itemBrk_enter, flatMap_orient_brk, itemBrk, brk_eq,
            ids2]

theorem bothLoop_norec (p : Node → Bool) (back : Bool) (ks : List Node) (st : List Item) :
    bothLoop p back false (ks.map Item.enter ++ st)
      = (ks.flatMap (fun n => if p n then [(n.id, false), (n.id, true)] else [])) ++ bothLoop p back false st := by
  induction ks with
  | nil => simp
  | cons n ks ih =>
    simp only [List.map_cons, List.cons_append]
    rw [bothLoop]
    by_cases hp : p n = true
    · simp only [hp, if_true, Bool.not_false]
      rw [bothLoop]
      simp [hp, ih]
    · simp [hp, ih]

theorem walkBoth_eq (p : Node → Bool) (back self_ : Bool) (t : Node) :
    walkBoth p back true self_ t
      = (if self_ && p t then [(t.id, false)] else [])
        ++ ids2 ((brkL back t.kids).filter (fun x => p x.1))
        ++ (if self_ && p t then [(t.id, true)] else []) := by
  simp only [walkBoth, bothLoop_rec, flatMap_itemBrk_enter, flatMap_orient_brk]

theorem walkBoth_self (p : Node → Bool) (back : Bool) (t : Node) :
    walkBoth p back true true t = ids2 ((brk back t).filter (fun x => p x.1)) := by
  rw [walkBoth_eq, brk_eq]
  cases h : p t <;> simp [h, ids2]

theorem walkBoth_norec_eq (p : Node → Bool) (back self_ : Bool) (t : Node) :
    walkBoth p back false self_ t
      = (if self_ && p t then [(t.id, false)] else [])
        ++ ((orient back t.kids).flatMap (fun n => if p n then [(n.id, false), (n.id, true)] else []))
        ++ (if self_ && p t then [(t.id, true)] else []) := by
  have h := bothLoop_norec p back (orient back t.kids) []
  simp only [List.append_nil] at h
  simp only [walkBoth, h]
  simp [bothLoop]

/-! ## 9. mirror -/
theorem mirror_id (n : Node) : (mirror n).id = n.id := by cases n; simp [mirror, Node.id]
theorem mirror_cat (n : Node) : (mirror n).cat = n.cat := by cases n; simp [mirror, Node.cat]
theorem mirror_kind (n : Node) : (mirror n).kind = n.kind := by cases n; simp [mirror, Node.kind]
theorem mirror_lab (n : Node) : (mirror n).lab = n.lab := by cases n; simp [mirror, Node.lab]
theorem mirror_kids (n : Node) : (mirror n).kids = mirrorL n.kids := by cases n; simp [mirror, Node.kids]

theorem preL_false_eq_flatMap (ks : List Node) : preL false ks = ks.flatMap (pre false) := by
  have := flatMap_orient_pre false ks
  simpa [orient] using this.symm

theorem preL_false_append (a b : List Node) : preL false (a ++ b) = preL false a ++ preL false b := by
  simp [preL_false_eq_flatMap]

mutual
theorem pre_back_mirror : (t : Node) → (pre true t).map mirror = pre false (mirror t)
  | .mk i l c k ks => by
    simp only [pre, mirror, List.map_cons, preL_back_mirror ks]
theorem preL_back_mirror : (ks : List Node) → (preL true ks).map mirror = preL false (mirrorL ks)
  | [] => by simp [preL, mirrorL]
  | k :: ks => by
    simp only [preL, mirrorL, cond_true, List.map_append, preL_false_append, pre_back_mirror k,
      preL_back_mirror ks, cond_false, List.append_nil]
end

theorem checkAll_mirror (m : AllMode) (n : Node) : checkAll m (mirror n) = checkAll m n := by
  cases m <;> simp [checkAll, mirror_cat, mirror_kind]

theorem ids_map_mirror (l : List Node) : ids (l.map mirror) = ids l := by
  simp [ids, Function.comp_def, mirror_id]

theorem filter_checkAll_map_mirror (m : AllMode) (l : List Node) :
    (l.map mirror).filter (checkAll m) = (l.filter (checkAll m)).map mirror := by
  induction l with
  | nil => rfl
  | cons x xs ih => simp [List.filter_cons, checkAll_mirror, ih]; split <;> simp

theorem walkEnter_back_mirror (m : AllMode) (self_ : Bool) (t : Node) :
    walkEnter (checkAll m) true true self_ t = walkEnter (checkAll m) false true self_ (mirror t) := by
  rw [walkEnter_eq, walkEnter_eq, mirror_kids, ← preL_back_mirror]
  have : (if self_ = true then [mirror t] else []) = (if self_ = true then [t] else []).map mirror := by
    cases self_ <;> simp
  rw [this, ← List.map_append, filter_checkAll_map_mirror, ids_map_mirror]

/-! ## 10. permutations / exactly once -/
mutual
theorem pre_perm (back : Bool) : (t : Node) → (pre back t).Perm (pre false t)
  | .mk i l c k ks => by
    simp only [pre]
    exact List.Perm.cons _ (preL_perm back ks)
theorem preL_perm (back : Bool) : (ks : List Node) → (preL back ks).Perm (preL false ks)
  | [] => by simp [preL]
  | k :: ks => by
    cases back
    · simp only [preL, cond_false]; exact List.Perm.refl _
    · simp only [preL, cond_true, cond_false]
      exact List.perm_append_comm.trans (List.Perm.append (pre_perm true k) (preL_perm true ks))
end

mutual
theorem post_perm (back : Bool) : (t : Node) → (post back t).Perm (pre false t)
  | .mk i l c k ks => by
    simp only [post, pre]
    exact List.perm_append_comm.trans (List.Perm.cons _ (postL_perm back ks))
theorem postL_perm (back : Bool) : (ks : List Node) → (postL back ks).Perm (preL false ks)
  | [] => by simp [postL, preL]
  | k :: ks => by
    cases back
    · simp only [postL, preL, cond_false]
      exact List.Perm.append (post_perm false k) (postL_perm false ks)
    · simp only [postL, preL, cond_true, cond_false]
      exact List.perm_append_comm.trans (List.Perm.append (post_perm true k) (postL_perm true ks))
end

mutual
theorem brk_enter_perm (back : Bool) : (t : Node) →
    (((brk back t).filter (fun x => !x.2)).map Prod.fst).Perm (pre false t)
  | .mk i l c k ks => by
    simp only [brk, pre, List.filter_cons, List.filter_append, List.filter_nil, Bool.not_false, Bool.not_true,
      if_true, Bool.false_eq_true, if_false, List.append_nil, List.map_cons]
    exact List.Perm.cons _ (brkL_enter_perm back ks)
theorem brkL_enter_perm (back : Bool) : (ks : List Node) →
    (((brkL back ks).filter (fun x => !x.2)).map Prod.fst).Perm (preL false ks)
  | [] => by simp [brkL, preL]
  | k :: ks => by
    cases back
    · simp only [brkL, preL, cond_false, List.filter_append, List.map_append]
      exact List.Perm.append (brk_enter_perm false k) (brkL_enter_perm false ks)
    · simp only [brkL, preL, cond_true, cond_false, List.filter_append, List.map_append]
      exact List.perm_append_comm.trans (List.Perm.append (brk_enter_perm true k) (brkL_enter_perm true ks))
end

mutual
theorem brk_leave_perm (back : Bool) : (t : Node) →
    (((brk back t).filter (fun x => x.2)).map Prod.fst).Perm (pre false t)
  | .mk i l c k ks => by
    simp only [brk, pre, List.filter_cons, List.filter_append, List.filter_nil,
      if_true, Bool.false_eq_true, if_false, List.map_append, List.map_cons, List.map_nil]
    exact List.perm_append_comm.trans (List.Perm.cons _ (brkL_leave_perm back ks))
theorem brkL_leave_perm (back : Bool) : (ks : List Node) →
    (((brkL back ks).filter (fun x => x.2)).map Prod.fst).Perm (preL false ks)
  | [] => by simp [brkL, preL]
  | k :: ks => by
    cases back
    · simp only [brkL, preL, cond_false, List.filter_append, List.map_append]
      exact List.Perm.append (brk_leave_perm false k) (brkL_leave_perm false ks)
    · simp only [brkL, preL, cond_true, cond_false, List.filter_append, List.map_append]
      exact List.perm_append_comm.trans (List.Perm.append (brk_leave_perm true k) (brkL_leave_perm true ks))
end

theorem filter_const_true (l : List α) : l.filter (fun _ => true) = l := by
  induction l with
  | nil => rfl
  | cons x xs ih => simp [ih]

theorem walk_nodup (back : Bool) (t : Node) (h : (ids (pre false t)).Nodup) :
    (walkEnter (fun _ => true) back true true t).Nodup
    ∧ (walkEnter (fun _ => true) back true true t).Perm (ids (pre false t))
    ∧ (walkLeave (fun _ => true) back true true t).Nodup
    ∧ (walkLeave (fun _ => true) back true true t).Perm (ids (pre false t)) := by
  rw [walkEnter_self, walkLeave_self, filter_const_true, filter_const_true]
  have h1 : (ids (pre back t)).Perm (ids (pre false t)) := (pre_perm back t).map _
  have h2 : (ids (post back t)).Perm (ids (pre false t)) := (post_perm back t).map _
  exact ⟨h1.nodup_iff.mpr h, h1, h2.nodup_iff.mpr h, h2⟩

/-! ## 11. postorder = reverse of the preorder in the other direction -/
mutual
theorem post_eq_reverse_pre_flip (back : Bool) : (t : Node) → post back t = (pre (!back) t).reverse
  | .mk i l c k ks => by
    simp only [post, pre, List.reverse_cons, postL_eq_reverse_preL_flip back ks]
theorem postL_eq_reverse_preL_flip (back : Bool) : (ks : List Node) → postL back ks = (preL (!back) ks).reverse
  | [] => by simp [postL, preL]
  | k :: ks => by
    cases back
    · simp only [postL, preL, cond_false, Bool.not_false, cond_true, List.reverse_append]
      rw [post_eq_reverse_pre_flip false k, postL_eq_reverse_preL_flip false ks]; rfl
    · simp only [postL, preL, cond_true, Bool.not_true, cond_false, List.reverse_append]
      rw [post_eq_reverse_pre_flip true k, postL_eq_reverse_preL_flip true ks]; rfl
end

end Pfst.Walk
