import Pfst.Coerce
/-
Model of the `arguments` branches of `_coerce_to__type_params` and `_coerce_to__pattern_attrlikes` (src/fst/code.py):
function parameters re-read as type parameters (`def f[...]`) / as the attribute part of a class pattern (`C(...)`).
Both are list transformations over the parameter groups; the model mirrors the loops as written (the two-pass loop over
`args` then `kwonlyargs` with the `*vararg` emitted after the FIRST pass, `**kwarg` last; the early refusals).
Python < 3.13 (no defaults on type parameters).  Imports only the import-free `Pfst/Coerce.lean`.
-/
namespace Pfst.Coerce

/-- one `arg` with its default already attached (the code pairs them by
`zip(args, [None] * (len(args) - len(defaults)) + defaults)` / `zip(kwonlyargs, kw_defaults)`) -/
structure Param where
  name : String
  ann : Option Expr
  dflt : Option Expr
deriving Repr, Inhabited

structure Arguments where
  posonly : List Param
  args : List Param
  vararg : Option Param
  kwonly : List Param
  kwarg : Option Param
deriving Repr, Inhabited

inductive TParam where
  | typeVar (name : String) (bound : Option Expr)
  | typeVarTuple (name : String)
  | paramSpec (name : String)
deriving Repr, Inhabited

def optLeaves : Option Expr → List Leaf
  | some e => e.leaves
  | none => []

def Param.leaves (p : Param) : List Leaf := .name p.name :: (optLeaves p.ann ++ optLeaves p.dflt)

def leavesPs : List Param → List Leaf
  | [] => []
  | p :: rest => p.leaves ++ leavesPs rest

/-- `*vararg` / `**kwarg`: name and annotation (they cannot have a default) -/
def optParamLeaves : Option Param → List Leaf
  | some p => .name p.name :: optLeaves p.ann
  | none => []

/-- names, annotations and defaults in source order: positional-only, plain, `*vararg`, keyword-only, `**kwarg` -/
def Arguments.leaves (a : Arguments) : List Leaf :=
  leavesPs a.posonly ++ (leavesPs a.args ++ (optParamLeaves a.vararg ++ (leavesPs a.kwonly ++ optParamLeaves a.kwarg)))

def TParam.leaves : TParam → List Leaf
  | .typeVar n b => .name n :: optLeaves b
  | .typeVarTuple n => [.name n]
  | .paramSpec n => [.name n]

def leavesTs : List TParam → List Leaf
  | [] => []
  | t :: rest => t.leaves ++ leavesTs rest

/-- `for arg_, dflt in args_n_dflts: ... TypeVar(name=name, bound=annotation)` (a default is refused up front) -/
def tvPass : List Param → List TParam
  | [] => []
  | p :: rest => .typeVar p.name p.ann :: tvPass rest

def hasDefault : List Param → Bool
  | [] => false
  | p :: rest => p.dflt.isSome || hasDefault rest

/-- `*vararg -> *TypeVarTuple` / `**kwarg -> **ParamSpec`: refused when annotated -/
def starPart (mk : String → TParam) : Option Param → Option (List TParam)
  | none => some []
  | some p => if p.ann.isSome then none else some [mk p.name]

/-- `_coerce_to__type_params`, `codea_cls is arguments` -/
def argsToTypeParams (a : Arguments) : Option (List TParam) :=
  if !a.posonly.isEmpty then none                                          -- 'has posonlyargs'
  else if hasDefault a.args || hasDefault a.kwonly then none                -- PYLT13: 'default values not allowed'
  else if !a.kwonly.isEmpty && a.vararg.isNone then none                    -- "has empty vararg '*'"
  else
    match starPart .typeVarTuple a.vararg, starPart .paramSpec a.kwarg with
    | some v, some k => some (tvPass a.args ++ (v ++ (tvPass a.kwonly ++ k)))
    | _, _ => none

/-- the `args` loop of `_coerce_to__pattern_attrlikes`, `codea_cls is arguments`: positional patterns and keyword
patterns are collected in two lists -/
def attrGo (fmt : Bool) : List Param → Option (List Pattern × List Pattern)
  | [] => some ([], [])
  | p :: rest =>
    if p.ann.isSome then none else                                          -- 'has annotation'
    match p.dflt with
    | some d =>
      match toPattern fmt d with
      | none => none
      | some pat =>
        match attrGo fmt rest with
        | none => none
        | some (ps, ks) => some (ps, .pkw p.name pat :: ks)
    | none =>
      match attrGo fmt rest with
      | none => none
      | some (ps, ks) => some (.capture (wild p.name) :: ps, ks)

/-- `_coerce_to__pattern_attrlikes`, `codea_cls is arguments` -/
def argsToAttrlikes (fmt : Bool) (a : Arguments) : Option (List Pattern × List Pattern) :=
  if a.vararg.isSome || a.kwarg.isSome || !a.posonly.isEmpty || !a.kwonly.isEmpty then none
  else attrGo fmt a.args

/-- Python's grammar / `arguments` invariant: once a parameter has a default, all later ones have -/
def defaultsSuffix : List Param → Bool
  | [] => true
  | p :: rest => (p.dflt.isNone || rest.all (fun q => q.dflt.isSome)) && defaultsSuffix rest

end Pfst.Coerce
