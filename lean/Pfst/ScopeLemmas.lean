import Pfst.Scope

/-!
Lemmas for C16.

* `trav_sim`: two table-driven traversals agree on every tree on which the side-by-side check `goodG` succeeds, provided
  the tables agree on related states (a finite statement).
* `step_ok` / `next_ok`: that finite statement for the spec table and the model table of `walk(scope=True)`, checked by
  exhaustive evaluation over all states, kinds and roles.
* `trav_filter`: the filtered spec table is the filter of the spec traversal.
* `fold_sym`: the if-chain of `scope_symbols` computes the per-node binding table over the nodes it is given.
-/
namespace Pfst.Scope

/-! ### generic simulation -/

section sim
variable {σ τ : Type} (f1 : σ → Kind → Role → Bool × σ) (f2 : τ → Kind → Role → Bool × τ)
  (R : σ → τ → Bool) (okk : σ → τ → Kind → Role → Bool)

mutual
theorem trav_sim
    (hstep : ∀ s t k r, R s t = true → okk s t k r = true →
      (f1 s k r).1 = (f2 t k r).1 ∧ R (f1 s k r).2 (f2 t k r).2 = true) :
    ∀ (n : Node) (s : σ) (t : τ), R s t = true → goodG f1 f2 okk s t n = true →
      trav f1 s n = trav f2 t n ∧ travB f1 s n = travB f2 t n
  | .mk i k r ns kids, s, t, hR, hg => by
    simp only [goodG, Bool.and_eq_true] at hg
    obtain ⟨h1, h2⟩ := hstep s t k r hR hg.1
    have ih := travL_sim hstep kids _ _ h2 hg.2
    simp only [trav, travB, h1, ih.1, ih.2, and_self]
theorem travL_sim
    (hstep : ∀ s t k r, R s t = true → okk s t k r = true →
      (f1 s k r).1 = (f2 t k r).1 ∧ R (f1 s k r).2 (f2 t k r).2 = true) :
    ∀ (l : List Node) (s : σ) (t : τ), R s t = true → goodGL f1 f2 okk s t l = true →
      travL f1 s l = travL f2 t l ∧ travLB f1 s l = travLB f2 t l
  | [], _, _, _, _ => ⟨rfl, rfl⟩
  | n :: rest, s, t, hR, hg => by
    simp only [goodGL, Bool.and_eq_true] at hg
    have h1 := trav_sim hstep n s t hR hg.1
    have h2 := travL_sim hstep rest s t hR hg.2
    simp only [travL, travLB, h1.1, h1.2, h2.1, h2.2, and_self]
end
end sim

/-! ### direction: the backward walk yields the same nodes -/

section dir
variable {σ : Type} (f : σ → Kind → Role → Bool × σ)

mutual
theorem travB_perm : ∀ (n : Node) (s : σ), (travB f s n).Perm (trav f s n)
  | .mk i k r ns kids, s => by
    simp only [travB, trav]
    exact List.Perm.append_left _ (travLB_perm kids _)
theorem travLB_perm : ∀ (l : List Node) (s : σ), (travLB f s l).Perm (travL f s l)
  | [], _ => List.Perm.refl _
  | n :: rest, s => by
    simp only [travLB, travL]
    exact (List.perm_append_comm).trans (List.Perm.append (travB_perm n s) (travLB_perm rest s))
end
end dir

/-! ### replacement during the walk -/

section repl
variable {σ : Type} (old : Nat → Kind → Kind) (f : σ → Kind → Role → Bool × σ)

mutual
theorem travO_eq (hk : ∀ s k k' r, (f s k r).1 = (f s k' r).1) : ∀ (n : Node) (s : σ), travO old f s n = trav f s n
  | .mk i k r ns kids, s => by
    simp only [travO, trav, hk s (old i k) k r, travLO_eq hk kids]
theorem travLO_eq (hk : ∀ s k k' r, (f s k r).1 = (f s k' r).1) : ∀ (l : List Node) (s : σ), travLO old f s l = travL f s l
  | [], _ => rfl
  | n :: rest, s => by
    simp only [travLO, travL, travO_eq hk n, travLO_eq hk rest]
end
end repl

/-! ### filtering -/

section filt
variable {σ : Type} (f : σ → Kind → Role → Bool × σ) (p : Kind → Bool)

def filtTable (s : σ) (k : Kind) (r : Role) : Bool × σ := ((f s k r).1 && p k, (f s k r).2)

mutual
theorem trav_filter : ∀ (n : Node) (s : σ),
    trav (filtTable f p) s n = (trav f s n).filter (fun m => p m.kind)
  | .mk i k r ns kids, s => by
    have ih := travL_filter kids (f s k r).2
    simp only [trav, filtTable, List.filter_append, ih]
    congr 1
    by_cases h1 : (f s k r).1 = true <;> by_cases h2 : p k = true <;> simp [h1, h2, Node.kind]
theorem travL_filter : ∀ (l : List Node) (s : σ),
    travL (filtTable f p) s l = (travL f s l).filter (fun m => p m.kind)
  | [], _ => rfl
  | n :: rest, s => by
    simp only [travL, List.filter_append, trav_filter n s, travL_filter rest s]
end
end filt

/-! ### the finite check -/

def Pos.all : List Pos := [.norm, .hdr, .args, .argn, .tpn, .comp0, .gen0, .gen1, .ne]
def MPos.all : List MPos :=
  [.loop, .dead, .rootDef, .rootLam, .rootArgs, .rootComp0, .rootGen0, .rootGen1, .hdrFunc, .hdrClass, .hdrLam,
   .hdrArgs, .lamArgs, .pick, .cw0, .cwGen0, .cw, .cwT]
def Kind.all : List Kind :=
  [.module, .funcdef, .lambda, .classdef, .comp, .arguments, .arg, .tparam, .gen, .namedexpr, .nameLoad, .nameStore, .nameDel,
   .global, .nonlocal, .import_, .augassign, .handler, .matchAs, .matchStar, .matchMap, .other]
def Role.all : List Role :=
  [.plain, .deco, .tparam, .args, .returns, .body, .argr, .dflt, .ann, .bound, .base, .kw, .elt, .gen0, .gen, .target, .iter,
   .cond, .wtarget]
def boolAll : List Bool := [false, true]

theorem Pos.mem_all (p : Pos) : p ∈ Pos.all := by cases p <;> decide
theorem MPos.mem_all (p : MPos) : p ∈ MPos.all := by cases p <;> decide
theorem Kind.mem_all (p : Kind) : p ∈ Kind.all := by cases p <;> decide
theorem Role.mem_all (p : Role) : p ∈ Role.all := by cases p <;> decide
theorem mem_boolAll (b : Bool) : b ∈ boolAll := by cases b <;> decide

/-- the tables look at a kind only through `kc`, `isSym` and "is it ClassDef": one representative per combination -/
def Kind.rep : Kind → Kind
  | .funcdef => .funcdef | .classdef => .classdef | .lambda => .lambda | .comp => .comp | .namedexpr => .namedexpr
  | .tparam | .nameLoad | .nameStore | .nameDel | .arg | .augassign | .import_ | .nonlocal | .global | .handler | .matchAs
  | .matchStar | .matchMap => .nameLoad
  | _ => .other
def Kind.reps : List Kind := [.funcdef, .classdef, .lambda, .comp, .namedexpr, .nameLoad, .other]
/-- roles no table mentions behave like `plain` -/
def Role.rep : Role → Role
  | .ann | .bound | .elt | .target | .cond => .plain
  | r => r
def Role.reps : List Role :=
  [.plain, .deco, .tparam, .args, .returns, .body, .argr, .dflt, .base, .kw, .gen0, .gen, .iter, .wtarget]

theorem Kind.rep_mem (k : Kind) : k.rep ∈ Kind.reps := by cases k <;> decide
theorem Role.rep_mem (r : Role) : r.rep ∈ Role.reps := by cases r <;> decide

theorem mStep_rep (flt : Bool) (m : MPos) (k : Kind) (r : Role) : mStep flt m k r = mStep flt m k.rep r.rep := by
  have h1 : mStep flt m k r = mStep flt m k.rep r := by cases k <;> rfl
  have h2 : mStep flt m k.rep r = mStep flt m k.rep r.rep := by cases r <;> rfl
  rw [h1, h2]
theorem ctx_rep (s : SS Bool) (r : Role) : s.ctx r = s.ctx r.rep := by
  obtain ⟨p, a, b, c, d⟩ := s
  cases r <;> first | rfl | (cases p <;> rfl)
theorem kidsOf_rep (s : SS Bool) (k : Kind) (r : Role) : s.kidsOf false k r = s.kidsOf false k.rep r.rep := by
  have h1 : s.kidsOf false k r = s.kidsOf false k.rep r := by cases k <;> rfl
  have h2 : s.kidsOf false k.rep r = s.kidsOf false k.rep r.rep := by
    obtain ⟨p, a, b, c, d⟩ := s
    cases r <;> first | rfl | (cases p <;> rfl)
  rw [h1, h2]
theorem sStepF_rep (flt : Bool) (s : SS Bool) (k : Kind) (r : Role) : sStepF flt s k r = sStepF flt s k.rep r.rep := by
  have h1 : k.isSym = k.rep.isSym := by cases k <;> rfl
  simp only [sStepF, sStep, ctx_rep s r, kidsOf_rep s k r, h1]
theorem ok_rep (s : SS Bool) (m : MPos) (k : Kind) (r : Role) : ok s m k r = ok s m k.rep r.rep := by
  have h1 : ok s m k r = ok s m k.rep r := by cases k <;> rfl
  have h2 : ok s m k.rep r = ok s m k.rep r.rep := by cases r <;> rfl
  rw [h1, h2]
/-- everything `trav_sim` needs of one related pair of states, for every (representative) kind and role, as a Boolean -/
def checkPair (flt : Bool) (s : SS Bool) (m : MPos) : Bool :=
  !rel s m ||
  (Role.reps.all fun r =>
    Kind.reps.all fun k =>
      !ok s m k r ||
      ((sStepF flt s k r).1 == (mStep flt m k r).1 && rel (sStepF flt s k r).2 (mStep flt m k r).2))

/-- all spec states against one model state and one filter setting -/
def checkM (flt : Bool) (m : MPos) : Bool :=
  Pos.all.all fun p => boolAll.all fun a => boolAll.all fun b => boolAll.all fun c =>
    boolAll.all fun d => checkPair flt ⟨p, a, b, c, d⟩ m

-- one kernel evaluation per (filter, model state): independent theorems, so that they are checked in parallel
private theorem chk_false_loop : checkM false .loop = true := by decide +kernel
private theorem chk_false_dead : checkM false .dead = true := by decide +kernel
private theorem chk_false_rootDef : checkM false .rootDef = true := by decide +kernel
private theorem chk_false_rootLam : checkM false .rootLam = true := by decide +kernel
private theorem chk_false_rootArgs : checkM false .rootArgs = true := by decide +kernel
private theorem chk_false_rootComp0 : checkM false .rootComp0 = true := by decide +kernel
private theorem chk_false_rootGen0 : checkM false .rootGen0 = true := by decide +kernel
private theorem chk_false_rootGen1 : checkM false .rootGen1 = true := by decide +kernel
private theorem chk_false_hdrFunc : checkM false .hdrFunc = true := by decide +kernel
private theorem chk_false_hdrClass : checkM false .hdrClass = true := by decide +kernel
private theorem chk_false_hdrLam : checkM false .hdrLam = true := by decide +kernel
private theorem chk_false_hdrArgs : checkM false .hdrArgs = true := by decide +kernel
private theorem chk_false_lamArgs : checkM false .lamArgs = true := by decide +kernel
private theorem chk_false_pick : checkM false .pick = true := by decide +kernel
private theorem chk_false_cw0 : checkM false .cw0 = true := by decide +kernel
private theorem chk_false_cwGen0 : checkM false .cwGen0 = true := by decide +kernel
private theorem chk_false_cw : checkM false .cw = true := by decide +kernel
private theorem chk_false_cwT : checkM false .cwT = true := by decide +kernel
private theorem chk_true_loop : checkM true .loop = true := by decide +kernel
private theorem chk_true_dead : checkM true .dead = true := by decide +kernel
private theorem chk_true_rootDef : checkM true .rootDef = true := by decide +kernel
private theorem chk_true_rootLam : checkM true .rootLam = true := by decide +kernel
private theorem chk_true_rootArgs : checkM true .rootArgs = true := by decide +kernel
private theorem chk_true_rootComp0 : checkM true .rootComp0 = true := by decide +kernel
private theorem chk_true_rootGen0 : checkM true .rootGen0 = true := by decide +kernel
private theorem chk_true_rootGen1 : checkM true .rootGen1 = true := by decide +kernel
private theorem chk_true_hdrFunc : checkM true .hdrFunc = true := by decide +kernel
private theorem chk_true_hdrClass : checkM true .hdrClass = true := by decide +kernel
private theorem chk_true_hdrLam : checkM true .hdrLam = true := by decide +kernel
private theorem chk_true_hdrArgs : checkM true .hdrArgs = true := by decide +kernel
private theorem chk_true_lamArgs : checkM true .lamArgs = true := by decide +kernel
private theorem chk_true_pick : checkM true .pick = true := by decide +kernel
private theorem chk_true_cw0 : checkM true .cw0 = true := by decide +kernel
private theorem chk_true_cwGen0 : checkM true .cwGen0 = true := by decide +kernel
private theorem chk_true_cw : checkM true .cw = true := by decide +kernel
private theorem chk_true_cwT : checkM true .cwT = true := by decide +kernel

theorem checkM_true (flt : Bool) (m : MPos) : checkM flt m = true := by
  cases flt <;> cases m
  · exact chk_false_loop
  · exact chk_false_dead
  · exact chk_false_rootDef
  · exact chk_false_rootLam
  · exact chk_false_rootArgs
  · exact chk_false_rootComp0
  · exact chk_false_rootGen0
  · exact chk_false_rootGen1
  · exact chk_false_hdrFunc
  · exact chk_false_hdrClass
  · exact chk_false_hdrLam
  · exact chk_false_hdrArgs
  · exact chk_false_lamArgs
  · exact chk_false_pick
  · exact chk_false_cw0
  · exact chk_false_cwGen0
  · exact chk_false_cw
  · exact chk_false_cwT
  · exact chk_true_loop
  · exact chk_true_dead
  · exact chk_true_rootDef
  · exact chk_true_rootLam
  · exact chk_true_rootArgs
  · exact chk_true_rootComp0
  · exact chk_true_rootGen0
  · exact chk_true_rootGen1
  · exact chk_true_hdrFunc
  · exact chk_true_hdrClass
  · exact chk_true_hdrLam
  · exact chk_true_hdrArgs
  · exact chk_true_lamArgs
  · exact chk_true_pick
  · exact chk_true_cw0
  · exact chk_true_cwGen0
  · exact chk_true_cw
  · exact chk_true_cwT

theorem checkPair_true (flt : Bool) (s : SS Bool) (m : MPos) : checkPair flt s m = true := by
  have h := checkM_true flt m
  simp only [checkM, List.all_eq_true] at h
  obtain ⟨p, a, b, c, d⟩ := s
  exact h p (Pos.mem_all _) a (mem_boolAll _) b (mem_boolAll _) c (mem_boolAll _) d (mem_boolAll _)

theorem step_ok (flt : Bool) (s : SS Bool) (m : MPos) (k : Kind) (r : Role) (hR : rel s m = true)
    (hk : ok s m k r = true) :
    (sStepF flt s k r).1 = (mStep flt m k r).1 ∧ rel (sStepF flt s k r).2 (mStep flt m k r).2 = true := by
  have h := checkPair_true flt s m
  simp only [checkPair, hR, Bool.not_true, Bool.false_or, List.all_eq_true, Bool.and_eq_true, Bool.or_eq_true,
    Bool.not_eq_true', beq_iff_eq] at h
  have h2 := h r.rep (Role.rep_mem r) k.rep (Kind.rep_mem k)
  rw [ok_rep] at hk
  rw [sStepF_rep, mStep_rep]
  rcases h2 with h2 | h2
  · rw [hk] at h2; cases h2
  · exact h2

theorem init_rel (k : Kind) : rel (sInit true k) (mInit k) = true := by cases k <;> decide

theorem sStepF_eq (flt : Bool) : sStepF flt = filtTable sStep (fun k => !flt || k.isSym) := rfl

/-- the states the model reaches do not depend on the `all` filter -/
def kidsIndep : Bool :=
  MPos.all.all fun m => Kind.all.all fun k => Role.all.all fun r => (mStep true m k r).2 == (mStep false m k r).2

theorem kidsIndep_true : kidsIndep = true := by decide +kernel

theorem mStep_snd (flt : Bool) (m : MPos) (k : Kind) (r : Role) : (mStep flt m k r).2 = (mStep false m k r).2 := by
  cases flt
  · rfl
  · have h := kidsIndep_true
    simp only [kidsIndep, List.all_eq_true, beq_iff_eq] at h
    exact h m (MPos.mem_all m) k (Kind.mem_all k) r (Role.mem_all r)

section congr
variable {σ τ : Type} (f1 f1' : σ → Kind → Role → Bool × σ) (f2 f2' : τ → Kind → Role → Bool × τ)
  (okk : σ → τ → Kind → Role → Bool)

mutual
theorem goodG_congr (h1 : ∀ s k r, (f1 s k r).2 = (f1' s k r).2) (h2 : ∀ t k r, (f2 t k r).2 = (f2' t k r).2) :
    ∀ (n : Node) (s : σ) (t : τ), goodG f1 f2 okk s t n = goodG f1' f2' okk s t n
  | .mk i k r ns kids, s, t => by
    simp only [goodG, h1, h2, goodGL_congr h1 h2 kids]
theorem goodGL_congr (h1 : ∀ s k r, (f1 s k r).2 = (f1' s k r).2) (h2 : ∀ t k r, (f2 t k r).2 = (f2' t k r).2) :
    ∀ (l : List Node) (s : σ) (t : τ), goodGL f1 f2 okk s t l = goodGL f1' f2' okk s t l
  | [], _, _ => rfl
  | n :: rest, s, t => by
    simp only [goodGL, goodG_congr h1 h2 n, goodGL_congr h1 h2 rest]
end
end congr

/-- whether the model yields a node does not depend on the node's class when `all=True` -/
def emitIndep : Bool :=
  MPos.all.all fun m => Kind.all.all fun k => Role.all.all fun r => (mStep false m k r).1 == (mStep false m .other r).1

theorem emitIndep_true : emitIndep = true := by decide +kernel

theorem mStep_emit (m : MPos) (k k' : Kind) (r : Role) : (mStep false m k r).1 = (mStep false m k' r).1 := by
  have h := emitIndep_true
  simp only [emitIndep, List.all_eq_true, beq_iff_eq] at h
  rw [h m (MPos.mem_all m) k (Kind.mem_all k) r (Role.mem_all r), h m (MPos.mem_all m) k' (Kind.mem_all k') r (Role.mem_all r)]

/-- The model's scope walk of `r` yields, in order, exactly the spec's nodes of the scope (plus walrus targets when `r`
is a comprehension) that pass the `all` filter; the backward walk is the backward traversal of the same. -/
theorem walkRoot_eq (flt : Bool) (r : Node) (hg : goodRoot r = true) :
    walkRoot flt r = (ownedWalk r).filter (fun n => !flt || n.kind.isSym) ∧
    walkRootB flt r = travLB (sStepF flt) (sInit true r.kind) r.kids := by
  have hg' : goodGL (sStepF flt) (mStep flt) ok (sInit true r.kind) (mInit r.kind) r.kids = true := by
    rw [goodGL_congr (sStepF flt) sStep (mStep flt) (mStep false) ok (fun _ _ _ => rfl)
      (fun t k r => mStep_snd flt t k r)]
    exact hg
  have h := travL_sim (sStepF flt) (mStep flt) rel ok
    (fun s t k r hR hk => step_ok flt s t k r hR hk)
    r.kids (sInit true r.kind) (mInit r.kind) (init_rel r.kind) hg'
  refine ⟨?_, h.2.symm⟩
  unfold walkRoot ownedWalk
  rw [← h.1, sStepF_eq, travL_filter]

/-- the walk over explicitly given nodes (`asts=`) yields everything below them that belongs to the two scopes involved -/
theorem walkAsts_eq (flt : Bool) (r : Node) (hg : goodAsts r = true) :
    walkAsts flt r = (ownedAsts r).filter (fun n => !flt || n.kind.isSym) := by
  have hg' : goodGL (sStepF flt) (mStep flt) ok ⟨.norm, true, true, true, true⟩ .loop r.kids = true := by
    rw [goodGL_congr (sStepF flt) sStep (mStep flt) (mStep false) ok (fun _ _ _ => rfl)
      (fun t k r => mStep_snd flt t k r)]
    exact hg
  have h := travL_sim (sStepF flt) (mStep flt) rel ok
    (fun s t k r hR hk => step_ok flt s t k r hR hk)
    r.kids ⟨.norm, true, true, true, true⟩ .loop (by decide) hg'
  unfold walkAsts ownedAsts
  rw [← h.1, sStepF_eq, travL_filter]

/-! ### `scope_symbols` fold -/

theorem addKeys_nil (l : List Nat) : addKeys l [] = l := rfl

/-- the five dicts the loop of `scope_symbols` fills -/
structure Core where
  load : List Nat
  store : List Nat
  del : List Nat
  glob : List Nat
  nonl : List Nat
deriving DecidableEq

def Acc.core (a : Acc) : Core := ⟨a.load, a.store, a.del, a.glob, a.nonl⟩

/-- spec step: add what the node reads / binds / deletes / declares -/
def cStep (c : Core) (n : Node) : Core :=
  ⟨addKeys c.load (reads n), addKeys c.store (binds n), addKeys c.del (dels n), addKeys c.glob (globs n),
   addKeys c.nonl (nonls n)⟩

theorem symStep_core (a : Acc) (n : Node) :
    (if n.kind.isSym then symStep false a n else a).core = cStep a.core n ∧
    (if n.kind.isSym then symStep false a n else a).walrus = a.walrus := by
  obtain ⟨i, k, r, ns, kids⟩ := n
  cases k <;>
    simp_all [Kind.isSym, symStep, cStep, Acc.core, reads, binds, dels, globs, nonls, Node.kind, Node.names,
      addKeys_nil, Node.role]

theorem fold_sym : ∀ (l : List Node) (a : Acc),
    ((l.filter fun n => n.kind.isSym).foldl (symStep false) a).core = l.foldl cStep a.core ∧
    ((l.filter fun n => n.kind.isSym).foldl (symStep false) a).walrus = a.walrus
  | [], _ => ⟨rfl, rfl⟩
  | n :: rest, a => by
    have hn := symStep_core a n
    by_cases hs : n.kind.isSym = true
    · simp only [hs, if_true] at hn
      have ih := fold_sym rest (symStep false a n)
      simp only [List.filter_cons, hs, if_true, List.foldl_cons, ih.1, ih.2, hn.1, hn.2, and_self]
    · simp only [hs, Bool.false_eq_true, if_false] at hn
      have ih := fold_sym rest a
      simp only [List.filter_cons, hs, Bool.false_eq_true, if_false, List.foldl_cons, ← hn.1]
      exact ih

theorem foldl_cStep (l : List Node) : ∀ c : Core,
    l.foldl cStep c = ⟨l.foldl (fun a n => addKeys a (reads n)) c.load, l.foldl (fun a n => addKeys a (binds n)) c.store,
      l.foldl (fun a n => addKeys a (dels n)) c.del, l.foldl (fun a n => addKeys a (globs n)) c.glob,
      l.foldl (fun a n => addKeys a (nonls n)) c.nonl⟩ := by
  induction l with
  | nil => intro c; rfl
  | cons n rest ih => intro c; simp only [List.foldl_cons, ih, cStep]

/-! ### the global labelling lists every node once -/

mutual
theorem labels_fst : ∀ (n : Node) (s : SS Nat), (labels s n).map (·.1) = (preorder n).map Node.id
  | .mk i k r ns kids, s => by
    simp only [labels, preorder, List.map_cons, Node.id, labelsL_fst _ kids]
theorem labelsL_fst : ∀ (s : SS Nat) (l : List Node), (labelsL s l).map (·.1) = (preorderL l).map Node.id
  | _, [] => rfl
  | s, n :: rest => by
    simp only [labelsL, preorderL, List.map_append, labels_fst n s, labelsL_fst s rest]
end

end Pfst.Scope
