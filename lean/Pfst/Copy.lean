import Pfst.Offset
/-
Model of `fst_core._make_fst_and_dedent` (src/fst/fst_core.py) — the one function through which `copy()`, `cut()`,
`get()` and `get_slice()` build the returned tree — together with what it calls: `_get_src(as_lines=True)`, the rebase
`fst_._offset(ln, col, prefix_extra_lns - ln, prefix_col_offset - c2b(col))` (the walk itself is `Pfst.Offset`),
prefix / suffix attachment, `_get_indentable_lns` on the new root (`range(skip, len(lines))` minus the continuation
lines of multi-line strings, which come from `tokenize` and are an input here), `_dedent_lns`, `_indent_lns`,
`_offset_lns`, and for a cut `_put_src(put_lines, *put_loc, True)` on the source document.

Lines are lists of characters; AST positions are 1-based line numbers and *byte* columns, source coordinates
(`copy_loc`, `put_loc`) are 0-based lines and *character* columns, exactly as in the code: `c2b` converts.
Only import: the import-free offset model (this file is linked into the native driver).
-/
namespace Pfst.Copy
open Pfst.Offset

abbrev Line := List Char
abbrev Lines := List Line

/-- `len(s.encode())` -/
def blen : Line → Nat
  | [] => 0
  | c :: r => c.utf8Size + blen r

/-- `bistr.c2b(idx)` for `0 ≤ idx ≤ len` -/
def c2b (l : Line) (idx : Nat) : Nat := blen (l.take idx)

def lineAt (L : Lines) (i : Nat) : Line := L.getD i []

/-- `l[a:b]` for non-negative `a`, `b` -/
def slice (l : Line) (a b : Nat) : Line := (l.take b).drop a

/-- `FST._get_src(ln, col, end_ln, end_col, as_lines=True)` (fst_core.py) -/
def getSrc (L : Lines) (ln col endLn endCol : Nat) : Lines :=
  if endLn == ln then [slice (lineAt L ln) col endCol]
  else [(lineAt L ln).drop col] ++ (L.take endLn).drop (ln + 1) ++ [(lineAt L endLn).take endCol]

/-- `suffix[0] = fst_lines[-1] + suffix[0]; fst_lines[-1:] = suffix` (`none` = falsy suffix) -/
def addSuffix (L : Lines) : Option Lines → Lines
  | none => L
  | some [] => L                                        -- `if suffix:` is false for an empty list
  | some (s0 :: srest) => L.dropLast ++ ((L.getLastD [] ++ s0) :: srest)

/-- `prefix[-1] += fst_lines[0]; fst_lines[:1] = prefix` -/
def addPrefix (L : Lines) : Option Lines → Lines
  | none => L
  | some [] => L
  | some (p0 :: prest) => (p0 :: prest).dropLast ++ (((p0 :: prest).getLastD [] ++ L.headD []) :: L.tail)

/-- `prefix_extra_lns`, `prefix_col_offset` -/
def prefixExtra : Option Lines → Nat × Nat
  | none => (0, 0)
  | some [] => (0, 0)
  | some (p0 :: prest) => (prest.length, blen ((p0 :: prest).getLastD []))

/-- Parameters of the rebase `fst_._offset(copy_loc.ln, copy_loc.col, prefix_extra_lns - copy_loc.ln,
prefix_col_offset - lines[copy_loc.ln].c2b(copy_loc.col))` with the defaults `tail=False, head=True`.
`colo = lines[ln].c2b(min(col, len(l)))` (for `col = 0` the code takes `-col = 0`, the same value). -/
def rebaseParams (L : Lines) (ln col : Nat) (pfx : Option Lines) : Params :=
  let l := lineAt L ln
  let pe := prefixExtra pfx
  { lno := (ln : Int) + 1, colo := (c2b l (min col l.length) : Nat),
    dln := (pe.1 : Int) - ln, dcol := (pe.2 : Int) - (c2b l col : Nat), tail := .f, head := .t }

/-- `re_empty_line_start.match(l).end()`: number of leading blanks / tabs -/
def leadWs : Line → Nat
  | [] => 0
  | c :: r => if c == ' ' || c == '\t' then leadWs r + 1 else 0

def startsWith : Line → Line → Bool
  | _, [] => true
  | [], _ :: _ => false
  | a :: l, b :: p => a == b && startsWith l p

/-- One iteration of the loop of `_dedent_lns`: the new line and the column delta recorded for it (`0` = the line is
in `dont_offset`).  Full dedent if the line starts with `dedent` or has at least `len(dedent)` leading blanks,
otherwise all its leading blanks go ("inconsistent dedentation"). -/
def dedentLine (dedent : Line) (l : Line) : Line × Int :=
  if l.isEmpty then (l, 0)
  else if startsWith l dedent || decide (leadWs l ≥ dedent.length) then (l.drop dedent.length, -(dedent.length : Int))
  else (l.drop (leadWs l), -(leadWs l : Int))

/-- One iteration of the loop of `_indent_lns`: only non-empty lines are indented. -/
def indentLine (indent : Line) (l : Line) : Line × Int :=
  if l.isEmpty then (l, 0) else (indent ++ l, (blen indent : Int))

/-- `_get_indentable_lns(skip)` on a root: `set(range(skip, len(lines)))` minus the string continuation lines. -/
def indentable (n skip : Nat) (strLns : List Nat) (i : Nat) : Bool :=
  decide (skip ≤ i) && decide (i < n) && !strLns.contains i

/-- Apply a per-line edit on the lines selected by `sel`; returns the lines and the per-line column deltas. -/
def editLns (f : Line → Line × Int) (sel : Nat → Bool) : Nat → Lines → Lines × List Int
  | _, [] => ([], [])
  | i, l :: rest =>
    let r := editLns f sel (i + 1) rest
    if sel i then ((f l).1 :: r.1, (f l).2 :: r.2) else (l :: r.1, 0 :: r.2)

/-- `_offset_lns` on one position: `col_offset += d[lineno-1]`, `end_col_offset += d[end_lineno-1]` (a delta of `0`
and a missing key are the same thing in both branches of the code). -/
def offsetLnsPos (d : List Int) (p : Pos) : Pos :=
  { p with col := p.col + d.getD (p.lno - 1).toNat 0, ecol := p.ecol + d.getD (p.elno - 1).toNat 0 }

mutual
/-- `_offset_lns`: every node of the tree (`ast.walk`), no early exits. -/
def offsetLns (d : List Int) : Node → Node
  | .mk i pos deco kids => .mk i (pos.map (offsetLnsPos d)) deco (offsetLnsList d kids)
def offsetLnsList (d : List Int) : List Node → List Node
  | [] => []
  | n :: rest => offsetLns d n :: offsetLnsList d rest
end

/-- `_dedent_lns(dedent, skip=skip)` on a root with lines `L`: `dedent == ''` returns at once. The two bookkeeping
paths of the code (one common `-len(dedent)` with a `dont_offset` set / a per-line dict once a line is found that
cannot be dedented fully) both amount to the per-line deltas computed here. -/
def dedentLns (dedent : Line) (skip : Nat) (strLns : List Nat) (L : Lines) (t : Node) : Lines × Node :=
  if dedent.isEmpty then (L, t)
  else
    let r := editLns (dedentLine dedent) (indentable L.length skip strLns) 0 L
    (r.1, offsetLns r.2 t)

/-- `_indent_lns(indent, skip=skip)` on a root. -/
def indentLns (indent : Line) (skip : Nat) (strLns : List Nat) (L : Lines) (t : Node) : Lines × Node :=
  if indent.isEmpty then (L, t)
  else
    let r := editLns (indentLine indent) (indentable L.length skip strLns) 0 L
    (r.1, offsetLns r.2 t)

structure Loc where
  ln : Nat
  col : Nat
  endLn : Nat
  endCol : Nat
deriving Repr, DecidableEq, Inhabited

/-- A document: source lines and position tree. -/
structure Doc where
  lines : Lines
  tree : Node
deriving Repr, Inhabited

structure CopyArgs where
  indent : Line                 -- resolved block indent (`indent._get_block_indent()` or the string passed)
  loc : Loc                     -- `copy_loc`
  pfx : Option Lines := none
  sfx : Option Lines := none
  strLns : List Nat := []       -- lines of the NEW root that `_get_indentable_lns` excludes (input from `tokenize`)
deriving Repr, Inhabited

/-- `skip = bool(copy_loc.col) + prefix_extra_lns` -/
def skipOf (a : CopyArgs) : Nat := (if a.loc.col != 0 then 1 else 0) + (prefixExtra a.pfx).1

/-- The new root built by `_make_fst_and_dedent` from the subtree `sub` (a clone, `copy_ast`, for a copy; the detached
nodes themselves for a cut) and the lines of the source: rebase on the *original* lines, crop, suffix, prefix, dedent —
in this order. -/
def extract (L : Lines) (sub : Node) (a : CopyArgs) : Doc :=
  let t1 := offsetTree (rebaseParams L a.loc.ln a.loc.col a.pfx) sub
  let l1 := getSrc L a.loc.ln a.loc.col a.loc.endLn a.loc.endCol
  let l2 := addSuffix l1 a.sfx
  let l3 := addPrefix l2 a.pfx
  let r := dedentLns a.indent (skipOf a) a.strLns l3 t1
  { lines := r.1, tree := r.2 }

/-- copy: `(source document afterwards, new document)`; the source is not written. -/
def copyNode (d : Doc) (sub : Node) (a : CopyArgs) : Doc × Doc := (d, extract d.lines sub a)

/-! ### the cut half: `self._put_src(put_lines, *put_loc, True)` -/

/-- The line edit of `_put_src` (fst_core.py), branch for branch. `none` / `[]` = delete. -/
def putSrcLines (L : Lines) (p : Loc) (put : Option Lines) : Lines :=
  let l := lineAt L p.ln
  let le := lineAt L p.endLn
  match put with
  | none | some [] =>
    if p.endLn != p.ln then L.take p.ln ++ [l.take p.col ++ le.drop p.endCol] ++ L.drop (p.endLn + 1)
    else if p.endCol != p.col then L.take p.ln ++ [l.take p.col ++ l.drop p.endCol] ++ L.drop (p.ln + 1)
    else L
  | some [x] =>
    if p.endLn == p.ln then L.take p.ln ++ [l.take p.col ++ x ++ l.drop p.endCol] ++ L.drop (p.ln + 1)
    else L.take p.ln ++ [l.take p.col ++ x ++ le.drop p.endCol] ++ L.drop (p.endLn + 1)
  | some (x :: y :: rest) =>
    let putAll := x :: y :: rest
    if p.endLn == p.ln then
      L.take p.ln ++ [l.take p.col ++ x] ++ (y :: rest).dropLast ++ [putAll.getLastD [] ++ l.drop p.endCol]
        ++ L.drop (p.ln + 1)
    else
      L.take p.ln ++ [l.take p.col ++ x] ++ (y :: rest).dropLast ++ [putAll.getLastD [] ++ le.drop p.endCol]
        ++ L.drop (p.endLn + 1)

/-- `_params_offset(lines, put_lines, ln, col, end_ln, end_col)` on the model's lines. -/
def putParams (L : Lines) (p : Loc) (put : Option Lines) : Params :=
  let putLines : Lines := match put with | none | some [] => [[]] | some x => x
  let po := paramsOffset putLines.length p.ln p.endLn (c2b (lineAt L p.endLn) p.endCol)
              (blen (putLines.getLastD [])) (c2b (lineAt L p.ln) p.col)
  { lno := po.1 + 1, colo := -po.2.1, dln := po.2.2.1, dcol := po.2.2.2, tail := .t, head := .t }

/-- `_put_src(src, *loc, tail=True)`: `root._offset(*params_offset, True, True)`, then the line edit. -/
def putSrcTail (d : Doc) (p : Loc) (put : Option Lines) : Doc :=
  { lines := putSrcLines d.lines p put, tree := offsetTree (putParams d.lines p put) d.tree }

/-- cut: the new root is built first, from the unmodified lines, then the source is edited. `d.tree` is the source
tree from which the cut nodes have already been detached by the caller. -/
def cutNode (d : Doc) (sub : Node) (a : CopyArgs) (putLoc : Loc) (put : Option Lines) : Doc × Doc :=
  let new := extract d.lines sub a
  (putSrcTail d putLoc put, new)

/-- flat text: lines joined by newlines -/
def flat : Lines → Line
  | [] => []
  | [l] => l
  | l :: l2 :: rest => l ++ '\n' :: flat (l2 :: rest)

end Pfst.Copy
