import Pfst.Parse
import Pfst.GrammarLemmas
/-!
Lemmas about the precedence-climbing parser `Pfst/Parse.lean`:
fuel monotonicity, completeness with respect to the grammar `Derives` (on the fragment `inFrag`), soundness.
-/
namespace Pfst.Parse
open Pfst.Grammar

/-! ### fuel monotonicity -/

theorem mono_all (f : Nat) :
    (∀ m toks r, pE f m toks = some r → pE (f + 1) m toks = some r) ∧
    (∀ m toks r, pPre f m toks = some r → pPre (f + 1) m toks = some r) ∧
    (∀ m l ll bi toks r, pLoop f m l ll bi toks = some r → pLoop (f + 1) m l ll bi toks = some r) ∧
    (∀ toks r, pCmp f toks = some r → pCmp (f + 1) toks = some r) ∧
    (∀ tk q toks r, pBool f tk q toks = some r → pBool (f + 1) tk q toks = some r) := by
  induction f with
  | zero => simp [pE, pPre, pLoop, pCmp, pBool]
  | succ f ih =>
    obtain ⟨ihE, ihP, ihL, ihC, ihB⟩ := ih
    refine ⟨?_, ?_, ?_, ?_, ?_⟩
    · intro m toks r h
      rw [pE] at h ⊢
      split at h
      · next e lev bi rest heq => rw [ihP _ _ _ heq]; exact ihL _ _ _ _ _ _ h
      · cases h
    · intro m toks r h
      unfold pPre at h ⊢
      repeat' (split at h)
      all_goals (try cases h)
      all_goals first | rfl | grind
    · intro m l ll bi toks r h
      unfold pLoop at h ⊢
      repeat' (split at h)
      all_goals (try cases h)
      all_goals first | rfl | grind
    · intro toks r h
      unfold pCmp at h ⊢
      repeat' (split at h)
      all_goals (try cases h)
      all_goals first | rfl | grind
    · intro tk q toks r h
      unfold pBool at h ⊢
      repeat' (split at h)
      all_goals (try cases h)
      all_goals first | rfl | grind

theorem pE_mono {f g m toks r} (h : pE f m toks = some r) (hle : f ≤ g) : pE g m toks = some r := by
  induction hle with
  | refl => exact h
  | step _ ih => exact (mono_all _).1 _ _ _ ih

theorem pLoop_mono {f g m l ll bi toks r} (h : pLoop f m l ll bi toks = some r) (hle : f ≤ g) :
    pLoop g m l ll bi toks = some r := by
  induction hle with
  | refl => exact h
  | step _ ih => exact (mono_all _).2.2.1 _ _ _ _ _ _ ih

theorem pCmp_mono {f g toks r} (h : pCmp f toks = some r) (hle : f ≤ g) : pCmp g toks = some r := by
  induction hle with
  | refl => exact h
  | step _ ih => exact (mono_all _).2.2.2.1 _ _ ih

theorem pBool_mono {f g tk q toks r} (h : pBool f tk q toks = some r) (hle : f ≤ g) : pBool g tk q toks = some r := by
  induction hle with
  | refl => exact h
  | step _ ih => exact (mono_all _).2.2.2.2 _ _ _ _ ih

theorem pLoop_fuel_pos {f m l ll bi toks r} (h : pLoop f m l ll bi toks = some r) : 1 ≤ f := by
  cases f with
  | zero => simp [pLoop] at h
  | succ f => omega

/-! ### the operator table -/

theorem binLevel_range : ∀ op, op < 12 → 5 ≤ binLevel op ∧ binLevel op ≤ 10 := by decide

theorem infixLev_cases {t a b} (h : infixLev t = some (a, b)) :
    (5 ≤ a ∧ a ≤ 10 ∧ b = a) ∨ (a = 13 ∧ b = 12) ∨ (a = 5 ∧ b = 4) ∨ (a = 2 ∧ b = 1) ∨ (a = 3 ∧ b = 2) ∨
      (a = 1 ∧ b = 0) ∨ (a = 14 ∧ b = 14) := by
  cases t with
  | sym op =>
    simp only [infixLev] at h
    split at h
    · next h12 =>
      have := binLevel_range op h12
      simp only [Option.some.injEq, Prod.mk.injEq] at h
      omega
    · repeat' (split at h)
      all_goals simp [AWAIT, POWER, BOR, CMP, AND, OR, NOT, TEST, ATOM] at h
      all_goals omega
  | lp => simp [infixLev, ATOM] at h; omega
  | _ => simp [infixLev] at h

theorem follow_mono {a b rest} (h : follow a rest = true) (hab : a ≤ b) : follow b rest = true := by
  cases rest with
  | nil => rfl
  | cons t r =>
    simp only [follow] at h ⊢
    split <;> simp_all
    omega

theorem follow_cons {fl t rest a b} (h : infixLev t = some (a, b)) (hb : b < fl) : follow fl (t :: rest) = true := by
  simp [follow, h, hb]

theorem follow_top {fl rest} (h : 15 ≤ fl) : follow fl rest = true := by
  cases rest with
  | nil => rfl
  | cons t r =>
    simp only [follow]
    split
    · next a b heq => have := infixLev_cases heq; simp; omega
    · rfl

theorem follow_min {a b rest} (ha : follow a rest = true) (hb : follow b rest = true) : follow (min a b) rest = true := by
  rcases Nat.le_total a b with h | h
  · rwa [Nat.min_eq_left h]
  · rwa [Nat.min_eq_right h]

theorem follow_min_of {m q fl rest} (h : follow m rest = true) (hmq : m ≤ q)
    (hq : ∀ rest, follow q rest = true → follow fl rest = true) : follow (min q fl) rest = true :=
  follow_min (follow_mono h hmq) (hq rest (follow_mono h hmq))

/-- no infix construct has level `FACTOR` -/
theorem follow_12_11 {rest} (h : follow 12 rest = true) : follow 11 rest = true := by
  cases rest with
  | nil => rfl
  | cons t r =>
    simp only [follow] at h ⊢
    split
    · next a b heq => have := infixLev_cases heq; simp [heq] at h ⊢; omega
    · rfl

theorem follow_cons_none {fl t rest} (h : infixLev t = none) : follow fl (t :: rest) = true := by
  simp [follow, h]

local macro "stopc" : tactic =>
  `(tactic| (rw [if_neg]; intro hg; simp_all [AWAIT, POWER, BOR, CMP, AND, OR, NOT, TEST, ATOM, tPow, tIf, tDot, tLb]; try omega))

/-- the loop stops at a token that cannot continue a phrase of level `m` -/
theorem pLoop_stop {f m l ll bi rest} (h : follow m rest = true) :
    pLoop (f + 1) m l ll bi rest = some (l, ll, bi, rest) := by
  unfold pLoop
  cases rest with
  | nil => rfl
  | cons t r =>
    cases t with
    | sym op =>
      simp only [follow, infixLev] at h
      simp only
      split
      · stopc
      split
      · stopc
      split
      · stopc
      split
      · stopc
      split
      · stopc
      split
      · stopc
      split
      · stopc
      split
      · stopc
      rfl
    | lp =>
      simp only [follow, infixLev, ATOM, decide_eq_true_eq] at h
      simp only
      rw [if_neg]
      intro hg
      simp only [ATOM] at hg
      omega
    | _ => rfl

/-! ### completeness: the invariant -/

/-- `ts` is a phrase for `e` whose ladder level is `lev`, whose right edge sits in an operand slot of level `fl`, and
the parser, started in any slot that accepts level `lev`, reaches the loop state "left operand `e` parsed". -/
def Inv (ts : List Tok) (e : E) (lev fl : Nat) (bi : Bool) : Prop :=
  (∀ t a b, infixLev t = some (a, b) → a ≤ lev → b < fl) ∧
  ∀ m f f0 rest r, m ≤ lev ∨ GRP ≤ lev → follow fl rest = true →
    pLoop f0 m e lev bi rest = some r → f0 + 3 * ts.length ≤ f → pE f m (ts ++ rest) = some r

theorem inv_atom {t : Tok} {e : E} {bi : Bool} {lev : Nat}
    (hP : ∀ f m rest, pPre (f + 1) m (t :: rest) = some (e, lev, bi, rest)) : Inv [t] e lev 15 bi := by
  refine ⟨fun t a b h _ => by have := infixLev_cases h; omega, ?_⟩
  intro m f f0 rest r _ _ hl hf
  simp only [List.length_cons, List.length_nil] at hf
  obtain ⟨f', rfl⟩ : ∃ f', f = f' + 2 := ⟨f - 2, by omega⟩
  rw [pE, List.singleton_append, hP]
  exact pLoop_mono hl (by omega)

theorem inv_paren {ts : List Tok} {e : E} {lev fl : Nat} {bi : Bool} (h : Inv ts e lev fl bi) :
    Inv (Tok.lp :: ts ++ [Tok.rp]) e GRP 15 false := by
  refine ⟨fun t a b h _ => by have := infixLev_cases h; omega, ?_⟩
  intro m f f0 rest r _ _ hl hf
  simp only [List.length_cons, List.length_append, List.length_nil] at hf
  obtain ⟨f', rfl⟩ : ∃ f', f = f' + 2 := ⟨f - 2, by omega⟩
  have hin : pE f' TEST (ts ++ (Tok.rp :: rest)) = some (e, lev, bi, Tok.rp :: rest) := by
    refine h.2 TEST f' 1 _ _ (Or.inl (by simp [TEST])) (follow_cons_none rfl) (pLoop_stop (follow_cons_none rfl)) (by omega)
  have : pPre (f' + 1) m (Tok.lp :: ts ++ [Tok.rp] ++ rest) = some (e, GRP, false, rest) := by
    simp only [pPre, List.cons_append, List.append_assoc, List.nil_append, hin]
  rw [pE, this]
  exact pLoop_mono hl (by omega)

/-- prefix constructs: level `p`, operand slot `q` -/
theorem inv_prefix {pre tx : List Tok} {mk : E → E} {x : E} {p q levx flx : Nat} {bix : Bool}
    (hpre : 1 ≤ pre.length) (hpq : p ≤ q) (hq14 : p < ATOM)
    (hP : ∀ f m rest, m ≤ p → pPre (f + 1) m (pre ++ rest) =
      match pE f q rest with
      | some (x, _, _, r) => some (mk x, p, false, r)
      | none => none)
    (htab : ∀ t a b, infixLev t = some (a, b) → a ≤ p → b < q)
    (hx : Inv tx x levx flx bix) (hqx : q ≤ levx) : Inv (pre ++ tx) (mk x) p (min q flx) false := by
  refine ⟨fun t a b h ha => ?_, ?_⟩
  · have h1 := htab t a b h ha
    have h2 := hx.1 t a b h (by omega)
    omega
  · intro m f f0 rest r hm hfol hl hf
    have hm : m ≤ p := by simp only [ATOM, GRP] at hm hq14; omega
    simp only [List.length_append] at hf
    obtain ⟨f', rfl⟩ : ∃ f', f = f' + 2 := ⟨f - 2, by omega⟩
    have hin : pE f' q (tx ++ rest) = some (x, levx, bix, rest) :=
      hx.2 q f' 1 _ _ (Or.inl hqx) (follow_mono hfol (Nat.min_le_right _ _))
        (pLoop_stop (follow_mono hfol (Nat.min_le_left _ _))) (by omega)
    rw [pE, List.append_assoc, hP _ _ _ hm, hin]
    exact pLoop_mono hl (by omega)

/-- binary infix constructs: left slot `a`, own level `b`, right slot `q` -/
theorem inv_binary {tok : Tok} {tl tr : List Tok} {mk : E → E → E} {l r : E} {a b q levl fll levr flr : Nat}
    {bil bir : Bool} (hinf : infixLev tok = some (a, b)) (hb14 : b < ATOM)
    (hL : ∀ f m l ll bi rest, m ≤ b → a ≤ ll → pLoop (f + 1) m l ll bi (tok :: rest) =
      match pE f q rest with
      | some (r, _, _, rest') => pLoop f m (mk l r) b false rest'
      | none => none)
    (htab : ∀ t a' b', infixLev t = some (a', b') → a' ≤ b → b' < q ∧ a' ≤ q)
    (hl : Inv tl l levl fll bil) (hal : a ≤ levl) (hr : Inv tr r levr flr bir) (hqr : q ≤ levr) :
    Inv (tl ++ tok :: tr) (mk l r) b (min q flr) false := by
  have hba : b ≤ a := by have := infixLev_cases hinf; omega
  refine ⟨fun t a' b' h ha => ?_, ?_⟩
  · have h1 := htab t a' b' h ha
    have h2 := hr.1 t a' b' h (by omega)
    omega
  · intro m f f0 rest res hm hfol hloop hf
    have hm : m ≤ b := by simp only [ATOM, GRP] at hm hb14; omega
    simp only [List.length_append, List.length_cons] at hf
    have f0pos := pLoop_fuel_pos hloop
    rw [List.append_assoc]
    refine hl.2 m f (f0 + 3 * tr.length + 2) _ _ (Or.inl (by omega)) (follow_cons hinf (hl.1 _ _ _ hinf hal)) ?_ (by omega)
    have hin : pE (f0 + 3 * tr.length + 1) q (tr ++ rest) = some (r, levr, bir, rest) :=
      hr.2 q _ 1 _ _ (Or.inl hqr) (follow_mono hfol (Nat.min_le_right _ _))
        (pLoop_stop (follow_mono hfol (Nat.min_le_left _ _))) (by omega)
    rw [List.cons_append, hL _ _ _ _ _ _ hm hal, hin]
    exact pLoop_mono hloop (by omega)

theorem follow_zero {rest k} (h : follow 0 rest = true) : follow k rest = true := follow_mono h (Nat.zero_le _)

/-- conditional expression -/
theorem inv_ifexp {tb tt to : List Tok} {b t o : E} {levb flb levt flt levo flo : Nat} {bib bit bio : Bool}
    (hb : Inv tb b levb flb bib) (hbl : OR ≤ levb) (ht : Inv tt t levt flt bit) (htl : OR ≤ levt)
    (ho : Inv to o levo flo bio) :
    Inv (tb ++ [Tok.sym tIf] ++ tt ++ [Tok.sym tElse] ++ to) (.node .ifexp [b, t, o]) TEST 0 false := by
  have hinf : infixLev (Tok.sym tIf) = some (OR, TEST) := rfl
  refine ⟨fun t a b h ha => ?_, ?_⟩
  · have := infixLev_cases h; simp only [TEST] at ha; omega
  · intro m f f0 rest res hm hfol hloop hf
    have hm : m ≤ TEST := by simp only [GRP, TEST] at hm ⊢; omega
    simp only [List.length_append, List.length_cons, List.length_nil] at hf
    have f0pos := pLoop_fuel_pos hloop
    simp only [List.append_assoc, List.cons_append, List.nil_append]
    refine hb.2 m f (f0 + 3 * tt.length + 3 * to.length + 4) _ _ (Or.inl (by simp only [TEST] at hm; omega))
      (follow_cons hinf (hb.1 _ _ _ hinf hbl)) ?_ (by omega)
    have hin1 : pE (f0 + 3 * tt.length + 3 * to.length + 3) OR (tt ++ Tok.sym tElse :: (to ++ rest)) =
        some (t, levt, bit, Tok.sym tElse :: (to ++ rest)) :=
      ht.2 OR _ 1 _ _ (Or.inl htl) (follow_cons_none rfl) (pLoop_stop (follow_cons_none rfl)) (by omega)
    have hin2 : pE (f0 + 3 * tt.length + 3 * to.length + 3) TEST (to ++ rest) = some (o, levo, bio, rest) :=
      ho.2 TEST _ 1 _ _ (Or.inl (by simp [TEST])) (follow_zero hfol) (pLoop_stop (follow_zero hfol)) (by omega)
    have : pLoop (f0 + 3 * tt.length + 3 * to.length + 3 + 1) m b levb bib
        (Tok.sym tIf :: (tt ++ Tok.sym tElse :: (to ++ rest))) =
        pLoop (f0 + 3 * tt.length + 3 * to.length + 3) m (.node .ifexp [b, t, o]) TEST false rest := by
      conv => lhs; unfold pLoop
      simp only [tIf, tPow, hm, hbl, hin1, hin2]
      simp
    rw [this]
    exact pLoop_mono hloop (by omega)

/-- rendered tail of an n-ary construct: `(sep operand)*` -/
def tailR (sep : Tok) : List (List Tok) → List Tok
  | [] => []
  | t :: r => sep :: t ++ tailR sep r

theorem sepBy_cons (sep : Tok) (t : List Tok) (r : List (List Tok)) : sepBy [sep] (t :: r) = t ++ tailR sep r := by
  induction r generalizing t with
  | nil => simp [sepBy, tailR]
  | cons u r ih => simp [sepBy, tailR, ih]

/-- operands of an n-ary tail, each with its invariant in the slot of level `q`; `fl` is the follow level of the last -/
inductive TailInv (q : Nat) : List (List Tok) → List E → Nat → Prop where
  | single {ts e lev fl bi} : Inv ts e lev fl bi → q ≤ lev → TailInv q [ts] [e] fl
  | cons {ts e lev fl bi tss es fl'} : Inv ts e lev fl bi → q ≤ lev → TailInv q tss es fl' →
      TailInv q (ts :: tss) (e :: es) fl'

theorem TailInv.table {q tss es fl} (h : TailInv q tss es fl) :
    ∀ t a b, infixLev t = some (a, b) → a ≤ q → b < fl := by
  induction h with
  | single hi hq => intro t a b h ha; exact hi.1 t a b h (by omega)
  | cons _ _ _ ih => exact ih


theorem TailInv.ne_nil {q tss es fl} (h : TailInv q tss es fl) : ∃ ts tss', tss = ts :: tss' := by
  cases h <;> exact ⟨_, _, rfl⟩

theorem pBool_end {f tk q rest} (h : ∀ r', rest ≠ Tok.sym tk :: r') : pBool (f + 1) tk q rest = some ([], rest) := by
  unfold pBool
  cases rest with
  | nil => rfl
  | cons t r =>
    cases t with
    | sym op =>
      simp only
      split
      · next heq => exact absurd (by rw [heq]) (h r)
      · rfl
    | _ => rfl

/-- tail of a separated list; the separator `tk` may follow every operand and stops the operand's own loop -/
theorem pBool_tail {tk q : Nat}
    (hsepk : ∀ ts e lev fl bi r, Inv ts e lev fl bi → q ≤ lev → follow fl (Tok.sym tk :: r) = true)
    (hsepq : ∀ r, follow q (Tok.sym tk :: r) = true)
    {tss es fl} (h : TailInv q tss es fl) :
    ∀ rest f, follow q rest = true → follow fl rest = true → (∀ r', rest ≠ Tok.sym tk :: r') →
      3 * (tailR (Tok.sym tk) tss).length ≤ f →
      pBool f tk q (tailR (Tok.sym tk) tss ++ rest) = some (es, rest) := by
  induction h with
  | @single ts e lev fl bi hi hq =>
    intro rest f hfq hfl hne hf
    simp only [tailR, List.length_cons, List.length_append, List.length_nil] at hf
    obtain ⟨f', rfl⟩ : ∃ f', f = f' + 1 := ⟨f - 1, by omega⟩
    have hin : pE f' q (ts ++ rest) = some (e, lev, bi, rest) :=
      hi.2 q f' 1 _ _ (Or.inl hq) hfl (pLoop_stop hfq) (by omega)
    obtain ⟨f'', rfl⟩ : ∃ f'', f' = f'' + 1 := ⟨f' - 1, by omega⟩
    simp only [tailR, List.cons_append, List.append_assoc, List.nil_append, pBool, if_true, hin]
    rw [pBool_end hne]
  | @cons ts e lev fl bi tss es fl' hi hq htl ih =>
    intro rest f hfq hfl hne hf
    obtain ⟨ts', tss', rfl⟩ := htl.ne_nil
    simp only [tailR, List.length_cons, List.length_append] at hf
    obtain ⟨f', rfl⟩ : ∃ f', f = f' + 1 := ⟨f - 1, by omega⟩
    have hin : pE f' q (ts ++ (tailR (Tok.sym tk) (ts' :: tss') ++ rest)) =
        some (e, lev, bi, tailR (Tok.sym tk) (ts' :: tss') ++ rest) := by
      refine hi.2 q f' 1 _ _ (Or.inl hq) ?_ (pLoop_stop ?_) (by omega)
      · exact hsepk _ _ _ _ _ _ hi hq
      · exact hsepq _
    have := ih rest f' hfq hfl hne (by simp only [tailR, List.length_cons, List.length_append]; omega)
    rw [tailR]; simp only [List.cons_append, List.append_assoc, pBool]
    simp only [if_true, hin, this]

abbrev isCmp (op : Nat) : Prop := 80 ≤ op ∧ op < 90

theorem infixLev_cmp {op} (h : isCmp op) : infixLev (Tok.sym op) = some (BOR, CMP) := by
  unfold isCmp at h
  simp only [infixLev]
  rw [if_neg (by omega), if_neg (by simp only [tPow]; omega), if_pos h]

theorem pCmp_end {f rest} (h : ∀ op r', isCmp op → rest ≠ Tok.sym op :: r') : pCmp (f + 1) rest = some ([], [], rest) := by
  unfold pCmp
  cases rest with
  | nil => rfl
  | cons t r =>
    cases t with
    | sym op =>
      simp only
      split
      · next hc => exact absurd rfl (h op r hc)
      · rfl
    | _ => rfl

theorem pCmp_tail {tss es fl} (h : TailInv BOR tss es fl) :
    ∀ ops rest f, ops.length = tss.length → (∀ op ∈ ops, isCmp op) → follow (min CMP fl) rest = true →
      3 * (cmpRender ops tss).length ≤ f →
      pCmp f (cmpRender ops tss ++ rest) = some (ops, es, rest) := by
  induction h with
  | @single ts e lev fl bi hi hq =>
    intro ops rest f hlen hops hfol hf
    match ops, hlen with
    | [op], _ =>
    have hop : isCmp op := hops op (by simp)
    simp only [cmpRender, List.length_cons, List.length_append, List.length_nil] at hf
    obtain ⟨f', rfl⟩ : ∃ f', f = f' + 2 := ⟨f - 2, by omega⟩
    have hin : pE (f' + 1) BOR (ts ++ rest) = some (e, lev, bi, rest) :=
      hi.2 BOR _ 1 _ _ (Or.inl hq) (follow_mono hfol (Nat.min_le_right _ _))
        (pLoop_stop (follow_mono hfol (by simp only [BOR, CMP]; omega))) (by omega)
    have hne : ∀ op r', isCmp op → rest ≠ Tok.sym op :: r' := by
      intro op r' hc heq
      subst heq
      simp [follow, infixLev_cmp hc] at hfol
      omega
    simp only [cmpRender, List.cons_append, List.append_assoc, List.nil_append, pCmp, hin]
    rw [if_pos hop, pCmp_end hne]
  | @cons ts e lev fl bi tss es fl' hi hq htl ih =>
    intro ops rest f hlen hops hfol hf
    match ops, hlen with
    | op :: ops, hlen =>
    have hop : isCmp op := hops op (by simp)
    obtain ⟨ts', tss', rfl⟩ := htl.ne_nil
    match ops, hlen with
    | op' :: ops, hlen =>
    have hop' : isCmp op' := hops op' (by simp)
    simp only [cmpRender, List.length_cons, List.length_append] at hf
    obtain ⟨f', rfl⟩ : ∃ f', f = f' + 1 := ⟨f - 1, by omega⟩
    have hin : pE f' BOR (ts ++ (cmpRender (op' :: ops) (ts' :: tss') ++ rest)) =
        some (e, lev, bi, cmpRender (op' :: ops) (ts' :: tss') ++ rest) := by
      refine hi.2 BOR f' 1 _ _ (Or.inl hq) ?_ (pLoop_stop ?_) (by omega)
      · exact follow_cons (infixLev_cmp hop') (hi.1 _ _ _ (infixLev_cmp hop') (by omega))
      · exact follow_cons (infixLev_cmp hop') (by simp [BOR, CMP])
    have := ih (op' :: ops) rest f' (by simpa using hlen) (fun o ho => hops o (by simp [ho])) hfol
      (by simp only [cmpRender, List.length_cons, List.length_append]; omega)
    rw [cmpRender]; simp only [List.cons_append, List.append_assoc, pCmp]
    rw [if_pos hop]
    simp only [hin, this]

/-- n-ary `and` / `or`: operands in slot `q`, own level `b` -/
theorem inv_nary {tk q a b : Nat} {mk : List E → E} (hinf : infixLev (Tok.sym tk) = some (a, b)) (haq : a ≤ q)
    (hbq : b < q) (hb4 : b ≤ 4)
    (hL : ∀ f m l ll bi rest, m ≤ b → a ≤ ll → pLoop (f + 1) m l ll bi (Tok.sym tk :: rest) =
      match pBool f tk q (Tok.sym tk :: rest) with
      | some (xs, rest') => pLoop f m (mk (l :: xs)) b false rest'
      | none => none)
    {t0 x0 lev0 fl0 bi0 tss xs fl} (h0 : Inv t0 x0 lev0 fl0 bi0) (hq0 : q ≤ lev0) (htl : TailInv q tss xs fl) :
    Inv (t0 ++ tailR (Tok.sym tk) tss) (mk (x0 :: xs)) b (min b fl) false := by
  refine ⟨fun t a' b' h ha => ?_, ?_⟩
  · have h2 := htl.table t a' b' h (by omega)
    have := infixLev_cases h
    omega
  · intro m f f0 rest res hm hfol hloop hf
    have hm : m ≤ b := by simp only [GRP] at hm; omega
    simp only [List.length_append] at hf
    have f0pos := pLoop_fuel_pos hloop
    obtain ⟨tl, hT⟩ : ∃ tl, tailR (Tok.sym tk) tss = Tok.sym tk :: tl := by
      obtain ⟨ts', tss', rfl⟩ := htl.ne_nil
      exact ⟨_, rfl⟩
    obtain ⟨g, rfl⟩ : ∃ g, f0 = g + 1 := ⟨f0 - 1, by omega⟩
    have hne : ∀ r', rest ≠ Tok.sym tk :: r' := by
      intro r' heq
      subst heq
      simp [follow, hinf] at hfol
      omega
    have hp := pBool_tail (tk := tk) (q := q)
      (fun ts e lev fl bi r hi hq => follow_cons hinf (hi.1 _ _ _ hinf (by omega)))
      (fun r => follow_cons hinf hbq) htl rest (g + 3 * (tailR (Tok.sym tk) tss).length)
      (follow_mono hfol (by omega)) (follow_mono hfol (Nat.min_le_right _ _)) hne (by omega)
    rw [List.append_assoc]
    refine h0.2 m f (g + 3 * (tailR (Tok.sym tk) tss).length + 1) _ _ (Or.inl (by omega)) ?_ ?_ (by omega)
    · rw [hT, List.cons_append]; exact follow_cons hinf (h0.1 _ _ _ hinf (by omega))
    · rw [hT, List.cons_append] at hp ⊢
      rw [hL _ _ _ _ _ _ hm (by omega), hp]
      exact pLoop_mono hloop (by simp only [List.length_cons]; omega)

theorem cmpRender_cons_ne {ops : List Nat} {tss : List (List Tok)} (hlen : ops.length = tss.length) (hne : tss ≠ []) :
    ∃ op ops' ts tss', ops = op :: ops' ∧ tss = ts :: tss' := by
  cases tss with
  | nil => exact absurd rfl hne
  | cons ts tss =>
    cases ops with
    | nil => simp at hlen
    | cons op ops => exact ⟨_, _, _, _, rfl, rfl⟩

/-- comparison chains -/
theorem inv_cmp {ops : List Nat} {t0 x0 lev0 fl0 bi0 tss xs fl} (hops : ∀ op ∈ ops, isCmp op)
    (hlen : ops.length = tss.length)
    (h0 : Inv t0 x0 lev0 fl0 bi0) (hq0 : BOR ≤ lev0) (htl : TailInv BOR tss xs fl) :
    Inv (t0 ++ cmpRender ops tss) (.node (.cmp ops) (x0 :: xs)) CMP (min CMP fl) false := by
  refine ⟨fun t a' b' h ha => ?_, ?_⟩
  · have h2 := htl.table t a' b' h (by simp only [CMP, BOR] at ha ⊢; omega)
    have := infixLev_cases h
    simp only [CMP] at ha ⊢; omega
  · intro m f f0 rest res hm hfol hloop hf
    have hm : m ≤ CMP := by simp only [GRP, CMP] at hm ⊢; omega
    simp only [List.length_append] at hf
    have f0pos := pLoop_fuel_pos hloop
    obtain ⟨op, tl, hop, hT⟩ : ∃ op tl, isCmp op ∧ cmpRender ops tss = Tok.sym op :: tl := by
      obtain ⟨ts', tss', rfl⟩ := htl.ne_nil
      obtain ⟨op, ops', _, _, rfl, hh⟩ := cmpRender_cons_ne hlen (by simp)
      exact ⟨op, _, hops op (by simp), rfl⟩
    obtain ⟨g, rfl⟩ : ∃ g, f0 = g + 1 := ⟨f0 - 1, by omega⟩
    have hp := pCmp_tail htl ops rest (g + 3 * (cmpRender ops tss).length) hlen hops hfol (by omega)
    rw [List.append_assoc]
    refine h0.2 m f (g + 3 * (cmpRender ops tss).length + 1) _ _
      (Or.inl (by simp only [CMP] at hm; simp only [BOR] at hq0; omega)) ?_ ?_ (by omega)
    · rw [hT, List.cons_append]; exact follow_cons (infixLev_cmp hop) (h0.1 _ _ _ (infixLev_cmp hop) hq0)
    · rw [hT, List.cons_append] at hp ⊢
      have hu : ∀ g r, pLoop (g + 1) m x0 lev0 bi0 (Tok.sym op :: r) =
          match pCmp g (Tok.sym op :: r) with
          | some (ops, xs, rest') => pLoop g m (.node (.cmp ops) (x0 :: xs)) CMP false rest'
          | none => none := by
        intro g r
        unfold isCmp at hop
        conv => lhs; unfold pLoop
        simp only
        rw [if_neg (by omega), if_neg (by simp only [tPow]; omega), if_pos hop, if_pos ⟨hm, hq0⟩]
        rfl
      rw [hu, hp]
      exact pLoop_mono hloop (by simp only [List.length_cons]; omega)

/-! ### inversion of `DerivesL` -/

theorem derivesL_cons {k i x es tss} (h : DerivesL k i (x :: es) tss) :
    ∃ t tss', tss = t :: tss' ∧ Derives (k.slot i) t x ∧ DerivesL k (i + 1) es tss' := by
  cases h with
  | cons _ _ _ _ t tss' h1 h2 => exact ⟨t, tss', rfl, h1, h2⟩

theorem derivesL_nil {k i tss} (h : DerivesL k i [] tss) : tss = [] := by
  cases h; rfl

theorem derivesL1 {k i x tss} (h : DerivesL k i [x] tss) : ∃ t, tss = [t] ∧ Derives (k.slot i) t x := by
  obtain ⟨t, tss', rfl, h1, h2⟩ := derivesL_cons h
  rw [derivesL_nil h2]; exact ⟨t, rfl, h1⟩

theorem derivesL2 {k i x y tss} (h : DerivesL k i [x, y] tss) :
    ∃ t u, tss = [t, u] ∧ Derives (k.slot i) t x ∧ Derives (k.slot (i + 1)) u y := by
  obtain ⟨t, tss', rfl, h1, h2⟩ := derivesL_cons h
  obtain ⟨u, rfl, h3⟩ := derivesL1 h2
  exact ⟨t, u, rfl, h1, h3⟩

theorem derivesL3 {k i x y z tss} (h : DerivesL k i [x, y, z] tss) :
    ∃ t u v, tss = [t, u, v] ∧ Derives (k.slot i) t x ∧ Derives (k.slot (i + 1)) u y ∧
      Derives (k.slot (i + 2)) v z := by
  obtain ⟨t, tss', rfl, h1, h2⟩ := derivesL_cons h
  obtain ⟨u, v, rfl, h3, h4⟩ := derivesL2 h2
  exact ⟨t, u, v, rfl, h1, h3, h4⟩

theorem derivesL_length {k es} : ∀ {i tss}, DerivesL k i es tss → tss.length = es.length := by
  induction es with
  | nil => intro i tss h; simp [derivesL_nil h]
  | cons x es ih =>
    intro i tss h
    obtain ⟨t, tss', rfl, _, h2⟩ := derivesL_cons h
    simp [ih h2]

theorem mem_tailR_lt {sep : Tok} {tss : List (List Tok)} {ts} (h : ts ∈ tss) : ts.length < (tailR sep tss).length := by
  induction tss with
  | nil => cases h
  | cons u r ih =>
    simp only [tailR, List.length_cons, List.length_append]
    rcases List.mem_cons.1 h with rfl | h'
    · omega
    · have := ih h'; omega

theorem mem_cmpRender_lt : ∀ {ops : List Nat} {tss : List (List Tok)} {ts}, ops.length = tss.length → ts ∈ tss →
    ts.length < (cmpRender ops tss).length
  | [], [], _, _, h => by cases h
  | op :: ops, u :: r, ts, hl, h => by
    simp only [cmpRender, List.length_cons, List.length_append]
    rcases List.mem_cons.1 h with rfl | h'
    · omega
    · have := mem_cmpRender_lt (ops := ops) (by simpa using hl) h'; omega

theorem tail_of_derivesL {k : Kind} {S : Slot} {q N : Nat}
    (ihc : ∀ ts x, ts.length < N → Derives S ts x → inFrag x = true →
      ∃ lev fl bi, q ≤ lev ∧ (∀ rest, follow q rest = true → follow fl rest = true) ∧ Inv ts x lev fl bi) :
    ∀ es i tss, es ≠ [] → (∀ j, i ≤ j → j < i + es.length → k.slot j = S) → DerivesL k i es tss →
      inFragL es = true → (∀ ts ∈ tss, ts.length < N) →
      ∃ fl, (∀ rest, follow q rest = true → follow fl rest = true) ∧ TailInv q tss es fl := by
  intro es
  induction es with
  | nil => intro i tss h; exact absurd rfl h
  | cons x es ih =>
    intro i tss _ hslot hd hf hlen
    obtain ⟨t, tss', rfl, h1, h2⟩ := derivesL_cons hd
    simp only [inFragL, Bool.and_eq_true] at hf
    rw [hslot i (Nat.le_refl _) (by simp)] at h1
    obtain ⟨lev, fl, bi, hq, hqf, hi⟩ := ihc t x (hlen t (by simp)) h1 hf.1
    cases es with
    | nil => rw [derivesL_nil h2]; exact ⟨fl, hqf, TailInv.single hi hq⟩
    | cons y es =>
      obtain ⟨fl', hqf', htl⟩ := ih (i + 1) tss' (by simp)
        (fun j h1 h2 => hslot j (by omega) (by simp only [List.length_cons] at h2 ⊢; omega)) h2 hf.2
        (fun ts hts => hlen ts (by simp [hts]))
      exact ⟨fl', hqf', TailInv.cons hi hq htl⟩

/-! ### one-step unfoldings of the parser -/
set_option linter.unusedSimpArgs false


theorem pPre_un {f m op rest} (hop : op < 3) (hm : m ≤ FACTOR) :
    pPre (f + 1) m ([Tok.sym (30 + op)] ++ rest) =
      match pE f FACTOR rest with
      | some (x, _, _, r) => some (.node (.un op) [x], FACTOR, false, r)
      | none => none := by
  simp only [List.singleton_append]
  unfold pPre
  simp only
  rw [if_pos ⟨by omega, by omega⟩, if_pos hm, Nat.add_sub_cancel_left]
  rfl

theorem pPre_not {f m rest} (hm : m ≤ NOT) :
    pPre (f + 1) m ([Tok.sym tNot] ++ rest) =
      match pE f NOT rest with
      | some (x, _, _, r) => some (.node .not_ [x], NOT, false, r)
      | none => none := by
  simp only [List.cons_append, List.nil_append]
  unfold pPre
  simp [tNot, tAwait, tLambda, tColon, hm] <;> rfl

theorem pPre_await {f m rest} (hm : m ≤ AWAIT) :
    pPre (f + 1) m ([Tok.sym tAwait] ++ rest) =
      match pE f ATOM rest with
      | some (x, _, _, r) => some (.node .await_ [x], AWAIT, false, r)
      | none => none := by
  simp only [List.cons_append, List.nil_append]
  unfold pPre
  simp [tNot, tAwait, tLambda, tColon, hm] <;> rfl

theorem pPre_lambda {f m rest} (hm : m ≤ TEST) :
    pPre (f + 1) m ([Tok.sym tLambda, Tok.sym tColon] ++ rest) =
      match pE f TEST rest with
      | some (x, _, _, r) => some (.node .lambda [x], TEST, false, r)
      | none => none := by
  simp only [List.cons_append, List.nil_append]
  unfold pPre
  simp [tNot, tAwait, tLambda, tColon, hm] <;> rfl

theorem pLoop_bin {f m l ll bi op rest} (hop : op < 12) (hm : m ≤ binLevel op) (hl : binLevel op ≤ ll) :
    pLoop (f + 1) m l ll bi (Tok.sym op :: rest) =
      match pE f (binLevel op + 1) rest with
      | some (r, _, _, rest') => pLoop f m (.node (.bin op) [l, r]) (binLevel op) false rest'
      | none => none := by
  conv => lhs; unfold pLoop
  simp only
  rw [if_pos hop, if_pos ⟨hm, hl⟩]
  rfl

theorem pLoop_pow {f m l ll bi rest} (hm : m ≤ POWER) (hl : AWAIT ≤ ll) :
    pLoop (f + 1) m l ll bi (Tok.sym tPow :: rest) =
      match pE f FACTOR rest with
      | some (r, _, _, rest') => pLoop f m (.node (.bin 12) [l, r]) POWER false rest'
      | none => none := by
  conv => lhs; unfold pLoop
  simp [tPow, hm, hl] <;> rfl

theorem pLoop_or {f m l ll bi rest} (hm : m ≤ OR) (hl : AND ≤ ll) :
    pLoop (f + 1) m l ll bi (Tok.sym 70 :: rest) =
      match pBool f 70 AND (Tok.sym 70 :: rest) with
      | some (xs, rest') => pLoop f m (.node (.boolop true) (l :: xs)) OR false rest'
      | none => none := by
  conv => lhs; unfold pLoop
  simp [tPow, hm, hl] <;> rfl

theorem pLoop_and {f m l ll bi rest} (hm : m ≤ AND) (hl : NOT ≤ ll) :
    pLoop (f + 1) m l ll bi (Tok.sym 71 :: rest) =
      match pBool f 71 NOT (Tok.sym 71 :: rest) with
      | some (xs, rest') => pLoop f m (.node (.boolop false) (l :: xs)) AND false rest'
      | none => none := by
  conv => lhs; unfold pLoop
  simp [tPow, hm, hl] <;> rfl

/-! ### postfix trailers -/

theorem pLoop_attr {f m l ll n rest} (hm : m ≤ ATOM) (hl : ATOM ≤ ll) :
    pLoop (f + 1) m l ll false (Tok.sym tDot :: Tok.name n :: rest) =
      pLoop f m (.node (.attr n) [l]) ATOM false rest := by
  conv => lhs; unfold pLoop
  simp [tPow, tIf, tDot, hm, hl]

theorem pLoop_subscr {f m l ll bi rest} (hm : m ≤ ATOM) (hl : ATOM ≤ ll) :
    pLoop (f + 1) m l ll bi (Tok.sym tLb :: rest) =
      match pE f TEST rest with
      | some (x, _, _, .sym c :: rest') =>
        if c = tRb then pLoop f m (.node .subscr [l, x]) ATOM false rest' else none
      | _ => none := by
  conv => lhs; unfold pLoop
  simp [tPow, tIf, tDot, tLb, hm, hl] <;> rfl

theorem pLoop_call0 {f m l ll bi rest} (hm : m ≤ ATOM) (hl : ATOM ≤ ll) :
    pLoop (f + 1) m l ll bi (Tok.lp :: Tok.rp :: rest) = pLoop f m (.node (.call 0 []) [l]) ATOM false rest := by
  conv => lhs; unfold pLoop
  simp [hm, hl]

theorem pLoop_call {f m l ll bi rest} (hm : m ≤ ATOM) (hl : ATOM ≤ ll) (hne : ∀ r, rest ≠ Tok.rp :: r) :
    pLoop (f + 1) m l ll bi (Tok.lp :: rest) =
      match pE f TEST rest with
      | some (x, _, _, rest1) =>
        match pBool f tComma TEST rest1 with
        | some (xs, .rp :: rest2) => pLoop f m (.node (.call (xs.length + 1) []) (l :: x :: xs)) ATOM false rest2
        | _ => none
      | none => none := by
  conv => lhs; unfold pLoop
  simp only [hm, hl, and_self, if_true]
  cases rest with
  | nil => rfl
  | cons t r =>
    cases t with
    | rp => exact absurd rfl (hne r)
    | _ => rfl

theorem pE_rp {f m r} : pE f m (Tok.rp :: r) = none := by
  cases f with
  | zero => simp [pE]
  | succ f =>
    cases f with
    | zero => simp [pE, pPre]
    | succ f => simp [pE, pPre]

theorem table_atom {t a b} (h : infixLev t = some (a, b)) : b < 15 := by
  have := infixLev_cases h; omega

theorem inv_attr {tv v levv flv n} (hv : Inv tv v levv flv false) (hl : ATOM ≤ levv) :
    Inv (tv ++ [Tok.sym tDot, Tok.name n]) (.node (.attr n) [v]) ATOM 15 false := by
  have hinf : infixLev (Tok.sym tDot) = some (ATOM, ATOM) := rfl
  refine ⟨fun t a b h _ => table_atom h, ?_⟩
  intro m f f0 rest res hm _ hloop hf
  have hm : m ≤ ATOM := by simp only [ATOM, GRP] at hm ⊢; omega
  simp only [List.length_append, List.length_cons, List.length_nil] at hf
  rw [List.append_assoc]
  refine hv.2 m f (f0 + 1) _ _ (Or.inl (by omega)) (follow_cons hinf (hv.1 _ _ _ hinf hl)) ?_ (by omega)
  rw [List.cons_append, List.cons_append, List.nil_append, pLoop_attr hm hl]
  exact hloop

theorem inv_subscr {tv v levv flv biv ts x levs fls bis} (hv : Inv tv v levv flv biv) (hl : ATOM ≤ levv)
    (hs : Inv ts x levs fls bis) :
    Inv (tv ++ [Tok.sym tLb] ++ ts ++ [Tok.sym tRb]) (.node .subscr [v, x]) ATOM 15 false := by
  have hinf : infixLev (Tok.sym tLb) = some (ATOM, ATOM) := rfl
  refine ⟨fun t a b h _ => table_atom h, ?_⟩
  intro m f f0 rest res hm _ hloop hf
  have hm : m ≤ ATOM := by simp only [ATOM, GRP] at hm ⊢; omega
  simp only [List.length_append, List.length_cons, List.length_nil] at hf
  have f0pos := pLoop_fuel_pos hloop
  simp only [List.append_assoc, List.cons_append, List.nil_append]
  refine hv.2 m f (f0 + 3 * ts.length + 2) _ _ (Or.inl (by omega)) (follow_cons hinf (hv.1 _ _ _ hinf hl)) ?_ (by omega)
  have hin : pE (f0 + 3 * ts.length + 1) TEST (ts ++ Tok.sym tRb :: rest) = some (x, levs, bis, Tok.sym tRb :: rest) :=
    hs.2 TEST _ 1 _ _ (Or.inl (by simp [TEST])) (follow_cons_none rfl) (pLoop_stop (follow_cons_none rfl)) (by omega)
  rw [pLoop_subscr hm hl, hin]
  simp only [if_true]
  exact pLoop_mono hloop (by omega)

theorem inv_call0 {tf fn levf flf bfn} (hfn : Inv tf fn levf flf bfn) (hl : ATOM ≤ levf) :
    Inv (tf ++ [Tok.lp] ++ [] ++ [Tok.rp]) (.node (.call 0 []) [fn]) ATOM 15 false := by
  have hinf : infixLev Tok.lp = some (ATOM, ATOM) := rfl
  refine ⟨fun t a b h _ => table_atom h, ?_⟩
  intro m f f0 rest res hm _ hloop hf
  have hm : m ≤ ATOM := by simp only [ATOM, GRP] at hm ⊢; omega
  simp only [List.length_append, List.length_cons, List.length_nil] at hf
  simp only [List.append_assoc, List.cons_append, List.nil_append]
  refine hfn.2 m f (f0 + 1) _ _ (Or.inl (by omega)) (follow_cons hinf (hfn.1 _ _ _ hinf hl)) ?_ (by omega)
  rw [pLoop_call0 hm hl]
  exact hloop

/-- call with one argument -/
theorem inv_call1 {tf fn levf flf bfn t0 x0 lev0 fl0 bi0} (hfn : Inv tf fn levf flf bfn) (hl : ATOM ≤ levf)
    (h0 : Inv t0 x0 lev0 fl0 bi0) :
    Inv (tf ++ [Tok.lp] ++ t0 ++ [Tok.rp]) (.node (.call 1 []) [fn, x0]) ATOM 15 false := by
  have hinf : infixLev Tok.lp = some (ATOM, ATOM) := rfl
  refine ⟨fun t a b h _ => table_atom h, ?_⟩
  intro m f f0 rest res hm _ hloop hf
  have hm : m ≤ ATOM := by simp only [ATOM, GRP] at hm ⊢; omega
  simp only [List.length_append, List.length_cons, List.length_nil] at hf
  have f0pos := pLoop_fuel_pos hloop
  simp only [List.append_assoc, List.cons_append, List.nil_append]
  refine hfn.2 m f (f0 + 3 * t0.length + 2) _ _ (Or.inl (by omega)) (follow_cons hinf (hfn.1 _ _ _ hinf hl)) ?_ (by omega)
  have hin : pE (f0 + 3 * t0.length + 1) TEST (t0 ++ Tok.rp :: rest) = some (x0, lev0, bi0, Tok.rp :: rest) :=
    h0.2 TEST _ 1 _ _ (Or.inl (by simp [TEST])) (follow_cons_none rfl) (pLoop_stop (follow_cons_none rfl)) (by omega)
  have hne : ∀ r, t0 ++ Tok.rp :: rest ≠ Tok.rp :: r := by
    intro r heq
    rw [heq, pE_rp] at hin
    cases hin
  obtain ⟨g, hg⟩ : ∃ g, f0 + 3 * t0.length + 1 = g + 1 := ⟨_, rfl⟩
  rw [pLoop_call hm hl hne, hin]
  have hb : pBool (f0 + 3 * t0.length + 1) tComma TEST (Tok.rp :: rest) = some ([], Tok.rp :: rest) :=
    pBool_end (f := f0 + 3 * t0.length) (by intro r h; cases h)
  simp only [hb, List.length_nil, Nat.zero_add]
  exact pLoop_mono hloop (by omega)

/-- call with two or more arguments -/
theorem inv_calln {tf fn levf flf bfn t0 x0 lev0 fl0 bi0 tss xs fl} (hfn : Inv tf fn levf flf bfn) (hl : ATOM ≤ levf)
    (h0 : Inv t0 x0 lev0 fl0 bi0) (htl : TailInv TEST tss xs fl) :
    Inv (tf ++ [Tok.lp] ++ (t0 ++ tailR (Tok.sym tComma) tss) ++ [Tok.rp])
      (.node (.call (xs.length + 1) []) (fn :: x0 :: xs)) ATOM 15 false := by
  have hinf : infixLev Tok.lp = some (ATOM, ATOM) := rfl
  refine ⟨fun t a b h _ => table_atom h, ?_⟩
  intro m f f0 rest res hm _ hloop hf
  have hm : m ≤ ATOM := by simp only [ATOM, GRP] at hm ⊢; omega
  simp only [List.length_append, List.length_cons, List.length_nil] at hf
  have f0pos := pLoop_fuel_pos hloop
  obtain ⟨tl, hT⟩ : ∃ tl, tailR (Tok.sym tComma) tss = Tok.sym tComma :: tl := by
    obtain ⟨ts', tss', rfl⟩ := htl.ne_nil
    exact ⟨_, rfl⟩
  simp only [List.append_assoc, List.cons_append, List.nil_append]
  refine hfn.2 m f (f0 + 3 * t0.length + 3 * (tailR (Tok.sym tComma) tss).length + 2) _ _ (Or.inl (by omega))
    (follow_cons hinf (hfn.1 _ _ _ hinf hl)) ?_ (by omega)
  have hin : pE (f0 + 3 * t0.length + 3 * (tailR (Tok.sym tComma) tss).length + 1) TEST
      (t0 ++ (tailR (Tok.sym tComma) tss ++ Tok.rp :: rest)) =
      some (x0, lev0, bi0, tailR (Tok.sym tComma) tss ++ Tok.rp :: rest) := by
    refine h0.2 TEST _ 1 _ _ (Or.inl (by simp [TEST])) ?_ (pLoop_stop ?_) (by omega)
    · rw [hT]; exact follow_cons_none rfl
    · rw [hT]; exact follow_cons_none rfl
  have hne : ∀ r, t0 ++ (tailR (Tok.sym tComma) tss ++ Tok.rp :: rest) ≠ Tok.rp :: r := by
    intro r heq
    rw [heq, pE_rp] at hin
    cases hin
  have hb := pBool_tail (tk := tComma) (q := TEST) (fun ts e lev fl bi r _ _ => follow_cons_none rfl)
    (fun r => follow_cons_none rfl) htl (Tok.rp :: rest)
    (f0 + 3 * t0.length + 3 * (tailR (Tok.sym tComma) tss).length + 1) (follow_cons_none rfl) (follow_cons_none rfl)
    (by intro r h; cases h) (by omega)
  rw [pLoop_call hm hl hne, hin]
  simp only [hb]
  exact pLoop_mono hloop (by omega)

/-! ### completeness -/

local macro "lv" : tactic =>
  `(tactic| simp only [TEST, OR, AND, NOT, CMP, BOR, FACTOR, POWER, AWAIT, ATOM] at *)


theorem len_one {α} {l : List α} (h : l.length = 1) : ∃ a, l = [a] := by
  match l, h with
  | [a], _ => exact ⟨a, rfl⟩

theorem len_two {α} {l : List α} (h : l.length = 2) : ∃ a b, l = [a, b] := by
  match l, h with
  | [a, b], _ => exact ⟨a, b, rfl⟩

theorem len_three {α} {l : List α} (h : l.length = 3) : ∃ a b c, l = [a, b, c] := by
  match l, h with
  | [a, b, c], _ => exact ⟨a, b, c, rfl⟩


theorem complete_aux : ∀ N s ts e, ts.length < N → Derives s ts e → inFrag e = true →
    ∃ lev fl bi, (s.minLad ≤ lev ∨ GRP ≤ lev) ∧ (∀ rest, follow s.minLad rest = true → follow fl rest = true) ∧ (s.noInt = true → bi = false) ∧
      Inv ts e lev fl bi := by
  intro N
  induction N with
  | zero => intro s ts e h; omega
  | succ N ih =>
    intro s ts e hlen hd hfrag
    have ihc : ∀ q ts x, q ≤ ATOM → ts.length < N → Derives (sl q) ts x → inFrag x = true →
        ∃ lev fl bi, q ≤ lev ∧ (∀ rest, follow q rest = true → follow fl rest = true) ∧ Inv ts x lev fl bi := by
      intro q ts x hq hl hd hf
      obtain ⟨lev, fl, bi, h1, h2, _, h3⟩ := ih (sl q) ts x hl hd hf
      refine ⟨lev, fl, bi, ?_, h2, h3⟩
      simp only [sl, GRP, ATOM] at h1 hq; omega
    cases hd with
    | leaf s t c hacc =>
      cases t with
      | name n =>
        cases c with
        | lad l =>
          simp only [inFrag, beq_iff_eq] at hfrag
          subst hfrag
          exact ⟨ATOM, 15, false, Or.inl (by simpa [accepts] using hacc), fun _ _ => follow_top (by omega), fun _ => rfl,
            inv_atom (fun f m rest => by simp [pPre])⟩
        | _ => simp [inFrag] at hfrag
      | int n =>
        cases c with
        | intlit =>
          refine ⟨GRP, 15, true, Or.inr (Nat.le_refl _), fun _ _ => follow_top (by omega), ?_, inv_atom (fun f m rest => by simp [pPre])⟩
          intro h; simp [accepts, h] at hacc
        | _ => simp [inFrag] at hfrag
      | _ => simp [inFrag] at hfrag
    | paren s ts' e hpar hd' =>
      simp only [List.length_cons, List.length_append, List.length_nil] at hlen
      obtain ⟨lev, fl, bi, _, _, _, hi⟩ := ih top ts' e (by omega) hd' hfrag
      exact ⟨GRP, 15, false, Or.inr (Nat.le_refl _), fun _ _ => follow_top (by omega), fun _ => rfl, inv_paren hi⟩
    | node s k kids tss har hacc hL =>
      simp only [inFrag, Bool.and_eq_true] at hfrag
      obtain ⟨hk, hkids⟩ := hfrag
      cases k with
      | bin op =>
        simp only [kindOk, decide_eq_true_eq] at hk
        simp only [Kind.arityOk, beq_iff_eq] at har
        obtain ⟨l, r, rfl⟩ := len_two har
        obtain ⟨tl, tr, rfl, hdl, hdr⟩ := derivesL2 hL
        simp only [inFragL, Bool.and_eq_true, and_true] at hkids
        by_cases h12 : op < 12
        · have hr := binLevel_range op h12
          have hn : ¬ op ≥ 12 := by omega
          simp only [Kind.render, Kind.slot, Kind.cls, accepts, decide_eq_true_eq, if_neg hn, List.length_append,
            List.length_cons, List.length_nil] at hlen hdl hdr hacc ⊢
          simp at hdl hdr
          obtain ⟨levl, fll, bil, hql, hfl, hil⟩ := ihc _ tl l (by simp only [ATOM]; omega) (by omega) hdl hkids.1
          obtain ⟨levr, flr, bir, hqr, hfr, hir⟩ := ihc _ tr r (by simp only [ATOM]; omega) (by omega) hdr hkids.2
          have hinf : infixLev (Tok.sym op) = some (binLevel op, binLevel op) := by simp [infixLev, h12]
          refine ⟨binLevel op, min (binLevel op + 1) flr, false, Or.inl hacc, fun rest h => follow_min_of h (by lv; omega) hfr, fun _ => rfl, ?_⟩
          have := inv_binary (mk := fun l r => .node (.bin op) [l, r]) hinf (by simp only [ATOM]; omega)
            (fun f m l ll bi rest hm hl => pLoop_bin h12 hm hl)
            (fun t a' b' h ha => by have := infixLev_cases h; omega) hil hql hir hqr
          simpa using this
        · have : op = 12 := by omega
          subst this
          simp only [Kind.render, Kind.slot, Kind.cls, accepts, decide_eq_true_eq, List.length_append,
            List.length_cons, List.length_nil] at hlen hdl hdr hacc ⊢
          simp at hdl hdr
          obtain ⟨levl, fll, bil, hql, hfl, hil⟩ := ihc _ tl l (by simp [ATOM, AWAIT]) (by omega) hdl hkids.1
          obtain ⟨levr, flr, bir, hqr, hfr, hir⟩ := ihc _ tr r (by simp [ATOM, FACTOR]) (by omega) hdr hkids.2
          have hinf : infixLev (Tok.sym tPow) = some (AWAIT, POWER) := rfl
          rw [show binLevel 12 = POWER from rfl] at hacc
          refine ⟨POWER, min FACTOR flr, false, Or.inl hacc, fun rest h => (fun h11 => follow_min h11 (hfr rest h11)) (follow_12_11 (follow_mono h (by lv; omega))), fun _ => rfl, ?_⟩
          have := inv_binary (mk := fun l r => .node (.bin 12) [l, r]) hinf (by simp [ATOM, POWER])
            (fun f m l ll bi rest hm hl => pLoop_pow hm hl)
            (fun t a' b' h ha => by have := infixLev_cases h; simp only [POWER, FACTOR] at *; omega) hil hql hir hqr
          simpa using this
      | un op =>
        simp only [kindOk, decide_eq_true_eq] at hk
        simp only [Kind.arityOk, beq_iff_eq] at har
        obtain ⟨x, rfl⟩ := len_one har
        obtain ⟨tx, rfl, hdx⟩ := derivesL1 hL
        simp only [inFragL, Bool.and_eq_true, and_true] at hkids
        simp only [Kind.render, Kind.slot, Kind.cls, accepts, decide_eq_true_eq, List.length_cons] at hlen hdx hacc ⊢
        obtain ⟨levx, flx, bix, hqx, hfx, hix⟩ := ihc _ tx x (by simp [ATOM, FACTOR]) (by omega) hdx hkids
        refine ⟨FACTOR, min FACTOR flx, false, Or.inl hacc, fun rest h => follow_min_of h (by lv; omega) hfx, fun _ => rfl, ?_⟩
        exact inv_prefix (pre := [Tok.sym (30 + op)]) (mk := fun x => .node (.un op) [x]) (by simp) (Nat.le_refl _)
          (by simp [ATOM, FACTOR]) (fun f m rest hm => pPre_un hk hm)
          (fun t a b h ha => by have := infixLev_cases h; simp only [FACTOR] at *; omega) hix hqx
      | not_ =>
        simp only [Kind.arityOk, beq_iff_eq] at har
        obtain ⟨x, rfl⟩ := len_one har
        obtain ⟨tx, rfl, hdx⟩ := derivesL1 hL
        simp only [inFragL, Bool.and_eq_true, and_true] at hkids
        simp only [Kind.render, Kind.slot, Kind.cls, accepts, decide_eq_true_eq, List.length_cons] at hlen hdx hacc ⊢
        obtain ⟨levx, flx, bix, hqx, hfx, hix⟩ := ihc _ tx x (by simp [ATOM, NOT]) (by omega) hdx hkids
        refine ⟨NOT, min NOT flx, false, Or.inl hacc, fun rest h => follow_min_of h (by lv; omega) hfx, fun _ => rfl, ?_⟩
        exact inv_prefix (pre := [Tok.sym tNot]) (mk := fun x => .node .not_ [x]) (by simp) (Nat.le_refl _)
          (by simp [ATOM, NOT]) (fun f m rest hm => pPre_not hm)
          (fun t a b h ha => by have := infixLev_cases h; simp only [NOT] at *; omega) hix hqx
      | await_ =>
        simp only [Kind.arityOk, beq_iff_eq] at har
        obtain ⟨x, rfl⟩ := len_one har
        obtain ⟨tx, rfl, hdx⟩ := derivesL1 hL
        simp only [inFragL, Bool.and_eq_true, and_true] at hkids
        simp only [Kind.render, Kind.slot, Kind.cls, accepts, decide_eq_true_eq, List.length_cons] at hlen hdx hacc ⊢
        obtain ⟨levx, flx, bix, hqx, hfx, hix⟩ := ihc _ tx x (by simp [ATOM]) (by omega) hdx hkids
        refine ⟨AWAIT, min ATOM flx, false, Or.inl hacc, fun rest h => follow_min_of h (by lv; omega) hfx, fun _ => rfl, ?_⟩
        exact inv_prefix (pre := [Tok.sym tAwait]) (mk := fun x => .node .await_ [x]) (by simp) (by simp [AWAIT, ATOM])
          (by simp [ATOM, AWAIT]) (fun f m rest hm => pPre_await hm)
          (fun t a b h ha => by have := infixLev_cases h; simp only [AWAIT, ATOM] at *; omega) hix hqx
      | lambda =>
        simp only [Kind.arityOk, beq_iff_eq] at har
        obtain ⟨x, rfl⟩ := len_one har
        obtain ⟨tx, rfl, hdx⟩ := derivesL1 hL
        simp only [inFragL, Bool.and_eq_true, and_true] at hkids
        simp only [Kind.render, Kind.slot, Kind.cls, accepts, decide_eq_true_eq, List.length_cons] at hlen hdx hacc ⊢
        obtain ⟨levx, flx, bix, hqx, hfx, hix⟩ := ihc _ tx x (by simp [ATOM, TEST]) (by omega) hdx hkids
        refine ⟨TEST, min TEST flx, false, Or.inl hacc, fun rest h => follow_min_of h (by lv; omega) hfx, fun _ => rfl, ?_⟩
        exact inv_prefix (pre := [Tok.sym tLambda, Tok.sym tColon]) (mk := fun x => .node .lambda [x]) (by simp)
          (Nat.le_refl _) (by simp [ATOM, TEST]) (fun f m rest hm => pPre_lambda hm)
          (fun t a b h ha => by have := infixLev_cases h; simp only [TEST] at *; omega) hix hqx
      | ifexp =>
        simp only [Kind.arityOk, beq_iff_eq] at har
        obtain ⟨b, t, o, rfl⟩ := len_three har
        obtain ⟨tb, tt, to, rfl, hdb, hdt, hdo⟩ := derivesL3 hL
        simp only [inFragL, Bool.and_eq_true, and_true] at hkids
        simp only [Kind.render, Kind.slot, Kind.cls, accepts, decide_eq_true_eq, List.length_cons, List.length_append,
          List.length_nil] at hlen hdb hdt hdo hacc ⊢
        simp at hdb hdt hdo
        obtain ⟨levb, flb, bib, hqb, hfb, hib⟩ := ihc _ tb b (by simp [ATOM, OR]) (by omega) hdb hkids.1
        obtain ⟨levt, flt, bit, hqt, hft, hit⟩ := ihc _ tt t (by simp [ATOM, OR]) (by omega) hdt hkids.2.1
        obtain ⟨levo, flo, bio, hqo, hfo, hio⟩ := ihc _ to o (by simp [ATOM, TEST]) (by omega) hdo hkids.2.2
        exact ⟨TEST, 0, false, Or.inl hacc, fun rest h => follow_mono h (by lv; omega), fun _ => rfl, inv_ifexp hib hqb hit hqt hio⟩
      | boolop isOr =>
        simp only [Kind.arityOk, decide_eq_true_eq] at har
        obtain ⟨x0, xs, rfl, hxs⟩ : ∃ x0 xs, kids = x0 :: xs ∧ xs ≠ [] := by
          match kids, har with
          | x0 :: x1 :: xs, _ => exact ⟨x0, x1 :: xs, rfl, by simp⟩
        obtain ⟨t0, tss', rfl, hd0, hdt⟩ := derivesL_cons hL
        simp only [inFragL, Bool.and_eq_true] at hkids
        have hrender : Kind.render (.boolop isOr) (t0 :: tss') =
            t0 ++ tailR (Tok.sym (if isOr then 70 else 71)) tss' := by
          simp only [Kind.render]; exact sepBy_cons _ _ _
        rw [hrender] at hlen ⊢
        simp only [List.length_append] at hlen
        have hall : ∀ ts ∈ tss', ts.length < N := fun ts h => by
          have := mem_tailR_lt (sep := Tok.sym (if isOr then 70 else 71)) h; omega
        have hpos : 1 ≤ (tailR (Tok.sym (if isOr then 70 else 71)) tss').length := by
          have hl := derivesL_length hdt
          match tss', hl with
          | t :: r, _ => simp [tailR]
          | [], hl => exact absurd (List.length_eq_zero_iff.1 hl.symm) hxs
        cases isOr with
        | true =>
          have hslot : ∀ j, (Kind.boolop true).slot j = sl AND := fun j => by simp [Kind.slot]
          simp only [Kind.cls, accepts, decide_eq_true_eq, if_true] at hacc ⊢
          rw [hslot] at hd0
          obtain ⟨lev0, fl0, bi0, hq0, hf0, hi0⟩ := ihc _ t0 x0 (by simp [ATOM, AND]) (by omega) hd0 hkids.1
          obtain ⟨fl, hffl, htl⟩ := tail_of_derivesL (S := sl AND) (q := AND) (fun ts x => ihc AND ts x (by simp [ATOM, AND])) xs 1 tss' hxs
            (fun j _ _ => hslot j) hdt
            hkids.2 hall
          exact ⟨OR, min OR fl, false, Or.inl hacc, fun rest h => follow_min (follow_mono h (by lv; omega)) (hffl rest (follow_mono h (by lv; omega))), fun _ => rfl,
            inv_nary (mk := fun ks => .node (.boolop true) ks) (tk := 70) (q := AND) (a := AND) (b := OR) rfl
              (Nat.le_refl _) (by simp [OR, AND]) (by simp [OR])
              (fun f m l ll bi rest hm hl => pLoop_or hm hl) hi0 hq0 htl⟩
        | false =>
          have hslot : ∀ j, (Kind.boolop false).slot j = sl NOT := fun j => by simp [Kind.slot]
          simp only [Kind.cls, accepts, decide_eq_true_eq, Bool.false_eq_true, if_false] at hacc ⊢
          rw [hslot] at hd0
          obtain ⟨lev0, fl0, bi0, hq0, hf0, hi0⟩ := ihc _ t0 x0 (by simp [ATOM, NOT]) (by omega) hd0 hkids.1
          obtain ⟨fl, hffl, htl⟩ := tail_of_derivesL (S := sl NOT) (q := NOT) (fun ts x => ihc NOT ts x (by simp [ATOM, NOT])) xs 1 tss' hxs
            (fun j _ _ => hslot j) hdt
            hkids.2 hall
          exact ⟨AND, min AND fl, false, Or.inl hacc, fun rest h => follow_min (follow_mono h (by lv; omega)) (hffl rest (follow_mono h (by lv; omega))), fun _ => rfl,
            inv_nary (mk := fun ks => .node (.boolop false) ks) (tk := 71) (q := NOT) (a := NOT) (b := AND) rfl
              (Nat.le_refl _) (by simp [NOT, AND]) (by simp [AND])
              (fun f m l ll bi rest hm hl => pLoop_and hm hl) hi0 hq0 htl⟩
      | cmp ops =>
        simp only [kindOk, List.all_eq_true, decide_eq_true_eq] at hk
        simp only [Kind.arityOk, Bool.and_eq_true, beq_iff_eq, decide_eq_true_eq] at har
        obtain ⟨x0, xs, rfl, hxs, hxl⟩ : ∃ x0 xs, kids = x0 :: xs ∧ xs ≠ [] ∧ xs.length = ops.length := by
          match kids, har with
          | x0 :: x1 :: xs, har => exact ⟨x0, x1 :: xs, rfl, by simp, by simpa using har.1⟩
          | [_], har => simp only [List.length_cons, List.length_nil] at har; omega
        obtain ⟨t0, tss', rfl, hd0, hdt⟩ := derivesL_cons hL
        have hlen' : ops.length = tss'.length := by rw [derivesL_length hdt, hxl]
        simp only [inFragL, Bool.and_eq_true] at hkids
        simp only [Kind.render, List.length_append] at hlen ⊢
        have hall : ∀ ts ∈ tss', ts.length < N := fun ts h => by
          have := mem_cmpRender_lt hlen' h; omega
        have hpos : 1 ≤ (cmpRender ops tss').length := by
          match ops, tss', hlen', har.2 with
          | o :: os, t :: r, _, _ => simp [cmpRender]
        have hslot : ∀ j, (Kind.cmp ops).slot j = sl BOR := fun j => by simp [Kind.slot]
        simp only [Kind.cls, accepts, decide_eq_true_eq] at hacc
        rw [hslot] at hd0
        obtain ⟨lev0, fl0, bi0, hq0, hf0, hi0⟩ := ihc _ t0 x0 (by simp [ATOM, BOR]) (by omega) hd0 hkids.1
        obtain ⟨fl, hffl, htl⟩ := tail_of_derivesL (S := sl BOR) (q := BOR) (fun ts x => ihc BOR ts x (by simp [ATOM, BOR])) xs 1 tss' hxs
            (fun j _ _ => hslot j) hdt
          hkids.2 hall
        exact ⟨CMP, min CMP fl, false, Or.inl hacc, fun rest h => follow_min (follow_mono h (by lv; omega)) (hffl rest (follow_mono h (by lv; omega))), fun _ => rfl, inv_cmp hk hlen' hi0 hq0 htl⟩
      | attr n =>
        simp only [Kind.arityOk, beq_iff_eq] at har
        obtain ⟨v, rfl⟩ := len_one har
        obtain ⟨tv, rfl, hdv⟩ := derivesL1 hL
        simp only [inFragL, Bool.and_eq_true, and_true] at hkids
        simp only [Kind.render, Kind.slot, Kind.cls, accepts, decide_eq_true_eq, List.length_append, List.length_cons,
          List.length_nil] at hlen hdv hacc ⊢
        obtain ⟨levv, flv, biv, hlv, _, hniv, hiv⟩ := ih _ tv v (by omega) hdv hkids
        have hbv : biv = false := hniv rfl
        subst hbv
        have hlv' : ATOM ≤ levv := by simp only [GRP, ATOM] at hlv ⊢; omega
        exact ⟨ATOM, 15, false, Or.inl hacc, fun _ _ => follow_top (by omega), fun _ => rfl, inv_attr hiv hlv'⟩
      | subscr =>
        simp only [Kind.arityOk, beq_iff_eq] at har
        obtain ⟨v, x, rfl⟩ := len_two har
        obtain ⟨tv, tx, rfl, hdv, hdx⟩ := derivesL2 hL
        simp only [inFragL, Bool.and_eq_true, and_true] at hkids
        simp only [Kind.render, Kind.slot, Kind.cls, accepts, decide_eq_true_eq, List.length_append, List.length_cons,
          List.length_nil] at hlen hdv hdx hacc ⊢
        simp at hdv hdx
        obtain ⟨levv, flv, biv, hlv, _, hiv⟩ := ihc ATOM tv v (Nat.le_refl _) (by omega) hdv hkids.1
        obtain ⟨levx, flx, bix, _, _, _, hix⟩ := ih _ tx x (by omega) hdx hkids.2
        exact ⟨ATOM, 15, false, Or.inl hacc, fun _ _ => follow_top (by omega), fun _ => rfl, inv_subscr hiv hlv hix⟩
      | call na kws =>
        simp only [kindOk, List.isEmpty_iff] at hk
        subst hk
        simp only [Kind.arityOk, beq_iff_eq, List.length_nil, Nat.add_zero] at har
        obtain ⟨fn, args, rfl, hargs⟩ : ∃ fn args, kids = fn :: args ∧ args.length = na := by
          match kids, har with
          | fn :: args, har => exact ⟨fn, args, rfl, by simp only [List.length_cons] at har; omega⟩
          | [], har => simp at har; omega
        obtain ⟨tf, tss', rfl, hdf, hda⟩ := derivesL_cons hL
        have htl := derivesL_length hda
        simp only [inFragL, Bool.and_eq_true] at hkids
        simp only [Kind.cls, accepts, decide_eq_true_eq] at hacc
        have hs0 : (Kind.call na []).slot 0 = sl ATOM := by simp [Kind.slot]
        rw [hs0] at hdf
        have hrender : (Kind.call na []).render (tf :: tss') = tf ++ [Tok.lp] ++ sepBy [Tok.sym tComma] tss' ++ [Tok.rp] := by
          simp [Kind.render, kwRender, ← hargs, ← htl]
        rw [hrender] at hlen ⊢
        simp only [List.length_append, List.length_cons, List.length_nil] at hlen
        obtain ⟨levf, flf, bif', hlf, _, hif⟩ := ihc ATOM tf fn (Nat.le_refl _) (by omega) hdf hkids.1
        refine ⟨ATOM, 15, false, Or.inl hacc, fun _ _ => follow_top (by omega), fun _ => rfl, ?_⟩
        cases args with
        | nil =>
          subst hargs
          rw [derivesL_nil hda]
          simpa [sepBy] using inv_call0 hif hlf
        | cons x0 xs =>
          obtain ⟨t0, tss'', rfl, hd0, hdt⟩ := derivesL_cons hda
          simp only [inFragL, Bool.and_eq_true] at hkids
          rw [sepBy_cons] at hlen ⊢
          simp only [List.length_append] at hlen
          obtain ⟨lev0, fl0, bi0, _, _, _, hi0⟩ := ih _ t0 x0 (by omega) hd0 hkids.2.1
          cases xs with
          | nil =>
            subst hargs
            rw [derivesL_nil hdt]
            simpa [tailR] using inv_call1 hif hlf hi0
          | cons x1 xs =>
            have hall : ∀ ts ∈ tss'', ts.length < N := fun ts h => by
              have := mem_tailR_lt (sep := Tok.sym tComma) h; omega
            obtain ⟨fl, _, htlv⟩ := tail_of_derivesL (k := .call na []) (S := { minLad := TEST, named := true, star := true })
              (q := TEST)
              (fun ts x hl hd hf => by
                obtain ⟨lev, fl, bi, _, h2, _, h4⟩ := ih _ ts x hl hd hf
                exact ⟨lev, fl, bi, by simp [TEST], h2, h4⟩)
              (x1 :: xs) 2 tss'' (by simp)
              (fun j h1 h2 => by
                simp only [List.length_cons] at h2 hargs
                simp only [Kind.slot]
                rw [if_neg (by simp; omega), if_pos (by omega)])
              hdt hkids.2.2 hall
            have := inv_calln hif hlf hi0 htlv
            subst hargs
            simpa using this
      | _ => simp [kindOk] at hk


/-- **Completeness of the parser for the grammar** (on the fragment): a phrase of slot `s` for the tree `e`, followed
by tokens that cannot continue a phrase of that slot, is parsed to exactly `e`, leaving exactly those tokens. -/
theorem parse_complete {s : Slot} {ts : List Tok} {e : E} (rest : List Tok) (hd : Derives s ts e)
    (hf : inFrag e = true) (hfol : follow s.minLad rest = true) : parseE s (ts ++ rest) = some (e, rest) := by
  obtain ⟨lev, fl, bi, hlev, hF, hni, hinv⟩ := complete_aux (ts.length + 1) s ts e (Nat.lt_succ_self _) hd hf
  have : pE (fuelFor (ts ++ rest)) s.minLad (ts ++ rest) = some (e, lev, bi, rest) :=
    hinv.2 _ _ 1 _ _ hlev (hF rest hfol) (pLoop_stop hfol) (by simp only [fuelFor, List.length_append]; omega)
  simp only [parseE, this]
  cases hn : s.noInt with
  | false => simp
  | true => simp [hni hn]

theorem parse_complete_nil {s : Slot} {ts : List Tok} {e : E} (hd : Derives s ts e) (hf : inFrag e = true) :
    parse s ts = some e := by
  have := parse_complete [] hd hf rfl
  rw [List.append_nil] at this
  simp [parse, this]

end Pfst.Parse
