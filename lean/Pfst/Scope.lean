/-
Model for property C16: the scope-restricted walk (`FST.walk(scope=True)`, src/fst/fst_traverse.py) and
`FST.scope_symbols` (src/fst/fst.py) over an abstract syntax that keeps the scope-relevant skeleton of Python.

Two things live here, deliberately written in different styles:

* the SPEC (`sStep`, `labels`, `owned`, `classify`): Python's scoping rules, as a top-down assignment of a scope to every
  node ("decorators, defaults, annotations, returns, bases, keywords, type-parameter bounds and the first iterable of a
  comprehension belong to the enclosing scope; a walrus target inside comprehensions belongs to the nearest enclosing
  non-comprehension scope") and a per-node table of binding forms;
* the MODEL (`mStep`, `walkRoot`, `symbols`): what the code does: `_ScopeContext.create`, the main stack loop with
  the `_SCOPE_WALK_FUNCS` dispatch (`stack_funcdef`, `stack_ClassDef`, `stack_Lambda`, `stack_arguments`, `stack_arg`,
  `stack_type_param`, `stack_comprehension`), the generator `walk_Comp` which runs an *unscoped*, unfiltered walk below a
  nested comprehension, picks the first iterable and the walrus targets out of it and applies `all` where it yields, and
  the if-chain of
  `scope_symbols(full=True)`.

Both are instances of one generic preorder traversal `trav` driven by a transition table: the state says where in
the parent the current sibling list sits, the table says whether a node is yielded and in which state its children are
visited.  `on='enter'`, no `send()`; forward (`trav`) and backward (`travB`, `back=True`) walks from the same table; `travO` is
the forward walk during which the consumer replaces yielded nodes.  No imports: linked into the native driver.
-/
namespace Pfst.Scope

inductive Kind where
  | module | funcdef | lambda | classdef | comp          -- scope-defining (funcdef = FunctionDef/AsyncFunctionDef, comp = the four Comps)
  | arguments | arg | tparam | gen | namedexpr            -- gen = `comprehension`, tparam = TypeVar/ParamSpec/TypeVarTuple
  | nameLoad | nameStore | nameDel
  | global | nonlocal | import_ | augassign               -- import_ = Import/ImportFrom
  | handler | matchAs | matchStar | matchMap              -- ExceptHandler, MatchAs, MatchStar, MatchMapping
  | other
deriving DecidableEq, Repr, Inhabited

/-- field of the parent the node sits in (`pfield.name`, coarsened) -/
inductive Role where
  | plain | deco | tparam | args | returns | body | argr | dflt | ann | bound | base | kw
  | elt | gen0 | gen | target | iter | cond | wtarget      -- gen0 = `generators[0]`, wtarget = `NamedExpr.target`
deriving DecidableEq, Repr, Inhabited

/-- `names`: the identifiers the node carries (Name.id, arg.arg, def/class/type-param name, Global/Nonlocal names, the
names an import binds, the Name target of an AugAssign, ExceptHandler.name, MatchAs/MatchStar.name, MatchMapping.rest),
interned as numbers by the harness. `kids` in syntax order. -/
inductive Node where
  | mk (id : Nat) (k : Kind) (r : Role) (names : List Nat) (kids : List Node)
deriving Repr, Inhabited

def Node.id : Node → Nat | .mk i _ _ _ _ => i
def Node.kind : Node → Kind | .mk _ k _ _ _ => k
def Node.role : Node → Role | .mk _ _ r _ _ => r
def Node.names : Node → List Nat | .mk _ _ _ ns _ => ns
def Node.kids : Node → List Node | .mk _ _ _ _ ks => ks

/-- what the transition tables may look at: scope class of the node and whether `all=_ASTS_LEAF_SCOPE_SYMBOLS` lets it through -/
inductive KC where
  | defn | lam | comp | ne | plain
deriving DecidableEq, Repr, Inhabited

def Kind.kc : Kind → KC
  | .funcdef | .classdef => .defn
  | .lambda => .lam
  | .comp => .comp
  | .namedexpr => .ne
  | _ => .plain

/-- membership in `_ASTS_LEAF_SCOPE_SYMBOLS` (fst.py): ASTS_LEAF_DEF | ASTS_LEAF_TYPE_PARAM | {Name, arg, AugAssign,
Import, ImportFrom, Nonlocal, Global, ExceptHandler, MatchAs, MatchStar, MatchMapping} -/
def Kind.isSym : Kind → Bool
  | .funcdef | .classdef | .tparam | .nameLoad | .nameStore | .nameDel | .arg | .augassign | .import_ | .nonlocal
  | .global | .handler | .matchAs | .matchStar | .matchMap => true
  | _ => false

/-! ### generic traversal -/

mutual
/-- preorder traversal driven by a table: `f s kind role = (yield?, state for the children)`.  The state of a sibling
list does not change along the list: which children belong where is decided by their field in the parent alone (the code
decides by identity - `scope_args`, `scope_first_iter`, `first_iter` - never by position in the stack). -/
def trav {σ : Type} (f : σ → Kind → Role → Bool × σ) (s : σ) : Node → List Node
  | .mk i k r ns kids =>
    (if (f s k r).1 then [.mk i k r ns kids] else []) ++ travL f (f s k r).2 kids
def travL {σ : Type} (f : σ → Kind → Role → Bool × σ) (s : σ) : List Node → List Node
  | [] => []
  | n :: rest => trav f s n ++ travL f s rest
end

mutual
/-- the same walked backwards (`back=True`): parents first, siblings in reverse order -/
def travB {σ : Type} (f : σ → Kind → Role → Bool × σ) (s : σ) : Node → List Node
  | .mk i k r ns kids =>
    (if (f s k r).1 then [.mk i k r ns kids] else []) ++ travLB f (f s k r).2 kids
def travLB {σ : Type} (f : σ → Kind → Role → Bool × σ) (s : σ) : List Node → List Node
  | [] => []
  | n :: rest => travLB f s rest ++ travB f s n
end

mutual
/-- The walk when the consumer replaces nodes it is handed, run on the FINAL tree: `old i k` is the class node `i` had
when it was popped (`k` if it was not replaced).  Whether a node is yielded is decided on the node that was popped
(`check_all_param(fst_)` before the `yield`); the state for its children comes from the class the node has after the
yield (`ast = fst_.a` is re-read, then `_SCOPE_WALK_FUNCS.get(ast.__class__)`). -/
def travO {σ : Type} (old : Nat → Kind → Kind) (f : σ → Kind → Role → Bool × σ) (s : σ) : Node → List Node
  | .mk i k r ns kids =>
    (if (f s (old i k) r).1 then [.mk i k r ns kids] else []) ++ travLO old f (f s k r).2 kids
def travLO {σ : Type} (old : Nat → Kind → Kind) (f : σ → Kind → Role → Bool × σ) (s : σ) : List Node → List Node
  | [] => []
  | n :: rest => travO old f s n ++ travLO old f s rest
end

mutual
def preorder : Node → List Node
  | .mk i k r ns kids => .mk i k r ns kids :: preorderL kids
def preorderL : List Node → List Node
  | [] => []
  | n :: rest => preorder n ++ preorderL rest
end

/-! ### SPEC: which scope does a node belong to -/

/-- where the current sibling list sits -/
inductive Pos where
  | norm          -- children of an ordinary node
  | hdr           -- children of a def / class / lambda
  | args          -- children of its `arguments`
  | argn          -- children of one of its `arg`s (the annotation)
  | tpn           -- children of one of its type parameters (bound, default)
  | comp0         -- children of a comprehension expression
  | gen0 | gen1   -- children of its first / a later generator
  | ne            -- children of a NamedExpr
deriving DecidableEq, Repr, Inhabited

/-- Spec state, polymorphic in the scope mark `α` (scope id for the global labelling, Bool "is it the scope of
interest" for the per-scope view).  `(cur, fn)` = scope of the *inner* parts and its nearest non-comprehension scope;
`(oc, ofn)` = the same for the *outer* parts of the scope-defining node we are in the header of. -/
structure SS (α : Type) where
  pos : Pos
  cur : α
  fn : α
  oc : α
  ofn : α
deriving DecidableEq, Repr

/-- the scope context `(scope, nearest non-comprehension scope)` a child with role `r` lives in -/
def SS.ctx {α : Type} (s : SS α) (r : Role) : α × α :=
  match s.pos with
  | .norm => (s.cur, s.fn)
  | .hdr =>
    match r with
    | .deco | .returns | .base | .kw => (s.oc, s.ofn)   -- decorators, returns, bases, keywords: enclosing scope
    | _ => (s.cur, s.fn)                                -- body, type params, arguments: the new scope
  | .args =>
    match r with
    | .argr => (s.cur, s.fn)                            -- parameters are names of the new scope
    | _ => (s.oc, s.ofn)                                -- defaults: enclosing scope
  | .argn => (s.oc, s.ofn)                              -- annotations: enclosing scope
  | .tpn => (s.oc, s.ofn)                               -- bounds / defaults of type parameters: enclosing scope (pfst docs)
  | .comp0 | .gen1 => (s.cur, s.fn)
  | .gen0 =>
    match r with
    | .iter => (s.oc, s.ofn)                            -- first iterable: enclosing scope
    | _ => (s.cur, s.fn)
  | .ne =>
    match r with
    | .wtarget => (s.fn, s.fn)                          -- walrus target: nearest enclosing non-comprehension scope
    | _ => (s.cur, s.fn)

/-- state for the children of a node living in context `(c, f)`; `fresh` = the mark of the scope the node opens -/
def SS.kidsOf {α : Type} (s : SS α) (fresh : α) (k : Kind) (r : Role) : SS α :=
  let (c, f) := s.ctx r
  match s.pos, r with
  | .hdr, .args => { s with pos := .args }
  | .hdr, .tparam => { s with pos := .tpn }
  | .args, .argr => { s with pos := .argn }
  | .comp0, .gen0 => { s with pos := .gen0 }
  | .comp0, .gen => { s with pos := .gen1 }
  | _, _ =>
    match k.kc with
    | .defn | .lam => { pos := .hdr, cur := fresh, fn := fresh, oc := c, ofn := f }
    | .comp => { pos := .comp0, cur := fresh, fn := f, oc := c, ofn := f }
    | .ne => { pos := .ne, cur := c, fn := f, oc := c, ofn := f }
    | .plain => { pos := .norm, cur := c, fn := f, oc := c, ofn := f }

/-- per-scope view: mark = "belongs to the scope of interest"; every scope opened below is another scope -/
def sStep (s : SS Bool) (k : Kind) (r : Role) : Bool × SS Bool := ((s.ctx r).1, s.kidsOf false k r)

/-- state for the children of the scope-defining node `r` when `r` is the scope of interest.  `quirk = true` gives the
documented behaviour of a walk *started on* a comprehension: walrus targets are returned although they belong further
out ("One quirk, if starting a scope walk on a Comprehension, any walrus targets WILL be returned ... on purpose"). -/
def sInit (quirk : Bool) (k : Kind) : SS Bool :=
  match k.kc with
  | .defn | .lam => { pos := .hdr, cur := true, fn := true, oc := false, ofn := false }
  | .comp => { pos := .comp0, cur := true, fn := quirk, oc := false, ofn := false }
  | _ => { pos := .norm, cur := true, fn := true, oc := false, ofn := false }

/-- SPEC: the nodes that belong to the scope defined by `r` (without `r` itself) -/
def owned (r : Node) : List Node := travL sStep (sInit false r.kind) r.kids
/-- SPEC of what `walk(scope=True, self_=False)` documents: `owned` plus, for a comprehension root, the walrus targets -/
def ownedWalk (r : Node) : List Node := travL sStep (sInit true r.kind) r.kids

mutual
/-- global labelling: every node with the id of the scope-defining node it belongs to (`root` for the outermost) -/
def labels (s : SS Nat) : Node → List (Nat × Nat)
  | .mk i k r _ kids => (i, (s.ctx r).1) :: labelsL (s.kidsOf i k r) kids
def labelsL (s : SS Nat) : List Node → List (Nat × Nat)
  | [] => []
  | n :: rest => labels s n ++ labelsL s rest
end

/-- state for the children of the root of a whole tree: everything reachable is marked with the root's id -/
def rootSS (t : Node) : SS Nat :=
  match t.kind.kc with
  | .defn | .lam => ⟨.hdr, t.id, t.id, t.id, t.id⟩
  | .comp => ⟨.comp0, t.id, t.id, t.id, t.id⟩
  | _ => ⟨.norm, t.id, t.id, t.id, t.id⟩

/-- `scopeOf`: (node id, scope id) for every node below the root, preorder -/
def scopeOf (t : Node) : List (Nat × Nat) := labelsL (rootSS t) t.kids

/-- scope-defining nodes of a tree, preorder -/
def isScope (n : Node) : Bool := match n.kind.kc with | .defn | .lam | .comp => true | _ => false
def scopes (t : Node) : List Node := t :: (preorderL t.kids).filter isScope

/-! ### MODEL: `walk(scope=True)` -/

inductive MPos where
  | loop        -- nodes pushed by `stack.extend(syntax_ordered_children(ast))` in the main loop
  | dead        -- never pushed on any stack
  | rootDef     -- `_ScopeContext.create` on FunctionDef/AsyncFunctionDef/ClassDef: type_params, scope_args, body pushed
  | rootLam     -- `create` on Lambda: scope_args, body
  | rootArgs    -- `stack_arguments` on `scope_args`: only the `arg` nodes are pushed (defaults are not)
  | rootComp0   -- `create` on a Comp: elt / key, value and the generators
  | rootGen0 | rootGen1     -- `stack_comprehension`: target, iter unless it is `scope_first_iter`, ifs
  | hdrFunc     -- `stack_funcdef` of a nested def: decorators, type-param bounds/defaults, annotations, defaults, returns
  | hdrClass    -- `stack_ClassDef`: decorators, type-param bounds/defaults, bases, keywords
  | hdrLam      -- `stack_Lambda`: defaults, kw_defaults
  | hdrArgs     -- the nested def's `arguments`: annotation of each arg, each default
  | lamArgs     -- the nested lambda's `arguments`: each default
  | pick        -- children of a nested arg / type parameter: all pushed
  | cw0         -- `walk_Comp`: children of the nested Comp seen by its unscoped `gen` walk
  | cwGen0      -- children of generators[0]: `iter` is `first_iter`
  | cw          -- anything else seen by `gen`
  | cwT         -- the `.ctx` of a walrus target (`check_all_param(a.ctx.f)`)
deriving DecidableEq, Repr, Inhabited

/-- a node taken from the main-loop stack: `check_all_param` then `_SCOPE_WALK_FUNCS.get(ast.__class__)` -/
def loopNode (pass : Bool) (kc : KC) : Bool × MPos :=
  (pass, match kc with
         | .defn => .hdrFunc      -- refined to hdrClass below (`mStep` has the Kind)
         | .lam => .hdrLam
         | .comp => .cw0
         | _ => .loop)

/-- a node seen by `walk_Comp`'s unscoped walk (`gen = fst_.walk(True, ...)`, every node is seen) that is not
`first_iter`: only a NamedExpr.target is passed on, `if check_all_param(f)` -/
def cwNode (pass : Bool) (r : Role) : Bool × MPos :=
  if r == .wtarget then (pass, .cwT) else (false, .cw)

def mStep (flt : Bool) (s : MPos) (k : Kind) (r : Role) : Bool × MPos :=
  let pass := !flt || k.isSym                                  -- `_all_param_func(all)`; flt = `all=_ASTS_LEAF_SCOPE_SYMBOLS`
  let ln : Bool × MPos :=
    match k with
    | .classdef => (pass, .hdrClass)
    | _ => loopNode pass k.kc
  match s with
  | .loop => ln
  | .dead => (false, .dead)
  | .rootDef =>
    match r with
    | .tparam => (pass, .dead)              -- `stack_type_param`: is_def and parent is walk_root -> no recursion
    | .args => (pass, .rootArgs)
    | .body => ln
    | _ => (false, .dead)                   -- decorators, returns, bases, keywords are not put on the initial stack
  | .rootLam =>
    match r with
    | .args => (pass, .rootArgs)
    | .body => ln
    | _ => (false, .dead)
  | .rootArgs =>
    match r with
    | .argr => (pass, .dead)                -- `stack_arg`: parent is scope_args -> no recursion
    | _ => (false, .dead)
  | .rootComp0 =>
    match r with
    | .gen0 => (pass, .rootGen0)            -- holds `scope_first_iter`
    | .gen => (pass, .rootGen1)
    | _ => ln
  | .rootGen0 =>
    match r with
    | .iter => (false, .dead)               -- `(a := ast.iter) is not self.scope_first_iter`
    | _ => ln
  | .rootGen1 => ln
  | .hdrFunc =>
    match r with
    | .deco | .returns => ln
    | .tparam => (false, .pick)
    | .args => (false, .hdrArgs)
    | _ => (false, .dead)
  | .hdrClass =>
    match r with
    | .deco | .base | .kw => ln
    | .tparam => (false, .pick)
    | _ => (false, .dead)
  | .hdrLam =>
    match r with
    | .args => (false, .lamArgs)
    | _ => (false, .dead)
  | .hdrArgs =>
    match r with
    | .argr => (false, .pick)
    | .dflt => ln
    | _ => (false, .dead)
  | .lamArgs =>
    match r with
    | .dflt => ln
    | _ => (false, .dead)
  | .pick => ln
  | .cw0 =>
    match r with
    | .gen0 => (false, .cwGen0)             -- holds `first_iter`
    | _ => cwNode pass r
  | .cw => cwNode pass r
  | .cwGen0 =>
    match r with
    | .iter =>                              -- `a is first_iter`: yielded `if check_all_param(f)`, then walked by scope rules
      (pass, match k.kc with
             | .comp => .cw0                -- `yield from self.walk_Comp(a)`
             | .lam => .hdrLam              -- `self.stack_Lambda(a, asts := [], True)`
             | .defn => .rootDef            -- `f.walk(all, self_=False, scope=True)` -> `create`
             | _ => .loop)
    | _ => cwNode pass r
  | .cwT => (pass, .dead)

/-- `_ScopeContext.create`: initial stack by class of the walk root -/
def mInit (k : Kind) : MPos :=
  match k.kc with
  | .defn => .rootDef
  | .lam => .rootLam
  | .comp => .rootComp0
  | _ => .loop

/-- MODEL of `r.walk(all, self_=False, scope=True)`; `flt = false`: `all=True`, `flt = true`: `all=_ASTS_LEAF_SCOPE_SYMBOLS` -/
def walkRoot (flt : Bool) (r : Node) : List Node := travL (mStep flt) (mInit r.kind) r.kids
/-- MODEL of `r.walk(all, self_=False, scope=True, back=True)` -/
def walkRootB (flt : Bool) (r : Node) : List Node := travLB (mStep flt) (mInit r.kind) r.kids
/-- MODEL of `r.walk(all, scope=True, asts=<all children of r>)`: the scope context is built without `create` (`is_def`
false, no `scope_args`, no `scope_first_iter`): every given node is an ordinary stack entry, nothing of `r` is excluded,
nested scopes are still not entered -/
def walkAsts (flt : Bool) (r : Node) : List Node := travL (mStep flt) .loop r.kids
/-- SPEC of the same: everything below `r` that belongs to the scope of `r` or to the scope `r` is defined in -/
def ownedAsts (r : Node) : List Node := travL sStep ⟨.norm, true, true, true, true⟩ r.kids

/-- MODEL of the forward walk during which the consumer replaced nodes (run on the final tree, see `travO`) -/
def walkRootO (old : Nat → Kind → Kind) (flt : Bool) (r : Node) : List Node :=
  travLO old (mStep flt) (mInit r.kind) r.kids

/-! ### relation between spec and model states, evaluated on a tree -/

/-- the outer marks `(oc, ofn)` are only consulted in these positions -/
def Pos.usesOuter : Pos → Bool
  | .hdr | .args | .argn | .tpn | .comp0 | .gen0 => true
  | _ => false
/-- the inner marks `(cur, fn)` are not consulted below an `arg` / type parameter -/
def Pos.usesInner : Pos → Bool
  | .argn | .tpn => false
  | _ => true

def SS.c (s : SS Bool) : Bool := s.pos.usesInner && s.cur
def SS.f (s : SS Bool) : Bool := s.pos.usesInner && s.fn
def SS.o (s : SS Bool) : Bool := s.pos.usesOuter && s.oc
def SS.of (s : SS Bool) : Bool := s.pos.usesOuter && s.ofn

/-- nothing below can belong to the scope of interest -/
def allF (s : SS Bool) : Bool := !s.c && !s.f && !s.o && !s.of

/-- which spec states a model state stands for (the simulation relation of `scopeWalk_eq_spec`) -/
def rel (s : SS Bool) (m : MPos) : Bool :=
  match m with
  | .loop => (s.pos == .norm || s.pos == .ne) && s.cur && s.fn
  | .dead => true                                -- never visited: `ok` demands that the spec reports nothing there
  | .rootDef | .rootLam => s.pos == .hdr && s.cur && s.fn && !s.oc && !s.ofn
  | .rootArgs => s.pos == .args && s.cur && s.fn && !s.oc && !s.ofn
  | .rootComp0 => s.pos == .comp0 && s.cur && s.fn && !s.oc && !s.ofn
  | .rootGen0 => s.pos == .gen0 && s.cur && s.fn && !s.oc && !s.ofn
  | .rootGen1 => s.pos == .gen1 && s.cur && s.fn
  | .hdrFunc | .hdrClass | .hdrLam => s.pos == .hdr && !s.cur && !s.fn && s.oc && s.ofn
  | .hdrArgs | .lamArgs => s.pos == .args && !s.cur && !s.fn && s.oc && s.ofn
  | .pick => (s.pos == .argn || s.pos == .tpn) && s.oc && s.ofn
  | .cw0 => s.pos == .comp0 && !s.cur && s.fn && s.oc && s.ofn
  | .cwGen0 => s.pos == .gen0 && !s.cur && s.fn && s.oc && s.ofn
  | .cw => !s.c && !s.o                          -- nothing of the scope of interest except walrus targets (if fn / ofn)
  | .cwT => s.pos == .norm && s.cur && s.fn

/-- local well-formedness and "the code's shortcuts are harmless here", per node, given the related states -/
def ok (s : SS Bool) (m : MPos) (k : Kind) (r : Role) : Bool :=
  match m with
  | .rootDef => r == .tparam || r == .args || r == .body || r == .deco || r == .returns || r == .base || r == .kw
  | .rootLam => r == .args || r == .body
  | .rootArgs | .hdrArgs | .lamArgs => r == .argr || r == .dflt
  | .hdrFunc => r == .deco || r == .returns || r == .tparam || r == .args || r == .body
  | .hdrClass => r == .deco || r == .base || r == .kw || r == .tparam || r == .body
  | .hdrLam => r == .args || r == .body
  | .cwT => k.kc == .plain                              -- the `.ctx` leaf of a walrus target
  | .rootComp0 | .cw0 => r != .wtarget
  | .cwGen0 => r != .wtarget && (r != .iter || k.kc != .defn)
  | .cw =>
    -- a walrus target seen by the unscoped walk must really belong to the scope of interest (false below a lambda body)
    r != .wtarget || (s.pos == .ne && s.fn && k.kc == .plain)
  | .dead => !(s.ctx r).1                               -- e.g. the `.ctx` of a walrus target has no children
  | _ => true

/-- the spec table seen through the `all` filter: a node is reported only if the filter lets it through -/
def sStepF (flt : Bool) (s : SS Bool) (k : Kind) (r : Role) : Bool × SS Bool :=
  ((sStep s k r).1 && (!flt || k.isSym), (sStep s k r).2)

mutual
/-- run two tables side by side and check `okk` at every node in the pair of states it is reached in -/
def goodG {σ τ : Type} (f1 : σ → Kind → Role → Bool × σ) (f2 : τ → Kind → Role → Bool × τ)
    (okk : σ → τ → Kind → Role → Bool) (s : σ) (t : τ) : Node → Bool
  | .mk _ k r _ kids => okk s t k r && goodGL f1 f2 okk (f1 s k r).2 (f2 t k r).2 kids
def goodGL {σ τ : Type} (f1 : σ → Kind → Role → Bool × σ) (f2 : τ → Kind → Role → Bool × τ)
    (okk : σ → τ → Kind → Role → Bool) (s : σ) (t : τ) : List Node → Bool
  | [] => true
  | n :: rest => goodG f1 f2 okk s t n && goodGL f1 f2 okk s t rest
end

/-- hypothesis of `scopeWalk_eq_spec`, computable (the driver evaluates it on every real tree): every node of the scope
meets `ok` in the states the spec table and the model table reach it in (the states do not depend on the `all` filter) -/
def goodRoot (r : Node) : Bool :=
  goodGL sStep (mStep false) ok (sInit true r.kind) (mInit r.kind) r.kids

/-- hypothesis of `scopeWalk_asts` -/
def goodAsts (r : Node) : Bool := goodGL sStep (mStep false) ok ⟨.norm, true, true, true, true⟩ .loop r.kids

/-! ### symbols -/

structure Syms where
  load : List Nat := []
  store : List Nat := []
  del : List Nat := []
  glob : List Nat := []
  nonl : List Nat := []
  loc : List Nat := []
  free : List Nat := []
deriving Repr, DecidableEq, Inhabited

/-- keys of a dict in insertion order -/
def addKey (l : List Nat) (x : Nat) : List Nat := if l.contains x then l else l ++ [x]
def addKeys (l : List Nat) (xs : List Nat) : List Nat := xs.foldl addKey l
def minus (l m : List Nat) : List Nat := l.filter (fun x => !m.contains x)

/-- accumulator of the loop of `scope_symbols(full=True)`: the five dicts (keys only), `syms_walrus`, and the names whose
`syms_load` list contains at least one Load-context node (for the final filtering of `ret['load']` on a Comp) -/
structure Acc where
  load : List Nat := []
  store : List Nat := []
  del : List Nat := []
  glob : List Nat := []
  nonl : List Nat := []
  walrus : List Nat := []
  realLoad : List Nat := []
deriving Repr, Inhabited

/-- one iteration of `for f in self.walk(all=_ASTS_LEAF_SCOPE_SYMBOLS, scope=True)` (fst.py, scope_symbols) -/
def symStep (isComp : Bool) (a : Acc) (n : Node) : Acc :=
  match n.kind with
  | .nameLoad => { a with load := addKeys a.load n.names, realLoad := addKeys a.realLoad n.names }
  | .nameDel => { a with del := addKeys a.del n.names }
  | .nameStore =>
    if isComp && n.role == .wtarget then                          -- full_and_comp and pfield 'target' of a NamedExpr
      { a with walrus := addKeys a.walrus n.names, load := addKeys a.load n.names, store := addKeys a.store n.names }
    else { a with store := addKeys a.store n.names }
  | .arg | .tparam => { a with store := addKeys a.store n.names }
  | .funcdef | .classdef => { a with store := addKeys a.store n.names }     -- `a is ast` cannot happen with self_=False
  | .augassign => { a with load := addKeys a.load n.names }                -- `target.f` has Store context
  | .import_ => { a with store := addKeys a.store n.names }
  | .handler | .matchAs | .matchStar | .matchMap => { a with store := addKeys a.store n.names }   -- no name: `continue`
  | .nonlocal => { a with nonl := addKeys a.nonl n.names }
  | .global => { a with glob := addKeys a.glob n.names }
  | _ => a                                                        -- not in `_ASTS_LEAF_SCOPE_SYMBOLS`: never yielded

/-- the tail of `scope_symbols`: `local` and `free` -/
def finish (isComp : Bool) (a : Acc) : Syms :=
  let nonLocal := a.glob ++ a.nonl ++ a.walrus
  let loc := minus a.store nonLocal
  if isComp then
    let nonLoad := minus a.store a.walrus
    { load := a.load.filter (fun x => a.realLoad.contains x), store := a.store, del := a.del, glob := a.glob, nonl := a.nonl,
      loc := loc, free := minus a.load nonLoad }
  else
    let nonLoad := a.store ++ a.del ++ a.nonl ++ a.glob
    { load := a.load, store := a.store, del := a.del, glob := a.glob, nonl := a.nonl, loc := loc,
      free := minus a.load nonLoad }

def isComp (r : Node) : Bool := r.kind.kc == .comp

/-- MODEL of `r.scope_symbols(full=True)` (names per class, insertion order) -/
def symbols (r : Node) : Syms := finish (isComp r) ((walkRoot true r).foldl (symStep (isComp r)) {})

/-- SPEC: names a node binds / reads / deletes / declares in the scope it belongs to (language reference 4.2.1: targets
of assignment, `for`, `with`, `except ... as`, `import`, `def`, `class`, parameters, type parameters, capture patterns,
walrus; an augmented assignment also reads its target) -/
def binds (n : Node) : List Nat :=
  match n.kind with
  | .nameStore | .arg | .tparam | .funcdef | .classdef | .import_ | .handler | .matchAs | .matchStar | .matchMap => n.names
  | _ => []
def reads (n : Node) : List Nat := match n.kind with | .nameLoad | .augassign => n.names | _ => []
def dels (n : Node) : List Nat := match n.kind with | .nameDel => n.names | _ => []
def globs (n : Node) : List Nat := match n.kind with | .global => n.names | _ => []
def nonls (n : Node) : List Nat := match n.kind with | .nonlocal => n.names | _ => []

def keysOf (f : Node → List Nat) (l : List Node) : List Nat := l.foldl (fun a n => addKeys a (f n)) []

/-- SPEC of the seven classes for the scope defined by `r`, from the nodes that belong to it -/
def classify (r : Node) : Syms :=
  let ns := owned r
  let load := keysOf reads ns
  let store := keysOf binds ns
  let del := keysOf dels ns
  let glob := keysOf globs ns
  let nonl := keysOf nonls ns
  { load, store, del, glob, nonl, loc := minus store (glob ++ nonl), free := minus load (store ++ del ++ nonl ++ glob) }

end Pfst.Scope
