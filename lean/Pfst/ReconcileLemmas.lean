import Pfst.Reconcile
/-! Lemmas about `applyOps` (container laws of the trace interpreter) used by `Pfst/Props/C13.lean`. -/
namespace Pfst.Reconcile

theorem applyOps_append (a b : List Op) (t : T) : applyOps (a ++ b) t = applyOps b (applyOps a t) := by
  induction a generalizing t with
  | nil => rfl
  | cons o r ih => simp [applyOps, ih]

theorem modKid_comp (i : Nat) (f g : T → T) (t : T) : modKid i g (modKid i f t) = modKid i (g ∘ f) t := by
  cases t <;> simp [modKid, List.modify_modify_eq]

theorem modKid_id (i : Nat) (t : T) : modKid i id t = t := by
  cases t <;> simp [modKid]

theorem applyOp_pre (i : Nat) (o : Op) (t : T) : applyOp (o.pre i) t = modKid i (applyOp o) t := by
  show applyAt (i :: o.path) o.act t = modKid i (applyAt o.path o.act) t
  rfl

/-- Frame law: operations whose paths start with `i` only act on child `i`. -/
theorem applyOps_preAll (i : Nat) (ops : List Op) (t : T) :
    applyOps (preAll i ops) t = modKid i (applyOps ops) t := by
  induction ops generalizing t with
  | nil =>
    have : applyOps ([] : List Op) = id := by funext x; rfl
    rw [this, modKid_id]; rfl
  | cons o r ih =>
    have h : applyOps (o :: r) = applyOps r ∘ applyOp o := by funext x; rfl
    simp only [preAll, List.map_cons, applyOps] at *
    rw [ih, applyOp_pre, modKid_comp, h]

/-- A put at the slot itself overrides whatever the earlier operations left there. -/
theorem applyOps_put_last (ops : List Op) (s : Src) (p t : T) :
    applyOps (ops ++ [⟨[], .put s p⟩]) t = p := by
  rw [applyOps_append]; rfl

theorem erase_scalar (c : T) (h : c.isNode = false) (h2 : ∀ s m cs, c ≠ .many s m cs) : erase c = c := by
  cases c with
  | nil => rfl
  | prim v => rfl
  | node o k cs => simp [T.isNode] at h
  | many s m cs => exact absurd rfl (h2 s m cs)

theorem modify_at {α} (pre : List α) (x : α) (post : List α) (f : α → α) :
    (pre ++ x :: post).modify pre.length f = pre ++ f x :: post := by
  induction pre with
  | nil => simp
  | cons a r ih => simp [ih]

theorem modKid_node_at (o : Origin) (k : Nat) (pre : List T) (x : T) (post : List T) (f : T → T) :
    modKid pre.length f (.node o k (pre ++ x :: post)) = .node o k (pre ++ f x :: post) := by
  simp [modKid, modify_at]

mutual
theorem erase_erase : ∀ t : T, erase (erase t) = erase t
  | .nil => rfl
  | .prim _ => rfl
  | .node _ k cs => by simp [erase, eraseL_eraseL cs]
  | .many s m cs => by simp [erase, eraseL_eraseL cs]
theorem eraseL_eraseL : ∀ l : List T, eraseL (eraseL l) = eraseL l
  | [] => rfl
  | c :: r => by simp [eraseL, erase_erase c, eraseL_eraseL r]
end

def scalar : T → Bool
  | .nil => true
  | .prim _ => true
  | _ => false

/-- one step of `recurse_children` on a scalar field (`elif not isinstance(child, list)` branch) -/
theorem recFields_scalar_step (mark : T) (np : NP) (fi : Nat) (ok c : T) (oks rest : List T) (hc : scalar c = true) :
    recFields mark np fi (ok :: oks) (c :: rest) =
      ⟨preAll fi (if (np != .ast && pyNe c ok) = true then [⟨[], .setPrim c⟩] else [])
        ++ (recFields mark np (fi + 1) oks rest).ops, (recFields mark np (fi + 1) oks rest).fail⟩ := by
  cases c with
  | nil => simp [recFields, T.isNode]
  | prim w => simp [recFields, T.isNode]
  | node o k cs => simp [scalar] at hc
  | many s m cs => simp [scalar] at hc

end Pfst.Reconcile
