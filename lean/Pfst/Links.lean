import Pfst.Offset
/-
Model of the link and cache bookkeeping between the two parallel trees of pfst (src/fst/fst_core.py, fst.py, view.py).

* AST objects are `Nat`s arranged in a tree (`Ast`); every node records the slot (`astfield`) it occupies in its
  parent.  FST objects are `Nat`s with the four attributes the code keeps: `.a`, `.parent`, `.pfield`, `._cache`.
  `a.f` is the map `astF`.
* The operations mirror the code as written: `FST.__new__` for a child (`fstNew`: re-use of an existing `a.f`, else a
  new object; `_cache = {}` either way), `_make_fst_tree`, `_unmake_fst_tree`, `_set_ast`, `_set_field`, `_touch`,
  `_touchall`, the cache clearing of the `_offset` walk (`touchNode`/`touchList`: same visit pattern as
  `Pfst.Offset.goNode/goList`; the node that triggers a `break` is cleared, the siblings it cuts off are not), and the
  self-healing window arithmetic of `FSTView`.
Not modelled: object identity of the `ctx`/`op` singleton ASTs that `_make_fst_tree` replaces by unique objects (the
harness feeds unique objects), the order in which new FST objects are allocated (names of new objects are compared up
to renaming).  Only import-free model files are imported (linked into the native driver).
-/
namespace Pfst.Links

-- AST object ids and FST object ids are plain `Nat`s (named `a`, `x` resp. `f`, `g`, `pf` below)

/-- `astfield(name, idx)` -/
structure Fld where
  name : String
  idx  : Option Nat
deriving DecidableEq, Repr, Inhabited

/-- AST object: identity, class name, the slot it occupies in its parent (`none` at a root), children. -/
inductive Ast where
  | mk (id : Nat) (kind : String) (fld : Option Fld) (kids : List Ast)
deriving Repr, Inhabited

def Ast.id : Ast → Nat | .mk i _ _ _ => i
def Ast.kind : Ast → String | .mk _ k _ _ => k
def Ast.fld : Ast → Option Fld | .mk _ _ f _ => f
def Ast.kids : Ast → List Ast | .mk _ _ _ k => k
def Ast.setFld (f : Option Fld) : Ast → Ast | .mk i k _ ks => .mk i k f ks

/-- cached answers: key (`'loc'`, `'bloc'`, `'parsT'`, ...) and the answer as integers -/
abbrev Cache := List (String × List Int)

/-- FST object attributes (`fst.py:441-444`). -/
structure FstRec where
  a      : Option Nat := none
  parent : Option Nat := none
  pfield : Option Fld := none
  cache  : Cache := []
deriving Repr, Inhabited

structure Store where
  astF : Nat → Option Nat      -- `a.f`
  fst  : Nat → FstRec
  next : Nat                     -- objects `≥ next` do not exist yet
deriving Inhabited

def upd {β} (g : Nat → β) (k : Nat) (v : β) : Nat → β := fun x => if x = k then v else g x

mutual
/-- AST ids of a subtree, preorder -/
def ids : Ast → List Nat
  | .mk i _ _ kids => i :: idsList kids
def idsList : List Ast → List Nat
  | [] => []
  | k :: rest => ids k ++ idsList rest
end

/-! ### `FST.__new__` for a child node (fst.py:906-919) -/

/-- `FST(a, parent, pfield)`: re-use the FST already assigned to the AST, otherwise a new object; then
`self.a = a; self.pfield = pfield; self._cache = {}; self.parent = parent`. -/
def fstNew (σ : Store) (a : Nat) (parent : Nat) (fld : Option Fld) : Store × Nat :=
  match σ.astF a with
  | some f =>
    ({ σ with fst := upd σ.fst f { a := some a, parent := some parent, pfield := fld, cache := [] } }, f)
  | none =>
    let f := σ.next
    ({ astF := upd σ.astF a (some f),
       fst := upd σ.fst f { a := some a, parent := some parent, pfield := fld, cache := [] },
       next := f + 1 }, f)

/-! ### `_make_fst_tree` (fst_core.py:609) -/

mutual
/-- one child of `parent`: create its FST, then (the stack walk) the FSTs of everything below it -/
def makeChild (σ : Store) (pf : Nat) : Ast → Store
  | .mk a _ fld kids =>
    let r := fstNew σ a pf fld
    makeKids r.1 r.2 kids
def makeKids (σ : Store) (pf : Nat) : List Ast → Store
  | [] => σ
  | k :: rest => makeKids (makeChild σ pf k) pf rest
end

/-! ### `_unmake_fst_tree` (fst_core.py:655) -/

/-- `if f := getattr(a, 'f', None): f.a = a.f = None` -/
def unlink (σ : Store) (a : Nat) : Store :=
  match σ.astF a with
  | some f => { σ with astF := upd σ.astF a none, fst := upd σ.fst f { σ.fst f with a := none } }
  | none => σ

mutual
def unmake (σ : Store) : Ast → Store
  | .mk a _ _ kids => unmakeList (unlink σ a) kids
def unmakeList (σ : Store) : List Ast → Store
  | [] => σ
  | k :: rest => unmakeList (unmake σ k) rest
end

/-! ### `_touch`, `_touchall` (fst_core.py:1569, 1579) -/

def touch (σ : Store) (f : Nat) : Store := { σ with fst := upd σ.fst f { σ.fst f with cache := [] } }

/-- `child.f._cache.clear()` for an AST (no-op in the model when the AST has no FST; the code would raise) -/
def touchAst (σ : Store) (a : Nat) : Store :=
  match σ.astF a with | some f => touch σ f | none => σ

mutual
def touchTree (σ : Store) : Ast → Store
  | .mk a _ _ kids => touchTreeList (touchAst σ a) kids
def touchTreeList (σ : Store) : List Ast → Store
  | [] => σ
  | k :: rest => touchTreeList (touchTree σ k) rest
end

/-- tail of `_put_slice` for `Call` / `ClassDef` / `MatchClass` (fst_put_slice.py, after the repair of C02-F1):
`for a in iter_child_nodes(self.a): a.f._touch()` -/
def touchKids (σ : Store) : List Ast → Store
  | [] => σ
  | k :: rest => touchKids (touchAst σ k.id) rest

/-- `a.f.pfield = astfield(field, i)`: the FST of child `k` records the slot `k` occupies now -/
def setPfield (σ : Store) (k : Ast) : Store :=
  match σ.astF k.id with
  | some f => { σ with fst := upd σ.fst f { σ.fst f with pfield := k.fld } }
  | none => σ

/-- the renumbering loops that follow the removal / insertion of a span in (parallel) list fields
(`for i, a in enumerate(getattr(ast, field)): if a: a.f.pfield = astfield(field, i)` in
fst_get_slice._get_slice_arguments and friends, `_put_slice_asts`): run over the remaining children, each carrying the
slot it now occupies. -/
def renumberKids (σ : Store) : List Ast → Store
  | [] => σ
  | k :: rest => renumberKids (setPfield σ k) rest

/-- `while parent := parent.parent: parent._cache.clear()`; `fuel` bounds the walk (number of FST objects). -/
def touchParents (σ : Store) : Nat → Nat → Store
  | 0, _ => σ
  | fuel + 1, f =>
    match (σ.fst f).parent with
    | none => σ
    | some p => touchParents (touch σ p) fuel p

/-- `_touchall(parents, self_, children)` on the FST `f` whose AST subtree is `t`. -/
def touchall (σ : Store) (f : Nat) (t : Ast) (parents self_ children : Bool) : Store :=
  let σ1 := if children then (if self_ then touchTree σ t else touchTreeList σ t.kids)
            else if self_ then touch σ f else σ
  if parents then touchParents σ1 σ1.next f else σ1

/-! ### tree surgery helpers (what `pfield.set(parent.a, ast)` / `setattr(ast, field, ...)` do to the AST) -/

mutual
def findId (i : Nat) : Ast → Option Ast
  | .mk j k f ks => if j = i then some (.mk j k f ks) else findIdList i ks
def findIdList (i : Nat) : List Ast → Option Ast
  | [] => none
  | k :: rest => match findId i k with | some r => some r | none => findIdList i rest
end

mutual
/-- replace the subtree whose root has id `i` -/
def replaceId (i : Nat) (new : Ast) : Ast → Ast
  | .mk j k f ks => if j = i then new else .mk j k f (replaceIdList i new ks)
def replaceIdList (i : Nat) (new : Ast) : List Ast → List Ast
  | [] => []
  | k :: rest => replaceId i new k :: replaceIdList i new rest
end

mutual
/-- at the node with id `i` replace all children in field `name` by `new` -/
def setKids (i : Nat) (name : String) (new : List Ast) : Ast → Ast
  | .mk j k f ks =>
    if j = i then .mk j k f (ks.filter (fun c => !(match c.fld with | some g => g.name == name | none => false)) ++ new)
    else .mk j k f (setKidsList i name new ks)
def setKidsList (i : Nat) (name : String) (new : List Ast) : List Ast → List Ast
  | [] => []
  | k :: rest => setKids i name new k :: setKidsList i name new rest
end

structure State where
  root  : Ast
  rootF : Nat
  σ     : Store
deriving Inhabited

/-! ### `_set_ast` (fst_core.py:714) -/

/-- `a.f.parent = self` for the children of the new AST (`valid_fst=True`) -/
def adoptKids (σ : Store) (f : Nat) : List Ast → Store
  | [] => σ
  | k :: rest =>
    let σ1 := match σ.astF k.id with
              | some g => { σ with fst := upd σ.fst g { σ.fst g with parent := some f } }
              | none => σ
    adoptKids σ1 f rest

/-- `self.a = ast; ast.f = self` -/
def relink (σ : Store) (f a : Nat) : Store :=
  { σ with fst := upd σ.fst f { σ.fst f with a := some a }, astF := upd σ.astF a (some f) }

def setAst (s : State) (f : Nat) (new : Ast) (validFst : Bool := false) (unmakeOld : Bool := true) : State :=
  let σ := s.σ
  let oldId := (σ.fst f).a
  let old := oldId.bind (fun i => findId i s.root)
  -- if unmake: self._unmake_fst_tree(); if f := getattr(ast, 'f', None): f.a = None
  let σ := if unmakeOld then
             let σ := match old with | some o => unmake σ o | none => σ
             match σ.astF new.id with
             | some g => { σ with fst := upd σ.fst g { σ.fst g with a := none } }
             | none => σ
           else σ
  -- self.a = ast; ast.f = self
  let σ := relink σ f new.id
  let σ := if validFst then adoptKids σ f new.kids else makeKids σ f new.kids
  -- if parent := self.parent: self.pfield.set(parent.a, ast)
  let new' := new.setFld (σ.fst f).pfield
  let root := match (σ.fst f).parent with
              | some _ => (match oldId with | some i => replaceId i new' s.root | none => s.root)
              | none => if f = s.rootF then new' else s.root
  { s with root := root, σ := touch σ f }

/-! ### `_set_field` (fst_core.py:759) -/

/-- `FST(a, self, astfield(field, i))` for each new element; with `valid_fst=False` also the trees below -/
def newElems (σ : Store) (f : Nat) (validFst : Bool) : List Ast → Store
  | [] => σ
  | k :: rest =>
    let r := fstNew σ k.id f k.fld
    newElems (if validFst then r.1 else makeKids r.1 r.2 k.kids) f validFst rest

/-- `astfield(field, i)` for the elements of a list field, `astfield(field, None)` for a single child -/
def relabel (name : String) (isList : Bool) : Nat → List Ast → List Ast
  | _, [] => []
  | i, k :: rest => k.setFld (some ⟨name, if isList then some i else none⟩) :: relabel name isList (i + 1) rest

def setField (s : State) (f : Nat) (name : String) (isList : Bool) (new0 : List Ast) (validFst : Bool := false)
    (unmakeOld : Bool := true) : State :=
  let σ := s.σ
  let new := relabel name isList 0 new0
  match (σ.fst f).a with
  | none => s
  | some a =>
    let body := match findId a s.root with
                | some t => t.kids.filter (fun c => match c.fld with | some g => g.name == name | none => false)
                | none => []
    let σ := if unmakeOld then unmakeList σ body else σ
    let σ := newElems σ f validFst new
    { s with root := setKids a name new s.root, σ := touch σ f }

/-! ### link invariant (executable: the driver evaluates it on every dumped graph) -/

mutual
/-- `a.f.a is a`, `a.f.parent` is the FST of the parent AST, `a.f.pfield` is the slot `a` occupies; hereditarily. -/
def linkedB (σ : Store) (pf : Option Nat) : Ast → Bool
  | .mk a _ fld kids =>
    match σ.astF a with
    | none => false
    | some f => (σ.fst f).a == some a && (σ.fst f).parent == pf && (σ.fst f).pfield == fld
                && linkedListB σ (some f) kids
def linkedListB (σ : Store) (pf : Option Nat) : List Ast → Bool
  | [] => true
  | k :: rest => linkedB σ pf k && linkedListB σ pf rest
end

def linkInvB (s : State) : Bool := linkedB s.σ none s.root && (s.σ.astF s.root.id == some s.rootF)

mutual
/-- every node of the subtree is dead: no `a.f`, and the FST objects in `dead` have `.a = None` -/
def deadB (σ : Store) : Ast → Bool
  | .mk a _ _ kids => (σ.astF a).isNone && deadListB σ kids
def deadListB (σ : Store) : List Ast → Bool
  | [] => true
  | k :: rest => deadB σ k && deadListB σ rest
end

/-! ### operation sequences -/

inductive Op where
  | setAst (f : Nat) (new : Ast) (validFst unmakeOld : Bool)
  | setField (f : Nat) (name : String) (isList : Bool) (new : List Ast) (validFst unmakeOld : Bool)
  | touch (f : Nat)
  | touchall (f : Nat) (parents self_ children : Bool)

def step (s : State) : Op → State
  | .setAst f new v u => setAst s f new v u
  | .setField f name l new v u => setField s f name l new v u
  | .touch f => { s with σ := touch s.σ f }
  | .touchall f p sf c =>
    match ((s.σ.fst f).a).bind (fun i => findId i s.root) with
    | some t => { s with σ := touchall s.σ f t p sf c }
    | none => s

def run (s : State) : List Op → State
  | [] => s
  | o :: rest => run (step s o) rest

/-! ### executable premises of the operation theorems (`Pfst.C02.WF`, `Pfst.C02.Admissible`)

The driver evaluates them on every real state / call of the correspondence, so the evidence says on how many real
calls the hypotheses of `setAst_inv` / `setField_inv` / `run_wf` actually held. -/

/-- the FST objects of the tree exist -/
def boundedB (s : State) : Bool :=
  (ids s.root).all (fun x => match s.σ.astF x with | some g => decide (g < s.σ.next) | none => true)

def wfB (s : State) : Bool := linkInvB s && decide (ids s.root).Nodup && boundedB s && s.root.fld.isNone

/-- pairwise distinct ASTs, none of which has an FST -/
def freshB (σ : Store) (l : List Nat) : Bool := decide l.Nodup && l.all (fun x => (σ.astF x).isNone)

def admissibleB (s : State) : Op → Bool
  | .setAst f new v u => !v && u && freshB s.σ (ids new) && (f == s.rootF ||
      (match ((s.σ.fst f).a).bind (fun i => findId i s.root) with
       | some old => (s.σ.astF old.id == some f) && (s.root.id != old.id)
       | none => false))
  | .setField f _ _ new v u => !v && u && (match ((s.σ.fst f).a).bind (fun i => findId i s.root) with
      | some P => (s.σ.astF P.id == some f) && freshB s.σ (idsList new)
      | none => false)
  | .touch _ => true
  | .touchall _ _ _ _ => true

/-! ### cache clearing of the `_offset` walk (fst_core.py:1722-1779) -/

open Pfst.Offset in
mutual
/-- ids whose `_cache` is cleared by `f._cache.clear()` on the walk, and whether the node triggered a `break`.  The
clear happens BEFORE the two `break` tests, so the breaking node itself is cleared; the earlier siblings that the
`break` discards are not; a `continue`d node (`exclude` with `offset_excluded=False`) is not; below a node skipped by the
`flno > lno` `continue` nothing is cleared. -/
def touchNode (π : Params) : Node → List Nat × Bool
  | .mk i pos deco kids =>
    if π.exclude == some i && !π.offsetExcluded then ([], false)
    else
      let recurse := !(π.exclude == some i)
      match pos with
      | none => (i :: (if recurse then (touchList π kids).1 else []), false)
      | some p =>
        if endsBefore π p then ([i], true)
        else if skipKids π p deco then ([i], false)
        else (i :: (if recurse then (touchList π kids).1 else []), false)
def touchList (π : Params) : List Node → List Nat × Bool
  | [] => ([], false)
  | n :: rest =>
    let r := touchList π rest
    if r.2 then r
    else
      let m := touchNode π n
      (m.1 ++ r.1, m.2)
end

open Pfst.Offset in
mutual
def allIds : Node → List Nat
  | .mk i _ _ kids => i :: allIdsList kids
def allIdsList : List Node → List Nat
  | [] => []
  | n :: rest => allIds n ++ allIdsList rest
end

open Pfst.Offset in
/-- `_offset(self_=True)`: with `dln = dcol = 0` the code does `self._touchall()` (self - even when called with
`self_=False` -, everything below, and the parents which are outside this subtree) instead of walking. -/
def offsetTouched (π : Params) (t : Node) : List Nat :=
  if π.dln == 0 && π.dcol == 0 then allIds t else (touchNode π t).1

/-! ### `FSTView` window arithmetic (view.py:380 `_base_indices` and the `_stop` updates of the editing methods) -/

structure View where
  start : Nat
  stop  : Option Nat            -- `None` = to the end of the field
deriving DecidableEq, Repr, Inhabited

/-- `_base_indices`: returns the healed view and `(start, stop, len_field)`. -/
def baseIndices (v : View) (lenField : Nat) : View × Nat × Nat × Nat :=
  let (stop, v1) : Nat × View :=
    match v.stop with
    | none => (lenField, v)
    | some s => if s > lenField then (lenField, { v with stop := some lenField }) else (s, v)
  let (start, v2) : Nat × View :=
    if v1.start > stop then (stop, { v1 with start := stop }) else (v1.start, v1)
  (v2, start, stop, lenField)

/-- `if self._stop is not None: self._stop += self._len_field() - len_before` (replace / remove / insert / setitem).
Python integers: the model uses `Int` and clips at 0 only when converting back (a negative `_stop` cannot arise under
the hypotheses of `view_len`). -/
def stopAdd (v : View) (lenBefore lenAfter : Nat) : View :=
  match v.stop with
  | none => v
  | some s => { v with stop := some (Int.toNat ((s : Int) + ((lenAfter : Int) - (lenBefore : Int)))) }

/-- the editing methods of `FSTView`: `kind` selects the `_stop` update that method performs after `_put_slice`;
`start`/`stop` are the values `_base_indices()` returned before the edit, `k` is the number of deleted items
(`__delitem__`). -/
inductive VOp where
  | lenDelta        -- replace, remove, insert, __setitem__: `_stop += len_after - len_before`
  | delitem (k : Nat)   -- `_stop = max(start, stop - k)`
  | append          -- `_stop = stop + 1`
  | extend          -- `_stop = stop + (len_after - len_before)`
  | prepend         -- `_stop += 1`
  | cut             -- `_stop = start`
deriving Repr

def viewAfter (v : View) (op : VOp) (lenBefore lenAfter : Nat) : View :=
  let b := baseIndices v lenBefore
  let v := b.1
  let start := b.2.1
  let stop := b.2.2.1
  match v.stop with
  | none => v
  | some s =>
    match op with
    | .lenDelta => stopAdd v lenBefore lenAfter
    | .delitem k => { v with stop := some (max start (stop - k)) }
    | .append => { v with stop := some (stop + 1) }
    | .extend => { v with stop := some (Int.toNat ((stop : Int) + ((lenAfter : Int) - (lenBefore : Int)))) }
    | .prepend => { v with stop := some (s + 1) }
    | .cut => { v with stop := some start }

/-- `__len__`: `stop - start` of `_base_indices()` -/
def viewLen (v : View) (lenField : Nat) : Nat :=
  let b := baseIndices v lenField
  b.2.2.1 - b.2.1

end Pfst.Links
