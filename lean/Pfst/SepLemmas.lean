import Pfst.Sep
import Pfst.ScanLemmas
import Pfst.TextLemmas
/-!
Lemmas about the separator primitives (`Pfst/Sep.lean`).

The scanning loop shared by `_trail_sep` and `_maybe_ins_sep` (`sepScan`) is characterised declaratively on the windows
of the lines of the bound (`Pfst.Scan.lineWin`): what it skips (`SkipTo`), where it stops (`FragAt`), and what
"the separator follows" means independently of the loop (`Target`).
-/
namespace Pfst.Sep
open Pfst.Scan

/-! ## characters the scan steps over -/

/-- whitespace or a closing parenthesis -/
def isSkip (c : Char) : Bool := isSpace c || c == ')'

/-- a window without its leading blanks and closing parentheses -/
def afterSkip (w : Line) : Line := w.dropWhile isSkip

/-- number of leading blanks and closing parentheses of a window -/
def skipLen (w : Line) : Nat := (w.takeWhile isSkip).length

/-- the maximal run of code characters that follows the leading blanks and closing parentheses -/
def codeRun (w : Line) : Line := (afterSkip w).takeWhile isCode

/-- the window holds nothing but blanks and closing parentheses up to its end, a comment or a backslash -/
def Skippable (w : Line) : Prop := ∀ x, (afterSkip w).head? = some x → x = '#' ∨ x = '\\'

theorem isSkip_of_space {c : Char} (h : isSpace c = true) : isSkip c = true := by simp [isSkip, h]

theorem isSkip_par : isSkip ')' = true := by decide

theorem not_isSkip_of_code {c : Char} (h : isCode c = true) (hp : c ≠ ')') : isSkip c = false := by
  simp [isSkip, isCode_imp_not_isSpace h, hp]

theorem not_isCode_of_skip_ne_par {c : Char} (h : isSkip c = true) (hp : c ≠ ')') : isCode c = false := by
  simp only [isSkip, Bool.or_eq_true, beq_iff_eq] at h
  rcases h with h | h
  · simp [isCode, h]
  · exact absurd h hp

theorem afterSkip_append {a b : Line} (h : ∀ c ∈ a, isSkip c = true) : afterSkip (a ++ b) = afterSkip b :=
  List.dropWhile_append_of_pos h

theorem skipLen_append {a b : Line} (h : ∀ c ∈ a, isSkip c = true) : skipLen (a ++ b) = a.length + skipLen b := by
  unfold skipLen; rw [List.takeWhile_append_of_pos h]; simp

theorem afterSkip_self {w : Line} (h : ∀ x, w.head? = some x → isSkip x = false) : afterSkip w = w ∧ skipLen w = 0 := by
  cases w with
  | nil => simp [afterSkip, skipLen]
  | cons c t =>
    have hc := h c rfl
    simp [afterSkip, skipLen, hc]

theorem skipLen_le (w : Line) : skipLen w ≤ w.length :=
  (List.takeWhile_prefix isSkip).length_le

theorem take_skipLen (w : Line) : w.take (skipLen w) = w.takeWhile isSkip :=
  (List.prefix_iff_eq_take.mp (List.takeWhile_prefix isSkip)).symm

theorem drop_skipLen (w : Line) : w.drop (skipLen w) = afterSkip w := by
  have h1 := List.take_append_drop (skipLen w) w
  have h2 := List.takeWhile_append_dropWhile (p := isSkip) (l := w)
  rw [take_skipLen] at h1
  exact List.append_cancel_left (h1.trans h2.symm)

theorem afterSkip_head_not_skip {w : Line} {x : Char} (h : (afterSkip w).head? = some x) : isSkip x = false :=
  head?_dropWhile_false h

theorem codeRun_nil_of_skippable {w : Line} (h : Skippable w) : codeRun w = [] := by
  unfold codeRun
  cases hw : afterSkip w with
  | nil => rfl
  | cons c t =>
    have := h c (by rw [hw]; rfl)
    rcases this with rfl | rfl <;> simp [List.takeWhile, isCode]

theorem skippable_congr {w w' : Line} (h : afterSkip w = afterSkip w') : Skippable w ↔ Skippable w' := by
  unfold Skippable; rw [h]

theorem codeRun_congr {w w' : Line} (h : afterSkip w = afterSkip w') : codeRun w = codeRun w' := by
  unfold codeRun; rw [h]

/-- a window of blanks followed by its end, a comment or a backslash -/
theorem blank_facts {w sp rest : Line} (hw : w = sp ++ rest) (hsp : sp.all isSpace = true)
    (hr : rest = [] ∨ (∃ t, rest = '#' :: t) ∨ (∃ t, rest = '\\' :: t)) : Skippable w ∧ codeRun w = [] := by
  have hsk : ∀ c ∈ sp, isSkip c = true := fun c hc => isSkip_of_space (List.all_eq_true.mp hsp c hc)
  have h1 : afterSkip w = rest := by
    rw [hw, afterSkip_append hsk]
    rcases hr with rfl | ⟨t, rfl⟩ | ⟨t, rfl⟩
    · rfl
    · exact (afterSkip_self (by intro x hx; simp at hx; subst hx; decide)).1
    · exact (afterSkip_self (by intro x hx; simp at hx; subst hx; decide)).1
  have hS : Skippable w := by
    intro x hx
    rw [h1] at hx
    rcases hr with rfl | ⟨t, rfl⟩ | ⟨t, rfl⟩
    · simp at hx
    · simp at hx; exact Or.inl hx.symm
    · simp at hx; exact Or.inr hx.symm
  exact ⟨hS, codeRun_nil_of_skippable hS⟩

/-- a window `blanks-and-parentheses ++ run ++ rest` with `run` a non-empty maximal code run not starting with `)` -/
theorem run_facts {w body run rest : Line} (hw : w = body ++ run ++ rest) (hb : ∀ c ∈ body, isSkip c = true)
    (hne : run ≠ []) (hcode : run.all isCode = true) (hhd : run.head? ≠ some ')')
    (hrest : ∀ x, rest.head? = some x → isCode x = false) :
    afterSkip w = run ++ rest ∧ skipLen w = body.length ∧ codeRun w = run := by
  cases run with
  | nil => contradiction
  | cons c t =>
    have hc : isCode c = true := List.all_eq_true.mp hcode c (by simp)
    have hcp : c ≠ ')' := by intro h; apply hhd; simp [h]
    have hns : isSkip c = false := not_isSkip_of_code hc hcp
    have h0 := afterSkip_self (w := c :: t ++ rest) (by intro x hx; simp at hx; subst hx; exact hns)
    have h1 : afterSkip w = c :: t ++ rest := by
      rw [hw, List.append_assoc, afterSkip_append hb]; exact h0.1
    refine ⟨h1, ?_, ?_⟩
    · rw [hw, List.append_assoc, skipLen_append hb, h0.2]; rfl
    · unfold codeRun
      rw [h1]
      have := (span_unique (p := isCode) (a := c :: t) (b := rest) (List.all_eq_true.mp hcode) hrest).1
      exact this

/-! ## windows -/

/-- the first column of the window of line `i` -/
def wstart (lines : List Line) (ln col i : Nat) : Nat := min (if i = ln then col else 0) (lineAt lines i).length

/-- the unclipped end bound of line `i` -/
def wbound (lines : List Line) (endLn endCol i : Nat) : Nat := if i = endLn then endCol else (lineAt lines i).length

theorem lineWin_eq (lines : List Line) (ln col endLn endCol i : Nat) :
    lineWin lines ln col endLn endCol i = win (lineAt lines i) (wstart lines ln col i) (wbound lines endLn endCol i) := by
  unfold lineWin wstart wbound
  rw [win_pos_min]

theorem lineWin_length (lines : List Line) (ln col endLn endCol i : Nat) :
    (lineWin lines ln col endLn endCol i).length + wstart lines ln col i
      = max (wstart lines ln col i) (min (wbound lines endLn endCol i) (lineAt lines i).length) := by
  rw [lineWin_eq, win_length]
  have : min (wstart lines ln col i) (lineAt lines i).length = wstart lines ln col i := by unfold wstart; omega
  rw [this]; omega

/-- windows of lines other than the start lines do not depend on the start -/
theorem lineWin_other {lines : List Line} {ln col ln' col' endLn endCol i : Nat} (h1 : i ≠ ln) (h2 : i ≠ ln') :
    lineWin lines ln col endLn endCol i = lineWin lines ln' col' endLn endCol i := by
  unfold lineWin; simp [h1, h2]

theorem wstart_other {lines : List Line} {ln col i : Nat} (h : i ≠ ln) : wstart lines ln col i = 0 := by
  unfold wstart; simp [h]

/-- moving the start forward inside the window of its line drops the part stepped over -/
theorem lineWin_advance {lines : List Line} {ln col endLn endCol i : Nat} {A B : Line}
    (hw : lineWin lines ln col endLn endCol i = A ++ B) :
    lineWin lines i (wstart lines ln col i + A.length) endLn endCol i = B ∧
    wstart lines i (wstart lines ln col i + A.length) i = wstart lines ln col i + A.length ∧
    wstart lines ln col i + A.length ≤ (lineAt lines i).length := by
  have hlen := lineWin_length lines ln col endLn endCol i
  rw [hw] at hlen
  simp only [List.length_append] at hlen
  have hws : wstart lines ln col i ≤ (lineAt lines i).length := by unfold wstart; omega
  have hle : wstart lines ln col i + A.length ≤ (lineAt lines i).length := by omega
  refine ⟨?_, ?_, hle⟩
  · rw [lineWin_eq] at hw
    have e : lineWin lines i (wstart lines ln col i + A.length) endLn endCol i
        = win (lineAt lines i) (wstart lines ln col i + A.length) (wbound lines endLn endCol i) := by
      unfold lineWin wbound; simp
    rw [e, win_drop hle, hw]; simp
  · unfold wstart; simp only [↓reduceIte]; unfold wstart at hle; omega

/-! ## what the scan steps over, where it stops, what "the separator follows" means -/

/-- From the start `(ln, col)` up to `(l, c)` the bound holds only blanks, closing parentheses, comments and
continuation lines: every earlier line window is `Skippable` and the window of line `l` starts with `c - start`
blanks / closing parentheses. -/
structure SkipTo (lines : List Line) (ln col endLn endCol l c : Nat) : Prop where
  lo : ln ≤ l
  hi : l ≤ endLn
  before : ∀ i, ln ≤ i → i < l → Skippable (lineWin lines ln col endLn endCol i)
  here : ∃ k, c = wstart lines ln col l + k ∧ k ≤ (lineWin lines ln col endLn endCol l).length ∧
    ∀ x ∈ (lineWin lines ln col endLn endCol l).take k, isSkip x = true

/-- Seen from the start `(ln, col)`, the first fragment that is not made of closing parentheses only is `src` at
`(cln, ccol)` (leading closing parentheses of the fragment stripped by the caller): every earlier line window is
`Skippable`, the window of line `cln` is `blanks ++ src ++ rest` with `src` a non-empty maximal run of code characters
that does not start with `)`. -/
structure FragAt (lines : List Line) (ln col endLn endCol cln ccol : Nat) (src : Line) : Prop where
  lo : ln ≤ cln
  hi : cln ≤ endLn
  before : ∀ i, ln ≤ i → i < cln → Skippable (lineWin lines ln col endLn endCol i)
  here : ∃ sp rest, lineWin lines ln col endLn endCol cln = sp ++ src ++ rest ∧ sp.all isSpace = true ∧
    (∀ x, rest.head? = some x → isCode x = false) ∧ ccol = wstart lines ln col cln + sp.length
  ne : src ≠ []
  code : src.all isCode = true
  hd : src.head? ≠ some ')'

/-- **The separator follows the span**: inside the bound `(ln, col) .. (endLn, endCol)`, `(pl, pc)` is the position of
the first character that is not a blank, not a closing parenthesis, not inside a comment and not on the rest of a line
after a backslash; it is a code character and the maximal run of code characters starting there begins with `sep`.
(`before`: every earlier line window is blanks and closing parentheses up to its end, a `#` or a backslash; `run` /
`pos` / `pre`: the window of line `pl` is `blanks-and-parentheses ++ run ++ …` and `sep` is a prefix of `run`.) -/
structure Target (lines : List Line) (ln col endLn endCol : Nat) (sep : Line) (pl pc : Nat) : Prop where
  lo : ln ≤ pl
  hi : pl ≤ endLn
  before : ∀ i, ln ≤ i → i < pl → Skippable (lineWin lines ln col endLn endCol i)
  run : codeRun (lineWin lines ln col endLn endCol pl) ≠ []
  pos : pc = wstart lines ln col pl + skipLen (lineWin lines ln col endLn endCol pl)
  pre : sep <+: codeRun (lineWin lines ln col endLn endCol pl)

theorem SkipTo.refl {lines : List Line} {ln col endLn endCol : Nat} (hle : ln ≤ endLn)
    (hcol : col ≤ (lineAt lines ln).length) : SkipTo lines ln col endLn endCol ln col :=
  ⟨Nat.le_refl _, hle, fun i h1 h2 => absurd h1 (by omega),
   ⟨0, by unfold wstart; simp; omega, Nat.zero_le _, by simp⟩⟩

/-- seen from `(l, c)` the rest of the bound looks the same as from the start, shifted on line `l` -/
theorem skipTo_tail {lines : List Line} {ln col endLn endCol l c : Nat} (h : SkipTo lines ln col endLn endCol l c) :
    c ≤ (lineAt lines l).length ∧
    ∀ i, l ≤ i →
      afterSkip (lineWin lines ln col endLn endCol i) = afterSkip (lineWin lines l c endLn endCol i) ∧
      wstart lines ln col i + skipLen (lineWin lines ln col endLn endCol i)
        = wstart lines l c i + skipLen (lineWin lines l c endLn endCol i) := by
  obtain ⟨k, hc, hk, hsk⟩ := h.here
  have hsplit : lineWin lines ln col endLn endCol l
      = (lineWin lines ln col endLn endCol l).take k ++ (lineWin lines ln col endLn endCol l).drop k :=
    (List.take_append_drop k _).symm
  have hlen : ((lineWin lines ln col endLn endCol l).take k).length = k := by simp; omega
  obtain ⟨a1, a2, a3⟩ := lineWin_advance hsplit
  rw [hlen, ← hc] at a1 a2 a3
  refine ⟨a3, ?_⟩
  intro i hi
  by_cases hil : i = l
  · subst hil
    rw [a1, a2]
    constructor
    · conv => lhs; rw [hsplit]
      exact afterSkip_append hsk
    · conv => lhs; rw [hsplit]
      rw [skipLen_append hsk, hlen]; omega
  · have h1 : i ≠ ln := by have := h.lo; omega
    rw [lineWin_other (ln' := l) (col' := c) h1 hil, wstart_other h1, wstart_other hil]
    exact ⟨rfl, rfl⟩

theorem target_skipTo {lines : List Line} {ln col endLn endCol l c : Nat} (h : SkipTo lines ln col endLn endCol l c)
    (sep : Line) (pl pc : Nat) :
    Target lines ln col endLn endCol sep pl pc ↔ Target lines l c endLn endCol sep pl pc := by
  obtain ⟨_, ht⟩ := skipTo_tail h
  constructor
  · intro t
    have hpl : l ≤ pl := by
      rcases Nat.lt_or_ge pl l with hlt | hge
      · exact absurd (codeRun_nil_of_skippable (h.before pl t.lo hlt)) t.run
      · exact hge
    obtain ⟨e1, e2⟩ := ht pl hpl
    refine ⟨hpl, t.hi, ?_, ?_, ?_, ?_⟩
    · intro i hi1 hi2
      rw [← skippable_congr (ht i hi1).1]
      exact t.before i (by have := h.lo; omega) hi2
    · rw [← codeRun_congr e1]; exact t.run
    · rw [← e2]; exact t.pos
    · rw [← codeRun_congr e1]; exact t.pre
  · intro t
    obtain ⟨e1, e2⟩ := ht pl t.lo
    refine ⟨Nat.le_trans h.lo t.lo, t.hi, ?_, ?_, ?_, ?_⟩
    · intro i hi1 hi2
      rcases Nat.lt_or_ge i l with hlt | hge
      · exact h.before i hi1 hlt
      · rw [skippable_congr (ht i hge).1]
        exact t.before i hge hi2
    · rw [codeRun_congr e1]; exact t.run
    · rw [e2]; exact t.pos
    · rw [codeRun_congr e1]; exact t.pre

theorem SkipTo.trans {lines : List Line} {ln col endLn endCol l c l2 c2 : Nat}
    (h1 : SkipTo lines ln col endLn endCol l c) (h2 : SkipTo lines l c endLn endCol l2 c2) :
    SkipTo lines ln col endLn endCol l2 c2 := by
  obtain ⟨_, ht⟩ := skipTo_tail h1
  refine ⟨Nat.le_trans h1.lo h2.lo, h2.hi, ?_, ?_⟩
  · intro i hi1 hi2
    rcases Nat.lt_or_ge i l with hlt | hge
    · exact h1.before i hi1 hlt
    · rw [skippable_congr (ht i hge).1]
      exact h2.before i hge hi2
  · obtain ⟨k2, hc2, hk2, hsk2⟩ := h2.here
    by_cases hl : l2 = l
    · subst hl
      obtain ⟨k1, hc1, hk1, hsk1⟩ := h1.here
      have hsplit : lineWin lines ln col endLn endCol l2
          = (lineWin lines ln col endLn endCol l2).take k1 ++ (lineWin lines ln col endLn endCol l2).drop k1 :=
        (List.take_append_drop k1 _).symm
      have hlen : ((lineWin lines ln col endLn endCol l2).take k1).length = k1 := by simp; omega
      obtain ⟨a1, a2, _⟩ := lineWin_advance hsplit
      rw [hlen, ← hc1] at a1 a2
      rw [a1] at hk2 hsk2
      rw [a2] at hc2
      refine ⟨k1 + k2, by omega, ?_, ?_⟩
      · simp at hk2; omega
      · intro x hx
        rw [List.take_add] at hx
        rcases List.mem_append.mp hx with hx | hx
        · exact hsk1 x hx
        · exact hsk2 x hx
    · have hlt : l < l2 := by have := h2.lo; omega
      have hn : l2 ≠ ln := by have := h1.lo; omega
      rw [← lineWin_other (ln := ln) (col := col) hn hl] at hk2 hsk2
      rw [wstart_other hl] at hc2
      exact ⟨k2, by rw [wstart_other hn]; exact hc2, hk2, hsk2⟩

theorem target_fragAt {lines : List Line} {ln col endLn endCol cln ccol : Nat} {src : Line}
    (h : FragAt lines ln col endLn endCol cln ccol src) (sep : Line) (pl pc : Nat) :
    Target lines ln col endLn endCol sep pl pc ↔ pl = cln ∧ pc = ccol ∧ sep <+: src := by
  obtain ⟨sp, rest, hw, hsp, hrest, hcc⟩ := h.here
  have hsk : ∀ c ∈ sp, isSkip c = true := fun c hc => isSkip_of_space (List.all_eq_true.mp hsp c hc)
  obtain ⟨f1, f2, f3⟩ := run_facts hw hsk h.ne h.code h.hd hrest
  constructor
  · intro t
    have hpl : pl = cln := by
      rcases Nat.lt_trichotomy pl cln with hlt | heq | hgt
      · exact absurd (codeRun_nil_of_skippable (h.before pl t.lo hlt)) t.run
      · exact heq
      · have := codeRun_nil_of_skippable (t.before cln h.lo hgt)
        rw [f3] at this
        exact absurd this h.ne
    subst hpl
    refine ⟨rfl, ?_, ?_⟩
    · rw [t.pos, f2, hcc]
    · have := t.pre; rw [f3] at this; exact this
  · rintro ⟨rfl, rfl, hp⟩
    exact ⟨h.lo, h.hi, h.before, by rw [f3]; exact h.ne, by rw [f2, hcc], by rw [f3]; exact hp⟩

/-- at most one position is a target -/
theorem Target.unique {lines : List Line} {ln col endLn endCol : Nat} {sep : Line} {pl pc pl' pc' : Nat}
    (t : Target lines ln col endLn endCol sep pl pc) (t' : Target lines ln col endLn endCol sep pl' pc') :
    pl = pl' ∧ pc = pc' := by
  have hpl : pl = pl' := by
    rcases Nat.lt_trichotomy pl pl' with hlt | heq | hgt
    · exact absurd (codeRun_nil_of_skippable (t'.before pl t.lo hlt)) t.run
    · exact heq
    · exact absurd (codeRun_nil_of_skippable (t.before pl' t'.lo hgt)) t'.run
  subst hpl
  exact ⟨rfl, by rw [t.pos, t'.pos]⟩

/-! ## one `next_frag` of the loop -/

theorem frag_facts {lines : List Line} {ln col endLn endCol : Nat} {fr : Frag}
    (h : nextFrag lines ln col endLn endCol false .f = some fr) (hle : ln ≤ endLn) :
    ln ≤ fr.ln ∧ fr.ln ≤ endLn ∧
    (∀ i, ln ≤ i → i < fr.ln → Skippable (lineWin lines ln col endLn endCol i)) ∧
    ∃ sp rest, lineWin lines ln col endLn endCol fr.ln = sp ++ fr.src ++ rest ∧ sp.all isSpace = true ∧
      fr.src ≠ [] ∧ fr.src.all isCode = true ∧ (∀ x, rest.head? = some x → isCode x = false) ∧
      fr.col = wstart lines ln col fr.ln + sp.length := by
  obtain ⟨h1, h2, ⟨sp, rest, hw, hsp, hne, hall, hrest, hcol⟩, h4⟩ := nextFrag_spec_decomp h hle
  refine ⟨h1, h2, ?_, sp, rest, hw, hsp, hne, hall, hrest, hcol⟩
  intro i hi1 hi2
  obtain ⟨sp', rest', hw', hsp', hr'⟩ := h4 i hi1 hi2
  exact (blank_facts hw' hsp' hr').1

theorem none_facts {lines : List Line} {ln col endLn endCol : Nat}
    (h : nextFrag lines ln col endLn endCol false .f = none) (hle : ln ≤ endLn) :
    ∀ i, ln ≤ i → i ≤ endLn → Skippable (lineWin lines ln col endLn endCol i) := by
  intro i hi1 hi2
  have hm := nextFrag_none h hle i hi1 hi2
  unfold lineMatch at hm
  rcases reMatch_none_iff.mp hm with hc | ⟨sp, rest, hw, hsp, hnt⟩
  · have : lineWin lines ln col endLn endCol i = [] := by
      apply List.eq_nil_of_length_eq_zero
      unfold lineWin; rw [win_length]; omega
    rw [this]; intro x hx; simp [afterSkip] at hx
  · have hr : rest = [] ∨ (∃ t, rest = '#' :: t) ∨ (∃ t, rest = '\\' :: t) := by
      rcases hnt with h | ⟨t, h, _⟩ | ⟨t, h, _⟩
      · exact Or.inl h
      · exact Or.inr (Or.inl ⟨t, h⟩)
      · exact Or.inr (Or.inr ⟨t, h⟩)
    exact (blank_facts (w := lineWin lines ln col endLn endCol i) hw hsp hr).1

/-- the closing parentheses at the front of a fragment and what `lstrip(')')` leaves -/
theorem lstripPar_facts (s : Line) (hcode : s.all isCode = true) :
    ∃ ps, s = ps ++ lstripPar s ∧ (∀ c ∈ ps, isSkip c = true) ∧ s.length - (lstripPar s).length = ps.length ∧
      (lstripPar s).all isCode = true ∧ (lstripPar s).head? ≠ some ')' ∧ (s.head? = some ')' → ps ≠ []) := by
  refine ⟨s.takeWhile (· == ')'), (List.takeWhile_append_dropWhile).symm, ?_, ?_, ?_, ?_, ?_⟩
  · intro c hc
    have := mem_takeWhile_true hc
    simp only [beq_iff_eq] at this
    subst this; exact isSkip_par
  · have := congrArg List.length (List.takeWhile_append_dropWhile (p := (· == ')')) (l := s))
    simp only [List.length_append] at this
    unfold lstripPar; omega
  · apply List.all_eq_true.mpr
    intro c hc
    exact List.all_eq_true.mp hcode c ((List.dropWhile_sublist _).mem hc)
  · intro hh
    have := head?_dropWhile_false (p := (· == ')')) hh
    simp at this
  · intro hh
    cases s with
    | nil => simp at hh
    | cons c t =>
      simp at hh; subst hh
      simp [List.takeWhile]

/-- stepping over blanks and the closing parentheses at the front of the fragment `next_frag` answered -/
theorem step_skipTo {lines : List Line} {ln col endLn endCol : Nat} {fr : Frag}
    (h : nextFrag lines ln col endLn endCol false .f = some fr) (hle : ln ≤ endLn)
    {ps src' : Line} (hs : fr.src = ps ++ src') (hps : ∀ c ∈ ps, isSkip c = true) :
    SkipTo lines ln col endLn endCol fr.ln (fr.col + ps.length) ∧
    ∃ rest, lineWin lines fr.ln (fr.col + ps.length) endLn endCol fr.ln = src' ++ rest ∧
      (∀ x, rest.head? = some x → isCode x = false) ∧
      wstart lines fr.ln (fr.col + ps.length) fr.ln = fr.col + ps.length ∧
      fr.col + ps.length ≤ (lineAt lines fr.ln).length ∧
      wstart lines ln col fr.ln ≤ fr.col := by
  obtain ⟨h1, h2, h3, sp, rest, hw, hsp, hne, hall, hrest, hcol⟩ := frag_facts h hle
  have hsk : ∀ c ∈ sp, isSkip c = true := fun c hc => isSkip_of_space (List.all_eq_true.mp hsp c hc)
  have hw2 : lineWin lines ln col endLn endCol fr.ln = (sp ++ ps) ++ (src' ++ rest) := by
    rw [hw, hs]; simp
  obtain ⟨a1, a2, a3⟩ := lineWin_advance hw2
  have hk : wstart lines ln col fr.ln + (sp ++ ps).length = fr.col + ps.length := by
    rw [hcol]; simp; omega
  rw [hk] at a1 a2 a3
  refine ⟨⟨h1, h2, h3, (sp ++ ps).length, hk.symm, ?_, ?_⟩, rest, a1, hrest, a2, a3, by omega⟩
  · rw [hw2]; simp
  · intro x hx
    rw [hw2, List.take_left' rfl] at hx
    rcases List.mem_append.mp hx with hx | hx
    · exact hsk x hx
    · exact hps x hx

/-! ## fuel -/

/-- what is left to scan from `(ln, col)` -/
def mu (lines : List Line) (endLn ln col : Nat) : Nat :=
  spanChars lines ln (endLn + 1 - ln) - min col (lineAt lines ln).length

theorem spanChars_split (lines : List Line) (i a b : Nat) :
    spanChars lines i (a + b) = spanChars lines i a + spanChars lines (i + a) b := by
  induction a generalizing i with
  | zero => simp [spanChars]
  | succ a ih =>
    have : a + 1 + b = (a + b) + 1 := by omega
    rw [this]
    simp only [spanChars]
    rw [ih (i + 1)]
    have : i + 1 + a = i + (a + 1) := by omega
    rw [this]; omega

theorem spanChars_pos (lines : List Line) (i n : Nat) (h : 0 < n) :
    (lineAt lines i).length + 1 ≤ spanChars lines i n := by
  cases n with
  | zero => omega
  | succ n => simp only [spanChars]; omega

theorem mu_decrease {lines : List Line} {endLn ln col l' c' : Nat} (h1 : ln ≤ l') (h2 : l' ≤ endLn)
    (hc : c' ≤ (lineAt lines l').length)
    (hp : ln < l' ∨ (l' = ln ∧ min col (lineAt lines ln).length < c')) :
    mu lines endLn l' c' < mu lines endLn ln col := by
  unfold mu
  rcases hp with hp | ⟨rfl, hp⟩
  · have e : endLn + 1 - ln = (l' - ln) + (endLn + 1 - l') := by omega
    rw [e, spanChars_split]
    have : ln + (l' - ln) = l' := by omega
    rw [this]
    have := spanChars_pos lines ln (l' - ln) (by omega)
    omega
  · have := spanChars_pos lines l' (endLn + 1 - l') (by omega)
    omega

/-! ## the loop -/

/-- **The scanning loop of `_trail_sep` / `_maybe_ins_sep`**: it stops at a search start `(r.ln, r.col)` that is reached
from the original start over blanks, closing parentheses, comments and continuation lines only, and there either
nothing more follows inside the bound, or the fragment it reports is the first one that is not just closing
parentheses. -/
theorem sepScan_spec (lines : List Line) (endLn endCol : Nat) :
    ∀ (fuel ln col : Nat), ln ≤ endLn → col ≤ (lineAt lines ln).length → mu lines endLn ln col < fuel →
      SkipTo lines ln col endLn endCol (sepScan lines endLn endCol fuel ln col).ln
        (sepScan lines endLn endCol fuel ln col).col ∧
      ((sepScan lines endLn endCol fuel ln col).frag = none →
        ∀ i, (sepScan lines endLn endCol fuel ln col).ln ≤ i → i ≤ endLn →
          Skippable (lineWin lines (sepScan lines endLn endCol fuel ln col).ln
            (sepScan lines endLn endCol fuel ln col).col endLn endCol i)) ∧
      (∀ cln ccol src, (sepScan lines endLn endCol fuel ln col).frag = some (cln, ccol, src) →
        FragAt lines (sepScan lines endLn endCol fuel ln col).ln (sepScan lines endLn endCol fuel ln col).col
          endLn endCol cln ccol src) := by
  intro fuel
  induction fuel with
  | zero => intro ln col _ _ h; omega
  | succ fuel ih =>
    intro ln col hle hcol hmu
    unfold sepScan
    cases hnf : nextFrag lines ln col endLn endCol false .f with
    | none =>
      simp only
      exact ⟨SkipTo.refl hle hcol, fun _ => none_facts hnf hle, by intro _ _ _ h; simp at h⟩
    | some fr =>
      simp only
      obtain ⟨f1, f2, f3, sp, rest0, hw, hsp, hne, hall, hrest0, hfc⟩ := frag_facts hnf hle
      by_cases hh : fr.src.head? = some ')'
      · obtain ⟨ps, hs, hps, hlen, hcode', hhd', hpsne⟩ := lstripPar_facts fr.src hall
        have hcc : fr.col + fr.src.length - (lstripPar fr.src).length = fr.col + ps.length := by
          have := congrArg List.length hs
          simp only [List.length_append] at this
          omega
        obtain ⟨hskip, rest, hwx, hrest, hws, hcl, hwle⟩ := step_skipTo hnf hle hs hps
        have hh' : (fr.src.head? == some ')') = true := by simp [hh]
        simp only [hh', ↓reduceIte, hcc]
        by_cases hemp : (lstripPar fr.src).isEmpty = true
        · simp only [hemp, ↓reduceIte]
          have hpos : 0 < ps.length := List.length_pos_iff.mpr (hpsne hh)
          have hdec : mu lines endLn fr.ln (fr.col + ps.length) < mu lines endLn ln col := by
            apply mu_decrease f1 f2 hcl
            rcases Nat.lt_or_ge ln fr.ln with hlt | hge
            · exact Or.inl hlt
            · have he : fr.ln = ln := by omega
              refine Or.inr ⟨he, ?_⟩
              have : wstart lines ln col fr.ln = min col (lineAt lines ln).length := by
                unfold wstart; simp [he]
              omega
          obtain ⟨i1, i2, i3⟩ := ih fr.ln (fr.col + ps.length) f2 hcl (by omega)
          exact ⟨hskip.trans i1, i2, i3⟩
        · simp only [hemp, Bool.false_eq_true, ↓reduceIte]
          refine ⟨hskip, by intro h; simp at h, ?_⟩
          intro cln ccol src hsome
          simp only [Option.some.injEq, Prod.mk.injEq] at hsome
          obtain ⟨rfl, rfl, rfl⟩ := hsome
          have hne' : lstripPar fr.src ≠ [] := by
            intro h0; apply hemp; simp [h0]
          exact ⟨Nat.le_refl _, f2, fun i a b => absurd a (by omega),
            ⟨[], rest, by simpa using hwx, rfl, hrest, by simp [hws]⟩, hne', hcode', hhd'⟩
      · have hh' : (fr.src.head? == some ')') = false := by simp [hh]
        simp only [hh', Bool.false_eq_true, ↓reduceIte]
        refine ⟨SkipTo.refl hle hcol, by intro h; simp at h, ?_⟩
        intro cln ccol src hsome
        simp only [Option.some.injEq, Prod.mk.injEq] at hsome
        obtain ⟨rfl, rfl, rfl⟩ := hsome
        exact ⟨f1, f2, f3, ⟨sp, rest0, hw, hsp, hrest0, hfc⟩, hne, hall, hh⟩

theorem mu_lt_sepFuel (lines : List Line) (ln col endLn : Nat) : mu lines endLn ln col < sepFuel lines ln endLn := by
  unfold mu sepFuel; omega

/-! ## `_trail_sep` -/

theorem trailSepTail_pos (lines : List Line) (endLn endCol : Nat) (sep : Line) (del : Del) (ln col cln ccol : Nat)
    (src : Line) :
    (trailSepTail lines endLn endCol sep del ln col cln ccol src).pos
      = if sep.isPrefixOf src then some (cln, ccol) else none := by
  unfold trailSepTail
  by_cases h : sep.isPrefixOf src = true
  · simp only [h, Bool.not_true, Bool.false_eq_true, ↓reduceIte]
    split <;> rfl
  · simp [h]

/-- no target at all when every remaining line window is skippable -/
theorem no_target_of_skippable {lines : List Line} {ln col endLn endCol : Nat}
    (h : ∀ i, ln ≤ i → i ≤ endLn → Skippable (lineWin lines ln col endLn endCol i)) (sep : Line) (pl pc : Nat) :
    ¬ Target lines ln col endLn endCol sep pl pc :=
  fun t => t.run (codeRun_nil_of_skippable (h pl t.lo t.hi))

theorem trailSep_pos_iff (lines : List Line) (ln col endLn endCol : Nat) (sep : Line) (del : Del)
    (hle : ln ≤ endLn) (hcol : col ≤ (lineAt lines ln).length) (pl pc : Nat) :
    (trailSep lines ln col endLn endCol sep del).pos = some (pl, pc) ↔ Target lines ln col endLn endCol sep pl pc := by
  obtain ⟨s1, s2, s3⟩ := sepScan_spec lines endLn endCol (sepFuel lines ln endLn) ln col hle hcol
    (mu_lt_sepFuel lines ln col endLn)
  rw [target_skipTo s1]
  unfold trailSep
  generalize sepScan lines endLn endCol (sepFuel lines ln endLn) ln col = r at *
  cases hf : r.frag with
  | none =>
    simp only [hf]
    constructor
    · intro h; simp at h
    · intro t; exact absurd t (no_target_of_skippable (s2 hf) sep pl pc)
  | some q =>
    obtain ⟨cln, ccol, src⟩ := q
    simp only [hf]
    rw [trailSepTail_pos, target_fragAt (s3 cln ccol src hf)]
    by_cases hp : sep.isPrefixOf src = true
    · have hp' : sep <+: src := List.isPrefixOf_iff_prefix.mp hp
      simp only [hp, ↓reduceIte, Option.some.injEq, Prod.mk.injEq]
      constructor
      · rintro ⟨rfl, rfl⟩; exact ⟨rfl, rfl, hp'⟩
      · rintro ⟨rfl, rfl, _⟩; exact ⟨rfl, rfl⟩
    · have hp' : ¬ sep <+: src := fun h => hp (List.isPrefixOf_iff_prefix.mpr h)
      simp only [hp, Bool.false_eq_true, ↓reduceIte]
      constructor
      · intro h; simp at h
      · rintro ⟨_, _, h⟩; exact absurd h hp'

/-- the last `trailCount p w` characters of `w` satisfy `p` -/
theorem trailCount_spec (p : Char → Bool) (w : Line) :
    trailCount p w ≤ w.length ∧
    ∀ j, w.length - trailCount p w ≤ j → j < w.length → ∃ ch, w[j]? = some ch ∧ p ch = true := by
  have hsplit : w = (w.reverse.dropWhile p).reverse ++ (w.reverse.takeWhile p).reverse := by
    have := congrArg List.reverse (List.takeWhile_append_dropWhile (p := p) (l := w.reverse))
    rw [List.reverse_append, List.reverse_reverse] at this
    exact this.symm
  have hlen : w.length = (w.reverse.dropWhile p).length + trailCount p w := by
    have := congrArg List.length hsplit
    simpa [trailCount] using this
  refine ⟨by omega, ?_⟩
  intro j h1 h2
  have hj : j - (w.reverse.dropWhile p).reverse.length < (w.reverse.takeWhile p).reverse.length := by
    simp [trailCount] at *; omega
  refine ⟨(w.reverse.takeWhile p).reverse[j - (w.reverse.dropWhile p).reverse.length], ?_, ?_⟩
  · conv => lhs; rw [hsplit]
    rw [List.getElem?_append_right (by simp; omega)]
    exact List.getElem?_eq_getElem hj
  · have hm : (w.reverse.takeWhile p).reverse[j - (w.reverse.dropWhile p).reverse.length]
        ∈ w.reverse.takeWhile p := by
      exact List.mem_reverse.mp (List.getElem_mem hj)
    exact mem_takeWhile_true hm

/-- the end of the fragment lies inside its line -/
theorem FragAt.bounds {lines : List Line} {ln col endLn endCol cln ccol : Nat} {src : Line}
    (h : FragAt lines ln col endLn endCol cln ccol src) :
    wstart lines ln col cln ≤ ccol ∧ ccol + src.length ≤ (lineAt lines cln).length ∧ cln < lines.length ∧
    ∀ j, wstart lines ln col cln ≤ j → j < ccol → ∃ ch, (lineAt lines cln)[j]? = some ch ∧ isSpace ch = true := by
  obtain ⟨sp, rest, hw, hsp, _, hcc⟩ := h.here
  have hl := lineWin_length lines ln col endLn endCol cln
  rw [hw] at hl
  simp only [List.length_append] at hl
  have hws : wstart lines ln col cln ≤ (lineAt lines cln).length := by unfold wstart; omega
  have hsl : 0 < src.length := List.length_pos_iff.mpr h.ne
  have hb : ccol + src.length ≤ (lineAt lines cln).length := by omega
  refine ⟨by omega, hb, ?_, ?_⟩
  · rcases Nat.lt_or_ge cln lines.length with hlt | hge
    · exact hlt
    · have : lineAt lines cln = [] := by
        unfold lineAt; simp [List.getD_eq_getElem?_getD, List.getElem?_eq_none hge]
      rw [this] at hb; simp only [List.length_nil] at hb; omega
  · intro j h1 h2
    rw [lineWin_eq] at hw
    have hw' : win (lineAt lines cln) (wstart lines ln col cln) (wbound lines endLn endCol cln)
        = [] ++ sp ++ (src ++ rest) := by simp [hw]
    have hmin : min (wstart lines ln col cln) (lineAt lines cln).length = wstart lines ln col cln := by omega
    obtain ⟨_, x, hx, hxm⟩ := win_index hw' (i := j) (by simp [hmin]; exact h1) (by simp [hmin]; omega)
    exact ⟨x, hx, List.all_eq_true.mp hsp x hxm⟩

/-- where the delete starts: at or before the separator, with only whitespace in between -/
theorem delFrom_spec {lines : List Line} {ln col endLn endCol cln ccol : Nat} {src : Line}
    (hfa : FragAt lines ln col endLn endCol cln ccol src) (hrc : col ≤ (lineAt lines ln).length) :
    delFrom lines ln col cln ccol ≤ ccol ∧
    ∀ j, delFrom lines ln col cln ccol ≤ j → j < ccol → ∃ ch, (lineAt lines cln)[j]? = some ch ∧ isSpace ch = true := by
  obtain ⟨b1, b2, b3, b4⟩ := hfa.bounds
  unfold delFrom
  by_cases hsame : cln = ln
  · have hne : (cln != ln) = false := by simp [hsame]
    have hws : wstart lines ln col cln = col := by
      unfold wstart; simp [hsame]; omega
    simp only [hne, Bool.false_eq_true, ↓reduceIte]
    by_cases h0 : col = 0
    · simp only [h0, beq_self_eq_true, ↓reduceIte]
      exact ⟨Nat.le_refl _, fun j h1 h2 => absurd h1 (by omega)⟩
    · have : (col == 0) = false := by simp [h0]
      simp only [this, Bool.false_eq_true, ↓reduceIte]
      rw [hws] at b1 b4
      exact ⟨b1, b4⟩
  · have hne : (cln != ln) = true := by simp [hsame]
    have hgt : cln > ln := by have := hfa.lo; omega
    simp only [hne, ↓reduceIte, hgt]
    unfold emptySpaceStart
    have hmin : min ccol (lineAt lines cln).length = ccol := by omega
    simp only [hmin, Nat.zero_min, Nat.not_lt_zero, ↓reduceIte, List.drop_zero]
    obtain ⟨t1, t2⟩ := trailCount_spec isSpace ((lineAt lines cln).take ccol)
    have htl : ((lineAt lines cln).take ccol).length = ccol := by simp; omega
    rw [htl] at t1 t2
    have key : ∀ j, ccol - trailCount isSpace ((lineAt lines cln).take ccol) ≤ j → j < ccol →
        ∃ ch, (lineAt lines cln)[j]? = some ch ∧ isSpace ch = true := by
      intro j h1 h2
      obtain ⟨ch, hch, hs⟩ := t2 j h1 h2
      rw [List.getElem?_take_of_lt h2] at hch
      exact ⟨ch, hch, hs⟩
    split
    · exact ⟨Nat.le_refl _, fun j h1 h2 => absurd h1 (by omega)⟩
    · exact ⟨by omega, key⟩

/-- **What a deleting `_trail_sep` does to the source**: nothing when no separator follows or `del_` decides to keep
it; otherwise one `_put_src(None, l, a, l, b)` on the line of the separator with `b` = end of the separator and `[a, pc)`
made of whitespace only (`pc` = the returned column). -/
theorem trailSep_del_spec (lines : List Line) (ln col endLn endCol : Nat) (sep : Line) (del : Del)
    (hle : ln ≤ endLn) (hcol : col ≤ (lineAt lines ln).length) :
    ((trailSep lines ln col endLn endCol sep del).del = none →
      (trailSep lines ln col endLn endCol sep del).lines = lines) ∧
    (del = .no → (trailSep lines ln col endLn endCol sep del).del = none) ∧
    ∀ l a b, (trailSep lines ln col endLn endCol sep del).del = some (l, a, b) →
      (trailSep lines ln col endLn endCol sep del).lines = Pfst.Text.putSrc lines [] l a l b ∧
      l < lines.length ∧ b ≤ (lineAt lines l).length ∧
      ∃ pc, (trailSep lines ln col endLn endCol sep del).pos = some (l, pc) ∧ b = pc + sep.length ∧ a ≤ pc ∧
        ∀ j, a ≤ j → j < pc → ∃ ch, (lineAt lines l)[j]? = some ch ∧ isSpace ch = true := by
  obtain ⟨s1, _, s3⟩ := sepScan_spec lines endLn endCol (sepFuel lines ln endLn) ln col hle hcol
    (mu_lt_sepFuel lines ln col endLn)
  obtain ⟨hrc, _⟩ := skipTo_tail s1
  unfold trailSep
  generalize sepScan lines endLn endCol (sepFuel lines ln endLn) ln col = r at *
  cases hf : r.frag with
  | none => simp [hf]
  | some q =>
    obtain ⟨cln, ccol, src⟩ := q
    have hfa := s3 cln ccol src hf
    obtain ⟨b1, b2, b3, b4⟩ := hfa.bounds
    obtain ⟨d1, d2⟩ := delFrom_spec hfa hrc
    simp only [hf]
    unfold trailSepTail
    by_cases hp : sep.isPrefixOf src = true
    · have hp' : sep <+: src := List.isPrefixOf_iff_prefix.mp hp
      have hsl : sep.length ≤ src.length := hp'.length_le
      simp only [hp, Bool.not_true, Bool.false_eq_true, ↓reduceIte]
      by_cases hdd : doDelete lines endLn endCol del cln (ccol + sep.length) = true
      · simp only [hdd, ↓reduceIte]
        refine ⟨by intro h; simp at h, ?_, ?_⟩
        · intro hd; subst hd; simp [doDelete] at hdd
        · intro l a b hsome
          simp only [Option.some.injEq, Prod.mk.injEq] at hsome
          obtain ⟨rfl, rfl, rfl⟩ := hsome
          exact ⟨rfl, b3, by omega, ccol, rfl, rfl, d1, d2⟩
      · simp only [hdd, Bool.false_eq_true, ↓reduceIte]
        exact ⟨fun _ => trivial, fun _ => trivial, by intro l a b h; simp at h⟩
    · simp [hp]

end Pfst.Sep

