import Pfst.Sep
import Pfst.ScanLemmas
import Pfst.TextLemmas
/-!
Lemmas about the separator primitives (`Pfst/Sep.lean`).

The scanning loop shared by `_trail_sep` and `_maybe_ins_sep` (`sepScan`) is characterised declaratively on the windows
of the lines of the bound (`Pfst.Scan.lineWin`): what it skips (`SkipTo`), where it stops (`FragAt`), and what
"the separator follows" means independently of the loop (`Target`).
-/
namespace Pfst.Sep
open Pfst.Scan

/-! ## characters the scan steps over -/

/-- whitespace or a closing parenthesis -/
def isSkip (c : Char) : Bool := isSpace c || c == ')'

/-- a window without its leading blanks and closing parentheses -/
def afterSkip (w : Line) : Line := w.dropWhile isSkip

/-- number of leading blanks and closing parentheses of a window -/
def skipLen (w : Line) : Nat := (w.takeWhile isSkip).length

/-- the maximal run of code characters that follows the leading blanks and closing parentheses -/
def codeRun (w : Line) : Line := (afterSkip w).takeWhile isCode

/-- the window holds nothing but blanks and closing parentheses up to its end, a comment or a backslash -/
def Skippable (w : Line) : Prop := ∀ x, (afterSkip w).head? = some x → x = '#' ∨ x = '\\'

theorem isSkip_of_space {c : Char} (h : isSpace c = true) : isSkip c = true := by simp [isSkip, h]

theorem isSkip_par : isSkip ')' = true := by decide

theorem not_isSkip_of_code {c : Char} (h : isCode c = true) (hp : c ≠ ')') : isSkip c = false := by
  simp [isSkip, isCode_imp_not_isSpace h, hp]

theorem not_isCode_of_skip_ne_par {c : Char} (h : isSkip c = true) (hp : c ≠ ')') : isCode c = false := by
  simp only [isSkip, Bool.or_eq_true, beq_iff_eq] at h
  rcases h with h | h
  · simp [isCode, h]
  · exact absurd h hp

theorem afterSkip_append {a b : Line} (h : ∀ c ∈ a, isSkip c = true) : afterSkip (a ++ b) = afterSkip b :=
  List.dropWhile_append_of_pos h

theorem skipLen_append {a b : Line} (h : ∀ c ∈ a, isSkip c = true) : skipLen (a ++ b) = a.length + skipLen b := by
  unfold skipLen; rw [List.takeWhile_append_of_pos h]; simp

theorem afterSkip_self {w : Line} (h : ∀ x, w.head? = some x → isSkip x = false) : afterSkip w = w ∧ skipLen w = 0 := by
  cases w with
  | nil => simp [afterSkip, skipLen]
  | cons c t =>
    have hc := h c rfl
    simp [afterSkip, skipLen, hc]

theorem skipLen_le (w : Line) : skipLen w ≤ w.length :=
  (List.takeWhile_prefix isSkip).length_le

theorem take_skipLen (w : Line) : w.take (skipLen w) = w.takeWhile isSkip :=
  (List.prefix_iff_eq_take.mp (List.takeWhile_prefix isSkip)).symm

theorem drop_skipLen (w : Line) : w.drop (skipLen w) = afterSkip w := by
  have h1 := List.take_append_drop (skipLen w) w
  have h2 := List.takeWhile_append_dropWhile (p := isSkip) (l := w)
  rw [take_skipLen] at h1
  exact List.append_cancel_left (h1.trans h2.symm)

theorem afterSkip_head_not_skip {w : Line} {x : Char} (h : (afterSkip w).head? = some x) : isSkip x = false :=
  head?_dropWhile_false h

theorem codeRun_nil_of_skippable {w : Line} (h : Skippable w) : codeRun w = [] := by
  unfold codeRun
  cases hw : afterSkip w with
  | nil => rfl
  | cons c t =>
    have := h c (by rw [hw]; rfl)
    rcases this with rfl | rfl <;> simp [List.takeWhile, isCode]

theorem skippable_congr {w w' : Line} (h : afterSkip w = afterSkip w') : Skippable w ↔ Skippable w' := by
  unfold Skippable; rw [h]

theorem codeRun_congr {w w' : Line} (h : afterSkip w = afterSkip w') : codeRun w = codeRun w' := by
  unfold codeRun; rw [h]

/-- a window of blanks followed by its end, a comment or a backslash -/
theorem blank_facts {w sp rest : Line} (hw : w = sp ++ rest) (hsp : sp.all isSpace = true)
    (hr : rest = [] ∨ (∃ t, rest = '#' :: t) ∨ (∃ t, rest = '\\' :: t)) : Skippable w ∧ codeRun w = [] := by
  have hsk : ∀ c ∈ sp, isSkip c = true := fun c hc => isSkip_of_space (List.all_eq_true.mp hsp c hc)
  have h1 : afterSkip w = rest := by
    rw [hw, afterSkip_append hsk]
    rcases hr with rfl | ⟨t, rfl⟩ | ⟨t, rfl⟩
    · rfl
    · exact (afterSkip_self (by intro x hx; simp at hx; subst hx; decide)).1
    · exact (afterSkip_self (by intro x hx; simp at hx; subst hx; decide)).1
  have hS : Skippable w := by
    intro x hx
    rw [h1] at hx
    rcases hr with rfl | ⟨t, rfl⟩ | ⟨t, rfl⟩
    · simp at hx
    · simp at hx; exact Or.inl hx.symm
    · simp at hx; exact Or.inr hx.symm
  exact ⟨hS, codeRun_nil_of_skippable hS⟩

/-- a window `blanks-and-parentheses ++ run ++ rest` with `run` a non-empty maximal code run not starting with `)` -/
theorem run_facts {w body run rest : Line} (hw : w = body ++ run ++ rest) (hb : ∀ c ∈ body, isSkip c = true)
    (hne : run ≠ []) (hcode : run.all isCode = true) (hhd : run.head? ≠ some ')')
    (hrest : ∀ x, rest.head? = some x → isCode x = false) :
    afterSkip w = run ++ rest ∧ skipLen w = body.length ∧ codeRun w = run := by
  cases run with
  | nil => contradiction
  | cons c t =>
    have hc : isCode c = true := List.all_eq_true.mp hcode c (by simp)
    have hcp : c ≠ ')' := by intro h; apply hhd; simp [h]
    have hns : isSkip c = false := not_isSkip_of_code hc hcp
    have h0 := afterSkip_self (w := c :: t ++ rest) (by intro x hx; simp at hx; subst hx; exact hns)
    have h1 : afterSkip w = c :: t ++ rest := by
      rw [hw, List.append_assoc, afterSkip_append hb]; exact h0.1
    refine ⟨h1, ?_, ?_⟩
    · rw [hw, List.append_assoc, skipLen_append hb, h0.2]; rfl
    · unfold codeRun
      rw [h1]
      have := (span_unique (p := isCode) (a := c :: t) (b := rest) (List.all_eq_true.mp hcode) hrest).1
      exact this

/-! ## windows -/

/-- the first column of the window of line `i` -/
def wstart (lines : List Line) (ln col i : Nat) : Nat := min (if i = ln then col else 0) (lineAt lines i).length

/-- the unclipped end bound of line `i` -/
def wbound (lines : List Line) (endLn endCol i : Nat) : Nat := if i = endLn then endCol else (lineAt lines i).length

theorem lineWin_eq (lines : List Line) (ln col endLn endCol i : Nat) :
    lineWin lines ln col endLn endCol i = win (lineAt lines i) (wstart lines ln col i) (wbound lines endLn endCol i) := by
  unfold lineWin wstart wbound
  rw [win_pos_min]

theorem lineWin_length (lines : List Line) (ln col endLn endCol i : Nat) :
    (lineWin lines ln col endLn endCol i).length + wstart lines ln col i
      = max (wstart lines ln col i) (min (wbound lines endLn endCol i) (lineAt lines i).length) := by
  rw [lineWin_eq, win_length]
  have : min (wstart lines ln col i) (lineAt lines i).length = wstart lines ln col i := by unfold wstart; omega
  rw [this]; omega

/-- windows of lines other than the start lines do not depend on the start -/
theorem lineWin_other {lines : List Line} {ln col ln' col' endLn endCol i : Nat} (h1 : i ≠ ln) (h2 : i ≠ ln') :
    lineWin lines ln col endLn endCol i = lineWin lines ln' col' endLn endCol i := by
  unfold lineWin; simp [h1, h2]

theorem wstart_other {lines : List Line} {ln col i : Nat} (h : i ≠ ln) : wstart lines ln col i = 0 := by
  unfold wstart; simp [h]

/-- moving the start forward inside the window of its line drops the part stepped over -/
theorem lineWin_advance {lines : List Line} {ln col endLn endCol i : Nat} {A B : Line}
    (hw : lineWin lines ln col endLn endCol i = A ++ B) :
    lineWin lines i (wstart lines ln col i + A.length) endLn endCol i = B ∧
    wstart lines i (wstart lines ln col i + A.length) i = wstart lines ln col i + A.length ∧
    wstart lines ln col i + A.length ≤ (lineAt lines i).length := by
  have hlen := lineWin_length lines ln col endLn endCol i
  rw [hw] at hlen
  simp only [List.length_append] at hlen
  have hws : wstart lines ln col i ≤ (lineAt lines i).length := by unfold wstart; omega
  have hle : wstart lines ln col i + A.length ≤ (lineAt lines i).length := by omega
  refine ⟨?_, ?_, hle⟩
  · rw [lineWin_eq] at hw
    have e : lineWin lines i (wstart lines ln col i + A.length) endLn endCol i
        = win (lineAt lines i) (wstart lines ln col i + A.length) (wbound lines endLn endCol i) := by
      unfold lineWin wbound; simp
    rw [e, win_drop hle, hw]; simp
  · unfold wstart; simp only [↓reduceIte]; unfold wstart at hle; omega

/-! ## what the scan steps over, where it stops, what "the separator follows" means -/

/-- From the start `(ln, col)` up to `(l, c)` the bound holds only blanks, closing parentheses, comments and
continuation lines: every earlier line window is `Skippable` and the window of line `l` starts with `c - start`
blanks / closing parentheses. -/
structure SkipTo (lines : List Line) (ln col endLn endCol l c : Nat) : Prop where
  lo : ln ≤ l
  hi : l ≤ endLn
  before : ∀ i, ln ≤ i → i < l → Skippable (lineWin lines ln col endLn endCol i)
  here : ∃ k, c = wstart lines ln col l + k ∧ k ≤ (lineWin lines ln col endLn endCol l).length ∧
    ∀ x ∈ (lineWin lines ln col endLn endCol l).take k, isSkip x = true

/-- Seen from the start `(ln, col)`, the first fragment that is not made of closing parentheses only is `src` at
`(cln, ccol)` (leading closing parentheses of the fragment stripped by the caller): every earlier line window is
`Skippable`, the window of line `cln` is `blanks ++ src ++ rest` with `src` a non-empty maximal run of code characters
that does not start with `)`. -/
structure FragAt (lines : List Line) (ln col endLn endCol cln ccol : Nat) (src : Line) : Prop where
  lo : ln ≤ cln
  hi : cln ≤ endLn
  before : ∀ i, ln ≤ i → i < cln → Skippable (lineWin lines ln col endLn endCol i)
  here : ∃ sp rest, lineWin lines ln col endLn endCol cln = sp ++ src ++ rest ∧ sp.all isSpace = true ∧
    (∀ x, rest.head? = some x → isCode x = false) ∧ ccol = wstart lines ln col cln + sp.length
  ne : src ≠ []
  code : src.all isCode = true
  hd : src.head? ≠ some ')'

/-- **The separator follows the span**: inside the bound `(ln, col) .. (endLn, endCol)`, `(pl, pc)` is the position of
the first character that is not a blank, not a closing parenthesis, not inside a comment and not on the rest of a line
after a backslash; it is a code character and the maximal run of code characters starting there begins with `sep`.
(`before`: every earlier line window is blanks and closing parentheses up to its end, a `#` or a backslash; `run` /
`pos` / `pre`: the window of line `pl` is `blanks-and-parentheses ++ run ++ …` and `sep` is a prefix of `run`.) -/
structure Target (lines : List Line) (ln col endLn endCol : Nat) (sep : Line) (pl pc : Nat) : Prop where
  lo : ln ≤ pl
  hi : pl ≤ endLn
  before : ∀ i, ln ≤ i → i < pl → Skippable (lineWin lines ln col endLn endCol i)
  run : codeRun (lineWin lines ln col endLn endCol pl) ≠ []
  pos : pc = wstart lines ln col pl + skipLen (lineWin lines ln col endLn endCol pl)
  pre : sep <+: codeRun (lineWin lines ln col endLn endCol pl)

theorem SkipTo.refl {lines : List Line} {ln col endLn endCol : Nat} (hle : ln ≤ endLn)
    (hcol : col ≤ (lineAt lines ln).length) : SkipTo lines ln col endLn endCol ln col :=
  ⟨Nat.le_refl _, hle, fun i h1 h2 => absurd h1 (by omega),
   ⟨0, by unfold wstart; simp; omega, Nat.zero_le _, by simp⟩⟩

/-- seen from `(l, c)` the rest of the bound looks the same as from the start, shifted on line `l` -/
theorem skipTo_tail {lines : List Line} {ln col endLn endCol l c : Nat} (h : SkipTo lines ln col endLn endCol l c) :
    c ≤ (lineAt lines l).length ∧
    ∀ i, l ≤ i →
      afterSkip (lineWin lines ln col endLn endCol i) = afterSkip (lineWin lines l c endLn endCol i) ∧
      wstart lines ln col i + skipLen (lineWin lines ln col endLn endCol i)
        = wstart lines l c i + skipLen (lineWin lines l c endLn endCol i) := by
  obtain ⟨k, hc, hk, hsk⟩ := h.here
  have hsplit : lineWin lines ln col endLn endCol l
      = (lineWin lines ln col endLn endCol l).take k ++ (lineWin lines ln col endLn endCol l).drop k :=
    (List.take_append_drop k _).symm
  have hlen : ((lineWin lines ln col endLn endCol l).take k).length = k := by simp; omega
  obtain ⟨a1, a2, a3⟩ := lineWin_advance hsplit
  rw [hlen, ← hc] at a1 a2 a3
  refine ⟨a3, ?_⟩
  intro i hi
  by_cases hil : i = l
  · subst hil
    rw [a1, a2]
    constructor
    · conv => lhs; rw [hsplit]
      exact afterSkip_append hsk
    · conv => lhs; rw [hsplit]
      rw [skipLen_append hsk, hlen]; omega
  · have h1 : i ≠ ln := by have := h.lo; omega
    rw [lineWin_other (ln' := l) (col' := c) h1 hil, wstart_other h1, wstart_other hil]
    exact ⟨rfl, rfl⟩

theorem target_skipTo {lines : List Line} {ln col endLn endCol l c : Nat} (h : SkipTo lines ln col endLn endCol l c)
    (sep : Line) (pl pc : Nat) :
    Target lines ln col endLn endCol sep pl pc ↔ Target lines l c endLn endCol sep pl pc := by
  obtain ⟨_, ht⟩ := skipTo_tail h
  constructor
  · intro t
    have hpl : l ≤ pl := by
      rcases Nat.lt_or_ge pl l with hlt | hge
      · exact absurd (codeRun_nil_of_skippable (h.before pl t.lo hlt)) t.run
      · exact hge
    obtain ⟨e1, e2⟩ := ht pl hpl
    refine ⟨hpl, t.hi, ?_, ?_, ?_, ?_⟩
    · intro i hi1 hi2
      rw [← skippable_congr (ht i hi1).1]
      exact t.before i (by have := h.lo; omega) hi2
    · rw [← codeRun_congr e1]; exact t.run
    · rw [← e2]; exact t.pos
    · rw [← codeRun_congr e1]; exact t.pre
  · intro t
    obtain ⟨e1, e2⟩ := ht pl t.lo
    refine ⟨Nat.le_trans h.lo t.lo, t.hi, ?_, ?_, ?_, ?_⟩
    · intro i hi1 hi2
      rcases Nat.lt_or_ge i l with hlt | hge
      · exact h.before i hi1 hlt
      · rw [skippable_congr (ht i hge).1]
        exact t.before i hge hi2
    · rw [codeRun_congr e1]; exact t.run
    · rw [e2]; exact t.pos
    · rw [codeRun_congr e1]; exact t.pre

theorem SkipTo.trans {lines : List Line} {ln col endLn endCol l c l2 c2 : Nat}
    (h1 : SkipTo lines ln col endLn endCol l c) (h2 : SkipTo lines l c endLn endCol l2 c2) :
    SkipTo lines ln col endLn endCol l2 c2 := by
  obtain ⟨_, ht⟩ := skipTo_tail h1
  refine ⟨Nat.le_trans h1.lo h2.lo, h2.hi, ?_, ?_⟩
  · intro i hi1 hi2
    rcases Nat.lt_or_ge i l with hlt | hge
    · exact h1.before i hi1 hlt
    · rw [skippable_congr (ht i hge).1]
      exact h2.before i hge hi2
  · obtain ⟨k2, hc2, hk2, hsk2⟩ := h2.here
    by_cases hl : l2 = l
    · subst hl
      obtain ⟨k1, hc1, hk1, hsk1⟩ := h1.here
      have hsplit : lineWin lines ln col endLn endCol l2
          = (lineWin lines ln col endLn endCol l2).take k1 ++ (lineWin lines ln col endLn endCol l2).drop k1 :=
        (List.take_append_drop k1 _).symm
      have hlen : ((lineWin lines ln col endLn endCol l2).take k1).length = k1 := by simp; omega
      obtain ⟨a1, a2, _⟩ := lineWin_advance hsplit
      rw [hlen, ← hc1] at a1 a2
      rw [a1] at hk2 hsk2
      rw [a2] at hc2
      refine ⟨k1 + k2, by omega, ?_, ?_⟩
      · simp at hk2; omega
      · intro x hx
        rw [List.take_add] at hx
        rcases List.mem_append.mp hx with hx | hx
        · exact hsk1 x hx
        · exact hsk2 x hx
    · have hlt : l < l2 := by have := h2.lo; omega
      have hn : l2 ≠ ln := by have := h1.lo; omega
      rw [← lineWin_other (ln := ln) (col := col) hn hl] at hk2 hsk2
      rw [wstart_other hl] at hc2
      exact ⟨k2, by rw [wstart_other hn]; exact hc2, hk2, hsk2⟩

theorem target_fragAt {lines : List Line} {ln col endLn endCol cln ccol : Nat} {src : Line}
    (h : FragAt lines ln col endLn endCol cln ccol src) (sep : Line) (pl pc : Nat) :
    Target lines ln col endLn endCol sep pl pc ↔ pl = cln ∧ pc = ccol ∧ sep <+: src := by
  obtain ⟨sp, rest, hw, hsp, hrest, hcc⟩ := h.here
  have hsk : ∀ c ∈ sp, isSkip c = true := fun c hc => isSkip_of_space (List.all_eq_true.mp hsp c hc)
  obtain ⟨f1, f2, f3⟩ := run_facts hw hsk h.ne h.code h.hd hrest
  constructor
  · intro t
    have hpl : pl = cln := by
      rcases Nat.lt_trichotomy pl cln with hlt | heq | hgt
      · exact absurd (codeRun_nil_of_skippable (h.before pl t.lo hlt)) t.run
      · exact heq
      · have := codeRun_nil_of_skippable (t.before cln h.lo hgt)
        rw [f3] at this
        exact absurd this h.ne
    subst hpl
    refine ⟨rfl, ?_, ?_⟩
    · rw [t.pos, f2, hcc]
    · have := t.pre; rw [f3] at this; exact this
  · rintro ⟨rfl, rfl, hp⟩
    exact ⟨h.lo, h.hi, h.before, by rw [f3]; exact h.ne, by rw [f2, hcc], by rw [f3]; exact hp⟩

/-- at most one position is a target -/
theorem Target.unique {lines : List Line} {ln col endLn endCol : Nat} {sep : Line} {pl pc pl' pc' : Nat}
    (t : Target lines ln col endLn endCol sep pl pc) (t' : Target lines ln col endLn endCol sep pl' pc') :
    pl = pl' ∧ pc = pc' := by
  have hpl : pl = pl' := by
    rcases Nat.lt_trichotomy pl pl' with hlt | heq | hgt
    · exact absurd (codeRun_nil_of_skippable (t'.before pl t.lo hlt)) t.run
    · exact heq
    · exact absurd (codeRun_nil_of_skippable (t.before pl' t'.lo hgt)) t'.run
  subst hpl
  exact ⟨rfl, by rw [t.pos, t'.pos]⟩

/-! ## one `next_frag` of the loop -/

theorem frag_facts {lines : List Line} {ln col endLn endCol : Nat} {fr : Frag}
    (h : nextFrag lines ln col endLn endCol false .f = some fr) (hle : ln ≤ endLn) :
    ln ≤ fr.ln ∧ fr.ln ≤ endLn ∧
    (∀ i, ln ≤ i → i < fr.ln → Skippable (lineWin lines ln col endLn endCol i)) ∧
    ∃ sp rest, lineWin lines ln col endLn endCol fr.ln = sp ++ fr.src ++ rest ∧ sp.all isSpace = true ∧
      fr.src ≠ [] ∧ fr.src.all isCode = true ∧ (∀ x, rest.head? = some x → isCode x = false) ∧
      fr.col = wstart lines ln col fr.ln + sp.length := by
  obtain ⟨h1, h2, ⟨sp, rest, hw, hsp, hne, hall, hrest, hcol⟩, h4⟩ := nextFrag_spec_decomp h hle
  refine ⟨h1, h2, ?_, sp, rest, hw, hsp, hne, hall, hrest, hcol⟩
  intro i hi1 hi2
  obtain ⟨sp', rest', hw', hsp', hr'⟩ := h4 i hi1 hi2
  exact (blank_facts hw' hsp' hr').1

theorem none_facts {lines : List Line} {ln col endLn endCol : Nat}
    (h : nextFrag lines ln col endLn endCol false .f = none) (hle : ln ≤ endLn) :
    ∀ i, ln ≤ i → i ≤ endLn → Skippable (lineWin lines ln col endLn endCol i) := by
  intro i hi1 hi2
  have hm := nextFrag_none h hle i hi1 hi2
  unfold lineMatch at hm
  rcases reMatch_none_iff.mp hm with hc | ⟨sp, rest, hw, hsp, hnt⟩
  · have : lineWin lines ln col endLn endCol i = [] := by
      apply List.eq_nil_of_length_eq_zero
      unfold lineWin; rw [win_length]; omega
    rw [this]; intro x hx; simp [afterSkip] at hx
  · have hr : rest = [] ∨ (∃ t, rest = '#' :: t) ∨ (∃ t, rest = '\\' :: t) := by
      rcases hnt with h | ⟨t, h, _⟩ | ⟨t, h, _⟩
      · exact Or.inl h
      · exact Or.inr (Or.inl ⟨t, h⟩)
      · exact Or.inr (Or.inr ⟨t, h⟩)
    exact (blank_facts (w := lineWin lines ln col endLn endCol i) hw hsp hr).1

/-- the closing parentheses at the front of a fragment and what `lstrip(')')` leaves -/
theorem lstripPar_facts (s : Line) (hcode : s.all isCode = true) :
    ∃ ps, s = ps ++ lstripPar s ∧ (∀ c ∈ ps, isSkip c = true) ∧ s.length - (lstripPar s).length = ps.length ∧
      (lstripPar s).all isCode = true ∧ (lstripPar s).head? ≠ some ')' ∧ (s.head? = some ')' → ps ≠ []) := by
  refine ⟨s.takeWhile (· == ')'), (List.takeWhile_append_dropWhile).symm, ?_, ?_, ?_, ?_, ?_⟩
  · intro c hc
    have := mem_takeWhile_true hc
    simp only [beq_iff_eq] at this
    subst this; exact isSkip_par
  · have := congrArg List.length (List.takeWhile_append_dropWhile (p := (· == ')')) (l := s))
    simp only [List.length_append] at this
    unfold lstripPar; omega
  · apply List.all_eq_true.mpr
    intro c hc
    exact List.all_eq_true.mp hcode c ((List.dropWhile_sublist _).mem hc)
  · intro hh
    have := head?_dropWhile_false (p := (· == ')')) hh
    simp at this
  · intro hh
    cases s with
    | nil => simp at hh
    | cons c t =>
      simp at hh; subst hh
      simp [List.takeWhile]

/-- stepping over blanks and the closing parentheses at the front of the fragment `next_frag` answered -/
theorem step_skipTo {lines : List Line} {ln col endLn endCol : Nat} {fr : Frag}
    (h : nextFrag lines ln col endLn endCol false .f = some fr) (hle : ln ≤ endLn)
    {ps src' : Line} (hs : fr.src = ps ++ src') (hps : ∀ c ∈ ps, isSkip c = true) :
    SkipTo lines ln col endLn endCol fr.ln (fr.col + ps.length) ∧
    ∃ rest, lineWin lines fr.ln (fr.col + ps.length) endLn endCol fr.ln = src' ++ rest ∧
      (∀ x, rest.head? = some x → isCode x = false) ∧
      wstart lines fr.ln (fr.col + ps.length) fr.ln = fr.col + ps.length ∧
      fr.col + ps.length ≤ (lineAt lines fr.ln).length ∧
      wstart lines ln col fr.ln ≤ fr.col := by
  obtain ⟨h1, h2, h3, sp, rest, hw, hsp, hne, hall, hrest, hcol⟩ := frag_facts h hle
  have hsk : ∀ c ∈ sp, isSkip c = true := fun c hc => isSkip_of_space (List.all_eq_true.mp hsp c hc)
  have hw2 : lineWin lines ln col endLn endCol fr.ln = (sp ++ ps) ++ (src' ++ rest) := by
    rw [hw, hs]; simp
  obtain ⟨a1, a2, a3⟩ := lineWin_advance hw2
  have hk : wstart lines ln col fr.ln + (sp ++ ps).length = fr.col + ps.length := by
    rw [hcol]; simp; omega
  rw [hk] at a1 a2 a3
  refine ⟨⟨h1, h2, h3, (sp ++ ps).length, hk.symm, ?_, ?_⟩, rest, a1, hrest, a2, a3, by omega⟩
  · rw [hw2]; simp
  · intro x hx
    rw [hw2, List.take_left' rfl] at hx
    rcases List.mem_append.mp hx with hx | hx
    · exact hsk x hx
    · exact hps x hx

/-! ## fuel -/

/-- what is left to scan from `(ln, col)` -/
def mu (lines : List Line) (endLn ln col : Nat) : Nat :=
  spanChars lines ln (endLn + 1 - ln) - min col (lineAt lines ln).length

theorem spanChars_split (lines : List Line) (i a b : Nat) :
    spanChars lines i (a + b) = spanChars lines i a + spanChars lines (i + a) b := by
  induction a generalizing i with
  | zero => simp [spanChars]
  | succ a ih =>
    have : a + 1 + b = (a + b) + 1 := by omega
    rw [this]
    simp only [spanChars]
    rw [ih (i + 1)]
    have : i + 1 + a = i + (a + 1) := by omega
    rw [this]; omega

theorem spanChars_pos (lines : List Line) (i n : Nat) (h : 0 < n) :
    (lineAt lines i).length + 1 ≤ spanChars lines i n := by
  cases n with
  | zero => omega
  | succ n => simp only [spanChars]; omega

theorem mu_decrease {lines : List Line} {endLn ln col l' c' : Nat} (h1 : ln ≤ l') (h2 : l' ≤ endLn)
    (hc : c' ≤ (lineAt lines l').length)
    (hp : ln < l' ∨ (l' = ln ∧ min col (lineAt lines ln).length < c')) :
    mu lines endLn l' c' < mu lines endLn ln col := by
  unfold mu
  rcases hp with hp | ⟨rfl, hp⟩
  · have e : endLn + 1 - ln = (l' - ln) + (endLn + 1 - l') := by omega
    rw [e, spanChars_split]
    have : ln + (l' - ln) = l' := by omega
    rw [this]
    have := spanChars_pos lines ln (l' - ln) (by omega)
    omega
  · have := spanChars_pos lines l' (endLn + 1 - l') (by omega)
    omega

/-! ## the loop -/

/-- **The scanning loop of `_trail_sep` / `_maybe_ins_sep`**: it stops at a search start `(r.ln, r.col)` that is reached
from the original start over blanks, closing parentheses, comments and continuation lines only, and there either
nothing more follows inside the bound, or the fragment it reports is the first one that is not just closing
parentheses. -/
theorem sepScan_spec (lines : List Line) (endLn endCol : Nat) :
    ∀ (fuel ln col : Nat), ln ≤ endLn → col ≤ (lineAt lines ln).length → mu lines endLn ln col < fuel →
      SkipTo lines ln col endLn endCol (sepScan lines endLn endCol fuel ln col).ln
        (sepScan lines endLn endCol fuel ln col).col ∧
      ((sepScan lines endLn endCol fuel ln col).frag = none →
        ∀ i, (sepScan lines endLn endCol fuel ln col).ln ≤ i → i ≤ endLn →
          Skippable (lineWin lines (sepScan lines endLn endCol fuel ln col).ln
            (sepScan lines endLn endCol fuel ln col).col endLn endCol i)) ∧
      (∀ cln ccol src, (sepScan lines endLn endCol fuel ln col).frag = some (cln, ccol, src) →
        FragAt lines (sepScan lines endLn endCol fuel ln col).ln (sepScan lines endLn endCol fuel ln col).col
          endLn endCol cln ccol src) := by
  intro fuel
  induction fuel with
  | zero => intro ln col _ _ h; omega
  | succ fuel ih =>
    intro ln col hle hcol hmu
    unfold sepScan
    cases hnf : nextFrag lines ln col endLn endCol false .f with
    | none =>
      simp only
      exact ⟨SkipTo.refl hle hcol, fun _ => none_facts hnf hle, by intro _ _ _ h; simp at h⟩
    | some fr =>
      simp only
      obtain ⟨f1, f2, f3, sp, rest0, hw, hsp, hne, hall, hrest0, hfc⟩ := frag_facts hnf hle
      by_cases hh : fr.src.head? = some ')'
      · obtain ⟨ps, hs, hps, hlen, hcode', hhd', hpsne⟩ := lstripPar_facts fr.src hall
        have hcc : fr.col + fr.src.length - (lstripPar fr.src).length = fr.col + ps.length := by
          have := congrArg List.length hs
          simp only [List.length_append] at this
          omega
        obtain ⟨hskip, rest, hwx, hrest, hws, hcl, hwle⟩ := step_skipTo hnf hle hs hps
        have hh' : (fr.src.head? == some ')') = true := by simp [hh]
        simp only [hh', ↓reduceIte, hcc]
        by_cases hemp : (lstripPar fr.src).isEmpty = true
        · simp only [hemp, ↓reduceIte]
          have hpos : 0 < ps.length := List.length_pos_iff.mpr (hpsne hh)
          have hdec : mu lines endLn fr.ln (fr.col + ps.length) < mu lines endLn ln col := by
            apply mu_decrease f1 f2 hcl
            rcases Nat.lt_or_ge ln fr.ln with hlt | hge
            · exact Or.inl hlt
            · have he : fr.ln = ln := by omega
              refine Or.inr ⟨he, ?_⟩
              have : wstart lines ln col fr.ln = min col (lineAt lines ln).length := by
                unfold wstart; simp [he]
              omega
          obtain ⟨i1, i2, i3⟩ := ih fr.ln (fr.col + ps.length) f2 hcl (by omega)
          exact ⟨hskip.trans i1, i2, i3⟩
        · simp only [hemp, Bool.false_eq_true, ↓reduceIte]
          refine ⟨hskip, by intro h; simp at h, ?_⟩
          intro cln ccol src hsome
          simp only [Option.some.injEq, Prod.mk.injEq] at hsome
          obtain ⟨rfl, rfl, rfl⟩ := hsome
          have hne' : lstripPar fr.src ≠ [] := by
            intro h0; apply hemp; simp [h0]
          exact ⟨Nat.le_refl _, f2, fun i a b => absurd a (by omega),
            ⟨[], rest, by simpa using hwx, rfl, hrest, by simp [hws]⟩, hne', hcode', hhd'⟩
      · have hh' : (fr.src.head? == some ')') = false := by simp [hh]
        simp only [hh', Bool.false_eq_true, ↓reduceIte]
        refine ⟨SkipTo.refl hle hcol, by intro h; simp at h, ?_⟩
        intro cln ccol src hsome
        simp only [Option.some.injEq, Prod.mk.injEq] at hsome
        obtain ⟨rfl, rfl, rfl⟩ := hsome
        exact ⟨f1, f2, f3, ⟨sp, rest0, hw, hsp, hrest0, hfc⟩, hne, hall, hh⟩

theorem mu_lt_sepFuel (lines : List Line) (ln col endLn : Nat) : mu lines endLn ln col < sepFuel lines ln endLn := by
  unfold mu sepFuel; omega

/-! ## `_trail_sep` -/

theorem trailSepTail_pos (lines : List Line) (endLn endCol : Nat) (sep : Line) (del : Del) (ln col cln ccol : Nat)
    (src : Line) :
    (trailSepTail lines endLn endCol sep del ln col cln ccol src).pos
      = if sep.isPrefixOf src then some (cln, ccol) else none := by
  unfold trailSepTail
  by_cases h : sep.isPrefixOf src = true
  · simp only [h, Bool.not_true, Bool.false_eq_true, ↓reduceIte]
    split <;> rfl
  · simp [h]

/-- no target at all when every remaining line window is skippable -/
theorem no_target_of_skippable {lines : List Line} {ln col endLn endCol : Nat}
    (h : ∀ i, ln ≤ i → i ≤ endLn → Skippable (lineWin lines ln col endLn endCol i)) (sep : Line) (pl pc : Nat) :
    ¬ Target lines ln col endLn endCol sep pl pc :=
  fun t => t.run (codeRun_nil_of_skippable (h pl t.lo t.hi))

theorem trailSep_pos_iff (lines : List Line) (ln col endLn endCol : Nat) (sep : Line) (del : Del)
    (hle : ln ≤ endLn) (hcol : col ≤ (lineAt lines ln).length) (pl pc : Nat) :
    (trailSep lines ln col endLn endCol sep del).pos = some (pl, pc) ↔ Target lines ln col endLn endCol sep pl pc := by
  obtain ⟨s1, s2, s3⟩ := sepScan_spec lines endLn endCol (sepFuel lines ln endLn) ln col hle hcol
    (mu_lt_sepFuel lines ln col endLn)
  rw [target_skipTo s1]
  unfold trailSep
  generalize sepScan lines endLn endCol (sepFuel lines ln endLn) ln col = r at *
  cases hf : r.frag with
  | none =>
    simp only [hf]
    constructor
    · intro h; simp at h
    · intro t; exact absurd t (no_target_of_skippable (s2 hf) sep pl pc)
  | some q =>
    obtain ⟨cln, ccol, src⟩ := q
    simp only [hf]
    rw [trailSepTail_pos, target_fragAt (s3 cln ccol src hf)]
    by_cases hp : sep.isPrefixOf src = true
    · have hp' : sep <+: src := List.isPrefixOf_iff_prefix.mp hp
      simp only [hp, ↓reduceIte, Option.some.injEq, Prod.mk.injEq]
      constructor
      · rintro ⟨rfl, rfl⟩; exact ⟨rfl, rfl, hp'⟩
      · rintro ⟨rfl, rfl, _⟩; exact ⟨rfl, rfl⟩
    · have hp' : ¬ sep <+: src := fun h => hp (List.isPrefixOf_iff_prefix.mpr h)
      simp only [hp, Bool.false_eq_true, ↓reduceIte]
      constructor
      · intro h; simp at h
      · rintro ⟨_, _, h⟩; exact absurd h hp'

/-- the last `trailCount p w` characters of `w` satisfy `p` -/
theorem trailCount_spec (p : Char → Bool) (w : Line) :
    trailCount p w ≤ w.length ∧
    ∀ j, w.length - trailCount p w ≤ j → j < w.length → ∃ ch, w[j]? = some ch ∧ p ch = true := by
  have hsplit : w = (w.reverse.dropWhile p).reverse ++ (w.reverse.takeWhile p).reverse := by
    have := congrArg List.reverse (List.takeWhile_append_dropWhile (p := p) (l := w.reverse))
    rw [List.reverse_append, List.reverse_reverse] at this
    exact this.symm
  have hlen : w.length = (w.reverse.dropWhile p).length + trailCount p w := by
    have := congrArg List.length hsplit
    simpa [trailCount] using this
  refine ⟨by omega, ?_⟩
  intro j h1 h2
  have hj : j - (w.reverse.dropWhile p).reverse.length < (w.reverse.takeWhile p).reverse.length := by
    simp [trailCount] at *; omega
  refine ⟨(w.reverse.takeWhile p).reverse[j - (w.reverse.dropWhile p).reverse.length], ?_, ?_⟩
  · conv => lhs; rw [hsplit]
    rw [List.getElem?_append_right (by simp; omega)]
    exact List.getElem?_eq_getElem hj
  · have hm : (w.reverse.takeWhile p).reverse[j - (w.reverse.dropWhile p).reverse.length]
        ∈ w.reverse.takeWhile p := by
      exact List.mem_reverse.mp (List.getElem_mem hj)
    exact mem_takeWhile_true hm

/-- the end of the fragment lies inside its line -/
theorem FragAt.bounds {lines : List Line} {ln col endLn endCol cln ccol : Nat} {src : Line}
    (h : FragAt lines ln col endLn endCol cln ccol src) :
    wstart lines ln col cln ≤ ccol ∧ ccol + src.length ≤ (lineAt lines cln).length ∧ cln < lines.length ∧
    ∀ j, wstart lines ln col cln ≤ j → j < ccol → ∃ ch, (lineAt lines cln)[j]? = some ch ∧ isSpace ch = true := by
  obtain ⟨sp, rest, hw, hsp, _, hcc⟩ := h.here
  have hl := lineWin_length lines ln col endLn endCol cln
  rw [hw] at hl
  simp only [List.length_append] at hl
  have hws : wstart lines ln col cln ≤ (lineAt lines cln).length := by unfold wstart; omega
  have hsl : 0 < src.length := List.length_pos_iff.mpr h.ne
  have hb : ccol + src.length ≤ (lineAt lines cln).length := by omega
  refine ⟨by omega, hb, ?_, ?_⟩
  · rcases Nat.lt_or_ge cln lines.length with hlt | hge
    · exact hlt
    · have : lineAt lines cln = [] := by
        unfold lineAt; simp [List.getD_eq_getElem?_getD, List.getElem?_eq_none hge]
      rw [this] at hb; simp only [List.length_nil] at hb; omega
  · intro j h1 h2
    rw [lineWin_eq] at hw
    have hw' : win (lineAt lines cln) (wstart lines ln col cln) (wbound lines endLn endCol cln)
        = [] ++ sp ++ (src ++ rest) := by simp [hw]
    have hmin : min (wstart lines ln col cln) (lineAt lines cln).length = wstart lines ln col cln := by omega
    obtain ⟨_, x, hx, hxm⟩ := win_index hw' (i := j) (by simp [hmin]; exact h1) (by simp [hmin]; omega)
    exact ⟨x, hx, List.all_eq_true.mp hsp x hxm⟩

/-- where the delete starts: at or before the separator, with only whitespace in between -/
theorem delFrom_spec {lines : List Line} {ln col endLn endCol cln ccol : Nat} {src : Line}
    (hfa : FragAt lines ln col endLn endCol cln ccol src) (hrc : col ≤ (lineAt lines ln).length) :
    delFrom lines ln col cln ccol ≤ ccol ∧
    ∀ j, delFrom lines ln col cln ccol ≤ j → j < ccol → ∃ ch, (lineAt lines cln)[j]? = some ch ∧ isSpace ch = true := by
  obtain ⟨b1, b2, b3, b4⟩ := hfa.bounds
  unfold delFrom
  by_cases hsame : cln = ln
  · have hne : (cln != ln) = false := by simp [hsame]
    have hws : wstart lines ln col cln = col := by
      unfold wstart; simp [hsame]; omega
    simp only [hne, Bool.false_eq_true, ↓reduceIte]
    by_cases h0 : col = 0
    · simp only [h0, beq_self_eq_true, ↓reduceIte]
      exact ⟨Nat.le_refl _, fun j h1 h2 => absurd h1 (by omega)⟩
    · have : (col == 0) = false := by simp [h0]
      simp only [this, Bool.false_eq_true, ↓reduceIte]
      rw [hws] at b1 b4
      exact ⟨b1, b4⟩
  · have hne : (cln != ln) = true := by simp [hsame]
    have hgt : cln > ln := by have := hfa.lo; omega
    simp only [hne, ↓reduceIte, hgt]
    unfold emptySpaceStart
    have hmin : min ccol (lineAt lines cln).length = ccol := by omega
    simp only [hmin, Nat.zero_min, Nat.not_lt_zero, ↓reduceIte, List.drop_zero]
    obtain ⟨t1, t2⟩ := trailCount_spec isSpace ((lineAt lines cln).take ccol)
    have htl : ((lineAt lines cln).take ccol).length = ccol := by simp; omega
    rw [htl] at t1 t2
    have key : ∀ j, ccol - trailCount isSpace ((lineAt lines cln).take ccol) ≤ j → j < ccol →
        ∃ ch, (lineAt lines cln)[j]? = some ch ∧ isSpace ch = true := by
      intro j h1 h2
      obtain ⟨ch, hch, hs⟩ := t2 j h1 h2
      rw [List.getElem?_take_of_lt h2] at hch
      exact ⟨ch, hch, hs⟩
    split
    · exact ⟨Nat.le_refl _, fun j h1 h2 => absurd h1 (by omega)⟩
    · exact ⟨by omega, key⟩

/-- **What a deleting `_trail_sep` does to the source**: nothing when no separator follows or `del_` decides to keep
it; otherwise one `_put_src(None, l, a, l, b)` on the line of the separator with `b` = end of the separator and `[a, pc)`
made of whitespace only (`pc` = the returned column). -/
theorem trailSep_del_spec (lines : List Line) (ln col endLn endCol : Nat) (sep : Line) (del : Del)
    (hle : ln ≤ endLn) (hcol : col ≤ (lineAt lines ln).length) :
    ((trailSep lines ln col endLn endCol sep del).del = none →
      (trailSep lines ln col endLn endCol sep del).lines = lines) ∧
    (del = .no → (trailSep lines ln col endLn endCol sep del).del = none) ∧
    ∀ l a b, (trailSep lines ln col endLn endCol sep del).del = some (l, a, b) →
      (trailSep lines ln col endLn endCol sep del).lines = Pfst.Text.putSrc lines [] l a l b ∧
      l < lines.length ∧ b ≤ (lineAt lines l).length ∧
      ∃ pc, (trailSep lines ln col endLn endCol sep del).pos = some (l, pc) ∧ b = pc + sep.length ∧ a ≤ pc ∧
        ∀ j, a ≤ j → j < pc → ∃ ch, (lineAt lines l)[j]? = some ch ∧ isSpace ch = true := by
  obtain ⟨s1, _, s3⟩ := sepScan_spec lines endLn endCol (sepFuel lines ln endLn) ln col hle hcol
    (mu_lt_sepFuel lines ln col endLn)
  obtain ⟨hrc, _⟩ := skipTo_tail s1
  unfold trailSep
  generalize sepScan lines endLn endCol (sepFuel lines ln endLn) ln col = r at *
  cases hf : r.frag with
  | none => simp [hf]
  | some q =>
    obtain ⟨cln, ccol, src⟩ := q
    have hfa := s3 cln ccol src hf
    obtain ⟨b1, b2, b3, b4⟩ := hfa.bounds
    obtain ⟨d1, d2⟩ := delFrom_spec hfa hrc
    simp only [hf]
    unfold trailSepTail
    by_cases hp : sep.isPrefixOf src = true
    · have hp' : sep <+: src := List.isPrefixOf_iff_prefix.mp hp
      have hsl : sep.length ≤ src.length := hp'.length_le
      simp only [hp, Bool.not_true, Bool.false_eq_true, ↓reduceIte]
      by_cases hdd : doDelete lines endLn endCol del cln (ccol + sep.length) = true
      · simp only [hdd, ↓reduceIte]
        refine ⟨by intro h; simp at h, ?_, ?_⟩
        · intro hd; subst hd; simp [doDelete] at hdd
        · intro l a b hsome
          simp only [Option.some.injEq, Prod.mk.injEq] at hsome
          obtain ⟨rfl, rfl, rfl⟩ := hsome
          exact ⟨rfl, b3, by omega, ccol, rfl, rfl, d1, d2⟩
      · simp only [hdd, Bool.false_eq_true, ↓reduceIte]
        exact ⟨fun _ => trivial, fun _ => trivial, by intro l a b h; simp at h⟩
    · simp [hp]

/-! ## inserting text into one line -/

/-- `l[:c] + s + l[c:]` -/
def insLine (l : Line) (c : Nat) (s : Line) : Line := l.take c ++ s ++ l.drop c

theorem putSrc_ins (lines : List Line) (l c : Nat) (s : Line) :
    Pfst.Text.putSrc lines [s] l c l c = lines.set l (insLine (lineAt lines l) c s) := by
  simp [Pfst.Text.putSrc, insLine, Pfst.Text.lineAt, lineAt]

theorem lineAt_set {lines : List Line} {l : Nat} (hl : l < lines.length) (x : Line) (i : Nat) :
    lineAt (lines.set l x) i = if i = l then x else lineAt lines i := by
  unfold lineAt
  by_cases h : i = l
  · subst h; simp [List.getD_eq_getElem?_getD, hl]
  · simp [List.getD_eq_getElem?_getD, List.getElem?_set_ne (Ne.symm h), h]

theorem insLine_length (l : Line) (c : Nat) (s : Line) : (insLine l c s).length = l.length + s.length := by
  unfold insLine; simp; omega

/-- the window of a line into which `s` was inserted at `start + k` (inside the window), with the end bound moved
by `|s|`, is the old window with `s` inserted at `k` -/
theorem win_insLine {l : Line} {p ep k : Nat} (s : Line) (hp : p ≤ l.length) (hpep : p ≤ ep)
    (hk : k ≤ (win l p ep).length) :
    win (insLine l (p + k) s) p (ep + s.length) = (win l p ep).take k ++ s ++ (win l p ep).drop k := by
  have hwl := win_length l p ep
  have hpe : min p l.length ≤ min ep l.length := by omega
  have hd := win_decomp l p ep hpe
  have hmp : min p l.length = p := by omega
  rw [hmp] at hd
  generalize hW : win l p ep = W at *
  generalize hP : l.take p = P at *
  generalize hQ : l.drop (min ep l.length) = Q at *
  have hPl : P.length = p := by rw [← hP]; simp; omega
  have hins : insLine l (p + k) s = P ++ (W.take k ++ s ++ W.drop k) ++ Q := by
    unfold insLine
    rw [hd]
    have e1 : (P ++ W ++ Q).take (p + k) = P ++ W.take k := by
      rw [List.append_assoc, ← hPl, Pfst.Text.take_len_add, List.take_append_of_le_length hk]
    have e2 : (P ++ W ++ Q).drop (p + k) = W.drop k ++ Q := by
      rw [List.append_assoc, ← hPl, Pfst.Text.drop_len_add, List.drop_append_of_le_length hk]
    rw [e1, e2]; simp
  have hlen : (insLine l (p + k) s).length = l.length + s.length := insLine_length _ _ _
  unfold win
  have h1 : min (ep + s.length) (insLine l (p + k) s).length = P.length + (W.take k ++ s ++ W.drop k).length := by
    rw [hlen, hPl]; simp; omega
  have h2 : min p (insLine l (p + k) s).length = P.length := by rw [hlen, hPl]; omega
  rw [h1, h2]
  exact take_drop_of_decomp hins

/-- the lines after inserting `s` at `(l, c)` -/
def insLines (lines : List Line) (l c : Nat) (s : Line) : List Line := lines.set l (insLine (lineAt lines l) c s)

/-- the end bound after the insertion (what re-reading the bound from the offset tree gives) -/
def insEnd (l : Nat) (s : Line) (endLn endCol : Nat) : Nat := if l = endLn then endCol + s.length else endCol

theorem lineAt_insLines {lines : List Line} {l : Nat} (hl : l < lines.length) (c : Nat) (s : Line) (i : Nat) :
    lineAt (insLines lines l c s) i = if i = l then insLine (lineAt lines l) c s else lineAt lines i :=
  lineAt_set hl _ i

/-- windows of the other lines are unchanged -/
theorem lineWin_insLines_other {lines : List Line} {l : Nat} (hl : l < lines.length) (c : Nat) (s : Line)
    (ln col endLn endCol i : Nat) (hi : i ≠ l) :
    lineWin (insLines lines l c s) ln col endLn (insEnd l s endLn endCol) i = lineWin lines ln col endLn endCol i ∧
    wstart (insLines lines l c s) ln col i = wstart lines ln col i := by
  unfold lineWin wstart insEnd
  rw [lineAt_insLines hl, if_neg hi]
  by_cases he : i = endLn
  · have : l ≠ endLn := by omega
    simp [he, this]
  · simp [he]

/-- the window of the line itself: `s` inserted at `k` -/
theorem lineWin_insLines_self {lines : List Line} {l : Nat} (hl : l < lines.length) (s : Line)
    {ln col endLn endCol k : Nat} (hcol : l = ln → col ≤ (lineAt lines ln).length)
    (hse : l = ln → l = endLn → col ≤ endCol)
    (hk : k ≤ (lineWin lines ln col endLn endCol l).length) :
    lineWin (insLines lines l (wstart lines ln col l + k) s) ln col endLn (insEnd l s endLn endCol) l
      = (lineWin lines ln col endLn endCol l).take k ++ s ++ (lineWin lines ln col endLn endCol l).drop k ∧
    wstart (insLines lines l (wstart lines ln col l + k) s) ln col l = wstart lines ln col l := by
  have hws : wstart lines ln col l ≤ (lineAt lines l).length := by unfold wstart; omega
  have hw : wstart (insLines lines l (wstart lines ln col l + k) s) ln col l = wstart lines ln col l := by
    unfold wstart
    rw [lineAt_insLines hl, if_pos rfl, insLine_length]
    by_cases h : l = ln
    · have := hcol h
      subst h
      simp only [↓reduceIte] at *
      omega
    · simp [h]
  refine ⟨?_, hw⟩
  rw [lineWin_eq, hw, lineAt_insLines hl, if_pos rfl]
  have hb : wbound (insLines lines l (wstart lines ln col l + k) s) endLn (insEnd l s endLn endCol) l
      = wbound lines endLn endCol l + s.length := by
    unfold wbound insEnd
    rw [lineAt_insLines hl, if_pos rfl, insLine_length]
    by_cases h : l = endLn <;> simp [h]
  rw [hb, lineWin_eq] at *
  have hwb : wstart lines ln col l ≤ wbound lines endLn endCol l := by
    unfold wbound
    by_cases h : l = endLn
    · simp only [h, ↓reduceIte]
      unfold wstart
      by_cases h2 : endLn = ln
      · have := hse (h.trans h2) h
        simp only [h2, ↓reduceIte]; omega
      · simp [h2]
    · simp only [h, ↓reduceIte]; exact hws
  exact win_insLine s hws hwb hk

/-! ## `_maybe_ins_sep` -/

/-- a window is its leading blanks / closing parentheses, its code run, and a rest that does not start with a code
character -/
theorem win_three (w : Line) :
    w = w.takeWhile isSkip ++ codeRun w ++ (afterSkip w).dropWhile isCode ∧
    (∀ c ∈ w.takeWhile isSkip, isSkip c = true) ∧ (codeRun w).all isCode = true ∧
    (∀ x, ((afterSkip w).dropWhile isCode).head? = some x → isCode x = false) ∧
    (∀ x, (codeRun w).head? = some x → isSkip x = false) := by
  refine ⟨?_, fun c hc => mem_takeWhile_true hc, List.all_eq_true.mpr (fun c hc => mem_takeWhile_true hc),
    fun x hx => head?_dropWhile_false hx, ?_⟩
  · unfold codeRun afterSkip
    rw [List.append_assoc, List.takeWhile_append_dropWhile, List.takeWhile_append_dropWhile]
  · intro x hx
    unfold codeRun at hx
    cases ha : afterSkip w with
    | nil => rw [ha] at hx; simp at hx
    | cons c t =>
      rw [ha] at hx
      have hc : isSkip c = false := afterSkip_head_not_skip (w := w) (by rw [ha]; rfl)
      rw [List.takeWhile_cons] at hx
      split at hx
      · simp at hx; subst hx; exact hc
      · simp at hx

/-- the bound starts before it ends -/
def StartLeEnd (ln col endLn endCol : Nat) : Prop := ln < endLn ∨ (ln = endLn ∧ col ≤ endCol)

/-- the target seen from `(l, c)` in lines whose window there is `pre ++ sep ++ tail` -/
theorem target_at_inserted {lines : List Line} {l c endLn endCol : Nat} {sep pre tail : Line}
    (hw : lineWin lines l c endLn endCol l = pre ++ sep ++ tail) (hws : wstart lines l c l = c) (hle : l ≤ endLn)
    (hpre : ∀ x ∈ pre, isSkip x = true) (sne : sep ≠ []) (scode : sep.all isCode = true)
    (shd : sep.head? ≠ some ')') :
    Target lines l c endLn endCol sep l (c + pre.length) := by
  have hsplit : sep ++ tail = sep ++ tail.takeWhile isCode ++ tail.dropWhile isCode := by
    rw [List.append_assoc, List.takeWhile_append_dropWhile]
  have hw' : lineWin lines l c endLn endCol l = pre ++ (sep ++ tail.takeWhile isCode) ++ tail.dropWhile isCode := by
    rw [hw, List.append_assoc, hsplit]; simp
  have hrun : (sep ++ tail.takeWhile isCode).all isCode = true := by
    apply List.all_eq_true.mpr
    intro x hx
    rcases List.mem_append.mp hx with hx | hx
    · exact List.all_eq_true.mp scode x hx
    · exact mem_takeWhile_true hx
  have hhd : (sep ++ tail.takeWhile isCode).head? ≠ some ')' := by
    cases sep with
    | nil => contradiction
    | cons a t => simpa using shd
  obtain ⟨_, f2, f3⟩ := run_facts hw' hpre (by simp [sne]) hrun hhd (fun x hx => head?_dropWhile_false hx)
  exact ⟨Nat.le_refl _, hle, fun i a b => absurd a (by omega), by rw [f3]; simp [sne], by rw [f2, hws],
    by rw [f3]; exact List.prefix_append _ _⟩

/-- everything the scan stepped over is still stepped over after text was inserted at the point it reached, and the
window seen from that point starts with the inserted text -/
theorem ins_at_skipTo {lines : List Line} {ln col endLn endCol l c : Nat}
    (h : SkipTo lines ln col endLn endCol l c) (hl : l < lines.length) (hcol : col ≤ (lineAt lines ln).length)
    (hse : StartLeEnd ln col endLn endCol) (s : Line) :
    SkipTo (insLines lines l c s) ln col endLn (insEnd l s endLn endCol) l c ∧
    ∃ B, lineWin (insLines lines l c s) l c endLn (insEnd l s endLn endCol) l = s ++ B ∧
      wstart (insLines lines l c s) l c l = c := by
  obtain ⟨k, hc, hk, hsk⟩ := h.here
  subst hc
  have hse' : l = ln → l = endLn → col ≤ endCol := by
    intro a b; rcases hse with hse | hse <;> omega
  obtain ⟨w1, w2⟩ := lineWin_insLines_self hl s (fun e => hcol) hse' hk
  have hlen : ((lineWin lines ln col endLn endCol l).take k).length = k := by simp; omega
  have hw1' : lineWin (insLines lines l (wstart lines ln col l + k) s) ln col endLn (insEnd l s endLn endCol) l
      = (lineWin lines ln col endLn endCol l).take k ++ (s ++ (lineWin lines ln col endLn endCol l).drop k) := by
    rw [w1]; simp
  obtain ⟨a1, a2, _⟩ := lineWin_advance hw1'
  rw [w2, hlen] at a1 a2
  refine ⟨⟨h.lo, h.hi, ?_, k, by rw [w2], ?_, ?_⟩, _, a1, a2⟩
  · intro i hi1 hi2
    rw [(lineWin_insLines_other hl _ s ln col endLn endCol i (by omega)).1]
    exact h.before i hi1 hi2
  · rw [w1]; simp; omega
  · intro x hx
    rw [hw1', List.take_left' hlen] at hx
    exact hsk x hx

/-- **inserting the separator where the scan stopped makes it the target** -/
theorem target_after_insert {lines : List Line} {ln col endLn endCol l c : Nat}
    (h : SkipTo lines ln col endLn endCol l c) (hl : l < lines.length) (hcol : col ≤ (lineAt lines ln).length)
    (hse : StartLeEnd ln col endLn endCol) {sep pre post : Line}
    (hpre : ∀ x ∈ pre, isSkip x = true) (sne : sep ≠ []) (scode : sep.all isCode = true)
    (shd : sep.head? ≠ some ')') :
    Target (insLines lines l c (pre ++ sep ++ post)) ln col endLn (insEnd l (pre ++ sep ++ post) endLn endCol) sep
      l (c + pre.length) := by
  obtain ⟨sk, B, hw, hws⟩ := ins_at_skipTo h hl hcol hse (pre ++ sep ++ post)
  rw [target_skipTo sk]
  exact target_at_inserted (tail := post ++ B) (by rw [hw]; simp) hws h.hi hpre sne scode shd

/-- **a blank inserted right behind the separator leaves it the target** -/
theorem target_space_after {lines : List Line} {ln col endLn endCol pl pc : Nat} {sep : Line}
    (t : Target lines ln col endLn endCol sep pl pc) (sne : sep ≠ []) (hl : pl < lines.length)
    (hcol : col ≤ (lineAt lines ln).length) (hse : StartLeEnd ln col endLn endCol) :
    Target (insLines lines pl (pc + sep.length) [' ']) ln col endLn (insEnd pl [' '] endLn endCol) sep pl pc := by
  obtain ⟨h3, hbody, hrun, hrest, hhead⟩ := win_three (lineWin lines ln col endLn endCol pl)
  obtain ⟨run2, hr2⟩ := t.pre
  have tpos := t.pos
  have hsl : skipLen (lineWin lines ln col endLn endCol pl)
      = ((lineWin lines ln col endLn endCol pl).takeWhile isSkip).length := rfl
  generalize hW : lineWin lines ln col endLn endCol pl = W at *
  generalize hbd : W.takeWhile isSkip = body at *
  generalize hrs : (afterSkip W).dropWhile isCode = rest3 at *
  rw [← hr2] at h3
  have hk : skipLen W + sep.length ≤ W.length := by
    have := congrArg List.length h3
    simp only [List.length_append] at this
    omega
  have hse' : pl = ln → pl = endLn → col ≤ endCol := by
    intro a b; rcases hse with hse | hse <;> omega
  have hpos : pc + sep.length = wstart lines ln col pl + (skipLen W + sep.length) := by rw [tpos]; omega
  rw [hpos]
  have hk' : skipLen W + sep.length ≤ (lineWin lines ln col endLn endCol pl).length := by rw [hW]; exact hk
  obtain ⟨w1, w2⟩ := lineWin_insLines_self hl [' '] (fun e => hcol) hse' hk'
  rw [hW] at w1
  have e1 : W.take (skipLen W + sep.length) = body ++ sep := by
    rw [hsl]
    conv => lhs; rw [h3]
    rw [List.append_assoc, List.append_assoc, Pfst.Text.take_len_add]
    simp
  have e2 : W.drop (skipLen W + sep.length) = run2 ++ rest3 := by
    rw [hsl]
    conv => lhs; rw [h3]
    rw [List.append_assoc, List.append_assoc, Pfst.Text.drop_len_add]
    simp
  rw [e1, e2] at w1
  have hw' : lineWin (insLines lines pl (wstart lines ln col pl + (skipLen W + sep.length)) [' ']) ln col endLn
      (insEnd pl [' '] endLn endCol) pl = body ++ sep ++ (' ' :: (run2 ++ rest3)) := by
    rw [w1]; simp
  have scode : sep.all isCode = true := by
    apply List.all_eq_true.mpr
    intro x hx
    exact List.all_eq_true.mp hrun x (by rw [← hr2]; exact List.mem_append_left _ hx)
  have shd : sep.head? ≠ some ')' := by
    cases sep with
    | nil => contradiction
    | cons a r =>
      intro hh
      simp at hh; subst hh
      have := hhead ')' (by rw [← hr2]; rfl)
      simp [isSkip] at this
  obtain ⟨_, f2, f3⟩ := run_facts hw' hbody sne scode shd (by intro x hx; simp at hx; subst hx; decide)
  refine ⟨t.lo, t.hi, ?_, by rw [f3]; exact sne, ?_, by rw [f3]; exact List.prefix_refl _⟩
  · intro i hi1 hi2
    rw [(lineWin_insLines_other hl _ [' '] ln col endLn endCol i (by omega)).1]
    exact t.before i hi1 hi2
  · rw [f2, w2, tpos, hsl]

theorem insLine_get_in (l : Line) (c : Nat) (s : Line) (hc : c ≤ l.length) (j : Nat) (hj : j < s.length) :
    (insLine l c s)[c + j]? = s[j]? := by
  unfold insLine
  have h1 : (l.take c).length = c := by simp; omega
  rw [List.append_assoc, List.getElem?_append_right (by omega), h1]
  have : c + j - c = j := by omega
  rw [this, List.getElem?_append_left hj]

theorem insLine_get_after (l : Line) (c : Nat) (s : Line) (hc : c ≤ l.length) :
    (insLine l c s)[c + s.length]? = l[c]? := by
  unfold insLine
  have h1 : (l.take c ++ s).length = c + s.length := by simp; omega
  rw [List.getElem?_append_right (by omega), h1]
  simp

/-- the position the scan reached lies inside the end bound -/
theorem SkipTo.col_le_end {lines : List Line} {ln col endLn endCol l c : Nat}
    (h : SkipTo lines ln col endLn endCol l c) (hse : StartLeEnd ln col endLn endCol) (he : l = endLn) :
    c ≤ endCol := by
  obtain ⟨k, hc, hk, _⟩ := h.here
  have hl := lineWin_length lines ln col endLn endCol l
  have hb : wbound lines endLn endCol l = endCol := by unfold wbound; simp [he]
  rw [hb] at hl
  have hws : wstart lines ln col l ≤ endCol := by
    unfold wstart
    by_cases h2 : l = ln
    · simp only [h2, ↓reduceIte]
      rcases hse with hse | hse <;> omega
    · simp [h2]
  omega

/-- the end of the fragment lies inside the end bound -/
theorem FragAt.bound_end {lines : List Line} {ln col endLn endCol cln ccol : Nat} {src : Line}
    (h : FragAt lines ln col endLn endCol cln ccol src) (he : cln = endLn) : ccol + src.length ≤ endCol := by
  obtain ⟨sp, rest, hw, _, _, hcc⟩ := h.here
  have hl := lineWin_length lines ln col endLn endCol cln
  rw [hw] at hl
  simp only [List.length_append] at hl
  have hb : wbound lines endLn endCol cln = endCol := by unfold wbound; simp [he]
  rw [hb] at hl
  have hsl : 0 < src.length := List.length_pos_iff.mpr h.ne
  omega

/-- the text `_maybe_ins_sep` puts when the separator is missing: `sep` itself, with a blank in front unless it is a
comma, and a blank behind if `post` -/
def newSepText (sep : Line) (post : Bool) : Line :=
  (if sep != [','] then [' '] else []) ++ sep ++ (if post then [' '] else [])

/-- `space and ((ln == end_ln and col == end_col) or not _re_one_space_or_end.match(lines[ln], col))` -/
def wantSpace (lines : List Line) (space : Bool) (endLn endCol l c : Nat) : Bool :=
  space && ((l == endLn && c == endCol) || !oneSpaceOrEnd (lineAt lines l) c)

/-- **The three things `_maybe_ins_sep` can do.**  (A) the separator follows and nothing is put; (B) the separator
follows and one blank is put right behind it; (C) no separator follows: the separator text is put at the point the scan
reached (behind the closing parentheses that follow the span). -/
theorem maybeInsSep_cases (lines : List Line) (ln col : Nat) (space : Bool) (endLn endCol : Nat) (sep : Line)
    (hle : ln ≤ endLn) (hcol : col ≤ (lineAt lines ln).length) :
    (∃ pl pc, Target lines ln col endLn endCol sep pl pc ∧
      wantSpace lines space endLn endCol pl (pc + sep.length) = false ∧
      maybeInsSep lines ln col space endLn endCol sep = ⟨none, lines⟩) ∨
    (∃ pl pc, Target lines ln col endLn endCol sep pl pc ∧
      wantSpace lines space endLn endCol pl (pc + sep.length) = true ∧
      pl < lines.length ∧ pc + sep.length ≤ (lineAt lines pl).length ∧ (pl = endLn → pc + sep.length ≤ endCol) ∧
      maybeInsSep lines ln col space endLn endCol sep
        = ⟨some (pl, pc + sep.length, [' ']), insLines lines pl (pc + sep.length) [' ']⟩) ∨
    ((∀ pl pc, ¬ Target lines ln col endLn endCol sep pl pc) ∧
      ∃ l c, SkipTo lines ln col endLn endCol l c ∧
        maybeInsSep lines ln col space endLn endCol sep
          = ⟨some (l, c, newSepText sep (wantSpace lines space endLn endCol l c)),
             insLines lines l c (newSepText sep (wantSpace lines space endLn endCol l c))⟩) := by
  obtain ⟨s1, s2, s3⟩ := sepScan_spec lines endLn endCol (sepFuel lines ln endLn) ln col hle hcol
    (mu_lt_sepFuel lines ln col endLn)
  have hnew : ∀ l c, insNew lines endLn endCol sep space l c
      = ⟨some (l, c, newSepText sep (wantSpace lines space endLn endCol l c)),
         insLines lines l c (newSepText sep (wantSpace lines space endLn endCol l c))⟩ := by
    intro l c
    unfold insNew newSepText wantSpace insLines
    simp only [putSrc_ins]
    by_cases h1 : (sep != [',']) = true <;>
      by_cases h2 : (space && (l == endLn && c == endCol || !oneSpaceOrEnd (lineAt lines l) c)) = true <;>
      simp [h1, h2]
  unfold maybeInsSep
  generalize sepScan lines endLn endCol (sepFuel lines ln endLn) ln col = r at *
  cases hf : r.frag with
  | none =>
    simp only [hf]
    refine Or.inr (Or.inr ⟨?_, r.ln, r.col, s1, hnew _ _⟩)
    intro pl pc t
    exact no_target_of_skippable (s2 hf) sep pl pc ((target_skipTo s1 sep pl pc).mp t)
  | some q =>
    obtain ⟨cln, ccol, src⟩ := q
    have hfa := s3 cln ccol src hf
    simp only [hf]
    unfold insTail
    by_cases hp : sep.isPrefixOf src = true
    · have hp' : sep <+: src := List.isPrefixOf_iff_prefix.mp hp
      have ht : Target lines ln col endLn endCol sep cln ccol :=
        (target_skipTo s1 sep cln ccol).mpr ((target_fragAt hfa sep cln ccol).mpr ⟨rfl, rfl, hp'⟩)
      simp only [hp, ↓reduceIte]
      by_cases hws : wantSpace lines space endLn endCol cln (ccol + sep.length) = true
      · have hws' := hws
        unfold wantSpace at hws'
        simp only [hws', ↓reduceIte]
        obtain ⟨_, b2, b3, _⟩ := hfa.bounds
        have hsl : sep.length ≤ src.length := hp'.length_le
        refine Or.inr (Or.inl ⟨cln, ccol, ht, hws, b3, by omega, ?_, ?_⟩)
        · intro he; have := hfa.bound_end he; omega
        · rw [putSrc_ins]; rfl
      · have hws' : wantSpace lines space endLn endCol cln (ccol + sep.length) = false := by simpa using hws
        have hws2 := hws'
        unfold wantSpace at hws2
        simp only [hws2, Bool.false_eq_true, ↓reduceIte]
        exact Or.inl ⟨cln, ccol, ht, hws', trivial⟩
    · have hp' : ¬ sep <+: src := fun h => hp (List.isPrefixOf_iff_prefix.mpr h)
      simp only [hp, Bool.false_eq_true, ↓reduceIte]
      refine Or.inr (Or.inr ⟨?_, r.ln, r.col, s1, hnew _ _⟩)
      intro pl pc t
      have := (target_fragAt hfa sep pl pc).mp ((target_skipTo s1 sep pl pc).mp t)
      exact hp' this.2.2

/-- once the separator follows and no blank is wanted behind it, `_maybe_ins_sep` does nothing -/
theorem maybeInsSep_settled {lines : List Line} {ln col : Nat} {space : Bool} {endLn endCol : Nat} {sep : Line}
    {pl pc : Nat} (hle : ln ≤ endLn) (hcol : col ≤ (lineAt lines ln).length)
    (t : Target lines ln col endLn endCol sep pl pc)
    (hw : wantSpace lines space endLn endCol pl (pc + sep.length) = false) :
    maybeInsSep lines ln col space endLn endCol sep = ⟨none, lines⟩ := by
  rcases maybeInsSep_cases lines ln col space endLn endCol sep hle hcol with
    ⟨pl', pc', _, _, h⟩ | ⟨pl', pc', t', hw', _⟩ | ⟨hno, _⟩
  · exact h
  · obtain ⟨rfl, rfl⟩ := t.unique t'
    rw [hw] at hw'; simp at hw'
  · exact absurd t (hno pl pc)

/-- the end column of the bound after `_maybe_ins_sep` put something (what re-reading the bound from the offset tree
gives: text put on the last line of the bound moves its end) -/
def endAfter (put : Option (Nat × Nat × Line)) (endLn endCol : Nat) : Nat :=
  match put with
  | none => endCol
  | some (l, _, s) => insEnd l s endLn endCol

theorem startLeEnd_le {ln col endLn endCol : Nat} (h : StartLeEnd ln col endLn endCol) : ln ≤ endLn := by
  rcases h with h | h <;> omega

/-- behind freshly put text `a` (+ a blank iff one was wanted at the insertion point) no blank is wanted any more -/
theorem wantSpace_after_new {lines : List Line} {l c endLn endCol : Nat} {space post : Bool} (a : Line)
    (hl : l < lines.length) (hc : c ≤ (lineAt lines l).length) (hce : l = endLn → c ≤ endCol)
    (hpost : wantSpace lines space endLn endCol l c = post) :
    wantSpace (insLines lines l c (a ++ (if post then [' '] else []))) space endLn
      (insEnd l (a ++ (if post then [' '] else [])) endLn endCol) l (c + a.length) = false := by
  unfold wantSpace
  rw [lineAt_insLines hl, if_pos rfl]
  cases post with
  | true =>
    simp only [↓reduceIte]
    have hch : (insLine (lineAt lines l) c (a ++ [' ']))[c + a.length]? = some ' ' := by
      rw [insLine_get_in (lineAt lines l) c (a ++ [' ']) hc a.length (by simp)]
      simp
    have hose : oneSpaceOrEnd (insLine (lineAt lines l) c (a ++ [' '])) (c + a.length) = true := by
      unfold oneSpaceOrEnd; rw [hch]; decide
    have hne : (l == endLn && c + a.length == insEnd l (a ++ [' ']) endLn endCol) = false := by
      by_cases he : l = endLn
      · have := hce he
        have : c + a.length ≠ insEnd l (a ++ [' ']) endLn endCol := by
          unfold insEnd; simp only [he, ↓reduceIte, List.length_append, List.length_cons, List.length_nil]; omega
        simp [this]
      · have hb2 : (l == endLn) = false := by simp [he]
        rw [hb2]; rfl
    simp [hose, hne]
  | false =>
    simp only [Bool.false_eq_true, ↓reduceIte, List.append_nil]
    have hch : (insLine (lineAt lines l) c a)[c + a.length]? = (lineAt lines l)[c]? :=
      insLine_get_after (lineAt lines l) c a hc
    have hose : oneSpaceOrEnd (insLine (lineAt lines l) c a) (c + a.length) = oneSpaceOrEnd (lineAt lines l) c := by
      unfold oneSpaceOrEnd; rw [hch]
    have hne : (l == endLn && c + a.length == insEnd l a endLn endCol) = (l == endLn && c == endCol) := by
      have hb : (c + a.length == endCol + a.length) = (c == endCol) := by
        rw [Bool.eq_iff_iff]; simp
      by_cases he : l = endLn
      · unfold insEnd
        simp only [he, ↓reduceIte, hb]
      · have hb2 : (l == endLn) = false := by simp [he]
        rw [hb2]; rfl
    rw [hose, hne]
    unfold wantSpace at hpost
    exact hpost

theorem newSepText_eq (sep : Line) (post : Bool) :
    newSepText sep post = ((if sep != [','] then [' '] else []) ++ sep) ++ (if post then [' '] else []) := rfl

/-- **After `_maybe_ins_sep` the separator follows the span and no further blank is wanted.** -/
theorem maybeInsSep_post_aux (lines : List Line) (ln col : Nat) (space : Bool) (endLn endCol : Nat) (sep : Line)
    (hse : StartLeEnd ln col endLn endCol) (hend : endLn < lines.length) (hcol : col ≤ (lineAt lines ln).length)
    (sne : sep ≠ []) (scode : sep.all isCode = true) (shd : sep.head? ≠ some ')') :
    ∃ pl pc,
      Target (maybeInsSep lines ln col space endLn endCol sep).lines ln col endLn
        (endAfter (maybeInsSep lines ln col space endLn endCol sep).put endLn endCol) sep pl pc ∧
      wantSpace (maybeInsSep lines ln col space endLn endCol sep).lines space endLn
        (endAfter (maybeInsSep lines ln col space endLn endCol sep).put endLn endCol) pl (pc + sep.length) = false ∧
      ((maybeInsSep lines ln col space endLn endCol sep).put = none → Target lines ln col endLn endCol sep pl pc) ∧
      (∀ l c s, (maybeInsSep lines ln col space endLn endCol sep).put = some (l, c, s) →
        pl = l ∧ ((s = [' '] ∧ c = pc + sep.length ∧ Target lines ln col endLn endCol sep pl pc) ∨
          ((∀ ql qc, ¬ Target lines ln col endLn endCol sep ql qc) ∧
            pc = c + (if sep != [','] then 1 else 0) ∧ SkipTo lines ln col endLn endCol l c))) := by
  have hle := startLeEnd_le hse
  rcases maybeInsSep_cases lines ln col space endLn endCol sep hle hcol with
    ⟨pl, pc, t, hw, h⟩ | ⟨pl, pc, t, hw, hl, hc2, hce, h⟩ | ⟨hno, l, c, sk, h⟩
  · rw [h]
    exact ⟨pl, pc, t, hw, fun _ => t, by intro l c s hh; simp at hh⟩
  · rw [h]
    refine ⟨pl, pc, target_space_after t sne hl hcol hse, ?_, by intro hh; simp at hh, ?_⟩
    · simp only [endAfter]
      have := wantSpace_after_new (lines := lines) (l := pl) (c := pc + sep.length) (endLn := endLn)
        (endCol := endCol) (space := space) (post := true) [] hl hc2 hce hw
      simpa using this
    · intro l c s hh
      simp only [Option.some.injEq, Prod.mk.injEq] at hh
      obtain ⟨rfl, rfl, rfl⟩ := hh
      exact ⟨rfl, Or.inl ⟨rfl, rfl, t⟩⟩
  · rw [h]
    have hl : l < lines.length := by have := sk.hi; omega
    have hc : c ≤ (lineAt lines l).length := (skipTo_tail sk).1
    have hpre : ∀ x ∈ (if sep != [','] then [' '] else []), isSkip x = true := by
      intro x hx
      by_cases h1 : (sep != [',']) = true
      · simp [h1] at hx; subst hx; decide
      · simp [h1] at hx
    have hplen : (if (sep != [',']) = true then [' '] else ([] : Line)).length = if sep != [','] then 1 else 0 := by
      by_cases h1 : (sep != [',']) = true <;> simp [h1]
    generalize hpost : wantSpace lines space endLn endCol l c = post at *
    have ht := target_after_insert sk hl hcol hse (post := if post then [' '] else []) hpre sne scode shd
    have hw := wantSpace_after_new (lines := lines) (l := l) (c := c) (endLn := endLn) (endCol := endCol)
      (space := space) (post := post) ((if sep != [','] then [' '] else []) ++ sep) hl hc (sk.col_le_end hse) hpost
    rw [List.length_append, hplen, ← Nat.add_assoc] at hw
    rw [hplen] at ht
    refine ⟨l, c + (if sep != [','] then 1 else 0), ht, hw, by intro hh; simp at hh, ?_⟩
    intro l' c' s hh
    simp only [Option.some.injEq, Prod.mk.injEq] at hh
    obtain ⟨rfl, rfl, rfl⟩ := hh
    exact ⟨rfl, Or.inr ⟨hno, rfl, sk⟩⟩

/-- the hypotheses of the scan lemmas hold again for the lines `_maybe_ins_sep` produced -/
theorem maybeInsSep_keeps_pre (lines : List Line) (ln col : Nat) (space : Bool) (endLn endCol : Nat) (sep : Line)
    (hse : StartLeEnd ln col endLn endCol) (hend : endLn < lines.length) (hcol : col ≤ (lineAt lines ln).length) :
    col ≤ (lineAt (maybeInsSep lines ln col space endLn endCol sep).lines ln).length ∧
    endCol ≤ endAfter (maybeInsSep lines ln col space endLn endCol sep).put endLn endCol := by
  have hle := startLeEnd_le hse
  have key : ∀ l c s, l < lines.length → col ≤ (lineAt (insLines lines l c s) ln).length ∧
      endCol ≤ insEnd l s endLn endCol := by
    intro l c s hl
    constructor
    · rw [lineAt_insLines hl]
      by_cases h : ln = l
      · subst h; simp only [↓reduceIte, insLine_length]; omega
      · simp only [h, ↓reduceIte]; exact hcol
    · unfold insEnd; split <;> omega
  rcases maybeInsSep_cases lines ln col space endLn endCol sep hle hcol with
    ⟨pl, pc, _, _, h⟩ | ⟨pl, pc, _, _, hl, _, _, h⟩ | ⟨_, l, c, sk, h⟩
  · rw [h]; exact ⟨hcol, Nat.le_refl _⟩
  · rw [h]; exact key _ _ _ hl
  · rw [h]; exact key _ _ _ (by have := sk.hi; omega)

/-! ## delimiting a naked tuple -/

theorem insLines_length (lines : List Line) (l c : Nat) (s : Line) : (insLines lines l c s).length = lines.length := by
  unfold insLines; simp

/-- the flat source after inserting `s` at `(l, c)` -/
theorem insLines_flat (lines : List Line) (l c : Nat) (s : Line) (hl : l < lines.length)
    (hc : c ≤ (lineAt lines l).length) :
    Pfst.Text.flat (insLines lines l c s)
      = (Pfst.Text.flat lines).take (Pfst.Text.off lines l c) ++ s ++ (Pfst.Text.flat lines).drop (Pfst.Text.off lines l c) := by
  have hv : Pfst.Text.ValidSpan lines l c l c := ⟨Nat.le_refl _, hl, hc, hc, Or.inr ⟨rfl, Nat.le_refl _⟩⟩
  unfold insLines
  rw [← putSrc_ins, Pfst.Text.putSrc_flat lines [s] l c l c hv (by simp)]
  simp [Pfst.Text.flat, Pfst.Text.flatTail]

/-- **`_delimit_node` on a node that is not the root** (`_fix_Tuple` on a naked tuple that needs parentheses): the flat
source gains exactly the opening delimiter at the start of the node and the closing one at its end; the text before,
between and after is untouched. -/
theorem delimitNode_flat (lines : List Line) (l c eL eC : Nat) (lc : Option (Nat × Nat)) (ld rd : Char)
    (hend : eL < lines.length) (hord : Pfst.Text.le2 l c eL eC) (hc : c ≤ (lineAt lines l).length)
    (hec : eC ≤ (lineAt lines eL).length) :
    Pfst.Text.flat (delimitNode lines ⟨l, c, eL, eC⟩ false lc ld rd)
      = (Pfst.Text.flat lines).take (Pfst.Text.off lines l c) ++ [ld] ++ Pfst.Text.getFlat lines l c eL eC ++ [rd]
        ++ (Pfst.Text.flat lines).drop (Pfst.Text.off lines eL eC) := by
  have hl : l < lines.length := by have := Pfst.Text.le2_line hord; omega
  have hun : delimitNode lines ⟨l, c, eL, eC⟩ false lc ld rd = insLines (insLines lines eL eC [rd]) l c [ld] := by
    unfold delimitNode
    simp only [Bool.false_eq_true, ↓reduceIte, Bool.not_false, putSrc_ins]
    rfl
  rw [hun]
  have hv : Pfst.Text.ValidSpan lines eL eC eL eC := ⟨Nat.le_refl _, hend, hec, hec, Or.inr ⟨rfl, Nat.le_refl _⟩⟩
  have hoff : Pfst.Text.off (insLines lines eL eC [rd]) l c = Pfst.Text.off lines l c := by
    unfold insLines; rw [← putSrc_ins]
    exact Pfst.Text.off_putSrc_before lines [[rd]] eL eC eL eC hv l c hord
  have hc1 : c ≤ (lineAt (insLines lines eL eC [rd]) l).length := by
    rw [lineAt_insLines hend]
    by_cases h : l = eL
    · subst h; simp only [↓reduceIte, insLine_length]; omega
    · simp only [h, ↓reduceIte]; exact hc
  rw [insLines_flat _ l c [ld] (by rw [insLines_length]; exact hl) hc1, hoff, insLines_flat lines eL eC [rd] hend hec]
  have hke : Pfst.Text.off lines l c ≤ Pfst.Text.off lines eL eC := Pfst.Text.off_mono lines l c eL eC hord hec
  have hel : Pfst.Text.off lines eL eC ≤ (Pfst.Text.flat lines).length := Pfst.Text.off_le_length lines eL eC hend
  unfold Pfst.Text.getFlat
  generalize Pfst.Text.flat lines = F at *
  generalize Pfst.Text.off lines l c = k at *
  generalize Pfst.Text.off lines eL eC = e at *
  have hk : k ≤ (F.take e).length := by simp; omega
  rw [List.append_assoc (F.take e), List.take_append_of_le_length hk, List.drop_append_of_le_length hk,
    List.take_take, Nat.min_eq_left hke, List.drop_take]
  simp

end Pfst.Sep
