import Pfst.Grammar
/-!
Executable precedence-climbing (Pratt) parser for the operator fragment of the spec grammar `Pfst/Grammar.lean`.

Written from the grammar (the ladder levels and the operand slots of each construct), NOT from the printer `pr`:
* a *prefix* construct (`+ - ~`, `not`, `await`, `lambda:`) may start a phrase of a slot whose minimal ladder level is at
  most the construct's own level; its operand is parsed in the construct's operand slot;
* an *infix* construct (left-assoc binary operators, `**`, comparison chains, n-ary `and` / `or`, `… if … else …`,
  and the postfix trailers `.name`, `[…]`, `(…)`) may
  continue a phrase when the slot accepts the construct's level AND the construct's left slot accepts what has been
  parsed so far (`ll`, the ladder level of the left operand; a name is at level `ATOM`, a parenthesised group or an
  integer literal at the pseudo-level `GRP` above it).

Total by fuel (every function recurses structurally on its first argument).  No imports besides the grammar.

Covered `Kind`s: `bin op` (op ≤ 12), `un op` (op < 3), `not_`, `boolop _`, `cmp ops` (ops ∈ 80..89), `ifexp`, `lambda`,
`await_`, `attr _`, `subscr` (slice: an expression), `call n []` (positional arguments that are expressions);
leaves `name` (class `lad ATOM`) and `int` (class `intlit`); parenthesised groups.
-/
namespace Pfst.Parse
open Pfst.Grammar

/-- Infix operator tokens: (minimal ladder level of the LEFT operand slot, ladder level of the resulting construct). -/
def infixLev : Tok → Option (Nat × Nat)
  | .sym op =>
    if op < 12 then some (binLevel op, binLevel op)      -- left recursion: `sum: sum '+' term`
    else if op = tPow then some (AWAIT, POWER)           -- power: await_primary '**' factor
    else if 80 ≤ op ∧ op < 90 then some (BOR, CMP)       -- comparison: bitwise_or (op bitwise_or)+
    else if op = 70 then some (AND, OR)                  -- disjunction: conjunction ('or' conjunction)+
    else if op = 71 then some (NOT, AND)                 -- conjunction: inversion ('and' inversion)+
    else if op = tIf then some (OR, TEST)                -- expression: disjunction 'if' disjunction 'else' expression
    else if op = tDot then some (ATOM, ATOM)             -- primary: primary '.' NAME
    else if op = tLb then some (ATOM, ATOM)              -- primary: primary '[' slices ']'
    else none
  | .lp => some (ATOM, ATOM)                             -- primary: primary '(' arguments ')'
  | _ => none

/-- `rest` cannot continue a phrase whose right edge sits in an operand slot of level `fl`:
its first token is not an infix operator producing a construct of level `≥ fl`. -/
def follow (fl : Nat) : List Tok → Bool
  | t :: _ => match infixLev t with
    | some (_, lr) => decide (lr < fl)
    | none => true
  | [] => true

/-- pseudo-level of phrases that every slot accepts (parenthesised groups; integer literals unless `noInt`) -/
def GRP := 15

/- Results are `(tree, ladder level of the phrase, phrase is a bare integer literal, remaining tokens)`. -/
mutual
/-- expression of a slot with minimal ladder level `m` -/
def pE : Nat → Nat → List Tok → Option (E × Nat × Bool × List Tok)
  | 0, _, _ => none
  | f + 1, m, toks =>
    match pPre f m toks with
    | some (e, lev, bi, rest) => pLoop f m e lev bi rest
    | none => none
/-- atoms, groups and prefix constructs -/
def pPre : Nat → Nat → List Tok → Option (E × Nat × Bool × List Tok)
  | 0, _, _ => none
  | f + 1, m, toks =>
    match toks with
    | .name n :: rest => some (.leaf (.name n) (.lad ATOM), ATOM, false, rest)
    | .int n :: rest => some (.leaf (.int n) .intlit, GRP, true, rest)
    | .lp :: rest =>                                       -- group: '(' expression ')'
      match pE f TEST rest with
      | some (e, _, _, .rp :: rest') => some (e, GRP, false, rest')
      | _ => none
    | .sym op :: rest =>
      if 30 ≤ op ∧ op < 33 then                            -- factor: ('+'|'-'|'~') factor
        if m ≤ FACTOR then
          match pE f FACTOR rest with
          | some (x, _, _, r) => some (.node (.un (op - 30)) [x], FACTOR, false, r)
          | none => none
        else none
      else if op = tNot then                               -- inversion: 'not' inversion
        if m ≤ NOT then
          match pE f NOT rest with
          | some (x, _, _, r) => some (.node .not_ [x], NOT, false, r)
          | none => none
        else none
      else if op = tAwait then                             -- await_primary: 'await' primary
        if m ≤ AWAIT then
          match pE f ATOM rest with
          | some (x, _, _, r) => some (.node .await_ [x], AWAIT, false, r)
          | none => none
        else none
      else if op = tLambda then                            -- lambdef: 'lambda' ':' expression
        if m ≤ TEST then
          match rest with
          | .sym c :: rest' =>
            if c = tColon then
              match pE f TEST rest' with
              | some (x, _, _, r) => some (.node .lambda [x], TEST, false, r)
              | none => none
            else none
          | _ => none
        else none
      else none
    | _ => none
/-- infix continuation of the left operand `l` (ladder level `ll`) in a slot of minimal level `m` -/
def pLoop : Nat → Nat → E → Nat → Bool → List Tok → Option (E × Nat × Bool × List Tok)
  | 0, _, _, _, _, _ => none
  | f + 1, m, l, ll, bi, toks =>
    match toks with
    | .sym op :: rest =>
      if op < 12 then
        if m ≤ binLevel op ∧ binLevel op ≤ ll then
          match pE f (binLevel op + 1) rest with
          | some (r, _, _, rest') => pLoop f m (.node (.bin op) [l, r]) (binLevel op) false rest'
          | none => none
        else some (l, ll, bi, toks)
      else if op = tPow then
        if m ≤ POWER ∧ AWAIT ≤ ll then
          match pE f FACTOR rest with
          | some (r, _, _, rest') => pLoop f m (.node (.bin 12) [l, r]) POWER false rest'
          | none => none
        else some (l, ll, bi, toks)
      else if 80 ≤ op ∧ op < 90 then
        if m ≤ CMP ∧ BOR ≤ ll then
          match pCmp f toks with
          | some (ops, xs, rest') => pLoop f m (.node (.cmp ops) (l :: xs)) CMP false rest'
          | none => none
        else some (l, ll, bi, toks)
      else if op = 70 then
        if m ≤ OR ∧ AND ≤ ll then
          match pBool f 70 AND toks with
          | some (xs, rest') => pLoop f m (.node (.boolop true) (l :: xs)) OR false rest'
          | none => none
        else some (l, ll, bi, toks)
      else if op = 71 then
        if m ≤ AND ∧ NOT ≤ ll then
          match pBool f 71 NOT toks with
          | some (xs, rest') => pLoop f m (.node (.boolop false) (l :: xs)) AND false rest'
          | none => none
        else some (l, ll, bi, toks)
      else if op = tIf then
        if m ≤ TEST ∧ OR ≤ ll then
          match pE f OR rest with
          | some (t, _, _, .sym c :: rest') =>
            if c = tElse then
              match pE f TEST rest' with
              | some (o, _, _, rest'') => pLoop f m (.node .ifexp [l, t, o]) TEST false rest''
              | none => none
            else none
          | _ => none
        else some (l, ll, bi, toks)
      else if op = tDot then                               -- attribute (not of a bare integer literal: `1.x` does not lex)
        if m ≤ ATOM ∧ ATOM ≤ ll ∧ bi = false then
          match rest with
          | .name n :: rest' => pLoop f m (.node (.attr n) [l]) ATOM false rest'
          | _ => none
        else some (l, ll, bi, toks)
      else if op = tLb then                                -- subscript with an expression as slice
        if m ≤ ATOM ∧ ATOM ≤ ll then
          match pE f TEST rest with
          | some (x, _, _, .sym c :: rest') =>
            if c = tRb then pLoop f m (.node .subscr [l, x]) ATOM false rest' else none
          | _ => none
        else some (l, ll, bi, toks)
      else some (l, ll, bi, toks)
    | .lp :: rest =>                                       -- call with positional arguments
      if m ≤ ATOM ∧ ATOM ≤ ll then
        match rest with
        | .rp :: rest' => pLoop f m (.node (.call 0 []) [l]) ATOM false rest'
        | _ =>
          match pE f TEST rest with
          | some (x, _, _, rest1) =>
            match pBool f tComma TEST rest1 with
            | some (xs, .rp :: rest2) => pLoop f m (.node (.call (xs.length + 1) []) (l :: x :: xs)) ATOM false rest2
            | _ => none
          | none => none
      else some (l, ll, bi, toks)
    | _ => some (l, ll, bi, toks)
/-- tail of a comparison chain: `(op bitwise_or)*` -/
def pCmp : Nat → List Tok → Option (List Nat × List E × List Tok)
  | 0, _ => none
  | f + 1, toks =>
    match toks with
    | .sym op :: rest =>
      if 80 ≤ op ∧ op < 90 then
        match pE f BOR rest with
        | some (x, _, _, rest') =>
          match pCmp f rest' with
          | some (ops, xs, r) => some (op :: ops, x :: xs, r)
          | none => none
        | none => none
      else some ([], [], toks)
    | _ => some ([], [], toks)
/-- tail of an n-ary `and` / `or`: `(tk operand)*`, operands in the slot of level `q` -/
def pBool : Nat → Nat → Nat → List Tok → Option (List E × List Tok)
  | 0, _, _, _ => none
  | f + 1, tk, q, toks =>
    match toks with
    | .sym op :: rest =>
      if op = tk then
        match pE f q rest with
        | some (x, _, _, rest') =>
          match pBool f tk q rest' with
          | some (xs, r) => some (x :: xs, r)
          | none => none
        | none => none
      else some ([], toks)
    | _ => some ([], toks)
end

/-- fuel that always suffices: three units per token -/
def fuelFor (toks : List Tok) : Nat := 3 * toks.length + 3

/-- Parse a phrase of slot `s` at the front of `toks`; returns the tree and the unconsumed tokens. -/
def parseE (s : Slot) (toks : List Tok) : Option (E × List Tok) :=
  match pE (fuelFor toks) s.minLad toks with
  | some (e, _, bi, rest) => if s.noInt && bi then none else some (e, rest)
  | none => none

/-- Parse a whole token list. -/
def parse (s : Slot) (toks : List Tok) : Option E :=
  match parseE s toks with
  | some (e, []) => some e
  | _ => none

/-! ### the fragment -/

def kindOk : Kind → Bool
  | .bin op => decide (op ≤ 12)
  | .un op => decide (op < 3)
  | .not_ | .boolop _ | .ifexp | .lambda | .await_ => true
  | .cmp ops => ops.all (fun op => decide (80 ≤ op ∧ op < 90))
  | .attr _ | .subscr => true
  | .call _ kws => kws.isEmpty
  | _ => false

mutual
/-- the covered fragment of abstract syntax -/
def inFrag : E → Bool
  | .leaf (.name _) (.lad l) => l == ATOM
  | .leaf (.int _) .intlit => true
  | .leaf _ _ => false
  | .node k kids => kindOk k && inFragL kids
def inFragL : List E → Bool
  | [] => true
  | e :: es => inFrag e && inFragL es
end

end Pfst.Parse
