import Pfst.Grammar
import Pfst.Gen.Precedence
/-!
Bridge between pfst's vocabulary (node kind, field name, flags — the enums of the regenerated `Gen/Precedence.lean`) and
the spec grammar (`Cls`, `Slot`).  This mapping is part of the spec (trusted, validated against CPython by the
correspondence harness); pfst's answers themselves come only from the regenerated table.
-/
namespace Pfst.Prec
open Pfst.Grammar Pfst.Gen.Precedence

/-- flag bits of `precedence_require_parens_by_type` -/
def fDictKeyNone (fl : Nat) : Bool := fl % 2 == 1
def fMatchAsNone (fl : Nat) : Bool := fl / 2 % 2 == 1
def fAttrInt (fl : Nat) : Bool := fl / 4 % 2 == 1
def fArglike (fl : Nat) : Bool := fl / 8 % 2 == 1

/-- Syntactic class of a child as pfst names it (`BoolOp`/`BinOp`/`UnaryOp` are named by their operator).
The Boolean says whether it is a pattern. -/
def clsOf (k : K) (fl : Nat) : Option (Cls × Bool) :=
  match k with
  | .«Or» => some (.lad OR, false) | .«And» => some (.lad AND, false) | .«Not» => some (.lad NOT, false)
  | .«Invert» | .«UAdd» | .«USub» => some (.lad FACTOR, false)
  | .«BitOr» => some (.lad BOR, false) | .«BitXor» => some (.lad BXOR, false) | .«BitAnd» => some (.lad BAND, false)
  | .«LShift» | .«RShift» => some (.lad SHIFT, false)
  | .«Add» | .«Sub» => some (.lad ARITH, false)
  | .«Mult» | .«MatMult» | .«Div» | .«Mod» | .«FloorDiv» => some (.lad TERM, false)
  | .«Pow» => some (.lad POWER, false)
  | .«NamedExpr» => some (.named, false)
  | .«Lambda» | .«IfExp» => some (.lad TEST, false)
  | .«Await» => some (.lad AWAIT, false)
  | .«Yield» | .«YieldFrom» => some (.yieldc, false)
  | .«Compare» => some (.lad CMP, false)
  | .«Tuple» => some (.tuple, false)
  | .«Starred» => some (.star, false)
  | .«Constant» => some (if fAttrInt fl then .intlit else .lad ATOM, false)
  | .«Attribute» | .«Call» | .«Dict» | .«DictComp» | .«GeneratorExp» | .«JoinedStr» | .«List» | .«ListComp»
  | .«Name» | .«Set» | .«SetComp» | .«Subscript» => some (.lad ATOM, false)
  | .«MatchAs» => some (if fMatchAsNone fl then .lad ATOM else .lad TEST, true)
  | .«MatchOr» => some (.lad BOR, true)
  | .«MatchSequence» => some (.tuple, true)
  | .«MatchValue» | .«MatchSingleton» | .«MatchMapping» | .«MatchClass» => some (.lad ATOM, true)
  | _ => none

def binSlot (lvl : Nat) (f : F) : Option (Slot × Bool) :=
  match f with
  | .«left» => some (sl lvl, false)
  | .«right» => some (sl (lvl + 1), false)
  | _ => none

def exprTop : Slot := { minLad := TEST, tuple := true, yieldc := true }   -- (yield_expr | star_expressions)

/-- The grammar slot of a (parent kind, field) position, for Load-context expression slots and pattern slots. -/
def slotOf (p : K) (f : F) (fl : Nat) : Option (Slot × Bool) :=
  match p, f with
  | .«BitOr», f => binSlot BOR f | .«BitXor», f => binSlot BXOR f | .«BitAnd», f => binSlot BAND f
  | .«LShift», f | .«RShift», f => binSlot SHIFT f
  | .«Add», f | .«Sub», f => binSlot ARITH f
  | .«Mult», f | .«MatMult», f | .«Div», f | .«Mod», f | .«FloorDiv», f => binSlot TERM f
  | .«Pow», .«left» => some (sl AWAIT, false)
  | .«Pow», .«right» => some (sl FACTOR, false)
  | .«Not», .«operand» => some (sl NOT, false)
  | .«Invert», .«operand» | .«UAdd», .«operand» | .«USub», .«operand» => some (sl FACTOR, false)
  | .«And», .«values» => some (sl NOT, false)
  | .«Or», .«values» => some (sl AND, false)
  | .«Compare», .«left» | .«Compare», .«comparators» => some (sl BOR, false)
  | .«IfExp», .«body» | .«IfExp», .«test» => some (sl OR, false)
  | .«IfExp», .«orelse» => some (sl TEST, false)
  | .«Lambda», .«body» => some (sl TEST, false)
  | .«NamedExpr», .«value» => some (sl TEST, false)
  | .«Await», .«value» => some (sl ATOM, false)
  | .«Yield», .«value» => some ({ minLad := TEST, tuple := true }, false)
  | .«YieldFrom», .«value» => some (sl TEST, false)
  | .«Starred», .«value» => some (if fArglike fl then sl TEST else sl BOR, false)
  | .«Tuple», .«elts» => some ({ minLad := TEST, star := true }, false)
  | .«List», .«elts» | .«Set», .«elts» => some ({ minLad := TEST, named := true, star := true }, false)
  | .«Dict», .«keys» => some (sl TEST, false)
  | .«Dict», .«values» => some (if fDictKeyNone fl then sl BOR else sl TEST, false)
  | .«Call», .«func» => some (sl ATOM, false)
  | .«Call», .«args» => some ({ minLad := TEST, named := true, star := true }, false)
  | .«keyword», .«value» => some (sl TEST, false)
  | .«Attribute», .«value» => some ({ minLad := ATOM, noInt := true }, false)
  | .«Subscript», .«value» => some (sl ATOM, false)
  | .«Subscript», .«slice» => some ({ minLad := TEST, named := true, tuple := true }, false)
  | .«Slice», .«lower» | .«Slice», .«upper» | .«Slice», .«step» => some (sl TEST, false)
  | .«ListComp», .«elt» | .«SetComp», .«elt» | .«GeneratorExp», .«elt» => some ({ minLad := TEST, named := true }, false)
  | .«DictComp», .«key» | .«DictComp», .«value» => some (sl TEST, false)
  | .«comprehension», .«iter» | .«comprehension», .«ifs» | .«_comprehension_ifs», .«ifs» => some (sl OR, false)
  | .«Expr», .«value» | .«Assign», .«value» | .«AugAssign», .«value» | .«AnnAssign», .«value» => some (exprTop, false)
  | .«AnnAssign», .«annotation» => some (sl TEST, false)
  | .«Return», .«value» => some ({ minLad := TEST, tuple := true }, false)
  | .«If», .«test» | .«While», .«test» => some ({ minLad := TEST, named := true }, false)
  | .«Assert», .«test» | .«Assert», .«msg» => some (sl TEST, false)
  | .«For», .«iter» | .«AsyncFor», .«iter» => some ({ minLad := TEST, tuple := true }, false)
  | .«Raise», .«exc» | .«Raise», .«cause» => some (sl TEST, false)
  | .«withitem», .«context_expr» => some (sl TEST, false)
  | .«Match», .«subject» => some ({ minLad := TEST, named := true, tuple := true }, false)
  | .«match_case», .«guard» => some ({ minLad := TEST, named := true }, false)
  | .«FunctionDef», .«decorator_list» | .«AsyncFunctionDef», .«decorator_list» | .«ClassDef», .«decorator_list» =>
      some ({ minLad := TEST, named := true }, false)
  | .«FunctionDef», .«returns» | .«AsyncFunctionDef», .«returns» => some (sl TEST, false)
  | .«ClassDef», .«bases» => some ({ minLad := TEST, named := true, star := true }, false)
  | .«arguments», .«defaults» | .«arguments», .«kw_defaults» | .«arg», .«annotation» => some (sl TEST, false)
  | .«TypeAlias», .«value» | .«TypeVar», .«bound» => some (sl TEST, false)
  -- patterns
  | .«MatchAs», .«pattern» => some (sl BOR, true)
  | .«MatchOr», .«patterns» => some (sl (BOR + 1), true)
  | .«MatchSequence», .«patterns» | .«MatchMapping», .«patterns» | .«MatchClass», .«patterns»
  | .«MatchClass», .«kwd_patterns» => some (sl TEST, true)
  | .«match_case», .«pattern» => some ({ minLad := TEST, tuple := true }, true)
  | _, _ => none

def bit (mask fl : Nat) : Bool := mask / 2 ^ fl % 2 == 1

/-- one cell of the regenerated table is sound for one flag set: wherever the grammar needs parentheses pfst requires
them (a refused call — mask 65536 — is a cell pfst never consults) -/
def cellSound (p : K) (f : F) (c : K) (mask fl : Nat) : Bool :=
  mask == 65536 ||
  match slotOf p f fl, clsOf c fl with
  | some (s, sp), some (cl, cp) => sp != cp || !parenable cl || !specNeed s cl || bit mask fl
  | _, _ => true

def flagsAll : List Nat := List.range 16

def rowSound (r : K × F × List Nat) : Bool :=
  (List.zip children r.2.2).all (fun (c, mask) => flagsAll.all (fun fl => cellSound r.1 r.2.1 c mask fl))

/-- pfst's decision as a policy on the spec vocabulary is not definable in general (several pfst slots map to one spec
slot); the soundness statement is therefore per cell of the extracted table. -/
def tableSound : Bool := rows.all rowSound

/-- cells where pfst parenthesises although the grammar does not need it (reported, not an error) -/
def overCount : Nat :=
  (rows.map (fun r => ((List.zip children r.2.2).map (fun (c, mask) =>
    (flagsAll.filter (fun fl => mask != 65536 &&
      match slotOf r.1 r.2.1 fl, clsOf c fl with
      | some (s, sp), some (cl, cp) => sp == cp && parenable cl && !specNeed s cl && bit mask fl
      | _, _ => false)).length)).sum)).sum

def mappedCells : Nat :=
  (rows.map (fun r => ((List.zip children r.2.2).map (fun (c, mask) =>
    (flagsAll.filter (fun fl => mask != 65536 &&
      match slotOf r.1 r.2.1 fl, clsOf c fl with
      | some (_, sp), some (_, cp) => sp == cp
      | _, _ => false)).length)).sum)).sum

end Pfst.Prec
