/-
Text layer (L0): source as a list of lines, the splice primitive `_put_src` / `_get_src` (src/fst/fst_core.py), the
flattening of lines to one character sequence, linear offsets of (line, column) points and the character/byte bridge
(`bistr.c2b`, src/fst/common.py).

Lines are lists of characters (Python `str` = sequence of code points); the line list never contains '\n' inside a line
(pfst keeps `root._lines` split at '\n').  Line numbers and columns are 0-based CHARACTER coordinates, as everywhere
inside pfst except in the `ast` nodes.  No imports: this file is linked into the native driver.
-/
namespace Pfst.Text

abbrev Line := List Char

/-- Python `lines[i]` for an index known to be in range (out of range raises in Python; the model yields `""`). -/
def lineAt (L : List Line) (i : Nat) : Line := L.getD i []

/-- Python slice assignment `L[a:b] = X` for `0 ≤ a`, `0 ≤ b` (a stop before the start inserts at the start). -/
def sliceAssign (L : List Line) (a b : Nat) (X : List Line) : List Line := L.take a ++ X ++ L.drop (max a b)

/-- Python `lst[-1]` of a non-empty list (`""` for the empty list, which Python would reject). -/
def lastLine (P : List Line) : Line := P.getLastD []

/-- `put_lines[1:-1]` -/
def middle (P : List Line) : List Line := (P.drop 1).dropLast

/-- The `is_del` branch of `_put_src` (fst_core.py:2155-2159) as written. -/
def delSrc (L : List Line) (ln col endLn endCol : Nat) : List Line :=
  if endLn != ln then
    sliceAssign L ln (endLn + 1) [(lineAt L ln).take col ++ (lineAt L endLn).drop endCol]
  else if endCol != col then
    let l := lineAt L ln
    L.set ln (l.take col ++ l.drop endCol)
  else L

/-- `_put_src` (fst_core.py:2101-2179), the source part (`tail=...`, no offsetting): the five cases as written.
`put = []` stands for `src` falsy (`None`, `''`, `[]`): the delete branch.  Every statement of the Python code is one
`let`; in particular the multi-line-into-single-line case computes `lend` BEFORE overwriting `lines[ln]`, and the
multi-line-into-multi-line case assigns `lines[ln]`, then `lines[end_ln]`, then the slice `lines[ln+1:end_ln]`. -/
def putSrc (L : List Line) (put : List Line) (ln col endLn endCol : Nat) : List Line :=
  match put with
  | [] => delSrc L ln col endLn endCol
  | [p] =>
    if endLn == ln then                     -- replace in single line with single or empty line
      let l := lineAt L ln
      L.set ln (l.take col ++ p ++ l.drop endCol)
    else                                    -- replace in multiple lines with single or empty line
      sliceAssign L ln (endLn + 1) [(lineAt L ln).take col ++ p ++ (lineAt L endLn).drop endCol]
  | p0 :: p1 :: ps =>
    let nnew := ps.length + 2
    if endLn == ln then                     -- replace in single line with multiple lines
      let l := lineAt L ln
      let lend := lastLine (p1 :: ps) ++ l.drop endCol
      let L1 := L.set ln (l.take col ++ p0)
      let L2 := sliceAssign L1 (ln + 1) (ln + 1) (p1 :: ps)
      L2.set (ln + nnew - 1) lend
    else                                    -- replace in multiple lines with multiple lines
      let L1 := L.set ln ((lineAt L ln).take col ++ p0)
      let L2 := L1.set endLn (lastLine (p1 :: ps) ++ (lineAt L1 endLn).drop endCol)
      sliceAssign L2 (ln + 1) endLn (middle (p0 :: p1 :: ps))

/-- `_get_src(..., as_lines=True)` (fst_core.py, just above `_put_src`). -/
def getSrc (L : List Line) (ln col endLn endCol : Nat) : List Line :=
  if endLn == ln then [((lineAt L ln).take endCol).drop col]
  else [(lineAt L ln).drop col] ++ (L.take endLn).drop (ln + 1) ++ [(lineAt L endLn).take endCol]

/-! ### flattening -/

/-- every line preceded by a newline -/
def flatTail (B : List Line) : List Char := B.flatMap (fun l => '\n' :: l)

/-- `'\n'.join(lines)` -/
def flat : List Line → List Char
  | [] => []
  | l :: rest => l ++ flatTail rest

/-- Linear offset of the point (ln, col) in `flat L`: the length of the text before it. -/
def off (L : List Line) (ln col : Nat) : Nat := (flat (L.take ln ++ [(lineAt L ln).take col])).length

/-- arithmetic form of `off`: start of line `ln` … -/
def lineStart (L : List Line) (ln : Nat) : Nat := ((L.take ln).map (fun l => l.length + 1)).sum

/-- The flat text between two points. -/
def getFlat (L : List Line) (ln col endLn endCol : Nat) : List Char :=
  ((flat L).drop (off L ln col)).take (off L endLn endCol - off L ln col)

/-- `(a, b) ≤ (c, d)` lexicographically. -/
def le2 (a b c d : Nat) : Prop := a < c ∨ (a = c ∧ b ≤ d)

instance (a b c d : Nat) : Decidable (le2 a b c d) := by unfold le2; infer_instance

/-- Preconditions under which `_put_src` is called: the span is inside the source and ordered. -/
structure ValidSpan (L : List Line) (ln col endLn endCol : Nat) : Prop where
  hle  : ln ≤ endLn
  hend : endLn < L.length
  hcol : col ≤ (lineAt L ln).length
  hecol : endCol ≤ (lineAt L endLn).length
  hord : le2 ln col endLn endCol

/-- What replaces lines `ln ..= endLn`: prefix of the first line, the put lines, suffix of the last line. -/
def wrap (pre : Line) (put : List Line) (post : Line) : List Line :=
  match put with
  | [] => [pre ++ post]
  | [p] => [pre ++ p ++ post]
  | p0 :: p1 :: ps => (pre ++ p0) :: ((p1 :: ps).dropLast ++ [lastLine (p1 :: ps) ++ post])

def spliceMiddle (L : List Line) (put : List Line) (ln col endLn endCol : Nat) : List Line :=
  wrap ((lineAt L ln).take col) put ((lineAt L endLn).drop endCol)

/-! ### shift of coordinates after a splice (character version of `_params_offset`, fst_core.py:495) -/

/-- line delta, as an integer: `len(put_lines) - 1 - (end_ln - ln)` -/
def dln (put : List Line) (ln endLn : Nat) : Int := (put.length : Int) - 1 - ((endLn : Int) - ln)

/-- column delta in characters on the last replaced line:
`len(put_lines[-1]) - end_col + (col if len(put_lines) == 1 else 0)` -/
def dcol (put : List Line) (col endCol : Nat) : Int :=
  ((lastLine put).length : Int) - endCol + (if put.length = 1 then (col : Int) else 0)

/-- New line number of a point at or after the end of the splice (natural-number form of `l + dln`). -/
def shiftLn (put : List Line) (ln endLn l : Nat) : Nat := l - endLn + ln + (put.length - 1)

/-- New column of a point at or after the end of the splice (natural-number form of
`c + dcol` on line `endLn`, unchanged elsewhere). -/
def shiftCol (put : List Line) (col endLn endCol l c : Nat) : Nat :=
  if l = endLn then c - endCol + (lastLine put).length + (if put.length = 1 then col else 0) else c

/-! ### placement of a freshly parsed fragment (`fst_put_one._make_exprlike_fst`: the fragment is parsed at the origin and
its nodes are offset by `(ln, lines[ln].c2b(col))` before its lines are spliced in with `_put_src`) -/

/-- line of a fragment point (line `l` of the put lines) in the new document -/
def placeLn (ln l : Nat) : Nat := ln + l

/-- character column of a fragment point `(l, c)` in the new document: only the first fragment line is shifted -/
def placeCol (col l c : Nat) : Nat := if l = 0 then col + c else c

/-! ### characters and bytes (`bistr.c2b`, `len(s.encode())`) -/

/-- `len(s.encode())` (UTF-8). -/
def utf8Len (l : Line) : Nat := (l.map Char.utf8Size).sum

/-- `bistr.c2b`: byte offset of character column `c` in line `l`. -/
def c2b (l : Line) (c : Nat) : Nat := utf8Len (l.take c)

/-- byte column of a fragment node with byte column `b` on fragment line `l` after placement: the offset added on the first line
is the BYTE length of the text before the put position, `lines[ln].c2b(col)` -/
def placeColBytes (L : List Line) (ln col l b : Nat) : Nat := if l = 0 then c2b (lineAt L ln) col + b else b

/-- `bistr.b2c` for a byte offset that is a character boundary (number of characters whose encoding fits). -/
def b2c : Line → Nat → Nat
  | [], _ => 0
  | ch :: rest, b => if ch.utf8Size ≤ b then b2c rest (b - ch.utf8Size) + 1 else 0

/-- `_params_offset` with the three byte lengths computed from the lines (fst_core.py:495-510):
returns `(end_ln, -col_offset (as a positive byte column), dln, dcol_offset)`. -/
def paramsOffsetBytes (L : List Line) (put : List Line) (ln col endLn endCol : Nat) : Nat × Int × Int × Int :=
  let dfst : Int := (put.length : Int) - 1
  let colOffset : Int := -(c2b (lineAt L endLn) endCol : Int)
  let dcolOffset : Int := (utf8Len (lastLine put) : Int) + colOffset
    + (if dfst == 0 then (c2b (lineAt L ln) col : Int) else 0)
  (endLn, colOffset, dfst - ((endLn : Int) - ln), dcolOffset)

end Pfst.Text
