"""C20: deterministic preemption INSIDE library calls, for state shared between different trees.

Two trees made by FST.copy() of one parsed module share their (immutable) source-line objects; each line object
(astutil.bistr) carries lazily built per-object tables.  Threads A and B each edit their OWN copy.  With sys.settrace
thread A is parked at its pa-th 'line' event inside a method running on a shared line object, then B runs until its
pb-th such event (or to completion), then A runs to completion, then B.  A thread scheduler may produce exactly these
interleavings on its own.  Enumerating (pa, pb) covers every preemption point of every method executed on shared
objects, including the windows where both threads are inside the same lazily filled table."""

import ast
import sys
import threading

LINES = ['x = "é✓ü" + name', 'greeting = "héllo ✓" + name  # çomment']


def sources():
    return [f'import os\n{ln}\nprint(x)\n' for ln in LINES]


def script(k):
    """edit scripts (identical for everybody up to the new name): every one needs locations on the non-ASCII line"""
    def s0(tree, new):
        tree.body[1].value.right.replace(new)
        tree.body.append(f'del {new}')
        return tree.src

    def s1(tree, new):
        c = tree.body[1].value.right.copy().src
        tree.body[1].value.left.replace(f'"{new}"')
        return c + '|' + tree.src

    def s2(tree, new):
        tree.body[1].targets[0].replace(new)
        r = tree.body[1].value.right
        return f'{r.ln},{r.col},{r.end_col}|' + tree.src
    return [s0, s1, s2][k]


def _is_shared_obj_frame(frame):
    s = frame.f_locals.get('self')
    return isinstance(s, str) and type(s) is not str


def run(FST, src, ka, kb, pa, pb, timeout=20):
    """-> dict(results, solo, counts).  pa / pb None = never park."""
    master = FST(src, 'exec')
    trees = {'A': master.copy(), 'B': master.copy()}
    res, cnt = {}, {'A': 0, 'B': 0}
    parked = {'A': threading.Event(), 'B': threading.Event()}
    go = {'A': threading.Event(), 'B': threading.Event()}
    done = {'A': threading.Event(), 'B': threading.Event()}
    point = {'A': pa, 'B': pb}
    where = {}

    def tracer_for(name):
        def local(frame, event, arg):
            if event == 'line':
                if cnt[name] == point[name]:
                    where[name] = f'{frame.f_code.co_name}:{frame.f_lineno}'
                    parked[name].set()
                    go[name].wait(timeout)
                cnt[name] += 1
            return local

        def glob(frame, event, arg):
            if event == 'call' and _is_shared_obj_frame(frame):
                return local
            return None
        return glob

    def body(name, k, new):
        sys.settrace(tracer_for(name))
        try:
            res[name] = script(k)(trees[name], new)
        except Exception as e:
            res[name] = 'EXC ' + type(e).__name__ + ': ' + str(e)[:80]
        finally:
            sys.settrace(None)
            done[name].set()
            parked[name].set()

    ta = threading.Thread(target=body, args=('A', ka, 'alice'), daemon=True)
    tb = threading.Thread(target=body, args=('B', kb, 'bob'), daemon=True)
    ta.start()
    parked['A'].wait(timeout)
    tb.start()
    parked['B'].wait(timeout)
    go['A'].set()
    ta.join(timeout)
    go['B'].set()
    tb.join(timeout)
    solo = {}
    for name, k, new in (('A', ka, 'alice'), ('B', kb, 'bob')):
        try:
            solo[name] = script(k)(FST(src, 'exec').copy(), new)
        except Exception as e:
            solo[name] = 'EXC ' + type(e).__name__ + ': ' + str(e)[:80]
    ok_master = master.src in (src, src.rstrip('\n'))
    return {'res': res, 'solo': solo, 'cnt': dict(cnt), 'where': where, 'master_ok': ok_master,
            'hung': ta.is_alive() or tb.is_alive()}


def parses(s):
    try:
        ast.parse(s.split('|')[-1])
        return True
    except SyntaxError:
        return False
