"""C05 extraction: the mode table and the wrapper families of fst.parsex, obtained extensionally from the imported module.

* mode table: every key of `_PARSE_MODE_FUNCS` (string literals of `Mode`, class names, classes) -> parser function name,
  required result type (`_AST_TYPE_BY_NAME_OR_TYPE`), result kinds observed on probe sources.
* wrapper families: every public `parse_*` function is run on a list of probe sources while `parsex.ast_parse` and
  `parsex._offset_linenos` are replaced by recording wrappers (run-time wrapping in the harness, not a source hook); the
  text actually handed to CPython is split around the probe into (prefix, suffix), the line delta applied afterwards is
  recorded with the wrapper that produced the tree.
"""

from __future__ import annotations

import ast
from typing import get_args

PROBES = [
    'zq', 'zq, zr', '*zq', '*not zq', 'zq:zr', 'zq = zr =', 'zq=1', '**zq', 'zq as zr', 'zq.zr as zs', 'zq: int', 'zq: int = 1',
    '@zq', 'for zq in zr', 'for zq in zr for zs in zt', 'if zq', 'if zq if zr', 'except zq: pass', 'except zq: pass\nexcept: pass',
    'case zq: pass', 'case 1: pass\ncase zq: pass', '+', 'and', 'not', 'is not', '[zq]', '{zq}', '{zq: 1}', 'zq: 1', '{1: zq}',
    '1: zq', 'and zq', 'zq and', '< zq', 'zq <', 'zq, /, zr=1, *zs, zt, **zu', 'zq, zr=1', 'T: zq = int', 'T, *zq', '*zq: *zr',
    'zq := 1', 'zq(zr)', 'zq(zr=1), zs', 'zq as zr, zs', 'import zq', 'zq\nzr', 'zq if zr else zs', 'zq,', 'yield zq', '(zq)', '',
    'zq for zq in zr', '1 as zq', 'zq | 2', ' *zq', 'zq: *zr', 'zq |\n2', ' zq', ' zq,\n zr',
]


def _px():
    from fst import parsex
    return parsex


def mode_literals():
    px = _px()
    return list(get_args(get_args(px.Mode)[0]))


def parser_name(f):
    if f is None:
        return ''
    n = getattr(f, '__name__', '?')
    return 'const' if n == '<lambda>' else n


def mode_table():
    """[(mode literal, parser name, required type name or '', [result kinds on probes])]"""
    px = _px()
    out = []
    for m in mode_literals():
        f = px._PARSE_MODE_FUNCS.get(m)
        req = px._AST_TYPE_BY_NAME_OR_TYPE.get(m)
        kinds = set()
        for p in PROBES:
            try:
                r = px.parse(p, m)
            except SyntaxError:
                continue
            except Exception as e:      # anything else is not a documented rejection
                kinds.add('!' + type(e).__name__)
                continue
            kinds.add(type(r).__name__)
        out.append((m, parser_name(f), req.__name__ if req else '', sorted(kinds)))
    return out


def class_table():
    """[(class name, category = topmost base below AST, is_leaf, parser name for the class key or None if key absent,
    parser name for the name key or None)]"""
    px = _px()
    from fst.astutil import FIELDS
    classes = list(FIELDS)
    out = []
    for c in classes:
        leaf = not any(d is not c and issubclass(d, c) for d in classes)
        fc = px._PARSE_MODE_FUNCS.get(c, ...)
        fn = px._PARSE_MODE_FUNCS.get(c.__name__, ...)
        cat = c
        while cat.__bases__[0] is not ast.AST and cat.__bases__[0] is not object:
            cat = cat.__bases__[0]
        out.append((c.__name__, cat.__name__, leaf, None if fc is ... else parser_name(fc), None if fn is ... else parser_name(fn)))
    return sorted(out)


def wrapper_table():
    """[(parser name, prefix, suffix, delta or None)] sorted, distinct.  delta = lines subtracted by the parser after the
    parse that used this wrapper (None: never observed succeeding on the probes / parser shifts positions itself)."""
    px = _px()
    real_parse, real_off = px.ast_parse, px._offset_linenos
    log = []

    def rec_parse(src, *a, **k):
        log.append(('parse', src))
        return real_parse(src, *a, **k)

    def rec_off(tree, delta):
        log.append(('off', delta))
        return real_off(tree, delta)

    seen = {}
    unlocated = 0
    funcs = [(n, getattr(px, n)) for n in px.__all__ if n.startswith('parse_')]
    px.ast_parse, px._offset_linenos = rec_parse, rec_off
    try:
        for name, f in funcs:
            if name in ('parse_all',):
                continue        # tries the other parsers; no wrapper of its own
            for probe in PROBES:
                if not probe:
                    continue
                del log[:]
                try:
                    f(probe)
                except SyntaxError:
                    pass
                except Exception:
                    pass
                last = None
                for kind, val in log:
                    if kind == 'parse':
                        i = val.find(probe)
                        if i < 0:
                            unlocated += 1
                            last = None
                            continue
                        key = (name, val[:i], val[i + len(probe):])
                        seen.setdefault(key, set())
                        last = key
                    elif last is not None:
                        seen[last].add(-val)
    finally:
        px.ast_parse, px._offset_linenos = real_parse, real_off
    out = []
    for (name, pre, post), ds in sorted(seen.items()):
        # parsers called through other parsers (parse_Tuple -> parse_expr_slice ...) record the callee's wrappers under
        # the caller too: that is what the caller hands to CPython, keep them
        if len(ds) > 1:
            out.append((name, pre, post, -999))     # two different deltas for one wrapper: reported by the Lean check
        else:
            out.append((name, pre, post, next(iter(ds)) if ds else None))
    return out, unlocated


def lean_str(s):
    return '"' + s.replace('\\', '\\\\').replace('"', '\\"').replace('\n', '\\n') + '"'


def emit_text():
    modes = mode_table()
    classes = class_table()
    wraps, _ = wrapper_table()
    L = ['-- GENERATED by harness/c05_modes.py from the imported fst.parsex (extensional); do not edit',
         'namespace Pfst.Gen.Modes', '',
         '/-- (mode literal of `parsex.Mode`, parser function, required result type or "", result kinds seen on probes) -/',
         'def modes : List (String × String × String × List String) := [']
    L.append(',\n'.join(f'  ({lean_str(m)}, {lean_str(p)}, {lean_str(r)}, [{", ".join(lean_str(k) for k in ks)}])' for m, p, r, ks in modes))
    L += [']', '',
          '/-- (AST class, category, is leaf, parser for the class key, parser for the class-name key); `none` = key absent, `some ""` = '
          'explicitly prohibited (`None` in `_PARSE_MODE_FUNCS`) -/',
          'def classes : List (String × String × Bool × Option String × Option String) := [']

    def o(x):
        return 'none' if x is None else f'some {lean_str(x)}'

    L.append(',\n'.join(f'  ({lean_str(n)}, {lean_str(cat)}, {"true" if leaf else "false"}, {o(fc)}, {o(fn)})' for n, cat, leaf, fc, fn in classes))
    L += [']', '',
          '/-- (parser function, text before the source, text after the source, lines subtracted afterwards) as handed to '
          'CPython on the probe sources -/',
          'def wrappers : List (String × String × String × Option Int) := [']
    L.append(',\n'.join(f'  ({lean_str(n)}, {lean_str(a)}, {lean_str(b)}, {"none" if d is None else f"some ({d})"})' for n, a, b, d in wraps))
    L += [']', '', 'end Pfst.Gen.Modes', '']
    return '\n'.join(L)


if __name__ == '__main__':
    import sys
    sys.path.insert(0, '/repo/src')
    for r in mode_table():
        print(r)
    w, u = wrapper_table()
    for r in w:
        print(r)
    print('unlocated', u)
    for r in class_table():
        print(r)
