"""C08 helpers: statements whose expression slots share delimiters with the statement (or sit right next to its keywords),
in sync and async forms — every expression in them is replaced by its own copy / pure AST / source."""

import ast

SYNC = [
    'with ((a, b)): pass', 'with ((a, b)) as c: pass', 'with ((a, b)), d: pass', 'with (a, b): pass', 'with (a, b) as c: pass',
    'with ((a)): pass', 'with (a) as b, (c) as d: pass', 'with (a as b, c as d): pass', 'with ((a, b) as c): pass',
    'with (  # c\n  (a, b)\n): pass', 'with ((a, b),): pass', 'with ((yield)): pass', 'with (a, b), c as (d, e): pass',
    'for x in (a, b): pass', 'for (x, y) in ((a, b)): pass', 'for x, y in a, b: pass', 'for (x) in (a): pass',
    'for x in ((a for a in b)): pass',
    'return (a, b)', 'return ((a, b))', 'return a, b', 'return (a)', 'yield (a, b)', 'x = yield (a, b)', 'yield ((a))',
    'x = yield a, b', 'await (a)', 'x = await ((a))', 'yield from (a, b)',
    'f((a, b))', 'f((a for a in b))', 'f(a for a in b)', 'f((a for a in b), c)', 'f((a, b), *(c, d), k=(e, f))', 'f((a))',
    'x[(a, b)]', 'x[a, b]', 'x[(a, b), c]', 'x[(a):(b)]', 'x[(a)]', 'x[(a, b):c, ::(d)]',
    'del (a), b', 'del (a, b)', 'del ((a), b)', 'del (a)', 'del [a, (b)]',
    'assert (a, b), c', 'assert (a), (b)', 'assert ((a, b))',
    '@(a)\ndef g(): pass', '@(a.b)(c)\nclass D: pass', '@((a, b)[0])\ndef g(): pass',
    'class C((a)): pass', 'class C((a), (b), metaclass=(m)): pass', 'class C((a, b)[0]): pass',
    'match (a, b):\n    case (c, d): pass', 'match ((a, b)):\n    case ((c, d)): pass', 'match (a):\n    case [(c), d]: pass',
    'match a, b:\n    case c, d: pass', 'match (a),:\n    case (c),: pass', 'match x:\n    case ((1 | 2) as y): pass',
    'raise (a) from (b)', 'raise ((a, b))', 'raise (a)',
    'if (a): pass', 'if ((a, b)): pass\nelif (c): pass', 'while ((a, b)): pass', 'while (a): pass',
    'x = (a, b)', 'x = ((a))', 'x: (a) = (b)', 'x += (a, b)', 'x = y = (a, b)', '(x) = (y)', '(x, y) = z', 'x = a, b',
    '[(a, b) for (c, d) in (e, f) if (g)]', 'x = lambda: (a, b)', 'x = (a if (b) else (c))', 'global g', 'x = (yield)',
    '(x): int = 1', '(x): int', '((x)): int = 1', 'x: int = 1', 'x: int', '(a.b): int', '(a.b): int = 2', '(a[0]): int = 3',
    'a[0]: int', 'x: (int) = (1)', 'class D:\n    (attr): "list[int]" = []\n    other: str', '(\n  total  # c\n): float = 0.0',
    'from . import a', 'from .. import (a)', 'from ...m import (a as b, c)', "x = u'a'", "x = (u'a' 'b')", 'x = [i async for i in j]',
    'x = (i async for (i) in (j))', 'global g', 'import a.b as c',
    'print((a, b), end=(c))', 'x = {(a): (b)}', 'x = {*(a), (b)}', 'x = (a)(b)', 'x = (a).b', 'x = -(a)', 'x = (a) + (b)',
]
ASYNC = [
    'async with ((a, b)): pass', 'async with ((a, b)) as c: pass', 'async with ((a, b)), d: pass', 'async with (a, b): pass',
    'async with (a, b) as c: pass', 'async with ((a)): pass', 'async with (a) as b, (c) as d: pass',
    'async with (a as b, c as d): pass', 'async with ((a, b) as c): pass', 'async with (  # c\n  (a, b)\n): pass',
    'async with ((a, b),): pass', 'async with (a, b), c as (d, e): pass',
    'async for x in (a, b): pass', 'async for (x, y) in ((a, b)): pass', 'async for x, y in a, b: pass',
    'async for (x) in (a): pass', 'x = [(a) async for (b) in (c)]', 'await ((a, b)[0])',
    '@(a)\nasync def g(): pass', 'async def g((a), b=(c)) -> (d): pass' if False else 'async def g(a, b=(c)) -> (d): pass',
]


def programs():
    """[(meta, src)]: every statement at top level (sync) and inside `async def f():` (all)"""
    out = []
    for s in SYNC:
        needs_func = any(k in s for k in ('return', 'yield', 'await'))
        if not needs_func:
            out.append(({'stmt': s, 'wrap': None}, s + '\n'))
        out.append(({'stmt': s, 'wrap': 'async def'},
                    'async def f():\n' + '\n'.join('    ' + l for l in s.split('\n')) + '\n    return 1\n'))
    for s in ASYNC:
        out.append(({'stmt': s, 'wrap': 'async def'},
                    'async def f():\n' + '\n'.join('    ' + l for l in s.split('\n')) + '\n'))
    good = []
    for m, src in out:
        try:
            ast.parse(src)
        except SyntaxError:
            continue
        good.append((m, src))
    return good


def parenthesised_variants(src):
    """[(variant source, (lineno, col_offset) of the wrapped node in the variant)] — every expression of `src` wrapped in one
    more pair of parentheses, kept when CPython still parses it (the variant is its own reference)"""
    out = []
    tree = ast.parse(src)
    lines = src.split('\n')
    seen = set()
    for n in ast.walk(tree):
        if not isinstance(n, ast.expr) or isinstance(n, (ast.Starred, ast.Slice, ast.JoinedStr, ast.FormattedValue)):
            continue
        key = (n.lineno, n.col_offset, n.end_lineno, n.end_col_offset)
        if key in seen or not src.isascii():
            continue
        seen.add(key)
        ls = list(lines)
        el, ec = n.end_lineno - 1, n.end_col_offset
        ls[el] = ls[el][:ec] + ')' + ls[el][ec:]
        sl, sc = n.lineno - 1, n.col_offset
        ls[sl] = ls[sl][:sc] + '(' + ls[sl][sc:]
        v = '\n'.join(ls)
        try:
            ast.parse(v)
        except SyntaxError:
            continue
        out.append((v, (n.lineno, n.col_offset + 1), type(n).__name__))
    return out


# sync / async twins with an expression slot whose delimiters are shared with the statement: (source, field path of the slot)
TWIN_WITH = [('with ((a, b)): pass', 'async with ((a, b)): pass'), ('with ((a, b)) as c: pass', 'async with ((a, b)) as c: pass'),
             ('with ((a)): pass', 'async with ((a)): pass'), ('with ((a, b)), d: pass', 'async with ((a, b)), d: pass')]
