"""C18: a small declarative pattern language with its own matcher over the CPython tree (no pfst code), compiled to pfst
patterns.  It makes the reference sweep independent of pfst's matcher for the pattern features substitution depends on:
which nodes a combinator pattern selects while the tree is WALKED (MAND / MOR / MNOT / MTYPES with field constraints: the
search pre-filter must not hide nodes the pattern matches) and which node a tag names when tags nest (the enclosing
M(tag=...) names the whole node even when an inner pattern captured the same tag name).

spec := {'cls': 'Call' | ['Name', 'Constant'], 'fields': {name: spec | [spec, ...] | literal}, 'tag': str}
      | {'and': [spec...]} | {'or': [spec...]} | {'not': spec}          (each optionally with 'tag')
"""

from __future__ import annotations

import ast


def compile_spec(s):
    """-> source text of the pfst pattern"""
    if 'backref' in s:
        return f'MTAG({s["backref"]!r})'
    if s.get('any'):
        return '...'
    if 'q' in s:
        name = {'star': 'MQSTAR', 'plus': 'MQPLUS', 'opt': 'MQOPT'}[s['q']] + ('' if s.get('greedy', True) else '.NG')
        sub = s['sub']
        inner = '[' + ', '.join(compile_spec(x) for x in sub) + ']' if isinstance(sub, list) else compile_spec(sub)
        return f'{name}({s["tag"]}={inner})' if s.get('tag') else f'{name}({inner})'
    if 'and' in s:
        inner = 'MAND(' + ', '.join(compile_spec(x) for x in s['and']) + ')'
    elif 'or' in s:
        inner = 'MOR(' + ', '.join(compile_spec(x) for x in s['or']) + ')'
    elif 'not' in s:
        inner = 'MNOT(' + compile_spec(s['not']) + ')'
    else:
        fields = ', '.join(f'{k}={_field(v)}' for k, v in s.get('fields', {}).items())
        if isinstance(s['cls'], list):
            inner = f'MTYPES(({", ".join(s["cls"])},){", " + fields if fields else ""})'
        else:
            inner = f'M{s["cls"]}({fields})'
    return f'M({s["tag"]}={inner})' if s.get('tag') else inner


def _field(v):
    if isinstance(v, dict):
        return compile_spec(v)
    if isinstance(v, list):
        return '[' + ', '.join(_field(x) for x in v) + ']'
    return repr(v)


def _same(a, b):
    """back-reference equality: structure, expression contexts ignored (match(ctx=False))"""
    import copy
    def d(n):
        n = copy.deepcopy(n)
        for x in ast.walk(n):
            if hasattr(x, 'ctx'):
                x.ctx = ast.Load()
        return ast.dump(n)
    return isinstance(a, ast.AST) and isinstance(b, ast.AST) and d(a) == d(b)


def _match_list(items, i, tgt, j, env):
    """all ways the list pattern items[i:] matches tgt[j:], in the order a backtracking matcher prefers them
    (greedy quantifiers: most repetitions first); yields environments"""
    if i == len(items):
        if j == len(tgt):
            yield env
        return
    it = items[i]
    if 'q' in it:
        sub = it['sub'] if isinstance(it['sub'], list) else [it['sub']]
        lo = 1 if it['q'] == 'plus' else 0
        hi = 1 if it['q'] == 'opt' else 10 ** 9
        states = [(j, env, [])]                      # after n repetitions; a repetition consumes len(sub) elements
        while len(states) - 1 < hi:
            jj, e, caps = states[-1]
            if jj + len(sub) > len(tgt):
                break
            ok = True
            for x, t in zip(sub, tgt[jj:jj + len(sub)]):
                e = mini(x, t, e)
                if e is None:
                    ok = False
                    break
            if not ok:
                break
            states.append((jj + len(sub), e, caps + tgt[jj:jj + len(sub)]))
        order = range(len(states) - 1, lo - 1, -1) if it.get('greedy', True) else range(lo, len(states))
        for n in order:
            jj, e, caps = states[n]
            if it.get('tag'):
                e = dict(e)
                e[it['tag']] = ('q', caps)
            yield from _match_list(items, i + 1, tgt, jj, e)
        return
    if j < len(tgt) and not isinstance(it, dict):            # a literal element (an identifier in a list of names)
        if tgt[j] == it and type(tgt[j]) is type(it):
            yield from _match_list(items, i + 1, tgt, j + 1, env)
        return
    if j < len(tgt):
        e = mini(it, tgt[j], env)
        if e is not None:
            yield from _match_list(items, i + 1, tgt, j + 1, e)


def mini(s, node, env=None):
    """-> environment {tag: node | ('q', [nodes])} (latest binding of a name wins) or None"""
    env = {} if env is None else env
    if s.get('any'):
        return env
    if 'backref' in s:
        v = env.get(s['backref'])
        return env if v is not None and not isinstance(v, tuple) and _same(v, node) else None
    if 'and' in s:
        for x in s['and']:
            env = mini(x, node, env)
            if env is None:
                return None
    elif 'or' in s:
        for x in s['or']:
            e = mini(x, node, env)
            if e is not None:
                env = e
                break
        else:
            return None
    elif 'not' in s:
        if mini(s['not'], node, env) is not None:
            return None
    else:
        names = s['cls'] if isinstance(s['cls'], list) else [s['cls']]
        if not isinstance(node, ast.AST) or not isinstance(node, tuple(getattr(ast, n) for n in names)):
            return None
        for k, v in s.get('fields', {}).items():
            if not hasattr(node, k):
                return None
            got = getattr(node, k)
            if isinstance(v, dict):
                env = mini(v, got, env)
                if env is None:
                    return None
            elif isinstance(v, list):
                if not isinstance(got, list):
                    return None
                env = next(_match_list(v, 0, got, 0, env), None)
                if env is None:
                    return None
            elif got != v or type(got) is not type(v):
                return None
    if s.get('tag'):
        env = dict(env)
        env[s['tag']] = node                # the enclosing tag names the node it wraps
    return env


EXPRS = ['Name', 'Constant', 'Attribute', 'Call', 'BinOp', 'Subscript', 'List', 'Tuple', 'UnaryOp', 'IfExp']
NAME_A = {'cls': 'Name', 'fields': {'id': 'a'}}
# (shape, spec, {tag: kind}) ; patterns select Load expressions only (templates are calls)
SPECS = [
    ('nested-tag', {'cls': 'Call', 'fields': {'func': {'cls': 'Name', 'tag': 'node'}}, 'tag': 'node'}, {'node': 'E'}),
    ('nested-tag', {'cls': 'Call', 'fields': {'func': {'cls': 'Attribute', 'fields': {'value': {'cls': 'Name', 'tag': 'n'}}, 'tag': 'n'}},
                    'tag': 'n'}, {'n': 'E'}),
    ('nested-tag', {'cls': 'BinOp', 'fields': {'left': {'cls': 'Name', 'tag': 'x'}, 'right': {'cls': ['Name', 'Constant'], 'tag': 'y'}},
                    'tag': 'x'}, {'x': 'E', 'y': 'E'}),
    ('nested-tag', {'cls': 'Subscript', 'fields': {'value': {'cls': 'Name', 'tag': 'v'}, 'slice': {'cls': ['Name', 'Constant'], 'tag': 's'}},
                    'tag': 's'}, {'v': 'E', 's': 'E'}),
    ('nested-tag', {'or': [{'cls': 'Call', 'fields': {'func': {'cls': 'Name', 'tag': 't'}}}, {'cls': 'Attribute', 'fields': {'value': {'cls': 'Name', 'tag': 't'}}}],
                    'tag': 't'}, {'t': 'E'}),
    ('tags', {'cls': 'Call', 'fields': {'func': {'cls': 'Name', 'tag': 'f'}}, 'tag': 'c'}, {'f': 'E', 'c': 'E'}),
    ('not-types', {'and': [{'cls': ['Name', 'Constant']}, {'not': {'cls': ['Name'], 'fields': {'id': 'self'}}}], 'tag': 'n'}, {'n': 'E'}),
    ('not-types', {'and': [{'cls': ['Name', 'Attribute', 'Call']}, {'not': {'cls': ['Name', 'Attribute'], 'fields': {'ctx': None}}}]}, {}),
    ('not-types', {'and': [{'cls': ['Call', 'Attribute']}, {'not': {'cls': ['Attribute'], 'fields': {'attr': 'p'}}}], 'tag': 'n'}, {'n': 'E'}),
    ('not-node', {'and': [{'cls': ['Name']}, {'not': {'cls': 'Name', 'fields': {'id': 'a'}}}, {'not': {'cls': 'Name', 'fields': {'id': 'self'}}}]}, {}),
    ('not-node', {'and': [{'cls': ['Call']}, {'not': {'cls': 'Call', 'fields': {'func': {'cls': 'Name'}}}}], 'tag': 'c'}, {'c': 'E'}),
    ('or-fields', {'or': [{'cls': 'Name', 'fields': {'id': 'a'}}, {'cls': 'Attribute', 'fields': {'attr': 'p'}}, {'cls': ['Constant'], 'fields': {'value': 1}}]}, {}),
    ('and-or', {'and': [{'or': [{'cls': 'Call'}, {'cls': 'Subscript'}]}, {'not': {'cls': ['Call'], 'fields': {'args': []}}}], 'tag': 'w'}, {'w': 'E'}),
]
SPECS = [x for x in SPECS if x[1] != SPECS[7][1]]
ANY = {'cls': EXPRS}
_N, _C = {'cls': 'Name'}, {'cls': ['Constant']}
SPECS += [
    # quantifiers whose repetition spans several elements (greedy ones must give repetitions back), mixed with fixed elements
    ('q-sublist', {'cls': 'List', 'fields': {'elts': [{'q': 'star', 'sub': [_N, _C], 'tag': 'lead'}, _N, _C]}}, {'lead': 'ES'}),
    ('q-sublist', {'cls': 'List', 'fields': {'elts': [{'q': 'star', 'sub': [_N, _C], 'tag': 'lead'}, {**_N, 'tag': 'n'}]}}, {'lead': 'ES', 'n': 'E'}),
    ('q-sublist', {'cls': 'Call', 'fields': {'func': {**_N, 'tag': 'f'}, 'args': [{'q': 'plus', 'sub': [_N, _N], 'tag': 'p'}, {'q': 'star', 'sub': _N, 'tag': 'r'}]}},
     {'f': 'E', 'p': 'ES', 'r': 'ES'}),
    ('q-sublist', {'cls': 'Tuple', 'fields': {'elts': [{'q': 'star', 'sub': [_N, _N], 'tag': 'a'}, {**_N, 'tag': 'm'}, {'q': 'star', 'sub': _C, 'tag': 'b'}]}},
     {'a': 'ES', 'm': 'E', 'b': 'ES'}),
    ('q-sublist', {'cls': 'List', 'fields': {'elts': [{'q': 'plus', 'sub': [ANY, _C], 'tag': 'g', 'greedy': False}, {'q': 'star', 'sub': ANY, 'tag': 'rest'}]}},
     {'g': 'ES', 'rest': 'ES'}),
    ('q-sublist', {'cls': 'List', 'fields': {'elts': [{'q': 'star', 'sub': [_N, _C, _N], 'tag': 't3'}, {'q': 'opt', 'sub': _N, 'tag': 'o'}, _C]}}, {'t3': 'ES', 'o': 'ES'}),
    # back references while the same tag name is bound at two depths (the latest binding counts)
    ('backref', {'cls': 'BinOp', 'fields': {'left': {**ANY, 'tag': 't'}, 'right': {'cls': 'BinOp', 'fields': {'left': {**ANY, 'tag': 't'}, 'right': {'backref': 't'}}}}}, {'t': 'E'}),
    ('backref', {'cls': 'Call', 'fields': {'func': {**_N, 'tag': 't'}, 'args': [{**_N, 'tag': 't'}, {'backref': 't'}]}}, {'t': 'E'}),
    ('backref', {'cls': 'List', 'fields': {'elts': [{**_N, 'tag': 't'}, {'q': 'star', 'sub': _N, 'tag': 'mid'}, {'backref': 't'}]}}, {'t': 'E', 'mid': 'ES'}),
    ('backref', {'cls': 'Call', 'fields': {'func': {**ANY, 'tag': 't'}, 'args': [{'cls': 'Call', 'fields': {'func': {**_N, 'tag': 't'}, 'args': [{'backref': 't'}]}, 'tag': 'in_'}]}},
     {'t': 'E', 'in_': 'E'}),
    ('backref', {'cls': 'BinOp', 'fields': {'left': {**_N, 'tag': 'x'}, 'right': {'backref': 'x'}}, 'tag': 'x'}, {'x': 'E'}),
]          # (ctx=None constraint is not expressible identically: dropped)
WILD = {'any': True}
# identifiers: the AST holds the NFKC-normalised name, the source may spell it with compatibility characters; patterns name
# the normalised form, at every index of every identifier list
SPECS += [
    ('ident-nfkc-stmt', {'cls': 'Global', 'fields': {'names': ['a', 'fi']}}, {}),
    ('ident-nfkc-stmt', {'cls': 'Global', 'fields': {'names': ['fi', 'a']}}, {}),
    ('ident-nfkc-stmt', {'cls': 'Global', 'fields': {'names': [WILD, WILD, 'fi']}}, {}),
    ('ident-nfkc-stmt', {'cls': 'Global', 'fields': {'names': [WILD, '\u03bc', WILD]}}, {}),
    ('ident-nfkc-stmt', {'cls': 'Nonlocal', 'fields': {'names': [WILD, 'fi']}}, {}),
    ('ident-nfkc-stmt', {'cls': 'Global', 'fields': {'names': ['fi']}}, {}),
    ('ident-nfkc-stmt', {'cls': 'FunctionDef', 'fields': {'name': 'fi'}}, {}),
    ('ident-nfkc-stmt', {'cls': 'ImportFrom', 'fields': {'names': [WILD, {'cls': 'alias', 'fields': {'name': 'fi'}}]}}, {}),
    ('ident-nfkc', {'cls': 'Name', 'fields': {'id': 'fi'}}, {}),
    ('ident-nfkc', {'cls': 'Attribute', 'fields': {'attr': 'fi'}, 'tag': 'w'}, {'w': 'E'}),
    ('ident-nfkc', {'cls': 'Call', 'fields': {'keywords': [WILD, {'cls': 'keyword', 'fields': {'arg': 'fi'}}]}, 'tag': 'c'}, {'c': 'E'}),
    ('ident-nfkc', {'cls': 'Call', 'fields': {'args': [{'cls': 'Name', 'fields': {'id': 'a'}}, {'cls': 'Name', 'fields': {'id': '\u03bc'}}]}}, {}),
]
NFKC_PROGRAMS = [
    'def f():\n    global a, \ufb01\n    global \ufb01, a\n    global a, b, \ufb01\n    global \ufb01\n    global a, \u00b5, b\n    return a\n',
    'def g():\n    def h():\n        nonlocal a, \ufb01\n        nonlocal \ufb01, a\n        use(\ufb01, a.\ufb01, k(x=1, \ufb01=2), k(\ufb01=1, x=2), k(a, \u00b5), k(\u00b5, a))\n',
    'from m import a, \ufb01\nfrom m import \ufb01, a\ndef \ufb01(): pass\ndef fi_(): pass\nuse(\ufb01)\n',
]
TEMPLATES = ['log({t})', 'w({t}, 0)', '[{t}, {t}]', '{t}.q', 'log(__FST_)', 'k[{t}]']
SLICE_TEMPLATES = ['g({t})', '[{t}, 0]', 'w(0, {t}, {t2})', '({t2}, {t})', 'log(__FST_)']
Q_PROGRAMS = [
    'v = [a, 1, b, 2, c, 3]\nw = [a, 1]\nu = [a, 1, b, 2]\nt = [a, 1, b]\nz = [1, a]\n',
    'f(a, b, c, d, e)\ng(a, b)\nh(a, b, c)\nk(a)\nuse((a, b, c, 1, 2), (a, 1), (a, b, c))\n',
    'r = [a, 1, b, 2, c]\ns = [x, 1, y, z, 2]\nq = [a, 1, b, c, 2, d, 3]\np = [a, 2, b, c, 3]\n',
    'use(x * (y + y), x * (y + x), (a + b) * (c + c), f(f, f), g(a, a), g(g, g), h(a, b))\n',
    'use([a, b, c, a], [a, a], [a, b], f(g(g)), f(g(f)), a + a, (a + a) * 1, b + a)\n',
]
PROGRAMS = [
    'class K:\n    def m(self, a, b):\n        use(a + self.y, self)\n        return self.f(a, 1, b.p)[0]\n',
    'f(a, g(b), 1)\nuse(o.p(x).q + a[0] * b[k])\n(self, a.p, "s", f())\n',
    'def h(self):\n    use(self)\n    return [a, self.p, g(self, 2), o.q.p(a)[1]]\n',
    'f(self)(a, b=1)\nlog(a)(b.p, o.p())\n',
]


def product_jobs():
    """every quantifier / back-reference spec on every program of its family, slot in a call and in a list (deterministic)"""
    out = []
    for shape, spec, tagkinds in SPECS:
        if shape.startswith('ident-nfkc'):
            stmt = shape.endswith('-stmt')
            for src in NFKC_PROGRAMS:
                for tmpl in (('done = 1', 'if 1:\n    __FST_') if stmt else ('seen', 'w(__FST_)')):
                    for on in ('enter', 'leave'):
                        st = {'nested': False, 'on': on, 'count': 0, 'loop': False, 'ctx': False}
                        out.append({'src': src, 'shape': shape, 'cat': 'stmt' if stmt else 'expr', 'pat': compile_spec(spec),
                                    'spec': spec, 'placement': 'spec', 'tmpl': tmpl, 'set': st})
            continue
        if shape not in ('q-sublist', 'backref'):
            continue
        es = [t for t, k in tagkinds.items() if k == 'ES']
        e1 = [t for t, k in tagkinds.items() if k == 'E']
        for src in Q_PROGRAMS:
            for fmt in ('g({a})', '[{a}, 0]'):
                for tag in (es + e1)[:2]:
                    for nested, on in ((False, 'enter'), (False, 'leave')):
                        st = {'nested': nested, 'on': on, 'count': 0, 'loop': False, 'ctx': False}
                        out.append({'src': src, 'shape': shape, 'cat': 'expr', 'pat': compile_spec(spec), 'spec': spec,
                                    'placement': 'spec', 'tmpl': fmt.replace('{a}', '__FST_' + tag), 'set': st})
    return out


def jobs(rng, n):
    out = product_jobs()
    n += len(out)
    while len(out) < n:
        shape, spec, tagkinds = rng.choice([x for x in SPECS if not x[0].startswith('ident-nfkc')])
        tags = [t for t in tagkinds] or ['']
        special = shape in ('q-sublist', 'backref')
        es = [t for t, k in tagkinds.items() if k == 'ES']
        if es and rng.random() < 0.8:
            e1 = [t for t, k in tagkinds.items() if k == 'E'] or ['']
            tm = rng.choice(SLICE_TEMPLATES).replace('{t2}', '__FST_' + rng.choice(es + e1)).replace('{t}', '__FST_' + rng.choice(es))
        else:
            e1 = [t for t, k in tagkinds.items() if k == 'E'] or ['']
            tm = rng.choice(TEMPLATES).replace('{t}', '__FST_' + rng.choice(e1))
        st = {'nested': rng.random() < 0.4, 'on': rng.choice(['enter', 'enter', 'leave']), 'count': rng.choice([0, 0, 0, 2]),
              'loop': False, 'ctx': False}
        out.append({'src': rng.choice(Q_PROGRAMS if special else PROGRAMS), 'shape': shape, 'cat': 'expr', 'pat': compile_spec(spec), 'spec': spec,
                    'placement': 'spec', 'tmpl': tm, 'set': st})
    return out
