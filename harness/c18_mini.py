"""C18: a small declarative pattern language with its own matcher over the CPython tree (no pfst code), compiled to pfst
patterns.  It makes the reference sweep independent of pfst's matcher for the pattern features substitution depends on:
which nodes a combinator pattern selects while the tree is WALKED (MAND / MOR / MNOT / MTYPES with field constraints: the
search pre-filter must not hide nodes the pattern matches) and which node a tag names when tags nest (the enclosing
M(tag=...) names the whole node even when an inner pattern captured the same tag name).

spec := {'cls': 'Call' | ['Name', 'Constant'], 'fields': {name: spec | [spec, ...] | literal}, 'tag': str}
      | {'and': [spec...]} | {'or': [spec...]} | {'not': spec}          (each optionally with 'tag')
"""

from __future__ import annotations

import ast


def compile_spec(s):
    """-> source text of the pfst pattern"""
    if 'and' in s:
        inner = 'MAND(' + ', '.join(compile_spec(x) for x in s['and']) + ')'
    elif 'or' in s:
        inner = 'MOR(' + ', '.join(compile_spec(x) for x in s['or']) + ')'
    elif 'not' in s:
        inner = 'MNOT(' + compile_spec(s['not']) + ')'
    else:
        fields = ', '.join(f'{k}={_field(v)}' for k, v in s.get('fields', {}).items())
        if isinstance(s['cls'], list):
            inner = f'MTYPES(({", ".join(s["cls"])},){", " + fields if fields else ""})'
        else:
            inner = f'M{s["cls"]}({fields})'
    return f'M({s["tag"]}={inner})' if s.get('tag') else inner


def _field(v):
    if isinstance(v, dict):
        return compile_spec(v)
    if isinstance(v, list):
        return '[' + ', '.join(_field(x) for x in v) + ']'
    return repr(v)


def mini(s, node):
    """-> {tag: node} or None"""
    if 'and' in s:
        tags = {}
        for x in s['and']:
            m = mini(x, node)
            if m is None:
                return None
            tags.update(m)
    elif 'or' in s:
        tags = None
        for x in s['or']:
            tags = mini(x, node)
            if tags is not None:
                break
        if tags is None:
            return None
    elif 'not' in s:
        if mini(s['not'], node) is not None:
            return None
        tags = {}
    else:
        names = s['cls'] if isinstance(s['cls'], list) else [s['cls']]
        if not isinstance(node, ast.AST) or not isinstance(node, tuple(getattr(ast, n) for n in names)):
            return None
        tags = {}
        for k, v in s.get('fields', {}).items():
            if not hasattr(node, k):
                return None
            got = getattr(node, k)
            if isinstance(v, dict):
                m = mini(v, got)
                if m is None:
                    return None
                tags.update(m)
            elif isinstance(v, list):
                if not isinstance(got, list) or len(got) != len(v):
                    return None
                for x, g in zip(v, got):
                    m = mini(x, g)
                    if m is None:
                        return None
                    tags.update(m)
            elif got != v or type(got) is not type(v):
                return None
    if s.get('tag'):
        tags = dict(tags)
        tags[s['tag']] = node               # the enclosing tag names the node it wraps
    return tags


EXPRS = ['Name', 'Constant', 'Attribute', 'Call', 'BinOp', 'Subscript', 'List', 'Tuple', 'UnaryOp', 'IfExp']
NAME_A = {'cls': 'Name', 'fields': {'id': 'a'}}
# (shape, spec, {tag: kind}) ; patterns select Load expressions only (templates are calls)
SPECS = [
    ('nested-tag', {'cls': 'Call', 'fields': {'func': {'cls': 'Name', 'tag': 'node'}}, 'tag': 'node'}, {'node': 'E'}),
    ('nested-tag', {'cls': 'Call', 'fields': {'func': {'cls': 'Attribute', 'fields': {'value': {'cls': 'Name', 'tag': 'n'}}, 'tag': 'n'}},
                    'tag': 'n'}, {'n': 'E'}),
    ('nested-tag', {'cls': 'BinOp', 'fields': {'left': {'cls': 'Name', 'tag': 'x'}, 'right': {'cls': ['Name', 'Constant'], 'tag': 'y'}},
                    'tag': 'x'}, {'x': 'E', 'y': 'E'}),
    ('nested-tag', {'cls': 'Subscript', 'fields': {'value': {'cls': 'Name', 'tag': 'v'}, 'slice': {'cls': ['Name', 'Constant'], 'tag': 's'}},
                    'tag': 's'}, {'v': 'E', 's': 'E'}),
    ('nested-tag', {'or': [{'cls': 'Call', 'fields': {'func': {'cls': 'Name', 'tag': 't'}}}, {'cls': 'Attribute', 'fields': {'value': {'cls': 'Name', 'tag': 't'}}}],
                    'tag': 't'}, {'t': 'E'}),
    ('tags', {'cls': 'Call', 'fields': {'func': {'cls': 'Name', 'tag': 'f'}}, 'tag': 'c'}, {'f': 'E', 'c': 'E'}),
    ('not-types', {'and': [{'cls': ['Name', 'Constant']}, {'not': {'cls': ['Name'], 'fields': {'id': 'self'}}}], 'tag': 'n'}, {'n': 'E'}),
    ('not-types', {'and': [{'cls': ['Name', 'Attribute', 'Call']}, {'not': {'cls': ['Name', 'Attribute'], 'fields': {'ctx': None}}}]}, {}),
    ('not-types', {'and': [{'cls': ['Call', 'Attribute']}, {'not': {'cls': ['Attribute'], 'fields': {'attr': 'p'}}}], 'tag': 'n'}, {'n': 'E'}),
    ('not-node', {'and': [{'cls': ['Name']}, {'not': {'cls': 'Name', 'fields': {'id': 'a'}}}, {'not': {'cls': 'Name', 'fields': {'id': 'self'}}}]}, {}),
    ('not-node', {'and': [{'cls': ['Call']}, {'not': {'cls': 'Call', 'fields': {'func': {'cls': 'Name'}}}}], 'tag': 'c'}, {'c': 'E'}),
    ('or-fields', {'or': [{'cls': 'Name', 'fields': {'id': 'a'}}, {'cls': 'Attribute', 'fields': {'attr': 'p'}}, {'cls': ['Constant'], 'fields': {'value': 1}}]}, {}),
    ('and-or', {'and': [{'or': [{'cls': 'Call'}, {'cls': 'Subscript'}]}, {'not': {'cls': ['Call'], 'fields': {'args': []}}}], 'tag': 'w'}, {'w': 'E'}),
]
SPECS = [x for x in SPECS if x[1] != SPECS[7][1]]          # (ctx=None constraint is not expressible identically: dropped)
TEMPLATES = ['log({t})', 'w({t}, 0)', '[{t}, {t}]', '{t}.q', 'log(__FST_)', 'k[{t}]']
PROGRAMS = [
    'class K:\n    def m(self, a, b):\n        use(a + self.y, self)\n        return self.f(a, 1, b.p)[0]\n',
    'f(a, g(b), 1)\nuse(o.p(x).q + a[0] * b[k])\n(self, a.p, "s", f())\n',
    'def h(self):\n    use(self)\n    return [a, self.p, g(self, 2), o.q.p(a)[1]]\n',
    'f(self)(a, b=1)\nlog(a)(b.p, o.p())\n',
]


def jobs(rng, n):
    out = []
    while len(out) < n:
        shape, spec, tagkinds = rng.choice(SPECS)
        tags = [t for t in tagkinds] or ['']
        fmt = rng.choice(TEMPLATES)
        tm = fmt.replace('{t}', '__FST_' + rng.choice(tags))
        st = {'nested': rng.random() < 0.4, 'on': rng.choice(['enter', 'enter', 'leave']), 'count': rng.choice([0, 0, 0, 2]),
              'loop': False, 'ctx': False}
        out.append({'src': rng.choice(PROGRAMS), 'shape': shape, 'cat': 'expr', 'pat': compile_spec(spec), 'spec': spec,
                    'placement': 'spec', 'tmpl': tm, 'set': st})
    return out
