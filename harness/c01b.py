"""C01b — correspondence of the separator / delimiter models (lean/Pfst/Sep.lean) with the real pfst functions
`FST._trail_sep`, `FST._maybe_ins_sep`, `FST._is_delimited_seq`, `FST._maybe_add_singleton_comma`, `FST._fix_Tuple`,
`FST._fix_joined_alnums`, `FST._maybe_add_line_continuations` (all real calls, in-process).

Parts (each reports through ctx.brk('correspondence', ...) when model and code differ, through ctx.fail(...) when the
real function leaves a tree that CPython does not confirm although the edit kept the program valid):

  blocks    every small line block over the alphabet {space , ) # \\ a newline}: real functions called on a minimal FST
            whose lines are overwritten, every start/end position, every flag
  corpus    corpus programs (comments, continuation lines, redundant parentheses, multi-byte text): `_trail_sep` on every
            node (default bounds) and on every element of every comma separated sequence (explicit bounds),
            `_maybe_ins_sep` on every element, every flag combination, a fresh tree per mutating call; post-state judged by
            ast.parse when the new source is the same program
  tuples    `_fix_Tuple` / `_maybe_add_singleton_comma` / `_is_delimited_seq` on tuples of length 0-3 in generated
            layouts (root copies and in statement contexts), singleton states produced by the real `_trail_sep(del_=True)`
  organic   the same functions observed (wrapped) while real slice edits run on corpus programs: arguments and
            pre-states as pfst itself produces them in the middle of edits
  lines     `_fix_joined_alnums` and the per-line rewrite of `_maybe_add_line_continuations`
"""

from __future__ import annotations

import ast
import itertools
import random
import re

import corpus
import util
from framework import pmap

SEPS = [',', ';', 'a', '|']          # index into this list travels to the driver
DELS = [False, True, None]           # driver: 0, 1, 2


def enc(lines):
    return [[ord(c) for c in l] for l in lines]


def dec_line(l):
    return ''.join(chr(c) for c in l)


def line_diff(old, new):
    """[common prefix, number of old lines replaced, new lines] — same function as Drv/C01b.lean diffJson"""
    p = 0
    while p < len(old) and p < len(new) and old[p] == new[p]:
        p += 1
    o, n = old[p:], new[p:]
    s = 0
    while s < len(o) and s < len(n) and o[-1 - s] == n[-1 - s]:
        s += 1
    return [p, len(o) - s, [[ord(c) for c in l] for l in n[:len(n) - s]]]


def _note_bad(ctx, firsts, d):
    """remember a disagreement: the first one of each part always, the others while there is room in the evidence"""
    firsts.setdefault(d['corr'], d)
    if len(ctx.corr_disagreements) < 20:
        ctx.corr_disagreements.append(d)


def _fresh_min():
    from fst import FST
    return FST('i', 'exec')


def _set_lines(root, lines):
    from fst.astutil import bistr
    root._lines[:] = [bistr(l) for l in lines]


# ---------------------------------------------------------------------------------------------------------------------
# blocks: exhaustive small line blocks
# ---------------------------------------------------------------------------------------------------------------------

ALPHA = [' ', ',', ')', '#', '\\', 'a', '\n']


def _positions(lines):
    return [(i, c) for i, l in enumerate(lines) for c in range(len(l) + 1)]


def _block_job(arg):
    """(block text, sub-seed, limit of position pairs) -> (lean cases, real outputs)"""
    text, seed, cap = arg
    lines = text.split('\n')
    rng = random.Random(seed)
    pos = _positions(lines)
    pairs = [(a, b) for a in pos for b in pos if a <= b]
    if len(pairs) > cap:
        pairs = rng.sample(pairs, cap)
    root = _fresh_min()
    ts_q, ts_r, in_q, in_r = [], [], [], []
    for (ln, col), (eln, ecol) in pairs:
        for si in (0, 2):
            for di, d in enumerate(DELS):
                _set_lines(root, lines)
                try:
                    r = root._trail_sep(ln, col, eln, ecol, SEPS[si], d)
                    new = [str(l) for l in root._lines]
                    out = [list(r) if r else None, line_diff(lines, new)]
                except Exception as e:
                    out = ['EXC', type(e).__name__]
                if [str(l) for l in root._lines] != lines or out[0] == 'EXC':
                    root = _fresh_min()
                ts_q.append([ln, col, eln, ecol, si, di])
                ts_r.append(out)
            for sp in (0, 1):
                _set_lines(root, lines)
                try:
                    r = root._maybe_ins_sep(ln, col, bool(sp), eln, ecol, SEPS[si], None)
                    new = [str(l) for l in root._lines]
                    out = [[r[0], r[1], [ord(c) for c in r[2]]] if r else None, line_diff(lines, new)]
                except Exception as e:
                    out = ['EXC', type(e).__name__]
                root = _fresh_min()
                in_q.append([ln, col, sp, eln, ecol, si])
                in_r.append(out)
    base = {'lines': enc(lines), 'seps': enc(SEPS)}
    return ([dict(base, f='C01b.trailSep', qs=ts_q), dict(base, f='C01b.insSep', qs=in_q)], [ts_r, in_r])


def _strip_del(model_out):
    """model trailSep output [pos, del, diff] -> [pos, diff]"""
    return [[m[0], m[2]] for m in model_out]


def run_blocks(ctx):
    maxlen = 3 if ctx.quick else 5
    blocks = ['']
    for n in range(1, maxlen + 1):
        blocks.extend(''.join(t) for t in itertools.product(ALPHA, repeat=n))
    extra = []
    rng = random.Random(ctx.rng.randrange(1 << 30))
    if ctx.quick:       # quick: every block up to length 3 and a seed-chosen third of the blocks of length 4
        extra.extend(rng.sample([''.join(t) for t in itertools.product(ALPHA, repeat=4)], 800))
    for _ in range(300 if ctx.quick else 3000):          # longer random blocks
        n = rng.randint(maxlen + 1, 14)
        extra.append(''.join(rng.choice(ALPHA + [' ', ')', ',']) for _ in range(n)))
    jobs = [(b, rng.randrange(1 << 30), 400) for b in blocks] + [(b, rng.randrange(1 << 30), 40) for b in extra]
    jobs.sort(key=lambda j: -len(j[0]))
    res = pmap(_block_job, jobs)
    cases, reals, metas = [], [], []
    for (b, _, _), (cs, rs) in zip(jobs, res):
        for c, r, kind in zip(cs, rs, ('trailSep', 'insSep')):
            if c['qs']:
                cases.append(c)
                reals.append(r)
                metas.append((kind, b))
    outs = ctx.lean(cases)
    nbad = 0
    n = 0
    firsts = {}
    for c, real, (kind, b), o in zip(cases, reals, metas, outs):
        m = o.get('out', o)
        if not isinstance(m, list):
            ctx.brk('correspondence', f'blocks.{kind}', f'driver answered {m} for block {b!r}')
            return
        if kind == 'trailSep':
            m = _strip_del(m)
        for q, mo, ro in zip(c['qs'], m, real):
            n += 1
            if mo != ro:
                nbad += 1
                _note_bad(ctx, firsts, {'corr': f'blocks.{kind}', 'block': b, 'q': q, 'model': mo, 'impl': ro})
                ctx.hints.append((f'blocks.{kind}', b, q))
    ctx.corr_cases += n
    ctx.count(('blocks', maxlen, len(extra)), True, n)
    ctx.tally('correspondence_cases', 'blocks')
    ctx.dist['correspondence_cases']['blocks'] = n
    ctx.notes['c01b_blocks'] = {'exhaustive_up_to_len': maxlen, 'blocks': len(blocks), 'random_longer': len(extra), 'calls': n}
    if nbad:
        ctx.brk('correspondence', 'Pfst.Sep.trailSep / maybeInsSep vs FST._trail_sep / _maybe_ins_sep on line blocks',
                f'{nbad}/{n} calls differ; first: {list(firsts.values())[0]}')


# ---------------------------------------------------------------------------------------------------------------------
# corpus: real trees
# ---------------------------------------------------------------------------------------------------------------------

def _kids(f):
    out = []
    for ch in ast.iter_child_nodes(f.a):
        g = getattr(ch, 'f', None)
        if g is not None and g.loc is not None:
            out.append(g)
    return out


def _bound_end(lines, c):
    _, _, eln, ecol = c.loc
    k = 1 if ecol and lines[eln][ecol - 1:ecol] in (')', ']', '}') else 0
    return eln, ecol - k


ELEMENT_FIELDS = {'Tuple': ('elts',), 'List': ('elts',), 'Set': ('elts',), 'Call': ('args', 'keywords'), 'Dict': ('values',),
                  'MatchSequence': ('patterns',), 'MatchMapping': ('patterns',), 'MatchClass': ('patterns', 'kwd_patterns')}


def _is_element(c, e):
    """`e` is an element of the comma separated sequence `c` (the relation under which pfst itself calls the
    separator primitives with `self = c`)"""
    fields = ELEMENT_FIELDS.get(type(c.a).__name__)
    return bool(fields) and e.pfield is not None and e.pfield.name in fields


def _same_program(before_dump, root):
    """None if the new source is not the same program (edit changed the meaning or broke the syntax: nothing to judge),
    else the C01 oracle's verdict ('' = tree equals parse)."""
    try:
        ref = ast.parse(root.src)
    except SyntaxError:
        return None
    if ast.dump(ref) != before_dump:
        return None
    return util.tree_equals_parse(root) or ''


def _corpus_job(arg):
    idx, src, seed, cap_del, cap_ins = arg
    from fst import FST
    rng = random.Random(seed)
    try:
        root = FST(src, 'exec')
    except Exception:
        return None
    lines = [str(l) for l in root._lines]
    before_dump = ast.dump(root.a)
    nodes = list(root.walk(True))
    index = {id(f): i for i, f in enumerate(nodes)}
    ts_q, ts_r, in_q, in_r, fails = [], [], [], [], []
    tallies = {}

    def tl(k):
        tallies[k] = tallies.get(k, 0) + 1

    # ---- query variants on one tree ----------------------------------------------------------------------------
    pairs = []          # (container index, child index, start, end)
    found = []          # pairs (and default-bound nodes) where a separator follows
    for c in nodes:
        if c.loc is None:
            continue
        kids = _kids(c)
        if not kids:
            continue
        bl, bc = _bound_end(lines, c)
        for e in kids:
            _, _, el, ec = e.loc
            if (el, ec) > (bl, bc):
                continue
            pairs.append((index[id(c)], index[id(e)], el, ec, bl, bc))
    for ci, ei, el, ec, bl, bc in pairs:
        for si in (0, 1):
            r = nodes[ci]._trail_sep(el, ec, bl, bc, SEPS[si], False)
            ts_q.append([el, ec, bl, bc, si, 0])
            ts_r.append([list(r) if r else None, [len(lines), 0, []]])
            if r:
                found.append(('x', ci, ei, el, ec, bl, bc, si))
                tl('query_found')
            else:
                tl('query_none')
    for e in nodes:
        if e.loc is None or e.parent is None or e.parent.loc is None:
            continue
        _, _, el, ec = e.loc
        _, _, bl, bc = e.parent.loc
        si = 1 if isinstance(e.a, ast.stmt) else 0
        r = e._trail_sep(sep=SEPS[si])
        ts_q.append([el, ec, bl, bc, si, 0])
        ts_r.append([list(r) if r else None, [len(lines), 0, []]])
        if r:
            found.append(('d', index[id(e)], index[id(e)], el, ec, bl, bc, si))
            tl('default_found')
    dl_cases, dl_reals = [], []
    for f in nodes:
        a = f.a
        for cls, field, delims in ((ast.Tuple, 'elts', '()'), (ast.List, 'elts', '[]'), (ast.MatchSequence, 'patterns', '[]'),
                                   (ast.MatchSequence, 'patterns', '()')):
            if type(a) is not cls:
                continue
            es = getattr(a, field)
            d = {'f': 'C01b.isDelim', 'lines': None, 'self': list(f.loc), 'n': len(es), 'delims': [ord(delims[0]), ord(delims[1])]}
            if es:
                d['f0'] = list(es[0].f.loc)
                d['fn'] = list(es[-1].f.loc)
            try:
                f._cache.pop(f'isdelseq{field}{delims}', None)
                real = bool(f._is_delimited_seq(field, delims))
            except Exception as ex:
                real = 'EXC ' + type(ex).__name__
            dl_cases.append(d)
            dl_reals.append(real)
    if [str(l) for l in root._lines] != lines:
        fails.append(('C01b|_trail_sep|query-mutates', 'the query variant (del_=False) changed the source', {'src': src}))

    # ---- deleting variants, one fresh tree each -----------------------------------------------------------------
    if len(found) > cap_del:
        found = rng.sample(found, cap_del)
    for how, ci, ei, el, ec, bl, bc, si in found:
        for di in (1, 2):
            r2 = FST(src, 'exec')
            n2 = list(r2.walk(True))
            try:
                if how == 'x':
                    r = n2[ci]._trail_sep(el, ec, bl, bc, SEPS[si], DELS[di])
                else:
                    r = n2[ei]._trail_sep(sep=SEPS[si], del_=DELS[di])
                new = [str(l) for l in r2._lines]
                out = [list(r) if r else None, line_diff(lines, new)]
            except Exception as ex:
                out = ['EXC', type(ex).__name__]
                new = lines
            ts_q.append([el, ec, bl, bc, si, di])
            ts_r.append(out)
            if new != lines:
                tl('deleted')
                # the tree is judged only when the separator lies strictly inside its container: a naked tuple (or
                # another undelimited sequence) ends AT its trailing comma, and re-seating that end after the comma is gone
                # is the caller's job (`_fix_Tuple` / `_fix_undelimited_seq`), not `_trail_sep`'s
                inside = r is not None and tuple(nodes[ci if how == 'x' else index[id(nodes[ei].parent)]].loc[2:]) > (r[0], r[1] + len(SEPS[si]))
                v = _same_program(before_dump, r2) if si == 0 and inside else None
                if v is None:
                    tl('deleted_other_program')
                elif v:
                    kind = type(n2[ci].a).__name__ if how == 'x' else type(n2[ei].parent.a).__name__
                    fails.append((f'C01b|_trail_sep|{kind}|del={DELS[di]}|{v.split()[0]}',
                                  f'_trail_sep(del_={DELS[di]}) after {type(n2[ei].a).__name__} in {kind}: {v[:200]}',
                                  {'src': src, 'call': [how, ci, ei, el, ec, bl, bc, SEPS[si], di], 'after': r2.src}))
                else:
                    tl('deleted_tree_ok')

    # ---- _maybe_ins_sep, one fresh tree each ---------------------------------------------------------------------
    cand = []
    for ci, ei, el, ec, bl, bc in pairs:
        kids = _kids(nodes[ci])
        last = kids and index[id(kids[-1])] == ei
        cand.append((ci, ei, el, ec, bl, bc, bool(last)))
    rng.shuffle(cand)
    cand.sort(key=lambda t: not t[6])            # last children first (that is where a separator gets inserted)
    cand = cand[:cap_ins // 2] + rng.sample(cand[cap_ins // 2:], min(len(cand[cap_ins // 2:]), cap_ins // 2))
    for ci, ei, el, ec, bl, bc, last in cand:
        for sp in (0, 1):
            for exn, exv in (('elt', None), ('self', True), ('none', None)):
                if exn == 'self' and not last:
                    continue
                si = rng.choice([0, 0, 0, 1, 3])
                use_default_end = exn == 'none' and rng.random() < 0.5
                r2 = FST(src, 'exec')
                n2 = list(r2.walk(True))
                ex = n2[ei] if exn == 'elt' else exv
                try:
                    if use_default_end:
                        _, _, dl, dc = n2[ci].loc
                        r = n2[ci]._maybe_ins_sep(el, ec, bool(sp), sep=SEPS[si], exclude=ex)
                        q = [el, ec, sp, dl, dc, si]
                    else:
                        r = n2[ci]._maybe_ins_sep(el, ec, bool(sp), bl, bc, SEPS[si], ex)
                        q = [el, ec, sp, bl, bc, si]
                    new = [str(l) for l in r2._lines]
                    out = [[r[0], r[1], [ord(c) for c in r[2]]] if r else None, line_diff(lines, new)]
                except Exception as exc:
                    out = ['EXC', type(exc).__name__]
                    new = lines
                    q = [el, ec, sp, bl, bc, si]
                in_q.append(q)
                in_r.append(out)
                tl('ins_put' if new != lines else 'ins_nothing')
                # the tree is judged only where the call respects the contract of the function: `self` is a sequence, the
                # position is the end of one of its elements, the separator is a comma, the bound stops before the closing
                # delimiter (or the sequence is a naked tuple, whose span includes a trailing comma but no trailing space),
                # `exclude=True` only behind the last element, `exclude=None` never (it is for callers that offset later)
                judged = (new != lines and exn != 'none' and si == 0 and _is_element(n2[ci], n2[ei])
                          and ((bl, bc) != tuple(nodes[ci].loc[2:]) or (type(n2[ci].a) is ast.Tuple and last and not sp))
                          and not use_default_end)
                if judged:
                    v = _same_program(before_dump, r2)
                    if v is None:
                        tl('ins_other_program')
                    elif v:
                        kind = type(n2[ci].a).__name__
                        fails.append((f'C01b|_maybe_ins_sep|{kind}|exclude={exn}|{v.split()[0]}',
                                      f'_maybe_ins_sep(space={bool(sp)}, exclude={exn}) after {type(n2[ei].a).__name__} in {kind}: {v[:200]}',
                                      {'src': src, 'call': [ci, ei] + q + [exn], 'after': r2.src}))
                    else:
                        tl('ins_tree_ok')
    base = {'lines': enc(lines), 'seps': enc(SEPS)}
    for d in dl_cases:
        d['lines'] = base['lines']
    for _, _, wit in fails:
        wit['job'] = ['corpus', list(arg)]
    return {'idx': idx, 'cases': [dict(base, f='C01b.trailSep', qs=ts_q), dict(base, f='C01b.insSep', qs=in_q)],
            'reals': [ts_r, in_r], 'fails': fails, 'tallies': tallies, 'src': src, 'dl': (dl_cases, dl_reals)}


def add_trailing_commas(src, rng, p=0.5):
    """put a trailing comma (with random blanks / a comment / a continuation around it) before closing brackets, one at a
    time, keeping only additions after which the program parses to the same AST"""
    import io
    import tokenize
    try:
        ref = ast.dump(ast.parse(src))
        toks = list(tokenize.generate_tokens(io.StringIO(src).readline))
    except Exception:
        return src
    spots = []
    prev = None
    for t in toks:
        if t.type == tokenize.OP and t.string in ')]}' and prev is not None and prev.type not in (tokenize.NL, tokenize.COMMENT) \
                and prev.string not in ('(', '[', '{', ','):
            spots.append(prev.end)
        if t.type not in (tokenize.NL, tokenize.COMMENT, tokenize.INDENT, tokenize.DEDENT):
            prev = t
    cur = src
    for (ln, col) in sorted(spots, reverse=True):
        if rng.random() > p:
            continue
        ls = cur.split('\n')
        l = ls[ln - 1]
        text = rng.choice([',', ' ,', ',', ', ', '  ,  ', ' # c\n ,', ' \\\n  ,'])
        ls[ln - 1] = l[:col] + text + l[col:]
        new = '\n'.join(ls)
        try:
            if ast.dump(ast.parse(new)) == ref:
                cur = new
        except Exception:
            pass
    return cur


def _corpus_programs(ctx, n):
    rng = random.Random(ctx.rng.randrange(1 << 30))
    progs = corpus.programs(rng, n)
    progs = [add_trailing_commas(p, rng) if i % 2 == 0 else p for i, p in enumerate(progs)]
    progs.extend(SEP_SNIPPETS)
    return progs


SEP_SNIPPETS = [
    'x = [a, (b) , c ,]\nf(a, *b, k=1,)\n',
    't = (a,)\nu = a,\nv = ((a)),\nw = (a  ,  )\n',
    'f(a  # c\n  , b,  # d\n  )\n',
    'x = [\n    a,\n    b, \\\n    c  \\\n    ,\n]\n',
    'd = {a: b, **c , }\ns = {é, "ñ" ,ü}\n',
    'def f(a, b=1, *c, d, e=2, **k): pass\ndef g(a, /, b,): pass\n',
    'import a, b\nfrom x import (y, z,)\nfrom x import (y as q ,\n    z)\n',
    'with a as b, c: pass\nwith (a as b, c,): pass\n',
    'match x:\n case [a, b]: pass\n case {1: a, **r}: pass\n case C(a, k=b,): pass\n case (a, b ,): pass\n case a, b: pass\n',
    'del a, b\ndel (a, b,)\nclass C(A, m=B,): pass\nglobal p, q\n',
    'a = 1; b = 2 ; c = 3;\nif x: y = 1; z = 2\n',
    'x = ((a) , ((b)) ,)\ny = f((a),)(b,)\n',
    'z = [a,b,c]\nw = f(a,b=c)\nt = a,b\n',
    'x = [a,#c\n b]\ny = (a, \\\n b)\n',
    'x = "é, ü", \'#\', b\n',
    'for a, b in c, d: pass\nreturn_ = lambda x, y=(1, 2): (x, y,)\n',
    'x[a, b:c, ...]\nx[a,]\nx[(a, b)]\n',
    'async def f[T, *U, **V](a, b): pass\ntype X[T, U,] = T\n',
]


def run_corpus(ctx):
    nprog = 150 if ctx.quick else 2000
    progs = _corpus_programs(ctx, nprog)
    rng = random.Random(ctx.rng.randrange(1 << 30))
    jobs = [(i, p, rng.randrange(1 << 30), 16 if ctx.quick else 60, 20 if ctx.quick else 80) for i, p in enumerate(progs)]
    res = [r for r in pmap(_corpus_job, jobs) if r]
    cases, reals, metas = [], [], []
    for r in res:
        for c, rl, kind in zip(r['cases'], r['reals'], ('trailSep', 'insSep')):
            if c['qs']:
                cases.append(c)
                reals.append(rl)
                metas.append((kind, r['src']))
        for k, v in r['tallies'].items():
            ctx.dist.setdefault('c01b_corpus', {})
            ctx.dist['c01b_corpus'][k] = ctx.dist['c01b_corpus'].get(k, 0) + v
        for sig, what, wit in r['fails']:
            ctx.fail(sig, what, wit)
    outs = ctx.lean(cases)
    nbad = n = 0
    firsts = {}
    for c, real, (kind, src), o in zip(cases, reals, metas, outs):
        m = o.get('out', o)
        if not isinstance(m, list):
            ctx.brk('correspondence', f'corpus.{kind}', f'driver answered {m}')
            return
        if kind == 'trailSep':
            m = _strip_del(m)
        for q, mo, ro in zip(c['qs'], m, real):
            n += 1
            ctx.count(('corpus', kind, src, q), ro[0] is not None)
            if mo != ro:
                nbad += 1
                _note_bad(ctx, firsts, {'corr': f'corpus.{kind}', 'src': src, 'q': q, 'model': mo, 'impl': ro})
                ctx.hints.append((f'corpus.{kind}', src, q))
    ctx.corr_cases += n
    ctx.tally('correspondence_cases', 'corpus')
    ctx.dist['correspondence_cases']['corpus'] = n
    ctx.notes['c01b_corpus'] = {'programs': len(res), 'calls': n}
    _compare(ctx, 'corpus.isDelim', 'Pfst.Sep.isDelimitedSeq vs FST._is_delimited_seq on corpus sequences',
             [c for r in res for c in r['dl'][0]], [x for r in res for x in r['dl'][1]])
    if cases:
        ctx.sample({'corr': 'corpus.trailSep', 'src': metas[0][1][:200], 'q': cases[0]['qs'][:3], 'impl': reals[0][:3]})
    if nbad:
        ctx.brk('correspondence', 'Pfst.Sep.trailSep / maybeInsSep vs FST._trail_sep / _maybe_ins_sep on corpus trees',
                f'{nbad}/{n} calls differ; first: {list(firsts.values())[0]}')


# ---------------------------------------------------------------------------------------------------------------------
# tuples: `_fix_Tuple`, `_maybe_add_singleton_comma`, `_is_delimited_seq`
# ---------------------------------------------------------------------------------------------------------------------

_RE_ALNUM = None


def _extra_chars(lines):
    """non-ASCII characters of the lines that Python's `re` puts into pfst's `pat_alnum` class (external: Unicode tables)"""
    global _RE_ALNUM
    if _RE_ALNUM is None:
        from fst.astutil import re_alnum
        _RE_ALNUM = re_alnum
    return sorted({ord(c) for l in lines for c in l if ord(c) > 127 and _RE_ALNUM.match(c)})


def _tuple_inputs(t, is_delimited, par_if_needed):
    """everything the Lean model of `_fix_Tuple` needs, read from the tree BEFORE the call"""
    lines = [str(l) for l in t.root._lines]
    elts = t.a.elts
    d = {'f': 'C01b.fixTuple', 'lines': enc(lines), 'self': list(t.loc), 'n': len(elts), 'isDelim': is_delimited,
         'par': bool(par_if_needed), 'root': bool(t.is_root), 'extra': _extra_chars(lines)}
    if elts:
        f0, fn = elts[0].f, elts[-1].f
        d['f0'] = list(f0.loc)
        d['fn'] = list(fn.loc)
        d['p0'] = list(f0.pars()[:2])
        d['pn'] = list(fn.pars()[2:4])
        d['enclosed'] = bool(t._is_enclosed_or_line(check_pars=False) or t._is_enclosed_in_parents())
        d['named'] = any(type(e) is ast.NamedExpr and not e.f.pars().n for e in elts)
    return d, lines


TUPLE_ELEMS = ['a', 'b', '(c)', '*d', "'é'", 'ñ', 'e.f', '((g))']
TUPLE_CONTEXTS = ['{}', 'x = {}', 'for i in {}: pass', 'x[{}]', 'f({})', 'def g():\n    return {}', 'y = [{}, 1]', 'with {}: pass']


def _tuple_layouts(rng, quick):
    """source of tuples with 0-3 elements in many layouts: (text, delimited?)"""
    out = []
    for n in range(4):
        for trial in range(10 if quick else 40):
            elems = [rng.choice(TUPLE_ELEMS) for _ in range(n)]
            for delim in (True, False):
                if n == 0 and not delim:
                    continue
                style = rng.choice(['compact', 'plain', 'spaced', 'nl', 'cmt', 'cont', 'mixed'])
                trailing = n == 1 or rng.random() < 0.5

                def gap(after_comma):
                    if style == 'compact':
                        return ''
                    if style == 'plain':
                        return ' ' if after_comma else ''
                    if style == 'spaced':
                        return ' ' * rng.randint(0, 3)
                    c = rng.random()
                    if style in ('nl', 'mixed') and c < 0.4:
                        return '\n' + ' ' * rng.randint(0, 4)
                    if style in ('cmt', 'mixed') and c < 0.7:
                        return ' # c' + rng.choice(['', ' \\']) + '\n' + ' ' * rng.randint(0, 4)
                    if style in ('cont', 'mixed') and c < 0.9:
                        return ' \\\n' + ' ' * rng.randint(0, 4)
                    return ' ' * rng.randint(0, 2)
                body = ''
                for i, e in enumerate(elems):
                    body += e
                    if i < n - 1 or trailing:
                        body += gap(False) + ',' + (gap(True) if i < n - 1 or delim else '')
                if delim:
                    body = '(' + gap(True) + body + gap(False) + ')'
                out.append((body, delim, n, not delim and style in ('nl', 'cmt', 'mixed')))
    # shapes where "delimited" must be decided by counting parentheses around the first element
    for text, delim, n in [('(a), (b)', False, 2), ('(a), b, (c)', False, 3), ('((a)), (b)', False, 2), ('(a), ((b))', False, 2),
                           ('((a), (b))', True, 2), ('((a),)', True, 1), ('(a),', False, 1), ('((a), b)', True, 2),
                           ('(a, (b))', True, 2), ('( (a) , (b) )', True, 2), ('(a) , (b)', False, 2), ('(a)\\\n, (b)', False, 2)]:
        out.append((text, delim, n, False))
    return out


def _find_tuple(root, n):
    for f in root.walk(True):
        if type(f.a) is ast.Tuple and len(f.a.elts) == n:
            return f
    return None


def _tuple_job(arg):
    text, delim, n, rootonly, seed = arg
    from fst import FST
    rng = random.Random(seed)
    cases, reals, fails, dl_cases, dl_reals = [], [], [], [], []
    tallies = {}
    for ctxt in (TUPLE_CONTEXTS[:1] if rootonly else TUPLE_CONTEXTS):
        src = ctxt.format(text)
        states = ['asis']
        if n == 1:
            states.append('nocomma')
        if ctxt == '{}' and not delim:
            # the span of the naked tuple covers blanks / continuation lines around its elements, as it does in the
            # middle of pfst's own edits (after elements were deleted)
            states.append('wide')
            pad_l = rng.choice(['', ' ', '   ', ' \\\n  ', '\n'])
            pad_r = rng.choice(['', ' ', '   ', ' \\\n', '\n', ' \\\n  ', '  \\\n\n'])
        if ctxt == '{}' and not delim and '\n' in text:
            states.extend(['tail0', 'tail1', 'tail2', 'tail3', 'tail4'])   # multi-line naked root tuple (gets delimited): comment / continuation after its end
        for state in states:
            if state == 'wide':
                src = pad_l + text + pad_r
            for isd in ('none', 'actual'):
                for par in (True, False):
                    try:
                        root = FST(src, 'Tuple') if ctxt == '{}' else FST(src, 'exec')
                    except Exception:
                        tallies['unparsable'] = tallies.get('unparsable', 0) + 1
                        break
                    t = root if ctxt == '{}' else _find_tuple(root, n)
                    if t is None or type(t.a) is not ast.Tuple or len(t.a.elts) != n:
                        break
                    before_dump = ast.dump(root.a)
                    actual = bool(t._is_delimited_seq())
                    # `_is_delimited_seq` itself
                    lines0 = [str(l) for l in root._lines]
                    dl = {'f': 'C01b.isDelim', 'lines': enc(lines0), 'self': list(t.loc), 'n': n, 'delims': [40, 41]}
                    if n:
                        dl['f0'] = list(t.a.elts[0].f.loc)
                        dl['fn'] = list(t.a.elts[-1].f.loc)
                    dl_cases.append(dl)
                    dl_reals.append(actual)
                    if state == 'nocomma':
                        r = t.a.elts[0].f._trail_sep(del_=True)
                        if not r:
                            break
                    if state.startswith('tail'):
                        from fst.astutil import bistr
                        root._lines[-1] = bistr(root._lines[-1] + [' \\', '  # c', '\\', ' #c \\', '   '][int(state[4])])
                    if state == 'wide':
                        ls = root._lines
                        t.a.lineno, t.a.col_offset = 1, 0
                        t.a.end_lineno, t.a.end_col_offset = len(ls), len(ls[-1].encode())
                        t._touch()
                    try:
                        d, lines = _tuple_inputs(t, None if isd == 'none' else actual, par)
                    except Exception as ex:
                        tallies['inputs_exc'] = tallies.get('inputs_exc', 0) + 1
                        break
                    try:
                        ret = t._fix_Tuple(None if isd == 'none' else actual, par)
                        new = [str(l) for l in root._lines]
                        out = [bool(ret), line_diff(lines, new)]
                    except Exception as ex:
                        out = ['EXC', type(ex).__name__ + ': ' + str(ex)[:80]]
                        new = None
                    cases.append(d)
                    reals.append(out)
                    k = f'{state[:4]}|n={n}|delim={actual}|' + ('changed' if new != lines else 'same')
                    tallies[k] = tallies.get(k, 0) + 1
                    if new is not None and ctxt != '{}':
                        v = _same_program(before_dump, root)
                        if v:
                            fails.append((f'C01b|_fix_Tuple|{state}|n={n}|delim={actual}|{v.split()[0]}',
                                          f'_fix_Tuple on a {n}-tuple ({state}) in `{ctxt}`: {v[:200]}',
                                          {'src': src, 'state': state, 'is_delimited': isd, 'par_if_needed': par, 'after': root.src}))
                        elif v == '':
                            tallies['tree_ok'] = tallies.get('tree_ok', 0) + 1
                    if new is not None and state == 'nocomma':
                        # the property of the primitive itself: the singleton has its comma again
                        try:
                            ok = t.a.elts[0].f._trail_sep() is not None
                        except Exception:
                            ok = False
                        if not ok:
                            fails.append((f'C01b|_fix_Tuple|singleton-without-comma|delim={actual}',
                                          f'_fix_Tuple left a 1-tuple without its comma in `{ctxt}`',
                                          {'src': src, 'is_delimited': isd, 'par_if_needed': par, 'after': root.src}))
    for _, _, wit in fails:
        wit['job'] = ['tuple', list(arg)]
    return cases, reals, fails, tallies, dl_cases, dl_reals, text


def run_tuples(ctx):
    rng = random.Random(ctx.rng.randrange(1 << 30))
    lay = _tuple_layouts(rng, ctx.quick)
    jobs = [(t, d, n, ro, rng.randrange(1 << 30)) for t, d, n, ro in lay]
    res = pmap(_tuple_job, jobs)
    cases, reals, texts = [], [], []
    dcases, dreals = [], []
    for cs, rs, fails, tallies, dc, dr, text in res:
        cases.extend(cs)
        reals.extend(rs)
        texts.extend([text] * len(cs))
        dcases.extend(dc)
        dreals.extend(dr)
        for k, v in tallies.items():
            ctx.dist.setdefault('c01b_tuples', {})
            ctx.dist['c01b_tuples'][k] = ctx.dist['c01b_tuples'].get(k, 0) + v
        for sig, what, wit in fails:
            ctx.fail(sig, what, wit)
    _compare(ctx, 'tuples.fixTuple', 'Pfst.Sep.fixTuple vs FST._fix_Tuple on generated tuple layouts', cases, reals)
    _compare(ctx, 'tuples.isDelim', 'Pfst.Sep.isDelimitedSeq vs FST._is_delimited_seq', dcases, dreals)


# ---------------------------------------------------------------------------------------------------------------------
# organic: the primitives observed while pfst's own slice edits run
# ---------------------------------------------------------------------------------------------------------------------

class _Recorder:
    """wraps the real methods on the FST class; every call is executed by the original and recorded with its pre-state"""

    NAMES = ('_trail_sep', '_maybe_ins_sep', '_fix_Tuple', '_maybe_add_singleton_comma', '_fix_joined_alnums')

    def __init__(self):
        self.recs = []
        self.orig = {}
        self.depth = 0

    def __enter__(self):
        from fst import FST
        rec = self

        def lines_of(f):
            return [str(l) for l in f.root._lines]

        def w_trail_sep(self, ln=None, col=None, end_ln=None, end_col=None, sep=',', del_=False):
            try:
                lines = lines_of(self)
                a, b, c, d = ln, col, end_ln, end_col
                if c is None:
                    if self.parent:
                        _, _, c, d = self.parent.loc
                    else:
                        c, d = len(lines) - 1, len(lines[-1])
                if a is None:
                    _, _, a, b = self.loc
                pre = (lines, [a, b, c, d], sep, del_)
            except Exception:
                pre = None
            r = rec.orig['_trail_sep'](self, ln, col, end_ln, end_col, sep, del_)
            if pre is not None:
                rec.recs.append(('trailSep', pre, [list(r) if r else None, line_diff(pre[0], lines_of(self))]))
            return r

        def w_maybe_ins_sep(self, ln, col, space, end_ln=None, end_col=None, sep=',', exclude=True):
            try:
                lines = lines_of(self)
                c, d = end_ln, end_col
                if c is None:
                    _, _, c, d = self.loc
                pre = (lines, [ln, col, int(bool(space)), c, d], sep)
            except Exception:
                pre = None
            r = rec.orig['_maybe_ins_sep'](self, ln, col, space, end_ln, end_col, sep, exclude)
            if pre is not None:
                rec.recs.append(('insSep', pre, [[r[0], r[1], [ord(ch) for ch in r[2]]] if r else None,
                                                 line_diff(pre[0], lines_of(self))]))
            return r

        def w_fix_Tuple(self, is_delimited=None, par_if_needed=True):
            try:
                pre = _tuple_inputs(self, is_delimited, par_if_needed)
            except Exception:
                pre = None
            r = rec.orig['_fix_Tuple'](self, is_delimited, par_if_needed)
            if pre is not None:
                rec.recs.append(('fixTuple', pre, [bool(r), line_diff(pre[1], lines_of(self))]))
            return r

        def w_singleton(self, is_delimited=None, elts=None):
            try:
                lines = lines_of(self)
                es = self.a.elts if elts is None else elts
                isd = self._is_delimited_seq() if is_delimited is None else is_delimited
                pre = {'f': 'C01b.singleton', 'lines': enc(lines), 'n': len(es), 'isDelim': bool(isd),
                       'f0End': list(es[0].f.loc[2:]) if es else [0, 0], 'selfEnd': [self.end_ln, self.end_col]}
                if not isinstance(isd, bool):
                    pre = None      # an integer delimiter length was passed: not the modelled form
            except Exception:
                pre = None
            r = rec.orig['_maybe_add_singleton_comma'](self, is_delimited, elts)
            if pre is not None:
                rec.recs.append(('singleton', (pre, lines), line_diff(lines, lines_of(self))))
            return r

        def w_joined(self, ln, col, end_ln=None, end_col=None, *, lines=None):
            try:
                ls = lines_of(self)
                pre = (ls, [ln, col, 0 if end_ln is None else 1, end_ln or 0, end_col or 0])
            except Exception:
                pre = None
            r = rec.orig['_fix_joined_alnums'](self, ln, col, end_ln, end_col, lines=lines)
            if pre is not None:
                rec.recs.append(('joined', pre, line_diff(pre[0], lines_of(self))))
            return r

        wraps = {'_trail_sep': w_trail_sep, '_maybe_ins_sep': w_maybe_ins_sep, '_fix_Tuple': w_fix_Tuple,
                 '_maybe_add_singleton_comma': w_singleton, '_fix_joined_alnums': w_joined}
        for n in self.NAMES:
            self.orig[n] = getattr(FST, n)
            setattr(FST, n, wraps[n])
        return self

    def __exit__(self, *a):
        from fst import FST
        for n, f in self.orig.items():
            setattr(FST, n, f)
        return False


_ORG_DONORS = None
SEQ_FIELDS = ('elts', 'args', 'keywords', 'names', 'items', 'targets', 'patterns', 'kwd_patterns', 'bases', 'keys', 'values',
              'type_params', 'posonlyargs', 'kwonlyargs', 'generators', 'ifs', 'decorator_list', 'comparators', 'ops')


def _organic_job(arg):
    idx, src, seed, steps = arg
    import edits
    from fst import FST
    global _ORG_DONORS
    if _ORG_DONORS is None:
        _ORG_DONORS = edits.Donors(corpus.programs(random.Random(77), 40) + SEP_SNIPPETS)
    rng = random.Random(seed)
    try:
        root = FST(src, 'exec')
    except Exception:
        return []
    out = []
    with _Recorder() as rec:
        for _ in range(steps):
            r = None
            for _try in range(25):           # edits on comma separated sequences only
                r = edits.random_edit(rng, root, _ORG_DONORS, ops=['remove', 'insert', 'put_slice', 'cut', 'append', 'delitem',
                                                                 'setslice', 'put_slice', 'setslice'])
                if r is None:
                    continue
                fld = r.get('field') or (r['path'][-1][0] if r.get('path') else None)
                if fld in SEQ_FIELDS and (r.get('field') or r['path'][-1][1] is not None):
                    break
                r = None
            if r is None:
                continue
            before = root.src
            try:
                edits.apply_edit(root, r)
            except Exception:
                try:
                    if root.src != before:
                        root = FST(before, 'exec')
                except Exception:
                    break
            try:
                ast.parse(root.src)
            except SyntaxError:
                try:
                    root = FST(before, 'exec')
                except Exception:
                    break
        out = rec.recs
    return out


def run_organic(ctx):
    rng = random.Random(ctx.rng.randrange(1 << 30))
    nprog = 400 if ctx.quick else 4000
    progs = corpus.programs(random.Random(rng.randrange(1 << 30)), nprog) + SEP_SNIPPETS * (6 if ctx.quick else 40)
    jobs = [(i, p, rng.randrange(1 << 30), 10 if ctx.quick else 16) for i, p in enumerate(progs)]
    res = pmap(_organic_job, jobs)
    by = {}
    for recs in res:
        for kind, pre, out in recs:
            by.setdefault(kind, []).append((pre, out))
    seen = set()
    for kind, lst in sorted(by.items()):
        cases, reals = [], []
        for pre, out in lst:
            if kind == 'trailSep':
                lines, q, sep, d = pre
                c = {'f': 'C01b.trailSep', 'lines': enc(lines), 'seps': enc([sep]), 'qs': [q + [0, DELS.index(d)]]}
            elif kind == 'insSep':
                lines, q, sep = pre
                c = {'f': 'C01b.insSep', 'lines': enc(lines), 'seps': enc([sep]), 'qs': [q + [0]]}
            elif kind == 'fixTuple':
                c = pre[0]
            elif kind == 'singleton':
                c = pre[0]
            else:
                lines, q = pre
                c = {'f': 'C01b.joined', 'lines': enc(lines), 'extra': _extra_chars(lines), 'qs': [q]}
            key = repr(c)
            if key in seen:
                continue
            seen.add(key)
            cases.append(c)
            reals.append(out)
        outs = ctx.lean(cases)
        nbad = 0
        firsts = {}
        for c, ro, o in zip(cases, reals, outs):
            mo = o.get('out', o)
            if kind in ('trailSep', 'insSep', 'joined') and isinstance(mo, list) and mo:
                mo = mo[0]
                if kind == 'trailSep' and isinstance(mo, list) and len(mo) == 3:
                    mo = [mo[0], mo[2]]
            if kind == 'singleton' and isinstance(mo, list) and len(mo) == 2:
                mo = mo[1]
            changed = (ro[-1] if kind not in ('singleton', 'joined') else ro)[1:] != [0, []]
            ctx.count(('organic', kind, c), changed)
            if mo != ro:
                nbad += 1
                _note_bad(ctx, firsts, {'corr': f'organic.{kind}', 'case': _readable(c), 'model': mo, 'impl': ro})
                ctx.hints.append((f'organic.{kind}', c))
        ctx.corr_cases += len(cases)
        ctx.tally('correspondence_cases', f'organic.{kind}')
        ctx.dist['correspondence_cases'][f'organic.{kind}'] = len(cases)
        if nbad:
            first = list(firsts.values())[0]
            ctx.brk('correspondence', f'Pfst.Sep model vs FST.{kind} observed inside real slice edits',
                    f'{nbad}/{len(cases)} calls differ; first: {first}')


# ---------------------------------------------------------------------------------------------------------------------
# lines: `_fix_joined_alnums`, `_maybe_add_line_continuations`
# ---------------------------------------------------------------------------------------------------------------------

JALPHA = ['a', '1', '_', '.', ' ', 'é', ',', '·', '(', 'ः']


def _joined_job(arg):
    text, = arg
    lines = text.split('\n')
    root = _fresh_min()
    qs, outs = [], []
    pos = _positions(lines)
    for (ln, col) in pos:
        for end in [None] + pos:
            _set_lines(root, lines)
            try:
                if end is None:
                    root._fix_joined_alnums(ln, col)
                else:
                    root._fix_joined_alnums(ln, col, end[0], end[1])
                new = [str(l) for l in root._lines]
                out = line_diff(lines, new)
            except Exception as ex:
                out = ['EXC', type(ex).__name__]
                new = None
            if new != lines:
                root = _fresh_min()
            qs.append([ln, col, 0 if end is None else 1, end[0] if end else 0, end[1] if end else 0])
            outs.append(out)
    return {'f': 'C01b.joined', 'lines': enc(lines), 'extra': _extra_chars(lines), 'qs': qs}, outs


def _linecont_exprs(rng, n):
    """multi-line expression sources (root FST in mode 'expr'): operators at line ends / starts, comments, existing
    continuations, enclosed parts, trailing blanks, multi-byte text"""
    atoms = ['a', 'b', 'é', 'f(x,\n  y)', '[1,\n 2]', '(c +\n d)', "'s # no'", 'g(z)', '"""m\nl"""']
    ops = [' + ', ' - ', ' * ', ' and ', ' if x else ', ', ']
    out = []
    for _ in range(n):
        k = rng.randint(2, 5)
        s = rng.choice(atoms)
        for _ in range(k - 1):
            op = rng.choice(ops)
            brk = rng.choice(['', '', '\n', ' \n ', '  # c\n', ' # c \\\n', ' \\\n', '\n\n', '\t\n', ' #\n  '])
            if rng.random() < 0.5:
                s += op.rstrip() + brk + (' ' if not brk else '') + rng.choice(atoms)
            else:
                s += brk + op.lstrip() + rng.choice(atoms)
        out.append(s)
    return out


def _linecont_job(arg):
    src, = arg
    from fst import FST
    res = []
    for kw in ({}, {'add_lconts': False}, {'whole': True}):
        try:
            root = FST(src, 'expr')
        except Exception:
            return res
        lines = [str(l) for l in root._lines]
        end_cols = {}
        for f in root.walk(True):
            if f.loc is not None:
                end_cols[f.loc[2]] = max(end_cols.get(f.loc[2], 0), f.loc[3])
        try:
            r = root._maybe_add_line_continuations(**kw)
        except Exception as ex:
            res.append(('EXC', src, kw, type(ex).__name__))
            continue
        new = [str(l) for l in root._lines]
        if len(new) != len(lines):
            res.append(('LEN', src, kw, new))
            continue
        qs = [[i, end_cols.get(i, 0), 1, 0 if kw.get('add_lconts') is False else 1] for i in range(len(lines))]
        res.append(('OK', src, kw, {'f': 'C01b.lineCont', 'lines': enc(lines), 'qs': qs}, new, lines, bool(r)))
    return res


def run_lines(ctx):
    rng = random.Random(ctx.rng.randrange(1 << 30))
    # _fix_joined_alnums: every line block up to a length, every position pair
    maxlen = 3 if ctx.quick else 4
    texts = ['']
    for n in range(1, maxlen + 1):
        texts.extend(''.join(t) for t in itertools.product(JALPHA, repeat=n))
    texts.extend(''.join(rng.choice(JALPHA + ['\n']) for _ in range(rng.randint(4, 9))) for _ in range(200 if ctx.quick else 2000))
    res = pmap(_joined_job, [(t,) for t in texts])
    cases = [c for c, _ in res]
    outs = ctx.lean(cases)
    nbad = n = 0
    firsts = {}
    for (c, real), o in zip(res, outs):
        m = o.get('out', o)
        for q, mo, ro in zip(c['qs'], m if isinstance(m, list) else [m] * len(real), real):
            n += 1
            if mo != ro:
                nbad += 1
                _note_bad(ctx, firsts, {'corr': 'lines.joined', 'lines': _readable(c)['lines'], 'q': q, 'model': mo, 'impl': ro})
    ctx.corr_cases += n
    ctx.count(('lines.joined', maxlen), True, n)
    ctx.tally('correspondence_cases', 'lines.joined')
    ctx.dist['correspondence_cases']['lines.joined'] = n
    if nbad:
        first = firsts['lines.joined']
        ctx.brk('correspondence', 'Pfst.Sep.fixJoinedAlnums vs FST._fix_joined_alnums', f'{nbad}/{n} calls differ; first: {first}')
    # _maybe_add_line_continuations: every line the real function rewrote must be what the line model says (which lines
    # it looks at is decided by the tree: enclosed lines and the last line are left alone)
    srcs = _linecont_exprs(rng, 400 if ctx.quick else 4000)
    res = pmap(_linecont_job, [(s,) for s in srcs])
    cases, metas = [], []
    for lst in res:
        for r in lst:
            if r[0] == 'OK':
                cases.append(r[3])
                metas.append(r)
            else:
                ctx.tally('c01b_linecont', r[0])
    outs = ctx.lean(cases)
    nbad = n = nrew = 0
    for r, o in zip(metas, outs):
        _, src, kw, c, new, lines, ret = r
        m = o.get('out', o)
        last = len(lines) - 1
        for i, (old_l, new_l) in enumerate(zip(lines, new)):
            n += 1
            mo = m[i]
            model_l = None if mo is None else dec_line(mo)
            if new_l != old_l:
                nrew += 1
                if model_l != new_l or i == last:
                    nbad += 1
                    _note_bad(ctx, firsts, {'corr': 'lines.lineCont', 'src': src, 'kw': kw, 'line': i, 'old': old_l,
                                            'impl': new_l, 'model': model_l})
    ctx.corr_cases += n
    ctx.count(('lines.lineCont', len(srcs)), True, nrew)
    ctx.tally('correspondence_cases', 'lines.lineCont')
    ctx.dist['correspondence_cases']['lines.lineCont'] = n
    ctx.notes['c01b_linecont'] = {'expressions': len(srcs), 'lines': n, 'rewritten_lines_compared': nrew}
    if nbad:
        first = firsts['lines.lineCont']
        ctx.brk('correspondence', 'Pfst.Sep.lineContLine vs the lines FST._maybe_add_line_continuations rewrote',
                f'{nbad}/{n} lines differ; first: {first}')


def _compare(ctx, name, title, cases, reals, nontrivial=None):
    """one model answer per case"""
    if not cases:
        return
    outs = ctx.lean(cases)
    nbad = 0
    firsts = {}
    for c, ro, o in zip(cases, reals, outs):
        mo = o.get('out', o)
        ctx.count((name, c), True if nontrivial is None else nontrivial(c, ro))
        if mo != ro:
            nbad += 1
            _note_bad(ctx, firsts, {'corr': name, 'case': _readable(c), 'model': mo, 'impl': ro})
            ctx.hints.append((name, c))
    ctx.corr_cases += len(cases)
    ctx.tally('correspondence_cases', name)
    ctx.dist['correspondence_cases'][name] = len(cases)
    ctx.sample({'corr': name, 'case': _readable(cases[0]), 'impl': reals[0]})
    if nbad:
        first = firsts[name]
        ctx.brk('correspondence', title, f'{nbad}/{len(cases)} cases differ; first: {first}')


def _readable(c):
    d = dict(c)
    if 'lines' in d:
        d['lines'] = [dec_line(l) for l in d['lines']]
    return d


def replay_c01b(ctx, data):
    """re-run the job that produced a C01b witness; the failure is reported again while the implementation still fails"""
    w = data.get('witness') or {}
    job = w.get('job')
    if not job:
        return
    kind, arg = job
    if kind == 'corpus':
        r = _corpus_job(tuple(arg))
        fails = r['fails'] if r else []
    else:
        fails = _tuple_job(tuple(arg))[2]
    want = data.get('signature')
    for sig, what, wit in fails:
        if want in (None, 'replay', sig):
            ctx.fail('replay' if want in (None, 'replay') else sig, what, wit)
            return


def correspondence_c01b(ctx):
    run_blocks(ctx)
    run_corpus(ctx)
    run_tuples(ctx)
    run_organic(ctx)
    run_lines(ctx)
