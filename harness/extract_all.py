"""Regenerate every lean/Pfst/Gen/*.lean from /repo's working tree (used by setup.sh; each check also runs its own)."""
import importlib
import sys
import traceback
import warnings
from pathlib import Path

warnings.filterwarnings('ignore')
sys.path.insert(0, str(Path(__file__).resolve().parent))
import framework  # noqa: E402

framework.setup_repo_path()
for f in sorted((Path(__file__).resolve().parent / 'props').glob('C??.py')):
    mod = importlib.import_module(f'props.{f.stem}')
    if hasattr(mod, 'extract'):
        try:
            mod.extract(framework.Ctx(f.stem, 'quick', 0))
            print('extracted', f.stem)
        except Exception:
            traceback.print_exc()
framework.gen_drv_index()
