"""C08 helpers: programs with multi-line str / bytes expression statements in indented blocks, the multi-line string
tokens of a program as CPython sees them (for the `Pfst.Indentable` model), and a dump that ignores exactly what pfst
is allowed to change when it re-indents a statement (the text of docstrings)."""

import ast
import io
import tokenize

# (header lines, indentation of the body, lines that follow the body at the same depth as the innermost header or above)
BLOCKS = {
    'def': (['def f():'], '    ', []),
    'class': (['class C:'], '    ', ['z = 0']),
    'if': (['if x:'], '    ', ['else:', '    pass']),
    'class-def': (['class C:', '    def m(self):'], '        ', ['    def other(self):', '        return 2']),
    'def-if': (['def f():', '    if x:'], '        ', ['    return 3']),
    'try': (['try:'], '  ', ['finally:', '  pass']),
    'class-tab': (['class C:'], '\t', []),
    'while-def-for': (['while a:', '   def g():', '      for i in j:'], '         ', ['   break']),
}
PREFIXES = ['', 'b', 'rb', 'B']
FORMS = ['triple-dq', 'triple-sq', 'backslash', 'paren']
POSITIONS = ['first', 'nonfirst', 'last']


def _cont_indents(ind):
    """indentation of the continuation lines: none, less than the block, the block's, more"""
    less = ind[:len(ind) // 2] if len(ind) > 1 else ''
    return ['', less, ind, ind + '  '] if less else ['', ind, ind + '  ']


def literal(prefix, form, ci):
    """source text of the literal (first line without indentation) or None if the combination does not exist"""
    if form == 'triple-dq':
        return f'{prefix}"""l0 \\x41\n{ci}mid\n\n{ci}tail"""'
    if form == 'triple-sq':
        return f"{prefix}'''\n{ci}only\n{ci}'''"
    if form == 'backslash':
        if 'r' in prefix.lower():
            return None
        return f"{prefix}'ab\\\n{ci}cd\\\n{ci}'"
    if form == 'paren':
        return f"({prefix}'a'\n{ci} {prefix}'b'  # c\n{ci})"
    raise ValueError(form)


def programs():
    """[(meta, src)] — deterministic; every source parses"""
    out = []
    for bname, (heads, ind, after) in BLOCKS.items():
        for prefix in PREFIXES:
            for form in FORMS:
                for ci in _cont_indents(ind):
                    lit = literal(prefix, form, ci)
                    if lit is None:
                        continue
                    for pos in POSITIONS:
                        body = []
                        if pos != 'first':
                            body.append(ind + 'x = 1')
                        body.append(ind + lit)
                        if pos != 'last':
                            body.append(ind + 'y = 2  # t')
                        src = '\n'.join(heads + body + after) + '\n'
                        try:
                            ast.parse(src)
                        except SyntaxError:
                            continue
                        meta = {'block': bname, 'prefix': prefix, 'form': form, 'ci': ci, 'pos': pos,
                                'bytes': 'b' in prefix.lower(), 'depth': len(heads)}
                        out.append((meta, src))
    return out


def target_paths(meta):
    """paths (lists of [field, idx]) of the literal statement and of every enclosing statement, innermost first"""
    depth = meta['depth']
    idx = 0 if meta['pos'] == 'first' else 1
    chain = [['body', 0]] * depth + [['body', idx]]
    return [chain[:k] for k in range(len(chain), 0, -1)]


# ---- multi-line string tokens (input of Pfst.Indentable) ----------------------------------------------------------

KIND_DOCFIRST, KIND_DOCOTHER, KIND_BYTES, KIND_OTHER = 0, 1, 2, 3
_DOC_HOSTS = (ast.Module, ast.FunctionDef, ast.AsyncFunctionDef, ast.ClassDef)


def string_tokens(src):
    """[[kind, first_line, last_line]] (0-based lines) for every multi-line STRING token and every multi-line f-string,
    kinds by the AST node the token belongs to.  CPython tokenizer + ast only."""
    tree = ast.parse(src)
    lines = src.split('\n')

    def boff(ln0, col):     # character column -> byte column
        return len(lines[ln0][:col].encode())

    consts = []     # (start, end, kind) in (line0, bytecol)
    for parent in ast.walk(tree):
        for field, val in ast.iter_fields(parent):
            vals = val if isinstance(val, list) else [val]
            for i, c in enumerate(vals):
                if not isinstance(c, ast.Constant) or not isinstance(c.value, (str, bytes)):
                    continue
                if c.end_lineno == c.lineno:
                    continue
                kind = KIND_OTHER
                if isinstance(parent, ast.Expr):
                    if isinstance(c.value, bytes):
                        kind = KIND_BYTES
                    else:
                        kind = KIND_DOCOTHER
                consts.append(((c.lineno - 1, c.col_offset), (c.end_lineno - 1, c.end_col_offset), kind, parent))
    # docstring position: Expr is body[0] of a def / class / module
    first_exprs = set()
    for n in ast.walk(tree):
        if isinstance(n, _DOC_HOSTS) and n.body and isinstance(n.body[0], ast.Expr):
            first_exprs.add(id(n.body[0]))
    out = []
    fdepth = 0
    fstart = None
    for t in tokenize.generate_tokens(io.StringIO(src).readline):
        name = tokenize.tok_name[t.type]
        if name in ('FSTRING_START', 'TSTRING_START'):
            if fdepth == 0:
                fstart = t.start[0] - 1
            fdepth += 1
        elif name in ('FSTRING_END', 'TSTRING_END'):
            fdepth -= 1
            if fdepth == 0 and t.end[0] - 1 > fstart:
                out.append([KIND_OTHER, fstart, t.end[0] - 1])
        elif t.type == tokenize.STRING and fdepth == 0 and t.end[0] > t.start[0]:
            ln0 = t.start[0] - 1
            pos = (ln0, boff(ln0, t.start[1]))
            kind = KIND_OTHER
            for s, e, k, parent in consts:
                if s <= pos < e:
                    kind = k
                    if k == KIND_DOCOTHER and id(parent) in first_exprs:
                        kind = KIND_DOCFIRST
                    break
            out.append([kind, ln0, t.end[0] - 1])
    return out


# ---- the dump that forgives docstring text ------------------------------------------------------------------------

def nodoc_dump(node, strict=False):
    """ast.dump with the value of every re-indentable docstring replaced by a placeholder: all `str` expression statements
    (docstr=True) or only those that are the first statement of a def / class / module (strict). Everything else — bytes
    statements, strings in assignments and calls — is compared exactly."""
    import copy
    node = copy.deepcopy(node)
    firsts = set()
    for n in ast.walk(node):
        if isinstance(n, _DOC_HOSTS) and n.body and isinstance(n.body[0], ast.Expr):
            firsts.add(id(n.body[0]))
    for n in ast.walk(node):
        if isinstance(n, ast.Expr) and isinstance(n.value, ast.Constant) and isinstance(n.value.value, str):
            if not strict or id(n) in firsts:
                n.value.value = '<doc>'
    return ast.dump(node)
