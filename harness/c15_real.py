"""C15 helper: run a scripted consumer against the real `FST.walk` and record (a) what the model needs to replay the
same run (numbered trees, resolved actions) and (b) the verdicts of the property oracle, which uses only CPython's `ast`
for navigation (reachability, document order) and `util.soc` for child order.

A *case* is a dict:
  src, wroot (child-index path from the tree root to the walk root), on, self_, recurse, back, all ('F'|'T'|'N'),
  scope (bool), script: [[k, [act, ...]], ...]  with act = ['send', b] | ['replace', target, code] | ['remove', target]
  target in TARGETS (relative to the node yielded at step k).
"""

from __future__ import annotations

import ast

import util

TARGETS = ['cur', 'parent', 'gparent', 'root', 'prev', 'next', 'child0', 'childN', 'pprev', 'pnext', 'first', 'wroot']
_NOVIS = (ast.expr_context, ast.boolop, ast.operator, ast.unaryop, ast.cmpop)


def vis_of(a, all_):
    if all_ == 'T':
        return True
    if all_ == 'N':
        return a.__class__ is ast.Name
    if all_ == 'L':
        return a.__class__ is ast.List
    if all_ == 'LN':
        return a.__class__ in (ast.List, ast.Name)
    if isinstance(a, _NOVIS):
        return False
    if a.__class__ is ast.arguments:
        return bool(a.args or a.vararg or a.kwonlyargs or a.kwarg or a.posonlyargs)
    return True


def all_param(all_):
    return {'T': True, 'F': False, 'N': ast.Name, 'L': ast.List, 'LN': {ast.List, ast.Name}}[all_]


def search_pattern(all_):
    """class-only patterns: every node of these classes matches, so search() == walk(all=classes) + send forwarding"""
    import fst.match as M
    return {'N': M.MName, 'L': M.MList, 'LN': M.MOR(M.MName, M.MList)}[all_]


class Numbering:
    """Stable integer ids for AST and FST objects (objects are kept alive so `id()` is never reused)."""

    def __init__(self, all_):
        self.next = 0
        self.aid = {}
        self.fid = {}
        self.aobj = {}
        self.keep = []
        self.labs = {}
        self.all_ = all_

    def lab(self, a):
        s = a.__class__.__name__
        if a.__class__ is ast.Name:
            s += ':' + a.id
        elif a.__class__ is ast.Constant:
            s += ':' + repr(a.value)[:12]
        return self.labs.setdefault(s, len(self.labs))

    def ser(self, a):
        """[aid, fid, lab, vis, kids] preorder; allocates ids for objects not seen before (AST and FST of a fresh node
        share the number, as in the model's `alloc`)."""
        k = id(a)
        fresh = False
        if k not in self.aid:
            self.aid[k] = self.next
            self.aobj[self.next] = a
            self.next += 1
            self.keep.append(a)
            fresh = True
        f = getattr(a, 'f', None)
        if f is None:
            fi = None       # a linked tree never has this; reported by the caller through `wf`
        else:
            kf = id(f)
            if kf not in self.fid:
                if fresh:
                    self.fid[kf] = self.aid[k]
                else:
                    self.fid[kf] = self.next
                    self.next += 1
                self.keep.append(f)
            fi = self.fid[kf]
        return [self.aid[k], fi, self.lab(a), vis_of(a, self.all_), [self.ser(c) for c in util.soc(a)]]

    def shape(self, a):
        return [self.lab(a), vis_of(a, self.all_), [self.shape(c) for c in util.soc(a)]]


def _parents(root_ast):
    par = {}
    st = [root_ast]
    while st:
        n = st.pop()
        for c in util.soc(n):
            par[id(c)] = n
            st.append(c)
    return par


def _pos_key(c):
    """position of the node, or of its first positioned descendant (comprehension, arguments, withitem, match_case have
    no position of their own); None if nothing below has a position (expr_context, operators, empty arguments)"""
    if hasattr(c, 'lineno'):
        return (c.lineno, c.col_offset, -(c.end_lineno or 0), -(c.end_col_offset or 0))
    best = None
    for d in ast.walk(c):
        if hasattr(d, 'lineno'):
            k = (d.lineno, d.col_offset, -(d.end_lineno or 0), -(d.end_col_offset or 0))
            if best is None or k < best:
                best = k
    return best


def _doc_children(a):
    """orderable children in document order (independent of pfst)"""
    ch = [(k, i, c) for i, c in enumerate(ast.iter_child_nodes(a)) if (k := _pos_key(c)) is not None]
    ch.sort(key=lambda e: (e[0], e[1]))
    return [c for _, _, c in ch]


def _reachable(root_ast):
    return {id(n) for n in ast.walk(root_ast)}


def resolve_targets(root_ast, cur_ast, first_ast, wroot_ast):
    """selector -> AST object (or None) relative to the node just yielded"""
    par = _parents(root_ast)
    t = dict.fromkeys(TARGETS)
    t['cur'] = cur_ast
    t['root'] = root_ast
    t['first'] = first_ast
    t['wroot'] = wroot_ast
    p = par.get(id(cur_ast))
    t['parent'] = p
    if p is not None:
        sib = util.soc(p)
        i = next(j for j, s in enumerate(sib) if s is cur_ast)
        vs = [s for s in sib if not isinstance(s, _NOVIS)]
        if cur_ast in vs:
            j = vs.index(cur_ast)
            t['prev'] = vs[j - 1] if j > 0 else None
            t['next'] = vs[j + 1] if j + 1 < len(vs) else None
        g = par.get(id(p))
        t['gparent'] = g
        if g is not None:
            vs = [s for s in util.soc(g) if not isinstance(s, _NOVIS)]
            if p in vs:
                j = vs.index(p)
                t['pprev'] = vs[j - 1] if j > 0 else None
                t['pnext'] = vs[j + 1] if j + 1 < len(vs) else None
    ch = [s for s in util.soc(cur_ast) if not isinstance(s, _NOVIS)]
    if ch:
        t['child0'] = ch[0]
        t['childN'] = ch[-1]
    return t


SLICE_CODE = {'Dict': '{zz: yy}', 'MatchMapping': '{1: zz}', 'Compare': 'zz < yy', 'Call': 'zz, kk=yy', 'ClassDef': 'zz, kk=yy',
              'arguments': 'zz, yy=1', 'MatchClass': 'zz, kk=yy', 'Module': 'zz\nyy', 'If': 'zz\nyy', 'FunctionDef': 'zz\nyy',
              'With': 'zz as yy', 'Import': 'zz, yy', 'Delete': 'zz, yy', 'Assign': 'zz = yy =', 'BoolOp': 'zz and yy',
              'Global': 'zz, yy', 'Try': 'zz\nyy', 'Match': 'case zz: pass'}


def _by_pos(nodes):
    return sorted(nodes, key=lambda n: (n.lineno, n.col_offset))


def slice_site(ta):
    """(parent FST, (virtual) list field, index, length) of the element or key:value pair `ta` belongs to, or None.
    Paired / merged containers are addressed through their virtual fields (Dict._all, MatchMapping._all, Compare._all,
    Call._args, ClassDef._bases, arguments._all, MatchClass._attrs); plain list fields by their own name."""
    f = ta.f
    pf = f.parent
    if pf is None or f.pfield is None:
        return None
    p = pf.a
    name, idx = f.pfield.name, f.pfield.idx
    cls = p.__class__
    if cls is ast.Dict:
        return (pf, '_all', idx, len(p.keys)) if idx is not None else None
    if cls is ast.MatchMapping:
        return (pf, '_all', idx, len(p.keys) + (1 if p.rest else 0)) if idx is not None else None
    if cls is ast.Compare:
        if name == 'ops':
            return None
        return pf, '_all', 0 if name == 'left' else idx + 1, len(p.comparators) + 1
    if cls is ast.Call and name in ('args', 'keywords'):
        al = _by_pos(p.args + p.keywords)
        return pf, '_args', al.index(ta), len(al)
    if cls is ast.ClassDef and name in ('bases', 'keywords'):
        al = _by_pos(p.bases + p.keywords)
        return pf, '_bases', al.index(ta), len(al)
    if cls is ast.arguments:
        al = _by_pos(p.posonlyargs + p.args + ([p.vararg] if p.vararg else []) + p.kwonlyargs + ([p.kwarg] if p.kwarg else []))
        return (pf, '_all', al.index(ta), len(al)) if ta in al else None
    if cls is ast.MatchClass and name in ('patterns', 'kwd_patterns'):
        n = len(p.patterns) + len(p.kwd_patterns)
        return pf, '_attrs', idx if name == 'patterns' else len(p.patterns) + idx, n
    if idx is None:
        return None
    lst = getattr(p, name, None)
    if not isinstance(lst, list):
        return None
    return pf, name, idx, len(lst)


def kind_code(ta):
    """replacement source of the same syntactic category as `ta`, with children of its own; the only handler of a try
    statement is replaced by one of the other kind (Try <-> TryStar)"""
    c = ta.__class__
    if c is ast.ExceptHandler:
        p = ta.f.parent.a
        star = p.__class__.__name__ == 'TryStar'
        if len(p.handlers) == 1:
            star = not star
        return ('except* zz as yy:\n    ww' if star else 'except zz as yy:\n    ww')
    if c is ast.match_case:
        return 'case [zz, yy]:\n    ww'
    if c is ast.comprehension:
        return 'for zz in [yy, ww]'
    if c is ast.arg:
        return 'zz'
    if c is ast.arguments:
        return 'zz, yy=ww'
    if c is ast.keyword:
        return 'kk=[zz, yy]'
    if c is ast.withitem:
        return '[zz, yy] as ww'
    if c is ast.alias:
        return 'zz as yy'
    if c is ast.Slice:
        return 'zz:yy'
    if isinstance(ta, ast.stmt):
        return 'if zz:\n    yy'
    if isinstance(ta, ast.pattern):
        return '[zz, yy]'
    if isinstance(ta, ast.type_param):
        return 'ZZ: int'
    return '[zz, yy]'


class ActionRejected(Exception):
    pass


def run_case(case, FST, oracle=True):
    """Run the real walk.  Returns a dict:
       yields: [[fid, aid|None, leaving]], tree0/next0/root_fid, mscriptA (idealised actions), mscriptB (observed trees),
       final (numbered final tree), end ('done'|'cap'|'exc:...'|'rejected'), viol: [(failure class, detail, ctxinfo)],
       last_mut: (action, target)"""
    src = case['src']
    all_ = case.get('all', 'F')
    on = case['on']
    try:
        root = FST(src, case.get('mode', 'exec'))
    except Exception as e:
        return {'end': 'noparse', 'err': repr(e)}
    num = Numbering(all_)
    tree0 = num.ser(root.a)
    next0 = num.next
    wa = root.a
    for i in case.get('wroot', []):
        ch = util.soc(wa)
        if i >= len(ch):
            return {'end': 'nowroot'}
        wa = ch[i]
    wroot = wa.f
    res = {'tree0': tree0, 'next0': next0, 'root_fid': num.fid[id(wroot)], 'yields': [], 'mscriptA': [], 'mscriptB': [],
           'viol': [], 'end': None, 'last_mut': ('none', 'none'), 'n_mut': 0, 'idealA': True}
    script = {}
    for k, acts in case['script']:
        script.setdefault(k, []).extend(acts)
    kw = dict(self_=case.get('self_', True), recurse=case.get('recurse', True), back=case.get('back', False))
    if case.get('scope'):
        kw['scope'] = True
    viol = res['viol']

    def bad(cls, detail, mut=None):
        viol.append((cls, detail, mut or res['last_mut']))

    norm = case.get('norm', True)        # norm=False edits may leave a tree that is not valid Python: no final-tree oracle
    srch = case.get('search')            # {'nested': bool}: the consumer drives FST.search() instead of FST.walk()
    try:
        if srch:
            gen = wroot.search(search_pattern(all_), srch['nested'], on=on, **kw)
        else:
            gen = wroot.walk(all_param(all_), on, **kw)
    except Exception as e:
        res['end'] = 'exc-create:' + type(e).__name__
        return res

    introduced = 0
    seen_enter = set()
    sent_true_on_leave = False
    nested_roots = set()
    seen_leave = set()
    entered_fsts = []
    root_sent_false = False
    any_send_true = False
    # expectations set by the previous yield's actions, checked at the following yields
    expect = None
    first_ast = None
    k = 0
    cap = 40 * (next0 + 8)
    try:
        item = next(gen)
    except StopIteration:
        res['end'] = 'done'
        item = None
    except Exception as e:
        bad('raised', f'next() raised {type(e).__name__}: {e}')
        res['end'] = 'exc:' + type(e).__name__
        item = None
    while item is not None:
        f, leaving = item if on == 'both' else (item, on == 'leave')
        if srch:
            f = getattr(f, 'matched', None)
        if not hasattr(f, 'a') or not hasattr(f, 'pfield'):
            bad('bad-yield', f'yield {k}: the generator yielded {f!r} which is not a node')
            res['end'] = 'bad-yield'
            break
        a = f.a
        if first_ast is None and a is not None:
            first_ast = a
        res['yields'].append([num.fid.get(id(f)), num.aid.get(id(a)) if a is not None else None, bool(leaving)])
        reach = None
        if oracle:
            if a is None or getattr(a, 'f', None) is not f:
                bad('dead-yield', f'yield {k}: node is not alive (f.a={a!r})')
            else:
                reach = _reachable(root.a)
                if id(a) not in reach:
                    bad('detached-yield', f'yield {k}: {a.__class__.__name__} not reachable from the root')
                try:
                    if f.root is not root:
                        bad('root-identity', f'yield {k}: node.root is not the walk tree root')
                except Exception as e:
                    bad('root-identity', f'yield {k}: node.root raised {e!r}')
                if leaving:
                    if (id(f), id(a)) in seen_leave and not sent_true_on_leave:
                        bad('double-leave', f'yield {k}: {a.__class__.__name__} yielded on leaving twice (same FST, same AST) '
                                            'without any send(True)', ('remove', 'collapse') if res.get('moved') else None)
                    seen_leave.add((id(f), id(a)))
                if not leaving:
                    entered_fsts.append((f, k))
                    if id(a) in seen_enter and not sent_true_on_leave:
                        bad('double-entry', f'yield {k}: {a.__class__.__name__} entered twice')
                    seen_enter.add(id(a))
            if expect is not None:
                expect = _check_expect(expect, f, a, leaving, k, bad)
        acts = script.get(k, [])
        # resolve every selector before the first action of this yield
        tg = resolve_targets(root.a, a, first_ast, wroot.a) if (a is not None and acts) else {}
        mA, mB = [], []
        did_send = None
        cur_replaced = cur_removed = False
        cur_new = None
        follow = 'unknown'
        for act in acts:
            if act[0] == 'send':
                try:
                    r = gen.send(act[1])
                except Exception as e:
                    bad('raised', f'send({act[1]}) raised {type(e).__name__}: {e}')
                    res['end'] = 'exc:' + type(e).__name__
                    item = None
                    break
                did_send = act[1]
                if f is wroot and not leaving:
                    root_sent_false = not act[1]
                if act[1]:
                    any_send_true = True
                    if leaving:
                        sent_true_on_leave = True
                mA.append(['send', act[1]])
                mB.append(['send', act[1]])
                continue
            op, sel = act[0], act[1]
            ta = tg.get(sel)
            if ta is None or id(ta) not in _reachable(root.a):
                continue                                   # no such node (any more): action skipped
            tf = ta.f
            if tf is None:
                bad('dead-in-tree', f'yield {k}: node reachable from the root has f=None')
                continue
            before_f = {i: num.fid.get(id(getattr(o, 'f', None))) for i, o in num.aobj.items()}
            if oracle and op == 'remove' and sel == 'cur' and not mA and res['n_mut'] == 0:
                # (only as the first mutation of a run: nodes replaced before they were reached are legitimately skipped)
                follow = _following(wroot.a, a, all_, case.get('back', False))
            try:
                if op == 'replace':
                    ret = tf.replace(kind_code(ta) if act[2] == '@kind' else act[2], norm=norm)
                    if ta is a:
                        cur_new = getattr(ret, 'a', None)      # the single node the current node was replaced with
                elif op == 'delfield':
                    tf.put_slice(None, 0, 'end', act[2], norm=norm)     # delete every element of a (virtual) list field
                elif op in ('delslice', 'putslice'):
                    site = slice_site(ta)
                    if site is None:
                        continue
                    pf, field, idx, n = site
                    stop = min(idx + act[2], n)
                    code = None if op == 'delslice' else SLICE_CODE.get(pf.a.__class__.__name__, '[zz, yy]')
                    pf.put_slice(code, idx, stop, field, norm=norm)
                else:
                    tf.remove(norm=norm)
            except Exception as e:
                res['end'] = 'rejected'
                res['rejected'] = f'{op} {sel}: {type(e).__name__}: {e}'
                return res
            if ta is a:
                sel = 'cur'            # the selector resolved to the node just yielded
            res['last_mut'] = (op, sel)
            res['n_mut'] += 1
            old_next = num.next
            tid = num.aid[id(ta)]
            t_now = num.ser(root.a)
            introduced += num.next - old_next
            mB.append(['settree', t_now, num.next])
            for i, o in num.aobj.items():
                fo = getattr(o, 'f', None)
                if i in before_f and fo is not None and before_f[i] is not None and num.fid.get(id(fo)) != before_f[i]:
                    res['moved'] = True        # an existing AST was re-homed into another FST (e.g. BoolOp collapse)
            st = [t_now]
            while st:
                t = st.pop()
                if t[0] >= old_next and any(kk[0] < old_next for kk in t[4]):
                    res['moved'] = True        # a fresh AST adopted existing children (in-place Try <-> TryStar switch)
                st.extend(t[4])
            if op in ('delslice', 'putslice', 'delfield'):
                res['idealA'] = False                      # slice edit: the model follows the observed tree
                mA.append(['settree', t_now, num.next])
            elif op == 'replace':
                na = tf.a
                if na is None or id(na) not in num.aid or num.aid[id(na)] != old_next:
                    res['idealA'] = False                  # not a "same FST, fresh AST" replacement
                    mA.append(['settree', t_now, num.next])
                else:
                    mA.append(['replace', tid, num.shape(na)])
                if sel == 'cur':
                    cur_replaced = True
            else:
                mA.append(['remove', tid])
                if sel == 'cur':
                    cur_removed = True
            if oracle:
                _check_wf(root, num, bad, k)
        else:
            if srch and not srch['nested'] and did_send is None:
                did_send = False        # search(nested=False) sends False itself when the consumer did not send
                if f is wroot and not leaving:
                    root_sent_false = True
                if not leaving:
                    acts = acts or [['send', False]]
            if oracle and a is not None and not leaving and acts:
                expect = _make_expect(case, root, f, a, did_send, cur_replaced, cur_removed, any_send_true, acts, wroot, follow, cur_new, res.get('moved'))
            elif oracle and a is not None and leaving and did_send is True and not case.get('scope'):
                is_gen_root = f is wroot or id(f) in nested_roots
                if on == 'both' and not case.get('recurse', True):
                    nested_roots.add(id(f))     # its repeat walk is a generator of its own, rooted at this node
                expect = _make_rewalk(case, root, f, is_gen_root, cur_replaced)
            elif oracle and acts:
                expect = None
        if item is None:
            break
        if mA:
            res['mscriptA'].append([k, mA])
            res['mscriptB'].append([k, mB])
        k += 1
        if k > cap:
            res['end'] = 'cap'
            bound_ok = sent_true_on_leave
            if not bound_ok:
                bad('unbounded', f'more than {cap} yields')
            break
        try:
            item = next(gen)
        except StopIteration:
            res['end'] = 'done'
            break
        except Exception as e:
            bad('raised', f'next() raised {type(e).__name__}: {e}')
            res['end'] = 'exc:' + type(e).__name__
            break
    if oracle and res['end'] == 'done':
        if expect is not None:
            _check_expect(expect, None, None, None, k, bad)
        n_enter = sum(1 for y in res['yields'] if not y[2])
        n_leave = len(res['yields']) - n_enter
        limit = next0 + introduced
        if not sent_true_on_leave and (n_enter > limit or n_leave > limit):
            bad('unbounded', f'{n_enter} entry / {n_leave} leaving yields > {limit} = initial nodes + introduced nodes')
        if on == 'both' and not case.get('scope'):
            # every node that was entered and is still in the tree at the end must have been left
            reach = _reachable(root.a)
            left = {y[0] for y in res['yields'] if y[2]}
            for fo, lv0 in entered_fsts:
                fa = fo.a
                if (fa is not None and getattr(fa, 'f', None) is fo and id(fa) in reach and vis_of(fa, all_)
                        and num.fid.get(id(fo)) not in left):
                    bad('enter-without-leave', f'{fa.__class__.__name__} was yielded on entering but never on leaving',
                        ('send-false', 'root') if (fo is wroot and root_sent_false) else None)
                    break
        d = final_oracle(root, case.get('mode', 'exec')) if norm else None
        if d:
            bad('final-tree', d)
    res['final'] = num.ser(root.a)
    res['final_next'] = num.next
    res['introduced'] = introduced
    res['final_src'] = root.src
    return res


def final_oracle(root, mode):
    """C01 oracle: the source parsed from scratch equals the live tree (structure and positions)."""
    if mode == 'exec':
        return util.tree_equals_parse(root)
    try:
        ref = ast.parse(root.src, mode='eval').body
    except SyntaxError as e:
        return f'source no longer parses: {e}'
    d1, d2 = util.dump_pos(root.a), util.dump_pos(ref)
    if d1 != d2:
        s1, s2 = util.dump(root.a), util.dump(ref)
        return ('structure differs ' + util.first_diff(s1, s2)) if s1 != s2 else ('positions differ ' + util.first_diff(d1, d2))
    return None


def _check_wf(root, num, bad, k):
    """store contract after a mutation: everything reachable is linked both ways and has this root; every known AST that is
    no longer reachable is dead (`f is None`) -- "detached nodes are marked dead"."""
    reach = {}
    for n in ast.walk(root.a):
        reach[id(n)] = n
        f = getattr(n, 'f', None)
        if f is None or f.a is not n:
            bad('link', f'after mutation at yield {k}: reachable {n.__class__.__name__} is not linked to a live FST')
            return
    for i, obj in num.aobj.items():
        if id(obj) not in reach and getattr(obj, 'f', None) is not None:
            bad('not-unmade', f'after mutation at yield {k}: detached {obj.__class__.__name__} still has f (not marked dead)')
            return


# ---- expectations about the yields that follow an action on the current node -------------------------------------------

def _vis_desc(a, all_, back):
    """visible proper descendants in walk order (document order; reversed sibling order for back)"""
    out = []

    def go(n):
        ch = _doc_children(n)
        if back:
            ch = ch[::-1]
        for c in ch:
            if vis_of(c, all_):
                out.append(c)
            go(c)

    go(a)
    return out


def _has_fstring(a):
    """positions inside f-strings (debug `{x = }` text, nested format specs) do not give a reliable document order"""
    return any(n.__class__.__name__ in ('JoinedStr', 'TemplateStr') for n in ast.walk(a))


def _following(wroot_ast, cur_ast, all_, back):
    """the visible node that follows the subtree of `cur_ast` in walk order below the walk root (None: nothing follows;
    'unknown': cannot tell)"""
    if wroot_ast is None or cur_ast is wroot_ast or _has_fstring(wroot_ast):
        return 'unknown'
    order = _vis_desc(wroot_ast, all_, back)
    idx = next((i for i, n in enumerate(order) if n is cur_ast), None)
    if idx is None:
        return 'unknown'
    inside = {id(n) for n in ast.walk(cur_ast)}
    return [n for n in order[idx + 1:] if id(n) not in inside]     # candidates; the first one still in the tree afterwards


def _make_expect(case, root, f, a, did_send, cur_replaced, cur_removed, any_send_true, acts, wroot, follow='unknown', cur_new=None, moved=False):
    """What must follow the entry yield of `f` given what the consumer did to it (only single-purpose scripts at this
    yield: the checks apply when the only tree change at this yield was on the current node, or none)."""
    muts = [x for x in acts if x[0] != 'send']
    if len(muts) > 1:
        return None
    sibling_edit = False
    if muts and muts[0][1] != 'cur':
        # a replace / remove of a SIBLING (of this node or of its parent): this node is untouched, its children are still
        # to be walked (only for single-node edits and while the node is still in the tree)
        if muts[0][0] not in ('replace', 'remove') or muts[0][1] not in ('prev', 'next', 'pprev', 'pnext') or cur_replaced or cur_removed:
            return None
        if id(a) not in _reachable(root.a) or moved:
            return None             # gone, or re-homed into the parent's FST by a collapse (finding C15-F3)
        sibling_edit = True
    if case.get('scope'):
        # with scope=True only the send(True) rule is checked (what is walked without it depends on the scope rules,
        # which the oracle does not know); this includes the first iterator of a comprehension, yielded by walk_Comp
        scope_ok = did_send is True
    else:
        scope_ok = True
    all_ = case.get('all', 'F')
    back = case.get('back', False)
    is_wroot = f is wroot
    recurse = case.get('recurse', True)
    if cur_removed:
        if (follow == 'unknown' or any_send_true or did_send is not None or not recurse or case.get('scope')
                or case['on'] == 'leave'):
            return None
        reach = _reachable(root.a)      # the removal may have taken other subtrees with it (Raise.exc -> cause, ...)
        follow = next((n for n in follow if id(n) in reach), None)
        return {'kind': 'removed', 'follow': follow, 'f': f}
    # the node now at this position: what the single-item replace returned, else the untouched AST (NOT `f.a`: the
    # walk docs promise that the FST of a replaced node stays; if it does not, the children are not walked and that is
    # exactly what this expectation reports)
    na = cur_new if (cur_replaced and cur_new is not None) else (a if sibling_edit else f.a)
    if na is None or _has_fstring(na) or id(na) not in _reachable(root.a):
        return None
    desc = _vis_desc(na, all_, back)
    if did_send is False:
        return {'kind': 'skip', 'ids': {id(d) for d in ast.walk(na)} - {id(na)}, 'f': f} if scope_ok else None
    if did_send is None and any_send_true and (not recurse or case['on'] != 'enter'):
        return None                 # an earlier send(True) may have switched recursion on (nested walk / root restart)
    will = (did_send is True) or (recurse if not is_wroot else True)
    if not scope_ok:
        return None
    if not will:
        return {'kind': 'skip', 'ids': {id(d) for d in ast.walk(na)} - {id(na)}, 'f': f}
    full = (did_send is True) or recurse           # whole subtree, or first level only (walk root with recurse=False)
    if not full:
        desc = [c for c in (_doc_children(na)[::-1] if back else _doc_children(na)) if vis_of(c, all_)]
    return {'kind': 'children', 'want': desc, 'i': 0, 'replaced': cur_replaced, 'sent': did_send, 'f': f,
            'cls': 'scope-children-not-walked' if case.get('scope') and cur_replaced else None}


def _post_vis(a, all_, back):
    """visible proper descendants in leave (post-) order, document order per level (reversed for back)"""
    out = []

    def go(n):
        ch = _doc_children(n)
        if back:
            ch = ch[::-1]
        for c in ch:
            go(c)
            if vis_of(c, all_):
                out.append(c)

    go(a)
    return out


def _make_rewalk(case, root, f, is_gen_root, cur_replaced):
    """send(True) on a LEAVING yield: the children of the node -- as they are now, i.e. the NEW children if the consumer
    replaced the node in this step -- are walked again and then the node is yielded again (walk docstring, `on`).
    Expected sequence from plain `ast`, after all actions of this step.  Nothing is expected if the node is gone."""
    na = f.a
    if na is None or getattr(na, 'f', None) is not f or id(na) not in _reachable(root.a) or _pos_key(na) is None:
        return None                 # gone, or a position-less leaf (ctx / operator under all=True): nothing to order
    if _has_fstring(na):
        return None
    all_, back = case.get('all', 'F'), case.get('back', False)
    pre = 'root-' if is_gen_root else ''
    mut = ('replace', 'cur') if cur_replaced else None      # the cause, whatever else the script did in this step
    if is_gen_root and not util.soc(na):
        return None                 # a childless walk root is not yielded again (nothing to restart)
    if case['on'] == 'leave':
        want = _post_vis(na, all_, back) + ([na] if vis_of(na, all_) else [])
        return {'kind': 'rewalk', 'want': want, 'i': 0, 'cls': pre + 'rewalk-not-walked', 'f': f, 'mut': mut}
    # both: the node is entered again, then its descendants (entries checked in order; leaving yields are skipped)
    if not vis_of(na, all_):
        return None
    want = [na] + _vis_desc(na, all_, back)
    return {'kind': 'children', 'want': want, 'i': 0, 'replaced': False, 'sent': True, 'f': f, 'cls': pre + 'rewalk-not-walked', 'mut': mut}


def _check_expect(ex, f, a, leaving, k, bad):
    """returns the expectation to keep (or None when discharged / cancelled)"""
    if ex['kind'] == 'rewalk':
        want = ex['want']
        if f is None:
            if ex['i'] < len(want):
                bad(ex['cls'], f'walk ended with {len(want) - ex["i"]} node(s) of the repeat walk after send(True) on leaving not yielded', ex.get('mut'))
            return None
        if a is not None and _pos_key(a) is None:
            return ex
        if ex['i'] >= len(want):
            return None
        if a is not want[ex['i']]:
            bad(ex['cls'], f'yield {k}: after send(True) on leaving expected #{ex["i"]} of the repeat walk '
                           f'({want[ex["i"]].__class__.__name__}: current children in leave order, then the node again), got '
                           f'{a.__class__.__name__ if a is not None else None}', ex.get('mut'))
            return None
        ex['i'] += 1
        return ex if ex['i'] < len(want) else None
    if ex['kind'] == 'removed':
        # the walk continues with what followed the removed node's subtree
        if f is None:
            if ex['follow'] is not None:
                bad('not-continued', f'walk ended although {ex["follow"].__class__.__name__} followed the removed node')
            return None
        if leaving or (a is not None and _pos_key(a) is None):
            return ex
        if ex['follow'] is None:
            bad('not-continued', f'yield {k}: {a.__class__.__name__} entered although nothing followed the removed node')
        elif a is not ex['follow']:
            bad('not-continued', f'yield {k}: expected the node that followed the removed one, got {a.__class__.__name__}')
        return None
    if f is None:
        if ex['kind'] == 'children' and ex['i'] < len(ex['want']):
            bad(ex.get('cls') or 'children-not-walked' if ex['replaced'] else (ex.get('cls') or 'send-true-ignored' if ex['sent'] else 'children-not-walked'),
                f'walk ended with {len(ex["want"]) - ex["i"]} expected descendant(s) not yielded', ex.get('mut'))
        return None
    if ex['kind'] == 'skip':
        if a is not None and id(a) in ex['ids']:
            bad('send-false-ignored', f'yield {k}: a descendant of a node that was not to be recursed into was yielded')
            return None
        return None if leaving is False or f is ex['f'] else ex     # discharged at the next entry yield
    if ex['kind'] == 'children':
        if leaving or (a is not None and _pos_key(a) is None):
            return ex               # leaving yields and position-less nodes (ctx, operators with all=True) are not ordered here
        want = ex['want']
        if ex['i'] >= len(want):
            return None
        if a is not want[ex['i']]:
            bad(ex.get('cls') or 'children-not-walked' if ex['replaced'] else (ex.get('cls') or 'send-true-ignored' if ex['sent'] else 'children-not-walked'),
                f'yield {k}: expected descendant #{ex["i"]} of the current node next, got {a.__class__.__name__ if a else None}',
                ex.get('mut'))
            return None
        ex['i'] += 1
        return ex if ex['i'] < len(want) else None
    return None
