"""C10 helpers: edit generation, execution of one raw edit on the real code with run-time recording of what
`_reparse_raw_stmtlike` hands to the parser, the CPython oracle and the classification of failures.

Nothing here edits /repo: the recording wraps module attributes of the imported `fst.fst_raw` at run time and restores
them afterwards.  The oracle (splice, full parse, position comparison) uses only CPython (`ast`).
"""

from __future__ import annotations

import ast
import os
import random
import tokenize

import util

BLOCK_KINDS = ('FunctionDef', 'AsyncFunctionDef', 'ClassDef', 'For', 'AsyncFor', 'While', 'If', 'With', 'AsyncWith',
               'Match', 'Try', 'TryStar', 'ExceptHandler', 'match_case')
STMTLIKE = (ast.stmt, ast.ExceptHandler, ast.match_case)


# ---------------------------------------------------------------------------------------------------------------------
# plain-Python specification of the text splice

def splice(src: str, new: str, ln: int, col: int, end_ln: int, end_col: int) -> str:
    lines = src.split('\n')
    pre = '\n'.join(lines[:ln] + [lines[ln][:col]])
    post = '\n'.join([lines[end_ln][end_col:]] + lines[end_ln + 1:])
    return pre + new + post


def new_end(new: str, ln: int, col: int):
    nl = new.split('\n')
    return (ln, col + len(nl[0])) if len(nl) == 1 else (ln + len(nl) - 1, len(nl[-1]))


def cpy_parse(src):
    try:
        return ast.parse(src), None
    except SyntaxError as e:
        return None, e
    except (ValueError, RecursionError, MemoryError) as e:
        return None, e


def syntax_kind(e) -> str:
    """coarse, stable class of a CPython rejection (used inside signatures)"""
    if isinstance(e, TabError):
        return 'TabError'
    if isinstance(e, IndentationError):
        m = str(e.msg)
        if 'unindent does not match' in m:
            return 'unindent-mismatch'
        if 'unexpected indent' in m:
            return 'unexpected-indent'
        if 'expected an indented block' in m:
            return 'expected-indented-block'
        return 'IndentationError'
    if isinstance(e, SyntaxError):
        return 'SyntaxError'
    return type(e).__name__


# ---------------------------------------------------------------------------------------------------------------------
# run-time recording (no source hook): what the raw reparse hands to the parser

class Recorder:
    """Wraps `fst_raw._reparse_raw_base`, `fst_raw.parse_match_case`, `fst_raw.parse_ExceptHandler`, `FST.fromsrc` and
    `FST._reparse_raw` while armed."""

    def __init__(self):
        import fst.fst_raw as fr
        from fst import FST
        self.fr = fr
        self.FST = FST
        self.events = []
        self.armed = False
        self.in_base = 0
        self._orig = None

    def __enter__(self):
        fr, FST = self.fr, self.FST
        o_base, o_pmc, o_peh = fr._reparse_raw_base, fr.parse_match_case, fr.parse_ExceptHandler
        o_fromsrc = FST.__dict__['fromsrc']
        o_rr = FST._reparse_raw
        o_stmtlike = fr._reparse_raw_stmtlike
        self._orig = (o_base, o_pmc, o_peh, o_fromsrc, o_rr, o_stmtlike)
        rec = self

        def base(self_, new_lines, ln, col, end_ln, end_col, copy_lines, path, set_ast=True, mode=None, first_lineno=0,
                 first_line_col_delta=0, *rest, **kw):
            ev = None
            if rec.armed:
                root = self_.root
                ev = {'ev': 'base', 'copy_lines': [str(l) for l in copy_lines],
                      'path': None if not path else [[p.name, p.idx] for p in path] if not isinstance(path, str) else path,
                      'set_ast': bool(set_ast), 'mode': None if mode is None else getattr(mode, '__name__', str(mode)),
                      'first_lineno': first_lineno, 'first_line_col_delta': first_line_col_delta,
                      'blkhead_end': list(rest[0]) if rest and rest[0] else (list(kw['blkhead_end']) if kw.get('blkhead_end') else None),
                      'self_kind': self_.a.__class__.__name__,
                      'self_path': _path_of(root, self_), 'self_is_root': self_ is root, 'parsed': []}
                rec.events.append(ev)
            rec.in_base += 1
            try:
                return o_base(self_, new_lines, ln, col, end_ln, end_col, copy_lines, path, set_ast, mode, first_lineno,
                              first_line_col_delta, *rest, **kw)
            finally:
                rec.in_base -= 1

        def fromsrc(src, mode=None, **kw):
            if rec.armed and rec.in_base and rec.events and rec.events[-1]['ev'] == 'base':
                rec.events[-1]['parsed'].append({'src': src if isinstance(src, str) else '\n'.join(src),
                                                 'mode': mode if isinstance(mode, str) else getattr(mode, '__name__', str(mode))})
            return o_fromsrc.__func__(src, mode, **kw)

        def pmc(src, params):
            if rec.armed:
                rec.events.append({'ev': 'special', 'which': 'match_case', 'src': src})
            return o_pmc(src, params)

        def peh(src, params):
            if rec.armed:
                rec.events.append({'ev': 'special', 'which': 'ExceptHandler', 'src': src})
            return o_peh(src, params)

        def stmtlike(self_, new_lines, ln, col, end_ln, end_col):
            if rec.armed:
                rec.events.append(_facts(self_, ln, col, end_ln, end_col))
            return o_stmtlike(self_, new_lines, ln, col, end_ln, end_col)

        def rr(self_, code, ln, col, end_ln, end_col):
            if rec.armed:
                from fst.code import _code_as_lines
                try:
                    nl = [str(x) for x in _code_as_lines(code)]
                except Exception:
                    nl = None
                rec.events.append({'ev': 'rect', 'rect': [ln, col, end_ln, end_col], 'new_lines': nl,
                                   'self_kind': self_.a.__class__.__name__})
            ret = o_rr(self_, code, ln, col, end_ln, end_col)
            if rec.armed:
                rec.events.append({'ev': 'ret', 'ret': list(ret)})
            return ret

        fr._reparse_raw_base = base
        fr.parse_match_case = pmc
        fr.parse_ExceptHandler = peh
        fr._reparse_raw_stmtlike = stmtlike
        FST.fromsrc = staticmethod(fromsrc)
        FST._reparse_raw = rr
        return self

    def __exit__(self, *a):
        fr, FST = self.fr, self.FST
        o_base, o_pmc, o_peh, o_fromsrc, o_rr, o_stmtlike = self._orig
        fr._reparse_raw_base = o_base
        fr.parse_match_case = o_pmc
        fr.parse_ExceptHandler = o_peh
        fr._reparse_raw_stmtlike = o_stmtlike
        FST.fromsrc = o_fromsrc
        FST._reparse_raw = o_rr
        return False

    def arm(self):
        self.events = []
        self.armed = True

    def disarm(self):
        self.armed = False
        return self.events


def _path_of(root, f):
    if f is root:
        return []
    return [[p.name, p.idx] for p in root.child_path(f)]


def _facts(self_, ln, col, end_ln, end_col):
    """The facts about the real tree that `_reparse_raw_stmtlike` reads (through pfst helper functions that are NOT
    modelled: parent_stmtlike, is_elif, bloc, _loc_block_header_end, _get_block_indent).  The model decides the region
    and builds the wrapper from these."""
    from fst.asttypes import ASTS_LEAF_BLOCK
    ev = {'ev': 'facts', 'rect': [ln, col, end_ln, end_col]}
    try:
        stmtlike = self_.parent_stmtlike(True, False)
        if not stmtlike:
            ev['stmtlike'] = None
            return ev
        root = self_.root
        is_elif = bool(stmtlike.is_elif())
        if is_elif:
            stmtlike = stmtlike.parent
        a = stmtlike.a
        cls = a.__class__
        bloc = stmtlike.bloc
        ev['stmtlike'] = {
            'kind': cls.__name__, 'is_elif': is_elif, 'bloc': list(bloc), 'is_root': stmtlike is root,
            'is_block': cls in ASTS_LEAF_BLOCK,
            'blkhead_end': list(stmtlike._loc_block_header_end()[2:]) if cls in ASTS_LEAF_BLOCK else None,
            'self_is_elif': bool(stmtlike.is_elif()),
            'indent': None if cls.__name__ == 'match_case' else str(stmtlike._get_block_indent()),
            'path': _path_of(root, stmtlike),
            'old_end': [getattr(a, 'end_lineno', None), getattr(a, 'end_col_offset', None)],
        }
        ev['lines'] = [str(l) for l in root._lines]
    except Exception as e:   # the facts are only an input of the correspondence; never disturb the real call
        ev['facts_exc'] = repr(e)
    return ev


# ---------------------------------------------------------------------------------------------------------------------
# edit generation (CPython only)

def char_col(line: str, bcol: int) -> int:
    return len(line.encode()[:bcol].decode(errors='ignore'))


def node_spans(tree, lines):
    """[(kind, ln, col, end_ln, end_col, is_stmtlike)] char coordinates, 0-based lines"""
    out = []
    for n in ast.walk(tree):
        if getattr(n, 'end_col_offset', None) is None:
            continue
        ln, eln = n.lineno - 1, n.end_lineno - 1
        out.append((n.__class__.__name__, ln, char_col(lines[ln], n.col_offset), eln, char_col(lines[eln], n.end_col_offset),
                    isinstance(n, STMTLIKE)))
    return out


def token_bounds(src):
    pts = []
    try:
        for t in util.tokens(src):
            if t.type in (tokenize.ENDMARKER, tokenize.INDENT, tokenize.DEDENT):
                continue
            if t.type in (tokenize.NEWLINE, tokenize.NL) and t.start == t.end:
                continue
            pts.append((t.start[0] - 1, t.start[1]))
            pts.append((t.end[0] - 1, t.end[1]) if t.type not in (tokenize.NEWLINE, tokenize.NL) else (t.start[0] - 1, t.start[1]))
    except Exception:
        pass
    return sorted(set(pts))


EXPRS = ['z', 'q2', '0', '(m + n)', 'f(u)', 'w.v', '[1,\n 2]', 'é', '"s"', 'not k', 'a if b else c', 'lambda: 0', '*r',
         'x, y', 'k=1', 'yield', '(\nj\n)']
INVALID = ['(', ')', '1 +', 'def', ':', "'''", '$', 'else', '] [', 'import', '= =', 'x y', '\\', '"']
HEADERS = ['else:', 'elif t:', 'except:', 'except E:', 'finally:', 'case _:', 'if t:', 'for i in j:', 'while t:', 'with t:',
           'try:', 'def g():', 'class K:', 'match t:']
TRIVIA = ['# c', ' # c', '', '', ' ', '  ', '\n', '\n\n', ' \\\n', '; ', ';', '    ', '\t', ' # c\n']
SIMPLE = ['pass', 'x = 1', 'return', 'break', 'z; w', 'del q', 'k += 1', 'raise', 'import os']


def gen_new(rng, src_lines, ln, col, end_ln, end_col, spans):
    """replacement text + its generator class"""
    ind_line = src_lines[ln]
    ind = ind_line[:len(ind_line) - len(ind_line.lstrip())]
    old_txt = splice_get(src_lines, ln, col, end_ln, end_col)
    if rng.random() < 0.12 and old_txt:
        sw = bytechar_swap(rng, old_txt)
        if sw is not None:
            return sw
    c = rng.random()
    if c < 0.10:
        old = '\n'.join(src_lines[ln:end_ln + 1])
        old = splice_get(src_lines, ln, col, end_ln, end_col)
        return old, 'identity'
    if c < 0.28:
        return rng.choice(EXPRS), 'expr'
    if c < 0.38:
        # text of another node of the program (same shape when kinds agree)
        k, a, b, c2, d, _ = rng.choice(spans)
        return splice_get(src_lines, a, b, c2, d), 'other-node-text'
    if c < 0.50:
        return rng.choice(INVALID), 'invalid'
    if c < 0.66:
        return rng.choice(TRIVIA), 'trivia'
    if c < 0.76:
        return rng.choice(HEADERS), 'header'
    if c < 0.86:
        s = rng.choice(SIMPLE)
        k = rng.random()
        if k < 0.35:
            return s, 'stmt'
        if k < 0.6:
            return s + '\n' + ind, 'stmt+nl+indent'
        if k < 0.8:
            return '\n' + ind + s, 'nl+indent+stmt'
        return '\n' + ind + rng.choice(['', ' ', '    ']) + s + '\n' + ind[:max(0, len(ind) - rng.choice([0, 4]))], 'stmt-reindent'
    if c < 0.93:
        h = rng.choice(HEADERS[6:])
        body = rng.choice(SIMPLE)
        return f'{h}\n{ind}    {body}' + rng.choice(['', '\n' + ind]), 'block'
    return ' ' * rng.randint(0, 8), 'indent-only'


def bytechar_swap(rng, old):
    """a text of the same kind with the same number of UTF-8 BYTES and another number of characters, or the same number
    of characters and another number of bytes; for identifiers and plain quoted strings"""
    q = ''
    body = old
    if len(old) >= 2 and old[0] in '\'"' and old[-1] == old[0] and old[0] not in old[1:-1] and '\\' not in old and '\n' not in old:
        q, body = old[0], old[1:-1]
    elif not old.isidentifier():
        return None
    nb, nc = len(body.encode()), len(body)
    if not nc:
        return None
    if rng.random() < 0.7:
        if nb == nc:                                     # ASCII -> fewer characters, same bytes
            if nb < 2:
                return None
            k = rng.choice([2, 3]) if nb >= 3 else 2
            new = {2: '\u00e9', 3: '\u65e5'}[k] + body[k:] if q or body[k:].isidentifier() or not body[k:] else None
            if new is None or (not q and not new.isidentifier()):
                return None
        else:                                            # non-ASCII -> ASCII of the same byte length
            new = 'abcdefgh'[:nb] if nb <= 8 else 'a' * nb
        cls = 'equal-bytes/other-chars'
    else:
        new = ('\u00fc' if body[0].isascii() else 'x') + body[1:]      # same characters, other bytes
        cls = 'equal-chars/other-bytes'
    return q + new + q, cls


def splice_get(lines, ln, col, end_ln, end_col):
    if ln == end_ln:
        return lines[ln][col:end_col]
    return '\n'.join([lines[ln][col:]] + lines[ln + 1:end_ln] + [lines[end_ln][:end_col]])


def gen_rect(rng, src, src_lines, spans, tb):
    """a rectangle + its generator class"""
    c = rng.random()
    nl = len(src_lines)
    if c < 0.22 and spans:
        k, a, b, c2, d, st = rng.choice(spans)
        return (a, b, c2, d), 'node:' + ('stmtlike' if st else 'expr')
    if c < 0.34 and spans:
        # from the start of one node to the end of a later one (spans statements / blocks)
        s1 = rng.choice(spans)
        later = [s for s in spans if (s[3], s[4]) >= (s1[1], s1[2])]
        s2 = rng.choice(later)
        return (s1[1], s1[2], s2[3], s2[4]), 'node-to-node'
    if c < 0.56 and len(tb) >= 2:
        i = rng.randrange(len(tb))
        j = min(len(tb) - 1, i + rng.choice([0, 0, 1, 1, 2, 3, 6]))
        return (*tb[i], *tb[j]), 'token-bounds' if i != j else 'token-point'
    if c < 0.70:
        a = rng.randrange(nl)
        d = min(nl - 1, a + rng.choice([0, 0, 0, 1, 2]))
        return (a, 0, d, len(src_lines[d])), 'whole-lines'
    if c < 0.80:
        # leading whitespace of a line (indentation)
        a = rng.randrange(nl)
        l = src_lines[a]
        return (a, 0, a, len(l) - len(l.lstrip())), 'indentation'
    if c < 0.88:
        # line end through the start of the next line's text (merging)
        a = rng.randrange(nl)
        if a + 1 < nl:
            l2 = src_lines[a + 1]
            return (a, len(src_lines[a]), a + 1, rng.choice([0, len(l2) - len(l2.lstrip())])), 'line-join'
    # arbitrary character positions (inside tokens)
    a = rng.randrange(nl)
    b = rng.randint(0, len(src_lines[a]))
    d = min(nl - 1, a + rng.choice([0, 0, 0, 0, 1, 2]))
    e = rng.randint(b if d == a else 0, max(b if d == a else 0, len(src_lines[d])))
    return (a, b, d, e), 'random'


def _stmt_chain(tree, ln, col_b):
    """[(parent, field, index, stmt)] from the top-level statement down to the innermost statement-like containing the
    point (0-based line, BYTE column); CPython positions only"""
    chain = []
    cur = tree
    while True:
        nxt = None
        for f in BLOCK_FIELDS:
            for i, s in enumerate(getattr(cur, f, None) or []):
                if not isinstance(s, ast.AST):
                    continue
                if getattr(s, 'end_col_offset', None) is None:      # match_case: use its pattern .. last body statement
                    a0, a1 = s.pattern, s.body[-1]
                    lo, hi = (a0.lineno, a0.col_offset), (a1.end_lineno, a1.end_col_offset)
                else:
                    lo, hi = (s.lineno, s.col_offset), (s.end_lineno, s.end_col_offset)
                if lo <= (ln + 1, col_b) <= hi:
                    nxt = (cur, f, i, s)
        if nxt is None:
            return chain
        chain.append(nxt)
        cur = nxt[3]


def _spans_in(nodes, lines):
    out = []
    for r in nodes:
        for n in ast.walk(r):
            if getattr(n, 'end_col_offset', None) is not None:
                a, c = n.lineno - 1, n.end_lineno - 1
                out.append((a, char_col(lines[a], n.col_offset), c, char_col(lines[c], n.end_col_offset)))
    return out


def gen_rect_near(rng, tree, lines, prev):
    """a rectangle placed relative to the previous edit: in the same statement, a sibling statement, the header of the
    parent block, or another top-level statement.  None if that place does not exist."""
    ln, col = prev
    ln = min(ln, len(lines) - 1)
    col = min(col, len(lines[ln]))
    chain = _stmt_chain(tree, ln, len(lines[ln][:col].encode()))
    place = rng.choice(['same-stmt', 'sibling-stmt', 'parent-block', 'other-top-level', 'other-top-level'])
    nodes = []
    if place == 'same-stmt' and chain:
        nodes = [chain[-1][3]]
    elif place == 'sibling-stmt' and chain:
        par, f, i, _ = chain[-1]
        sibs = [x for j, x in enumerate(getattr(par, f)) if j != i]
        nodes = [rng.choice(sibs)] if sibs else []
    elif place == 'parent-block' and len(chain) >= 2:
        par = chain[-2][3]
        nodes = [v for f in par._fields if f not in BLOCK_FIELDS for v in
                 (getattr(par, f) if isinstance(getattr(par, f, None), list) else [getattr(par, f, None)]) if isinstance(v, ast.AST)]
    elif place == 'other-top-level':
        top = chain[0][2] if chain else -1
        others = [x for j, x in enumerate(tree.body) if j != top]
        nodes = [rng.choice(others)] if others else []
    sp = _spans_in(nodes, lines)
    if not sp:
        return None
    a, b, c, d = rng.choice(sp)
    k = rng.random()
    if k < 0.5:
        return (a, b, c, d), 'near:' + place
    if k < 0.75:
        return (a, b, a, b), 'near:' + place + ':point'
    return (c, d, c, d), 'near:' + place + ':point'


# ---------------------------------------------------------------------------------------------------------------------
# position comparison and classification

def _kids(n):
    for f in n._fields:
        v = getattr(n, f, None)
        if isinstance(v, ast.AST):
            yield (f, None, v)
        elif isinstance(v, list):
            for i, x in enumerate(v):
                if isinstance(x, ast.AST):
                    yield (f, i, x)


def pos_diffs(live, ref):
    """Trees of equal structure: [(path, kind, attr, live_value, ref_value)] for every differing position attribute."""
    out = []
    st = [((), live, ref)]
    while st:
        path, a, b = st.pop()
        for at in ('lineno', 'col_offset', 'end_lineno', 'end_col_offset'):
            va, vb = getattr(a, at, None), getattr(b, at, None)
            if va != vb:
                out.append((path, a.__class__.__name__, at, va, vb))
        ka, kb = list(_kids(a)), list(_kids(b))
        for (f, i, x), (_, _, y) in zip(ka, kb):
            st.append((path + ((f, i),), x, y))
    return out


def _is_strict_prefix(p, q):
    return len(p) < len(q) and tuple(q[:len(p)]) == tuple(p)


def classify_positions(diffs, region_path):
    """region_path: path [(field, idx)] of the reparsed statement-like node in the tree (None if whole-source reparse).
    'ancestor-end-stale' only if every differing attribute is an end position of a strict ancestor of the region."""
    if region_path is not None:
        rp = tuple((f, i) for f, i in region_path)
        if diffs and all(at in ('end_lineno', 'end_col_offset') and _is_strict_prefix(p, rp) for p, k, at, _, _ in diffs):
            return 'ancestor-end-stale'
        inside = [d for d in diffs if tuple(d[0][:len(rp)]) == rp]
        if inside:
            d = min(inside, key=lambda d: len(d[0]))
            where = 'region-root' if len(d[0]) == len(rp) else 'inside-region'
            return f'positions-differ|{where}|{d[1]}.{d[2]}'
        d = min(diffs, key=lambda d: len(d[0]))
        rel = 'ancestor' if _is_strict_prefix(d[0], rp) else 'outside-region'
        return f'positions-differ|{rel}|{d[1]}.{d[2]}'
    d = min(diffs, key=lambda d: len(d[0]))
    return f'positions-differ|whole-source|{d[1]}.{d[2]}'


# ---------------------------------------------------------------------------------------------------------------------
# serialisation for the Lean tree model

BLOCK_FIELDS = ('body', 'orelse', 'handlers', 'finalbody', 'cases')
KINDS = {name: i for i, name in enumerate(sorted(n for n in dir(ast) if isinstance(getattr(ast, n), type)
                                                 and issubclass(getattr(ast, n), ast.AST)))}


def _pos(n):
    if getattr(n, 'end_col_offset', None) is None:
        return None
    return [n.lineno, n.col_offset, n.end_lineno, n.end_col_offset]


def ser_node(n):
    return [KINDS[n.__class__.__name__], _pos(n), [ser_node(c) for c in util.soc(n)]]


def preorder(n, out=None):
    """[(node, kind, pos)] in the order of `Pfst.Raw.flatten`"""
    if out is None:
        out = []
    out.append(n)
    for c in util.soc(n):
        preorder(c, out)
    return out


def follow(tree, path):
    """path = [[field, idx|None], ...] -> node or None"""
    n = tree
    for f, i in path:
        v = getattr(n, f, None)
        if i is None:
            n = v
        else:
            if not isinstance(v, list) or i >= len(v):
                return None
            n = v[i]
        if not isinstance(n, ast.AST):
            return None
    return n


def set_at(tree, path, new):
    par = follow(tree, path[:-1])
    f, i = path[-1]
    if i is None:
        setattr(par, f, new)
    else:
        getattr(par, f)[i] = new


def ser_zip(tree, path):
    """frames innermost first + focus, for `Pfst.Raw.Zip`; None if a node on the path is not among the syntax-ordered
    children of its parent"""
    frames = []
    n = tree
    for f, i in path:
        v = getattr(n, f)
        child = v if i is None else v[i]
        kids = util.soc(n)
        k = next((j for j, c in enumerate(kids) if c is child), None)
        if k is None:
            return None
        frames.append([KINDS[n.__class__.__name__], _pos(n), [ser_node(c) for c in kids[:k]], [ser_node(c) for c in kids[k + 1:]]])
        n = child
    frames.reverse()
    return frames, ser_node(n)


def n_head(n):
    """number of leading syntax-ordered children that are not in a block field; None if they are not a prefix"""
    blk = set()
    for f in BLOCK_FIELDS:
        v = getattr(n, f, None)
        if isinstance(v, list):
            blk.update(id(x) for x in v)
    kids = util.soc(n)
    flags = [id(c) in blk for c in kids]
    k = flags.index(True) if True in flags else len(flags)
    if not all(flags[k:]):
        return None
    return k


WRAP_PATHS = {
    'body0': [['body', 0]], 'body0.body0': [['body', 0], ['body', 0]], 'body0.orelse0': [['body', 0], ['orelse', 0]],
    'body0.body0.orelse0': [['body', 0], ['body', 0], ['orelse', 0]], 'body0.handlers0': [['body', 0], ['handlers', 0]],
    'body0.body0.handlers0': [['body', 0], ['body', 0], ['handlers', 0]], 'body0.cases0': [['body', 0], ['cases', 0]],
}


def facts_kind(name):
    if name in ('match_case', 'ExceptHandler', 'Match', 'Try', 'TryStar'):
        return name
    return 'block' if name in BLOCK_KINDS else 'simple'


# ---------------------------------------------------------------------------------------------------------------------
# one sequence of edits on one tree, on the real code (phase A; runs in worker processes)

_REC = None


def recorder():
    global _REC
    if _REC is None:
        _REC = Recorder()
        _REC.__enter__()
    return _REC


def _pick_fst_node(root, rng, want_stmt=None):
    nodes = [f for f in root.walk(True) if f is not root and f.loc is not None]
    if want_stmt is True:
        nodes = [f for f in nodes if isinstance(f.a, STMTLIKE)] or nodes
    elif want_stmt is False:
        nodes = [f for f in nodes if isinstance(f.a, ast.expr)] or nodes
    return rng.choice(nodes) if nodes else None


def cpy_bloc(tree, lines, path):
    """the rectangle a raw node put must replace, from CPython positions only: the node's span, extended to the first
    decorator and, for block statements, to the end of a trailing line comment (the documented `bloc`)"""
    n = follow(tree, path)
    if n is None or getattr(n, 'end_col_offset', None) is None:
        return None
    ln, eln = n.lineno - 1, n.end_lineno - 1
    col, ecol = char_col(lines[ln], n.col_offset), char_col(lines[eln], n.end_col_offset)
    if n.__class__.__name__ in BLOCK_KINDS:
        if lines[eln].find('#', ecol) != -1:
            ecol = len(lines[eln])
        decos = getattr(n, 'decorator_list', None)
        if decos:
            d = decos[0]
            ln = d.lineno - 1
            col = lines[ln].rfind('@', 0, char_col(lines[ln], d.col_offset))
            if col < 0:
                return None
    return [ln, col, eln, ecol]


def _astpath(p):
    from fst.common import astfield
    return [astfield(f, i) for f, i in p]


def respell(rng, rect, lines):
    """another spelling of the same rectangle: negative from the end of the source / of ITS line, 'end', or out of range
    (clipped); plain Python index semantics decide what each spelling means"""
    ln, col, end_ln, end_col = rect
    n = len(lines)

    def sp_ln(i):
        c = rng.random()
        if c < 0.5:
            return i
        if c < 0.8:
            return i - n
        return 'end' if i == n - 1 else i

    def sp_col(c_, i):
        l = len(lines[i])
        k = rng.random()
        if k < 0.45:
            return c_
        if k < 0.75 and c_ < l:
            return c_ - l                      # negative: from the end of line `i`
        if c_ == l:
            return rng.choice(['end', l + rng.randint(1, 9)])      # 'end' or beyond the end (clipped)
        return c_

    return [sp_ln(ln), sp_col(col, ln), sp_ln(end_ln), sp_col(end_col, end_ln)]


def loc_mismatch(root):
    """first node whose reported character location (.loc, and .bloc for block statements) is not the one that follows
    from its own CPython byte positions; None if all agree"""
    lines = root.src.split('\n')
    for a in ast.walk(root.a):
        if getattr(a, 'end_col_offset', None) is None or not hasattr(a, 'f'):
            continue
        try:
            exp = (a.lineno - 1, char_col(lines[a.lineno - 1], a.col_offset), a.end_lineno - 1,
                   char_col(lines[a.end_lineno - 1], a.end_col_offset))
            got = tuple(a.f.loc)
            if got != exp:
                return ['loc', a.__class__.__name__, list(got), list(exp)]
            if a.__class__.__name__ in BLOCK_KINDS:
                bl, bc, bel, bec = exp
                if lines[bel].find('#', bec) != -1:
                    bec = len(lines[bel])
                decos = getattr(a, 'decorator_list', None)
                if decos:
                    d = decos[0]
                    bl = d.lineno - 1
                    bc = lines[bl].rfind('@', 0, char_col(lines[bl], d.col_offset))
                got = tuple(a.f.bloc)
                if bc >= 0 and got != (bl, bc, bel, bec):
                    return ['bloc', a.__class__.__name__, list(got), [bl, bc, bel, bec]]
        except Exception as e:
            return ['loc', a.__class__.__name__, 'exception ' + repr(e)[:80], None]
    return None


def read_caches(root):
    """an ordinary user looking at the tree before editing: every location is computed and cached"""
    for f in root.walk(True):
        try:
            f.loc
            f.bloc
            f.pars()
        except Exception:
            pass


def run_sequence(arg):
    """(src, seed, k, ops) -> list of records (JSON-like)"""
    src, seed, k, ops = arg[:4]
    script = arg[4] if len(arg) > 4 else None       # scripted history: [(new, ln, col, end_ln, end_col), ...] through put_src
    if script:
        k = len(script)
    from fst import FST
    import fst.fst_core as fc
    rng = random.Random(seed)
    rec = recorder()
    out = []
    fc._MODIFYING.clear()       # harness hygiene BEFORE the history starts (never during one)
    try:
        root = FST(src, 'exec')
    except Exception:
        return out
    prev = None
    prev_loc_bad = None
    hist = []
    for step in range(k):
        src0 = root.src
        tree0, _ = cpy_parse(src0)
        if tree0 is None:
            break
        dump0 = util.dump_pos(root.a)
        if dump0 != util.dump_pos(tree0):
            break       # pre-state not a consistent tree (only after an earlier failure; the sequence stops there)
        lines = src0.split('\n')
        spans = node_spans(tree0, lines)
        if not spans:
            break
        op = rng.choice(ops)
        r = {'src': src0, 'op': op, 'step': step}
        rid = id(root)
        call = None
        read_caches(root)
        if script and script[step][0] == 'raw-slice':
            _, path, field, start, stop, new, *more = script[step]
            opts = more[0] if more else {}
            op = r['op'] = 'raw-slice'
            rect = slice_rect(tree0, lines, path, field, start, stop)
            cont = root.child_from_path(_astpath(path)) if path else root
            r.update(rect=rect, new=new, rk='scripted-history', nk='scripted', on=cont.a.__class__.__name__, node_path=path,
                     slice=[field, start, stop], **({'opts': opts} if opts else {}))
            raw = opts.get('raw', True)
            if opts.get('code'):
                how, code_src = opts['code']        # the code is given as an FST / AST whose ELEMENTS are put (one=False)
                code = FST(code_src) if how == 'fst' else ast.parse(code_src.strip(), mode='eval').body
            else:
                code = new
            call = lambda: cont.put_slice(code, start, stop, field, raw=raw)
        elif script and script[step][0] == 'raw-to':
            _, path, to_path, new = script[step]
            op = r['op'] = 'raw-put-to'
            ra, rb = cpy_bloc(tree0, lines, path), cpy_bloc(tree0, lines, to_path)
            rect = [ra[0], ra[1], rb[2], rb[3]]
            node, to = root.child_from_path(_astpath(path)), root.child_from_path(_astpath(to_path))
            r.update(rect=rect, new=new, rk='scripted-history', nk='scripted', on=node.a.__class__.__name__, node_path=path, to_path=to_path)
            call = lambda: node.replace(new, raw=True, pars=False, to=to)
        elif script and script[step][0] == 'raw':
            _, path, new = script[step]
            op = r['op'] = 'raw-put'
            rect = cpy_bloc(tree0, lines, path)
            node = root.child_from_path(_astpath(path))
            r.update(rect=rect, new=new, rk='scripted-history', nk='scripted', on=node.a.__class__.__name__, node_path=path)
            call = lambda: node.replace(new, raw=True, pars=False)
        elif script:
            new, *rect = script[step]
            spelled = rect.pop() if len(rect) == 5 else list(rect)      # optional 6th entry: the coordinates as spelled in the call
            op = r['op'] = 'put_src'
            r.update(rect=list(rect), new=new, rk='scripted-history', nk='scripted', on='Module', spelled=list(spelled))
            try:
                got = root.get_src(*spelled)
                if got != splice_get(lines, *rect):
                    r['get_src_bad'] = [got[:80], splice_get(lines, *rect)[:80]]
            except Exception as e:
                r['get_src_bad'] = ['raised ' + repr(e)[:80], splice_get(lines, *rect)[:80]]
            call = lambda: root.put_src(new, *spelled, 'reparse')
        elif op == 'put_src':
            tb = token_bounds(src0)
            near = gen_rect_near(rng, tree0, lines, prev) if prev is not None and rng.random() < 0.6 else None
            rect, rk = near if near else gen_rect(rng, src0, lines, spans, tb)
            new, nk = gen_new(rng, lines, *rect, spans)
            on = root if rng.random() < 0.6 else (_pick_fst_node(root, rng) or root)
            spelled = respell(rng, rect, lines)
            r.update(rect=list(rect), new=new, rk=rk, nk=nk, on=on.a.__class__.__name__, spelled=spelled)
            try:
                got = root.get_src(*spelled)
                if got != splice_get(lines, *rect):
                    r['get_src_bad'] = [got[:80], splice_get(lines, *rect)[:80]]
            except Exception as e:
                r['get_src_bad'] = ['raised ' + repr(e)[:80], splice_get(lines, *rect)[:80]]
            call = lambda: on.put_src(new, *spelled, 'reparse')
        elif op == 'raw-put':
            node = None
            if prev is not None and rng.random() < 0.6:
                after = [f for f in root.walk(True) if f is not root and f.loc is not None and f.loc.ln == prev[0] and f.loc.col > prev[1]]
                node = rng.choice(after) if after else None
            node = node or _pick_fst_node(root, rng, rng.random() < 0.4)
            if node is None:
                break
            path = _path_of(root, node)
            rect = cpy_bloc(tree0, lines, path)
            if rect is None:
                continue
            new, nk = gen_new(rng, lines, *rect, spans)
            if nk in ('trivia', 'indent-only') and not new.strip():
                new, nk = 'zq', 'expr'       # an empty put is a delete, which the raw put refuses by contract
            r.update(rect=rect, new=new, rk='raw-node:' + ('stmtlike' if isinstance(node.a, STMTLIKE) else 'other'), nk=nk,
                     on=node.a.__class__.__name__, node_path=path)
            call = lambda: node.replace(new, raw=True, pars=False)
        elif op == 'raw-slice':
            conts = [f for f in root.walk(True) if f.a.__class__.__name__ in BLOCK_KINDS + ('Module',)]
            cont = rng.choice(conts)
            fields = [f for f in ('_body', 'orelse', 'finalbody', 'handlers', 'cases')
                      if isinstance(getattr(cont.a, 'body' if f == '_body' else f, None), list) and getattr(cont.a, 'body' if f == '_body' else f)]
            if not fields:
                continue
            field = rng.choice(fields)
            path = _path_of(root, cont)
            n = len(slice_elems(follow(tree0, path), field))
            if not n:
                continue
            start = rng.randrange(n)
            stop = rng.randint(start + 1, n)
            rect = slice_rect(tree0, lines, path, field, start, stop)
            if rect is None:
                continue
            ind = lines[rect[0]][:rect[1]] if not lines[rect[0]][:rect[1]].strip() else ''
            kind = {'handlers': 'handler', 'cases': 'case'}.get(field, 'stmt')
            new = rng.choice(SLICE_TEXTS[kind]).replace('\n', '\n' + ind)
            r.update(rect=rect, new=new, rk='raw-slice:' + field, nk='slice-' + kind, on=cont.a.__class__.__name__, node_path=path,
                     slice=[field, start, stop])
            call = lambda: cont.put_slice(new, start, stop, field, raw=True)
        elif op == 'raw-put-to':
            # raw put of one node through the end of a LATER node (`to=`): same statement, a later `;` statement on the same
            # line, a later line, another block
            node = _pick_fst_node(root, rng, False)
            if node is None:
                break
            nl = node.loc
            later = [f for f in root.walk(True) if f is not root and f.loc is not None and isinstance(f.a, (ast.expr, ast.stmt))
                     and (f.loc.ln, f.loc.col) >= (nl.end_ln, nl.end_col)]
            same_line = [f for f in later if f.loc.ln == nl.end_ln]
            pool = same_line if same_line and rng.random() < 0.7 else later
            if not pool:
                continue
            to = rng.choice(pool)
            path, to_path = _path_of(root, node), _path_of(root, to)
            ra, rb = cpy_bloc(tree0, lines, path), cpy_bloc(tree0, lines, to_path)
            if ra is None or rb is None:
                continue
            rect = [ra[0], ra[1], rb[2], rb[3]]
            new = rng.choice(['zq', splice_get(lines, *ra), '0', 'w.v', rng.choice(EXPRS)])
            r.update(rect=rect, new=new, rk='raw-to:' + ('same-line' if to.loc.ln == nl.end_ln else 'later-line'), nk='expr',
                     on=node.a.__class__.__name__, node_path=path, to_path=to_path)
            call = lambda: node.replace(new, raw=True, pars=False, to=to)
        else:  # reparse()
            node = _pick_fst_node(root, rng)
            if node is None:
                break
            loc = node.loc
            rect = [loc.ln, loc.col, loc.end_ln, loc.end_col]
            new = splice_get(lines, *rect)
            r.update(rect=rect, new=new, rk='reparse-node', nk='identity', on=node.a.__class__.__name__)
            call = lambda: node.reparse()
        rec.arm()
        exc = ret = None
        try:
            ret = call()
        except Exception as e:
            exc = e
        evs = rec.disarm()
        r['events'] = evs
        if r['op'] == 'put_src':
            if hist is not None and step:
                r['history'] = {'src': src, 'edits': list(hist)}      # earlier put_src steps on the same tree, for the replay
            if hist is not None:
                hist.append([r['new'], *r['rect']])
        else:
            hist = None
        r['loc_bad_before'] = prev_loc_bad
        try:
            r['loc_bad'] = prev_loc_bad = loc_mismatch(root) if root.a.__class__.__name__ == 'Module' else None
        except Exception as e:
            r['loc_bad'] = ['loc', '?', 'exception ' + repr(e)[:80], None]
        r['registry'] = int(root in fc._MODIFYING)      # no entry for this tree may be left in the process-global registry after a call
        prev = (r['rect'][0], r['rect'][1])
        r['root_same'] = id(root) == rid and root.root is root
        r['src_after'] = root.src
        try:
            r['dump_after'] = util.dump_pos(root.a)
        except Exception as e:
            r['dump_after'] = 'dump failed: ' + repr(e)
        r['root_kind'] = root.a.__class__.__name__
        if exc is not None:
            r['raised'] = [type(exc).__name__, str(exc)[:120]]
            r['atomic'] = r['src_after'] == src0 and r['dump_after'] == dump0
        else:
            r['ret'] = list(ret) if op == 'put_src' else None
        out.append(r)
        if r['root_kind'] != 'Module' or (exc is not None and not r['atomic']):
            break
    return out


# ---------------------------------------------------------------------------------------------------------------------
# phase B: model inputs from a record

def ev_of(r, name):
    return next((e for e in r['events'] if e['ev'] == name), None)


def plan_case(r):
    """Lean case for the record, or None if the operation never reached `_reparse_raw`"""
    rect_ev = ev_of(r, 'rect')
    facts = ev_of(r, 'facts')
    if rect_ev is None or facts is None or rect_ev['new_lines'] is None or 'facts_exc' in facts:
        return None
    lines = facts.get('lines')
    st = facts.get('stmtlike')
    if st is None:
        return {'f': 'C10.splice', 'lines': r['src'].split('\n'), 'new': rect_ev['new_lines'], 'rect': rect_ev['rect']}
    return {'f': 'C10.plan', 'lines': lines, 'new': rect_ev['new_lines'], 'rect': rect_ev['rect'],
            'facts': {'kind': facts_kind(st['kind']), 'is_elif': st['is_elif'], 'self_is_elif': st['self_is_elif'],
                      'is_root': st['is_root'], 'bloc': st['bloc'], 'blkhead_end': st['blkhead_end'] or [0, 0],
                      'indent': st['indent'] or ''}}


def path_str(p):
    if not p:
        return None
    if isinstance(p, str):
        return p
    return '.'.join(f'{f}{"" if i is None else i}' for f, i in p)


def corr_plan(r, m):
    """model output `m` vs what the real code did; list of disagreement strings"""
    bad = []
    facts = ev_of(r, 'facts')
    st = facts.get('stmtlike')
    base = ev_of(r, 'base')
    special = ev_of(r, 'special')
    raised = r.get('raised')
    if st is None:
        # whole-source fallback: copy = all lines, no path
        if base is None:
            bad.append('whole-source reparse expected, _reparse_raw_base not called')
        else:
            if base['path']:
                bad.append(f'whole-source: path {base["path"]}')
            if base['copy_lines'] != r['src'].split('\n'):
                bad.append('whole-source: copy_lines differ from the lines')
            if base['parsed'] and base['parsed'][0]['src'] != '\n'.join(m['src']):
                bad.append('whole-source: text handed to the parser differs from the splice')
    elif 'raise' in m:
        if not raised or raised[0] != m['raise'] or base is not None or special is not None:
            bad.append(f'model raises {m["raise"]} before any parse, implementation: raised={raised} base={base is not None}')
        return bad
    elif m['special']:
        if special is None:
            bad.append('model takes the special match_case/ExceptHandler path, implementation did not')
        elif special['src'] != '\n'.join(m['handed']):
            bad.append(f'special path text differs: impl={special["src"]!r} model={chr(10).join(m["handed"])!r}')
    else:
        if base is None:
            bad.append('model calls _reparse_raw_base, implementation did not')
        else:
            if base['copy_lines'] != m['copy_lines']:
                bad.append(f'copy_lines differ: impl={base["copy_lines"]!r} model={m["copy_lines"]!r}')
            if path_str(base['path']) != m['path']:
                bad.append(f'path differs: impl={path_str(base["path"])} model={m["path"]}')
            if base['set_ast'] != m['set_ast']:
                bad.append(f'set_ast differs: impl={base["set_ast"]}')
            if base['first_lineno'] != m['first_lineno']:
                bad.append(f'first_lineno differs: impl={base["first_lineno"]} model={m["first_lineno"]}')
            if base.get('blkhead_end') is not None and not m['set_ast'] and base['blkhead_end'] != m['head_end_new']:
                bad.append(f'blkhead_end differs: impl={base["blkhead_end"]} model={m["head_end_new"]}')
            if base['first_line_col_delta'] != m['delta']:
                bad.append(f'first_line_col_delta differs: impl={base["first_line_col_delta"]} model={m["delta"]}')
            if not base['parsed'] or base['parsed'][0]['src'] != '\n'.join(m['handed']):
                bad.append(f'text handed to the parser differs: impl={base["parsed"][:1]!r} model={chr(10).join(m["handed"])!r}')
            rr = ev_of(r, 'rect')['rect']
            if m.get('rect_in_region') is False and not st['is_root']:
                bad.append(f'the node handed to _reparse_raw does not contain the replaced rectangle: region={st["bloc"]} rectangle={rr} '
                           f'(precondition of the region model, Pfst.Raw.rectInRegion)')
            if base['self_path'] != st['path']:
                bad.append(f'reparsed node differs: impl={base["self_kind"]}@{base["self_path"]} model={st["kind"]}@{st["path"]}')
    if not raised:
        if r['src_after'] != '\n'.join(m['src']):
            bad.append('source after the call differs from the model splice')
        ret = ev_of(r, 'ret')
        if ret is None or ret['ret'] != m['ret']:
            bad.append(f'returned end differs: impl={ret and ret["ret"]} model={m["ret"]}')
        if r['op'] == 'put_src' and r['ret'] != m['ret']:
            bad.append(f'put_src return differs: impl={r["ret"]} model={m["ret"]}')
    return bad


# ---------------------------------------------------------------------------------------------------------------------
# phase C: CPython on the model's wrapper text; Lean tree case

def pfst_text(text):
    return text + '\n' if text.endswith('\\\n') else text      # documented convention of pfst's parse functions


def has_cont_guard():
    """does the guard of the implementation under test refuse a line continuation after the parsed node (fix C10-F11)?"""
    import inspect
    import fst.fst_raw as fr
    try:
        return "after == '\\\\'" in inspect.getsource(recorder()._orig[0] if _REC else fr._reparse_raw_base)
    except Exception:
        return False


def has_blkhead_end_check():
    """does the implementation under test have the header-end guard of fix C10-F9 (parameter `blkhead_end` of
    `_reparse_raw_base`)?  The model has the guard as an input (`headEndSame`); it is fed only if the code has it."""
    import inspect
    import fst.fst_raw as fr
    return 'blkhead_end' in inspect.signature(recorder()._orig[0] if _REC else fr._reparse_raw_base).parameters


BLOCK_ORDER = ('body', 'handlers', 'orelse', 'finalbody', 'cases')      # order of `Pfst.Raw.Blocks`


def ser_blocks(n):
    return [None if getattr(n, f, None) is None else [ser_node(c) for c in getattr(n, f)] for f in BLOCK_ORDER]


def header_colon_end(src, node):
    """(0-based line, char column just past the ':') of the colon that ends the block header of `node` (a node of
    `ast.parse(src)`): first ':' at bracket depth 0 after the last thing in the header; tokenizer only"""
    import io
    lines = src.split('\n')
    start = None
    if getattr(node, 'end_col_offset', None) is not None:
        start = (node.lineno, char_col(lines[node.lineno - 1], node.col_offset))
    for f in node._fields:
        if f in BLOCK_FIELDS:
            continue
        v = getattr(node, f, None)
        for x in (v if isinstance(v, list) else [v]):
            if isinstance(x, ast.AST):
                for d in ast.walk(x):
                    if getattr(d, 'end_col_offset', None) is not None:
                        e = (d.end_lineno, char_col(lines[d.end_lineno - 1], d.end_col_offset))
                        if start is None or e > start:
                            start = e
    if start is None:
        return None
    depth = 0
    try:
        for t in tokenize.generate_tokens(io.StringIO(src).readline):
            if t.start < start:
                continue
            if t.type == tokenize.OP:
                if t.string in '([{':
                    depth += 1
                elif t.string in ')]}':
                    depth -= 1
                elif t.string == ':' and depth <= 0:
                    return (t.start[0] - 1, t.start[1] + 1)
    except Exception:
        pass
    return None


def _case_kw(src, pattern):
    """(line, column) of the `case` keyword that opens the match_case whose pattern is given (tokenizer only)"""
    best = None
    try:
        import io
        for t in tokenize.generate_tokens(io.StringIO(src).readline):      # lazily: an error at the very end must not matter
            if t.start >= (pattern.lineno, char_col(src.split('\n')[pattern.lineno - 1], pattern.col_offset)):
                break
            if t.type == tokenize.NAME and t.string == 'case':
                best = t.start
    except Exception:
        pass
    return best


def phase_c(arg):
    """(record, model plan) -> dict(mode, model_accept, why, tree_case|None, aux)"""
    r, m = arg
    facts = ev_of(r, 'facts')
    st = facts.get('stmtlike')
    rect_ev = ev_of(r, 'rect')
    ln, col, end_ln, end_col = rect_ev['rect']
    new_lines = rect_ev['new_lines']
    out = {'mode': None, 'model_accept': None, 'why': None, 'tree_case': None}
    if st is None:
        out['mode'] = 'whole'
        t, e = cpy_parse(pfst_text('\n'.join(m['src'])))
        out['model_accept'] = t is not None
        out['why'] = None if t is not None else 'whole source rejected'
        return out
    if 'raise' in m:
        out['mode'] = 'plan-raises'
        out['model_accept'] = False
        out['why'] = m['raise']
        return out
    if m['special']:
        out['mode'] = 'special'
        return out          # parse_match_case / parse_ExceptHandler are pfst's own entry points: not re-judged here
    out['mode'] = 'stmt' if m['set_ast'] else 'head'
    text = '\n'.join(m['handed'])
    W, e = cpy_parse(pfst_text(text))
    if W is None and not isinstance(e, SyntaxError):
        out['mode'] = 'cpython-internal-error'      # e.g. ValueError("field 'value' is required for Constant") on nested
        return out                                  # f-string format specs in 3.12.1: not a verdict on the text
    if W is None:
        out['model_accept'] = False
        out['why'] = 'wrapper-rejected'
        return out
    wsub = follow(W, WRAP_PATHS[m['path']])
    if wsub is None:
        out['model_accept'] = False
        out['why'] = 'region-vanished'
        return out
    out['model_accept'] = True      # the wrapper parses and the node is there; whether it is USED is the model's guard
    T0 = ast.parse(r['src'])
    old = follow(T0, st['path'])
    z = ser_zip(T0, st['path']) if old is not None else None
    if z is None:
        out['why'] = 'no-zipper'
        return out
    lines = facts['lines']
    # does anything follow the node in the wrapper (at any level), other than the synthetic `finally: pass`?
    follows = False
    n = W
    wp = WRAP_PATHS[m['path']]
    for depth, (f, i) in enumerate(wp):
        child = getattr(n, f)[i]
        kids = util.soc(n)
        k = next(j for j, c in enumerate(kids) if c is child)
        rest = kids[k + 1:]
        if depth == len(wp) - 1 and m['first_lineno'] == 1:
            fin = set(id(x) for x in getattr(n, 'finalbody', []) or [])
            rest = [x for x in rest if id(x) not in fin]
        if rest:
            follows = True
        n = child
    # ... or text other than a comment / line continuation after it on its last line (a new trailing `;`)
    last = wsub if getattr(wsub, 'end_col_offset', None) is not None else wsub.body[-1]
    hl = m['handed'][last.end_lineno - 1]
    rest = hl[char_col(hl, last.end_col_offset):].strip()
    real_rest = lines[st['bloc'][2]][st['bloc'][3]:].strip()      # what follows the OLD node on its last line in the real source
    if rest and (rest != '\\' or has_cont_guard()) and (real_rest or not rest.startswith('#')):
        follows = True                                            # (a new comment would swallow `real_rest`)
    out['cont_after'] = rest == '\\'
    mode = {'set_ast': m['set_ast'], 'first_lineno': m['first_lineno'], 'delta': m['delta'],
            'no_end_copy': st['kind'] == 'match_case', 'follows': follows}
    if st['kind'] == 'ExceptHandler' and len(st['path']) >= 1:
        mode['same_parent_kind'] = follow(W, wp[:-1]).__class__ is follow(T0, st['path'][:-1]).__class__
    if st['kind'] == 'match_case':
        mode['same_start'] = _case_kw(r['src'], old.pattern) == _case_kw(text, wsub.pattern)
    focus = z[1]
    shape_ok = True
    if not m['set_ast']:
        a, b = n_head(old), n_head(wsub)
        if a is None or b is None:
            shape_ok = False
            a, b = a or 0, b or 0
        mode['n_old_head'], mode['n_new_head'] = a, b      # (a header-only graft onto another kind of node is refused by the guard)
        mode['old_blocks'], mode['new_blocks'] = ser_blocks(old), ser_blocks(wsub)     # None (no such field) vs [] kept apart
        if has_blkhead_end_check():
            mode['head_end_same'] = header_colon_end(text, wsub) == tuple(m['head_end_new'])
    off = [len(new_lines), ln, end_ln, util.byte_len(lines[end_ln][:end_col]), util.byte_len(new_lines[-1]),
           util.byte_len(lines[ln][:col])]
    out['shape_ok'] = shape_ok
    out['tree_case'] = {'f': 'C10.tree', 'ctx': z[0], 'focus': focus, 'sub': ser_node(wsub), 'off': off, 'mode': mode}
    return out


# ---------------------------------------------------------------------------------------------------------------------
# phase E: predicted tree as a Python AST, comparison with the implementation and with the full parse; classification

def build_predicted(r, m, tree_out):
    """The model's tree after the edit as a CPython AST object (structure grafted here, positions from Lean)."""
    facts = ev_of(r, 'facts')
    st = facts['stmtlike']
    T0 = ast.parse(r['src'])
    W = ast.parse(pfst_text('\n'.join(m['handed'])))
    wsub = follow(W, WRAP_PATHS[m['path']])
    old = follow(T0, st['path'])
    if not m['set_ast']:
        for f in BLOCK_FIELDS:
            body = getattr(old, f, None)
            if body is not None:
                setattr(wsub, f, body)
    set_at(T0, st['path'], wsub)
    nodes = preorder(T0)
    if len(nodes) != len(tree_out):
        return None
    for n, (k, p) in zip(nodes, tree_out):
        if KINDS[n.__class__.__name__] != k:
            return None
        if p is None:
            if getattr(n, 'end_col_offset', None) is not None and not isinstance(n, ast.mod):
                return None
        else:
            n.lineno, n.col_offset, n.end_lineno, n.end_col_offset = p
    return T0


OPSIG = {'raw-slice': 'raw-slice', 'put_src': 'put_src-reparse', 'raw-put': 'raw-put', 'raw-put-to': 'raw-put-to', 'reparse': 'reparse'}


def phase_e(arg):
    """(record, model plan|None, phase-c result|None, lean tree output|None) -> dict(fail=[(sig, what)], corr=[...], tallies)"""
    r, m, c, tree_out = arg
    res = {'fail': [], 'corr': [], 'tally': {}, 'hyp': None}
    op = OPSIG[r['op']]
    sig = lambda cls: f'C10|{op}|{cls}'
    raised = r.get('raised')
    rect = r['rect']
    new_src = splice(r['src'], r['new'], *rect)
    R, err = cpy_parse(new_src)
    excluded = R is None and new_src.endswith('\\\n')      # pfst convention: trailing line continuation accepted
    reached = m is not None
    res['tally']['valid_new_source'] = R is not None
    # registry: nothing may be left behind by a call, whether it raised or returned
    if r.get('registry'):
        res['fail'].append((sig('registry-not-empty'),
                            f'the entry of this tree is still in fst_core._MODIFYING after the call '
                            f'({"raised " + raised[0] if raised else "returned"})'))
    if r.get('get_src_bad'):
        res['fail'].append((f'C10|get_src|text-differs', f'get_src{tuple(r["spelled"])} gave {r["get_src_bad"][0]!r}, plain Python slicing gives {r["get_src_bad"][1]!r}'))
    # (d) root identity
    if not r['root_same']:
        res['fail'].append((sig('root-identity-changed'), 'the root object changed identity'))
    # (a) atomicity
    if raised:
        if not r['atomic']:
            if r['root_kind'] != 'Module' and r['src_after'] == new_src:
                res['fail'].append((sig('whole-source|root-kind-changed'),
                                    f'accepted by re-parsing in another mode: root is now {r["root_kind"]}; then raised {raised[0]}'))
            else:
                res['fail'].append((sig('not-atomic'), f'raised {raised[0]} but source or tree changed'))
            return res
        if not reached:
            if r['op'] in ('raw-put', 'raw-put-to', 'raw-slice') and raised[0] in ('ValueError', 'NodeError', 'IndexError'):
                res['tally']['refused_before_reparse'] = True     # argument validation of the node put (delete / insert contract)
                return res
            if R is not None:
                res['fail'].append((sig(f'refuses-valid-source|before-reparse|{raised[0]}'),
                                    f'raised {raised[0]}: {raised[1]} before the reparse was attempted although the new source is valid'))
            else:
                res['tally']['refused_before_reparse_invalid'] = True
            return res
    if (R is None and not isinstance(err, SyntaxError)) or (c and c.get('mode') == 'cpython-internal-error'):
        res['tally']['cpython_internal_error'] = True       # ast.parse raised something that is not a verdict on the source
        return res
    # rectangle actually used (raw put): must be the CPython span of the node
    rect_ev = ev_of(r, 'rect') if reached else None
    if rect_ev is not None and (rect_ev['rect'] != list(rect) or '\n'.join(rect_ev['new_lines']) != r['new']):
        if r['op'] == 'raw-slice' and rect_ev['rect'] == list(rect):
            res['fail'].append((sig('put-text-differs'),
                                f'put_slice{tuple(r["slice"])} put the text {chr(10).join(rect_ev["new_lines"])!r}; the elements of the given code are {r["new"]!r}'))
            return res
        if r['op'] == 'raw-slice':
            res['fail'].append((sig('rectangle-differs'),
                                f'put_slice{tuple(r["slice"])} replaced the rectangle {rect_ev["rect"]} with {chr(10).join(rect_ev["new_lines"])!r}; the statements '
                                f'[{r["slice"][1]}:{r["slice"][2]}) of that field (decorators and trailing comment of a block included) are {list(rect)}'))
            return res
        if r['op'] in ('raw-put', 'raw-put-to'):
            if r.get('loc_bad_before'):
                pass        # the locations were already wrong before this step (stale cache): judged below by the splice and the tree
            else:
                res['tally']['rect_differs_from_cpython_span'] = True   # location / code normalisation of the put: other properties
                return res
        elif r['op'] == 'put_src':
            res['fail'].append((sig('coordinates-misread'),
                                f'put_src{tuple(r.get("spelled", rect))} replaced the rectangle {rect_ev["rect"]}, Python index semantics give {list(rect)}'))
            return res
    mode = c['mode'] if c else None
    res['tally']['mode'] = mode
    # the model of the repaired `_reparse_raw`: the incremental result is used iff the wrapper parses, the node is found and
    # the guard holds (one node, same kind, same place, nothing after it); otherwise the whole source decides
    full_ok = cpy_parse(pfst_text(new_src))[0] is not None
    incremental = bool(mode in ('stmt', 'head') and c['model_accept'] and isinstance(tree_out, dict) and tree_out.get('guard'))
    if mode in ('stmt', 'head') and c['model_accept'] and not isinstance(tree_out, dict):
        model_accept = None                         # no zipper: the model cannot be evaluated on this case
    elif mode == 'plan-raises':
        model_accept = False                        # NotImplementedError is not caught by the fallback
    elif mode == 'special':
        model_accept = None
    else:
        model_accept = incremental or full_ok
    res['tally']['path_taken'] = 'incremental' if incremental else ('refused-before-parse' if mode == 'plan-raises' else 'whole-source')
    if model_accept is not None and bool(raised) == bool(model_accept):
        res['corr'].append(f'model accepts={model_accept} (incremental={incremental}, whole source valid={full_ok}) '
                           f'but implementation raised={raised}')
    nbase = sum(1 for e in r['events'] if e['ev'] == 'base')
    if mode in ('stmt', 'head') and model_accept is not None and nbase != (1 if incremental else 2):
        res['corr'].append(f'_reparse_raw_base called {nbase} times, model: incremental={incremental}')
    if raised:
        if R is not None:
            if mode == 'plan-raises':
                cls = 'refuses-valid-source|degenerate-start'
            elif mode == 'special':
                cls = 'refuses-valid-source|special-path'
            else:
                cls = f'refuses-valid-source|unexplained|{mode}|{raised[0]}'
            res['fail'].append((sig(cls), f'raised {raised[0]}: {raised[1]} although the new source is valid'))
        return res
    # returned
    if r['src_after'] != new_src:
        res['fail'].append((sig('src-not-splice'), 'source after the call is not the requested splice'))
        return res
    if r['root_kind'] != 'Module':
        res['fail'].append((sig('whole-source|root-kind-changed'),
                            f'accepted by re-parsing in another mode: root is now {r["root_kind"]}'
                            + ('' if R is None else ' (new source valid as Module!)')))
        return res
    if R is None:
        if excluded:
            res['tally']['excluded_trailing_backslash'] = True
            return res
        if incremental and mode == 'head':
            cls = 'header-edit-brings-own-body|accepted-invalid'
        elif incremental:
            cls = f'accepts-invalid-source|wrapper-accepted|{syntax_kind(err)}'
        elif mode == 'special':
            cls = f'accepts-invalid-source|special-path|{syntax_kind(err)}'
        else:
            cls = f'accepts-invalid-source|unexplained|{mode}|{syntax_kind(err)}'
        res['fail'].append((sig(cls), f'accepted although CPython rejects the new source: {err}'))
        return res
    dR = util.dump_pos(R)
    P = None
    if mode == 'whole' or (model_accept is not None and not incremental and mode in ('stmt', 'head')):
        P = R                                        # whole-source reparse (directly or as the fallback)
    elif incremental and c.get('shape_ok', True):
        P = build_predicted(r, m, tree_out['tree'])
    dP = util.dump_pos(P) if P is not None else None
    if P is not None and P is not R:
        if dP != r['dump_after']:
            res['corr'].append('tree after the call differs from the model tree: ' + util.first_diff(r['dump_after'], dP))
        # the hypotheses of reparse_eq_full_partial, judged by CPython
        st = ev_of(r, 'facts')['stmtlike']
        res['hyp'] = 'hold' if dP == dR else 'fail'
    if r['dump_after'] == dR:
        res['tally']['equal_full_parse'] = True
        if r.get('loc_bad'):
            k, kind, got, exp = r['loc_bad']
            res['fail'].append((sig(f'stale-location|{k}'), f'source and tree equal a full parse but {kind}.{k} reports {got}, its positions give {exp}'))
        return res
    # the tree is not the full parse: classify
    if P is None or dP != r['dump_after']:
        cls = 'tree-differs|unexplained|' + str(mode)
        what = 'tree differs from the full parse and is not what the model predicts: ' + util.first_diff(r['dump_after'], dR)
    elif P is R:
        cls = 'tree-differs|whole-source'
        what = 'whole-source reparse differs from the full parse: ' + util.first_diff(r['dump_after'], dR)
    else:
        st = ev_of(r, 'facts')['stmtlike']
        if util.dump(P) != util.dump(R):
            cls = 'header-edit-brings-own-body' if mode == 'head' else 'boundary-changing-splice-accepted'
            what = 'structure differs from the full parse: ' + util.first_diff(util.dump(P), util.dump(R))
        else:
            diffs = pos_diffs(P, R)
            cls = classify_positions(diffs, st['path'])
            if cls == 'ancestor-end-stale' and c.get('cont_after'):
                cls = 'ancestor-end-stale|after-continuation'
            if cls.startswith('positions-differ|'):
                # the implementation does exactly what the model says and the structure is right, but the node parsed
                # inside the wrapper has other positions than the same text parsed in place (ParseLocal false)
                cls = 'region-parse-differs-in-place|' + cls.split('|')[1]
            what = 'positions differ from the full parse: ' + '; '.join(f'{k}.{a} live={x} parsed={y}' for _, k, a, x, y in diffs[:3])
    res['fail'].append((sig(cls), what))
    return res


# ---------------------------------------------------------------------------------------------------------------------
# deterministic header edits: every block statement kind x every legal combination of optional blocks

_B = '    x = 1\n'
HEADER_TEMPLATES = [
    'if abc  :\n' + _B, 'if abc  :\n' + _B + 'else  :\n' + _B, 'if abc  :\n' + _B + 'elif  de  :\n' + _B,
    'if abc  :\n' + _B + 'elif  de  :\n' + _B + 'else :\n' + _B,
    'for  i  in  xs  :\n' + _B, 'for  i  in  xs  :\n' + _B + 'else  :\n' + _B,
    'while  abc  :\n' + _B, 'while  abc  :\n' + _B + 'else  :\n' + _B,
    'try   :\n' + _B + 'finally  :\n' + _B,
    'try   :\n' + _B + 'except  Eab  as  e  :\n' + _B,
    'try   :\n' + _B + 'except  Eab  :\n' + _B + 'except  :\n' + _B,
    'try   :\n' + _B + 'except  Eab  :\n' + _B + 'else  :\n' + _B,
    'try   :\n' + _B + 'except  Eab  :\n' + _B + 'finally  :\n' + _B,
    'try   :\n' + _B + 'except  Eab  :\n' + _B + 'else  :\n' + _B + 'finally  :\n' + _B,
    'try   :\n' + _B + 'except*  Eab  :\n' + _B,
    'try   :\n' + _B + 'except*  Eab  :\n' + _B + 'finally  :\n' + _B,
    'try \\\n  :\n' + _B + 'finally:\n' + _B,
    'with  abc  as  d  :\n' + _B, 'with  abc  :\n' + _B, 'with  abc , de  as  f  :\n' + _B,
    'match  abc  :\n    case  1  :\n        x = 1\n', 'match  abc  :\n    case  [a, b]  if  g  :\n        x = 1\n    case  _  :\n        y\n',
    'def  f  ( a , b = 1 )  :\n' + _B, 'def  f  ( )  ->  T  :\n' + _B, '@dec\ndef  f  ( a )  :\n' + _B,
    '@dec ( 1 )\n@other\nclass  C  ( Bab , k = v )  :\n' + _B, 'class  C  :\n' + _B, 'class  C  ( )  :\n' + _B,
    'async  def  f  ( a )  :\n' + _B,
    'async def g():\n    async  for  i  in  xs  :\n        x = 1\n    async  for  i  in  xs  :\n        x = 1\n    else  :\n        y\n',
    'async def g():\n    async  with  abc  as  d  :\n        x = 1\n',
    'if abc  : x = 1\n', 'while  abc  : x = 1; y = 2\n', 'try  : x = 1\nfinally  : y = 2\n', 'class  C  : x = 1\n',
]


def _indent(src, prefix):
    return prefix + ''.join('    ' + l + '\n' if l else '\n' for l in src.split('\n')[:-1])


def header_edits():
    """[(src, (new, ln, col, end_ln, end_col), label)]: edits wholly inside a block header (before its colon)"""
    import io
    import keyword
    out = []
    for tmpl in HEADER_TEMPLATES:
        for src in (tmpl, 'k = 0\n' + tmpl + 'z = 9\n', _indent(tmpl, 'def outer():\n'), _indent(tmpl, 'class K:\n    q = 0\n')):
            try:
                tree = ast.parse(src)
                toks = list(tokenize.generate_tokens(io.StringIO(src).readline))
            except Exception:
                continue
            lines = src.split('\n')
            for node in ast.walk(tree):
                if node.__class__.__name__ not in BLOCK_KINDS or node.__class__.__name__ in ('FunctionDef', 'ClassDef') and \
                        node.name in ('outer', 'K', 'g'):
                    continue
                colon = header_colon_end(src, node)
                if colon is None:
                    continue
                if getattr(node, 'end_col_offset', None) is not None:
                    decos = getattr(node, 'decorator_list', None)
                    first = decos[0] if decos else node
                    start = (first.lineno, char_col(lines[first.lineno - 1], first.col_offset) - (1 if decos else 0))
                else:
                    start = _case_kw(src, node.pattern)
                end = (colon[0] + 1, colon[1] - 1)          # tokenizer coordinates of the colon
                hdr = [t for t in toks if start <= t.start and t.end <= end and t.type not in (tokenize.NL, tokenize.NEWLINE, tokenize.INDENT, tokenize.DEDENT, tokenize.COMMENT)]
                kind = node.__class__.__name__
                for i, t in enumerate(hdr):
                    r = (t.start[0] - 1, t.start[1], t.end[0] - 1, t.end[1])
                    out.append((src, (t.string, *r), kind + ':identity-token'))
                    if i == 0 and len(t.string) > 2:
                        out.append((src, (t.string[:2], r[0], r[1], r[0], r[1] + 2), kind + ':identity-part'))
                    if t.type == tokenize.NAME and not keyword.iskeyword(t.string) and t.string not in ('match', 'case', '_'):
                        out.append((src, ('zz', *r), kind + ':rename'))
                        out.append((src, ('(' + t.string + ')', *r), kind + ':paren'))
                    nxt_start = hdr[i + 1].start if i + 1 < len(hdr) else end
                    if nxt_start[0] == t.end[0] and (i + 1 < len(hdr) or nxt_start[1] - t.end[1] >= 2):
                        # the gap after this token (the one before the colon must leave a character: header-only rule)
                        gend = nxt_start[1] if i + 1 < len(hdr) else nxt_start[1] - 1
                        g = (t.end[0] - 1, t.end[1], t.end[0] - 1, gend)
                        for new in ('', ' ', '    ', ' \\\n  '):
                            if new != lines[g[0]][g[1]:g[3]]:
                                out.append((src, (new, *g), kind + ':gap'))
    return out


def span_edits():
    """[(src, (new, ln, col, end_ln, end_col), label)]: edits that span the last two statements of every block of every
    block statement kind (the enclosing block statement itself is the reparse region, it is reparsed whole and its end -
    and the end of every ancestor that ended with it - changes)"""
    out = []
    b2 = '    x = 1\n    yzw = 22\n'
    for tmpl in HEADER_TEMPLATES:
        if _B not in tmpl and 'x = 1\n' not in tmpl:
            continue
        t2 = tmpl.replace('        x = 1\n', '\0').replace(_B, b2).replace('\0', '        x = 1\n        yzw = 22\n')
        for src in (t2, 'k = 0\n' + t2, _indent(t2, 'def outer():\n'), _indent(t2, 'if q:\n    pass\nelse:\n')):
            try:
                tree = ast.parse(src)
            except Exception:
                continue
            lines = src.split('\n')
            for node in ast.walk(tree):
                if node.__class__.__name__ not in BLOCK_KINDS:
                    continue
                for f in BLOCK_FIELDS:
                    body = getattr(node, f, None)
                    if not isinstance(body, list) or len(body) < 2 or not isinstance(body[-1], ast.stmt):
                        continue
                    a, b = body[-2], body[-1]
                    ind = lines[b.lineno - 1][:b.col_offset]
                    rect = (a.lineno - 1, char_col(lines[a.lineno - 1], a.col_offset), b.end_lineno - 1,
                            char_col(lines[b.end_lineno - 1], b.end_col_offset))
                    for new in ('p\n' + ind + 'q', 'p\n' + ind + 'qqqqqqqqqq', 'p; q', 'p\n' + ind + 'q  # c', 'p'):
                        out.append((src, (new, *rect), node.__class__.__name__ + ':span-' + f))
    return out


# ---------------------------------------------------------------------------------------------------------------------
# tail chains: the edited statement is the last node of every enclosing block, through every kind of block

def _blk(kind, inner, ind):
    """lines of a block statement of `kind` at indentation `ind` whose LAST statement(s) are `inner` (already indented
    one level deeper)"""
    i = ' ' * ind
    j = ' ' * (ind + 4)
    return {
        'if': [i + 'if a:'] + inner,
        'else': [i + 'if a:', j + 'p', i + 'else:'] + inner,
        'elif': [i + 'if a:', j + 'p', i + 'elif b:'] + inner,
        'for': [i + 'for i in x:'] + inner,
        'while-else': [i + 'while a:', j + 'p', i + 'else:'] + inner,
        'with': [i + 'with a as b:'] + inner,
        'finally': [i + 'try:', j + 'p', i + 'finally:'] + inner,
        'except': [i + 'try:', j + 'p', i + 'except E:'] + inner,
        'def': [i + 'def f():'] + inner,
        'class': [i + 'class C:'] + inner,
        'match': [i + 'match m:', j + 'case 1:', ' ' * (ind + 8) + 'p', j + 'case _:'] + [' ' * 4 + l for l in inner],
    }[kind]


_CHAIN_KINDS = ['if', 'else', 'elif', 'for', 'while-else', 'with', 'finally', 'except', 'def', 'class', 'match']


def tail_chain_edits():
    """[(src, (new, ln, col, end_ln, end_col), label)]: every block kind inside every block kind (and `match` between two
    others), the innermost last statement `res = jump(arg, 2)` edited so that it ends before the end of the put text, at
    the same place, or later; every enclosing block ends with it"""
    out = []
    chains = [(a, b) for a in _CHAIN_KINDS for b in _CHAIN_KINDS] + [(a, 'match', b) for a in _CHAIN_KINDS for b in _CHAIN_KINDS if b != 'match']
    for chain in chains:
        depth = sum(8 if k == 'match' else 4 for k in chain)
        inner = [' ' * depth + 'res = jump(arg, 2)']
        ind = depth
        for k in reversed(chain):
            ind -= 8 if k == 'match' else 4
            # `inner` is indented for a plain block; _blk re-indents it by 4 more for match (case level)
            if k == 'match':
                inner = [l[4:] for l in inner]
            inner = _blk(k, inner, ind)
        for tail in ('', '\nz = 0'):
            src = '\n'.join(inner) + tail
            try:
                ast.parse(src)
            except SyntaxError:
                continue
            lines = src.split('\n')
            ln = next(i for i, l in enumerate(lines) if 'res = jump' in l)
            c = lines[ln].index('(arg')
            e = len(lines[ln])
            for new, rect in (('  # 2', (ln, c, ln, e)), ('', (ln, c, ln, e)), ('(arg, 2, 33)', (ln, c, ln, e)),
                              ('(arg,\n' + ' ' * depth + '     2)  # c', (ln, c, ln, e)), ('pass  # c', (ln, lines[ln].index('res'), ln, e)),
                              # a trailing semicolon created by the edit belongs to the enclosing blocks, not to the statement
                              ('(arg, 2);', (ln, c, ln, e)), ('(arg, 2) ;  # c', (ln, c, ln, e)),
                              (';', (ln, e, ln, e))):
                out.append((src, (new, *rect), 'chain:' + '>'.join(chain)))
        if len(chain) == 2:
            # the last statement carries a trailing line comment (part of the enclosing blocks' bounding location, not of the
            # statement) and the edit leaves the statement ending before the end of the put text
            src = '\n'.join(inner).replace('res = jump(arg, 2)', 'res = jump(arg, 2)  # t')
            lines = src.split('\n')
            ln = next(i for i, l in enumerate(lines) if 'res = jump' in l)
            c = lines[ln].index('(arg')
            e = c + len('(arg, 2)')
            for new in ('(arg) ', ' ', '(arg, 2, 33)'):
                out.append((src, (new, ln, c, ln, e), 'chain-comment:' + '>'.join(chain)))
    return out


# ---------------------------------------------------------------------------------------------------------------------
# raw-mode slice puts to statement-list fields

SLICE_TEXTS = {
    'stmt': ['zq = 1', 'def g(self): pass', 'async def h(): pass', 'class L(K): x = 1', 'y = 8\nz = 9', 'pass  # c',
             '@dd\ndef g(): pass', 'if t: u = 1'],
    'handler': ['except Z: pass', 'except (A, B) as e:\n    zq = 1'],
    'case': ['case 9: pass', 'case [x, y] if x:\n    zq = 1'],
}


def slice_elems(cont, field):
    """the elements a raw slice put to `field` counts (CPython tree): `_body` is `body` without a leading docstring"""
    if field == '_body':
        body = cont.body
        if body and isinstance(cont, (ast.Module, ast.FunctionDef, ast.AsyncFunctionDef, ast.ClassDef)) and \
                isinstance(body[0], ast.Expr) and isinstance(getattr(body[0].value, 'value', None), str):
            return body[1:]
        return body
    return getattr(cont, field, None) or []


def slice_rect(tree, lines, path, field, start, stop):
    """the rectangle of elements [start:stop) from CPython positions only: from the first decorator of the first element to
    the end (trailing line comment of a block statement included) of the last"""
    cont = follow(tree, path)
    el = slice_elems(cont, field)
    if not (0 <= start < stop <= len(el)):
        return None
    if field in ('elts', 'args', 'values'):        # expression lists: plain CPython spans of the first and last element
        a, b = el[start], el[stop - 1]
        return [a.lineno - 1, char_col(lines[a.lineno - 1], a.col_offset), b.end_lineno - 1,
                char_col(lines[b.end_lineno - 1], b.end_col_offset)]
    real = 'body' if field == '_body' else field
    off = len(getattr(cont, real)) - len(el)
    a = cpy_bloc(tree, lines, list(path) + [[real, start + off]])
    b = cpy_bloc(tree, lines, list(path) + [[real, stop - 1 + off]])
    if a is None or b is None:
        # match_case has no position: pattern start searched back to `case`, end = end of last body statement (+ comment)
        def mc(i):
            n = getattr(cont, real)[i]
            kw = _case_kw('\n'.join(lines), n.pattern)
            last = n.body[-1]
            eln, ecol = last.end_lineno - 1, char_col(lines[last.end_lineno - 1], last.end_col_offset)
            if lines[eln].find('#', ecol) != -1:      # a match_case is a block: the trailing line comment of its last line belongs to it
                ecol = len(lines[eln])
            return [kw[0] - 1, kw[1], eln, ecol]
        if field != 'cases':
            return None
        a = a or mc(start + off)
        b = b or mc(stop - 1 + off)
    return [a[0], a[1], b[2], b[3]]


SLICE_TEMPLATES = [
    ('class C:\n    """doc"""\n    @staticmethod\n    def f(): pass\n    b = 2\n    @dc ( 1 )\n    class K: pass  # k\n', [['body', 0]], '_body'),
    ('@deco(1)\n@other\ndef f():\n    return 1\nb = 2\n@dd\nasync def g(): pass\nc = 3', [], '_body'),
    ('"""mod doc"""\n@deco\nclass A: pass\nb = 2', [], '_body'),
    ('if t:\n    a = 1\n    @dc\n    class K: pass\n    c = 3  # c\n', [['body', 0]], '_body'),
    ('def f():\n    """doc"""\n    a = 1\n    @d\n    def g(): pass\n    c = 3', [['body', 0]], '_body'),
    ('if t:\n    p\nelse:\n    @d\n    def f(): pass  # c\n    q\n', [['body', 0]], 'orelse'),
    ('for i in x:\n    p\nelse:\n    q\n    @d\n    class K:\n        z = 1  # z\n', [['body', 0]], 'orelse'),
    ('try:\n    p\nfinally:\n    @d\n    class K: pass\n    q\n', [['body', 0]], 'finalbody'),
    ('try:\n    p\nexcept A:\n    a\nexcept B as e:\n    b  # b\nexcept:\n    c\n', [['body', 0]], 'handlers'),
    ('match m:\n    case 1:\n        a\n    case [x]:\n        b\n    case _:\n        c\n', [['body', 0]], 'cases'),
    ('while a:\n    @d\n    def g(): pass\n', [['body', 0]], '_body'),
]


def slice_edits():
    """[(src, script-entry, label)]: every [start:stop) of every template's field x every replacement text of its kind"""
    out = []
    for src, path, field in SLICE_TEMPLATES:
        tree = ast.parse(src)
        lines = src.split('\n')
        n = len(slice_elems(follow(tree, path), field))
        kind = {'handlers': 'handler', 'cases': 'case'}.get(field, 'stmt')
        for start in range(n):
            for stop in range(start + 1, n + 1):
                rect = slice_rect(tree, lines, path, field, start, stop)
                ind = lines[rect[0]][:rect[1]]
                for new in SLICE_TEXTS[kind]:
                    out.append((src, ('raw-slice', path, field, start, stop, new.replace('\n', '\n' + ind)), 'slice:' + field))
    return out


# raw-mode slice puts to expression lists: code given as text, as an FST or as an AST; raw=True and raw='auto'

EXPR_SLICE_TARGETS = [
    ('v = [a, b, c]', [['body', 0], ['value', None]], 'elts'),
    ('v = (a, b, c)', [['body', 0], ['value', None]], 'elts'),
    ('v = {a, b, c}', [['body', 0], ['value', None]], 'elts'),
    ('f(a, b, c)', [['body', 0], ['value', None]], 'args'),
    ('if q:\n    v = [a,\n         b, c]  # t\n', [['body', 0], ['body', 0], ['value', None]], 'elts'),
]
EXPR_SLICE_CODES = ['[x, y]', '[x, y]\n', '[x, y]\n# c\n', '(x,\n y)\n\n', '{x, y}  # c\n# d', '[x]\n\n\n', '[x, y.z]\n\n# e', '# lead\n[x, y]\n']
# (not used: codes with a trailing comma or parenthesised last element - the put adjusts commas / takes the parentheses by design)
FSTR_TARGETS = [
    ('x = f"a{b}c{d!r}e"', [['body', 0], ['value', None]], 'values'),
    ('print(f"{a}{b:>{w}} t", k)', [['body', 0], ['value', None], ['args', 0]], 'values'),
    ('def g():\n    return f\'{u}-{v}\'\n', [['body', 0], ['body', 0], ['value', None]], 'values'),
]
FSTR_TEXTS = ['{z}', 'lit', '{p}{q}', 'l{m!s}']


def expr_slice_edits():
    out = []
    for src, path, field in EXPR_SLICE_TARGETS:
        n = len(slice_elems(follow(ast.parse(src), path), field))
        for code_src in EXPR_SLICE_CODES:
            ct = ast.parse(code_src.strip(), mode='eval').body
            cl = code_src.strip().split('\n')
            a, b = ct.elts[0], ct.elts[-1]
            if a.lineno != b.end_lineno:
                elems = '\n'.join([cl[a.lineno - 1][char_col(cl[a.lineno - 1], a.col_offset):]] + cl[a.lineno:b.end_lineno - 1]
                                  + [cl[b.end_lineno - 1][:char_col(cl[b.end_lineno - 1], b.end_col_offset)]])
            else:
                elems = cl[a.lineno - 1][char_col(cl[a.lineno - 1], a.col_offset):char_col(cl[a.lineno - 1], b.end_col_offset)]
            for start in range(n):
                for stop in range(start + 1, n + 1):
                    if '(a, b, c)' in src and field == 'elts' and stop - start == n and len(ct.elts) == 1:
                        continue        # a tuple left with one element gets its comma from the put (by design)
                    out.append((src, ('raw-slice', path, field, start, stop, elems, {'code': ['fst', code_src]}), 'slice:' + field + ':fst-code'))
                    if '\n' not in elems and '(y)' not in elems:
                        out.append((src, ('raw-slice', path, field, start, stop, ast.unparse(ct)[1:-1].rstrip(',') if not isinstance(ct, ast.Tuple) or True else elems,
                                          {'code': ['ast', code_src]}), 'slice:' + field + ':ast-code'))
    for src, path, field in FSTR_TARGETS:
        n = len(slice_elems(follow(ast.parse(src), path), field))
        for start in range(n):
            for stop in range(start + 1, n + 1):
                for new in FSTR_TEXTS:
                    for raw in (True, 'auto'):
                        out.append((src, ('raw-slice', path, field, start, stop, new, {'raw': raw}), f'slice:values:raw={raw}'))
    return out
