"""C17: deterministic products for corners of the matcher that the generated sweeps do not reach.

(1) `None` / MMAYBE patterns against falsy-but-not-None values: `None` matches only `None`.
(2) quantifier constructors accept exactly the bounds a regular expression `{m,n}` accepts (and refuse an unbounded
    sublist that can match the empty sequence).
(3) a view (slice of a virtual field: Compare._all, Dict._all, MatchMapping._all, arguments._all) used as a pattern
    matches the node that copying that slice makes, and no copy of a different slice of another length / content.
(4) single-argument patterns inside `Marguments(_all=[...])`: the documented rules for argument kind (`_strict`) and for
    presence / absence of the default.
All expectations are written down from the documentation; nothing is computed with the matcher.
"""

from __future__ import annotations

import ast
import re

import c17_lib as L

TN = L.tname


def _m(pat, tgt):
    from fst.match import M, M_Pattern
    try:
        m = pat.match(tgt) if isinstance(pat, M_Pattern) else M(pat).match(tgt)
        return m is not None
    except Exception as e:      # noqa: BLE001
        return 'raised ' + type(e).__name__


# ---- (1) ------------------------------------------------------------------------------------------------------------

FALSY = [None, 0, False, '', b'', 0.0, 0j, 1, 'x']


def falsy_cases():
    """[(name, pattern, target, expected)]"""
    from fst.match import MConstant, MMAYBE, MImportFrom, MReturn, MCall, MName, M
    out = []
    for v in FALSY:
        tgt = ast.Constant(value=v)
        out.append((f'Constant(value=None) vs {v!r}', ast.Constant(value=None), tgt, v is None))
        out.append((f'MConstant(value=None) vs {v!r}', MConstant(value=None), tgt, v is None))
        out.append((f'MConstant(value=MMAYBE(5)) vs {v!r}', MConstant(value=MMAYBE(5)), tgt, v is None))
        out.append((f'MConstant(value=MMAYBE(t=1)) vs {v!r}', MConstant(value=MMAYBE(**{TN(0): 1})), tgt, v is None or (v == 1 and type(v) is int)))
        out.append((f'MConstant(kind=None) vs kind {v!r}', MConstant(value=1, kind=None), ast.Constant(value=1, kind=v if isinstance(v, str) else None),
                    not (isinstance(v, str))))
    for lvl in (0, 1, None):
        tgt = ast.ImportFrom(module='m', names=[ast.alias(name='a', asname=None)], level=lvl)
        out.append((f'MImportFrom(level=None) vs {lvl!r}', MImportFrom(level=None), tgt, lvl is None))
        out.append((f'MImportFrom(level=MMAYBE(1)) vs {lvl!r}', MImportFrom(level=MMAYBE(1)), tgt, lvl is None or lvl == 1))
        out.append((f'MImportFrom(module=MMAYBE("x")) vs m, level {lvl!r}', MImportFrom(module=MMAYBE('x')), tgt, False))
    # a list field that is empty is not None
    call = ast.Call(func=ast.Name(id='f', ctx=ast.Load()), args=[], keywords=[])
    out.append(('MCall(args=None) vs []', MCall(args=None), call, False))
    out.append(('MCall(args=MMAYBE([MName("a")])) vs []', MCall(args=MMAYBE([MName('a')])), call, False))
    out.append(('MCall(args=[]) vs []', MCall(args=[]), call, True))
    out.append(('MReturn(value=None) vs None', MReturn(value=None), ast.Return(value=None), True))
    out.append(('MReturn(value=MMAYBE(Name)) vs None', MReturn(value=MMAYBE(ast.Name)), ast.Return(value=None), True))
    out.append(('MReturn(value=None) vs Constant(0)', MReturn(value=None), ast.Return(value=ast.Constant(value=0)), False))
    out.append(('M(None) vs 0', M(None), 0, False))
    out.append(('M(None) vs None', M(None), None, True))
    out.append(('MMAYBE(1) vs 0', MMAYBE(1), 0, False))
    out.append(('MMAYBE(1) vs []', MMAYBE(1), [], False))
    return out


# ---- (1b) equal but not identical primitives -------------------------------------------------------------------------

PRIM_SRC = ('x = (b"abc", b"\\x00\\xff\\x10", "hello world", 100000, 12345678901234567890, 1.5e10, 2.5j, None, ..., True, False, b"", "")\n'
            'from ..pkg.mod import name_one as alias_two\n'
            'def func_name(arg_name, *var_arg, kw_only=b"default", **kw_arg) -> "ret ann": return obj_x.attr_name(key_word=f"{val!r:>10}")\n'
            'global_decl = 1\n'
            'try: pass\nexcept Exc as exc_name: pass\n'
            'match subj:\n    case Cls(kwd_attr=123456): pass\n    case {"k": 3.25, **rest_name}: pass\n    case [*star_name] as as_name: pass\n'
            'type Alias[TypeV] = int\n'
            'import mod_a.mod_b as mod_c\n')


def _fresh(v):
    """an equal object that is not the same object where CPython allows it"""
    if isinstance(v, bytes):
        return bytes(bytearray(v))
    if isinstance(v, bool) or v is None or v is ...:
        return v
    if isinstance(v, str):
        return ''.join(list(v))
    if isinstance(v, int):
        return int(str(v))
    if isinstance(v, float):
        return float(repr(v))
    if isinstance(v, complex):
        return complex(repr(v))
    return v


def _fresh_tree(a):
    if isinstance(a, ast.AST):
        return a.__class__(**{f: _fresh_tree(getattr(a, f, None)) for f in a._fields})
    if isinstance(a, list):
        return [_fresh_tree(x) for x in a]
    return _fresh(a)


def primitive_cases():
    """[(name, pattern, target, expected)]: a tree against the pattern from an independent parse / a deep copy with fresh
    leaf objects, node by node; and search with a hand-written constant pattern"""
    from fst import FST
    from fst.match import MConstant, MName
    out = []
    f = FST(PRIM_SRC, 'exec')
    indep = ast.parse(PRIM_SRC)
    out.append(('whole tree vs independent parse', indep, f, True))
    out.append(('whole tree vs deep copy with fresh leaves', _fresh_tree(f.a), f, True))
    out.append(('pure AST vs independent parse', ast.parse(PRIM_SRC), ast.parse(PRIM_SRC), True))
    # node by node: every node that owns a primitive field
    nodes_f = [g for g in f.walk(True)]
    nodes_i = list(ast.walk(indep))
    by_dump = {}
    for n in nodes_i:
        by_dump.setdefault(ast.dump(n), n)
    for g in nodes_f:
        prim = [fl for fl in g.a._fields if not isinstance(getattr(g.a, fl, None), (ast.AST, list))]
        if not prim or isinstance(g.a, (ast.expr_context, ast.operator, ast.cmpop, ast.unaryop, ast.boolop)):
            continue
        twin = by_dump.get(ast.dump(g.a))
        if twin is not None:
            out.append((f'{g.a.__class__.__name__} {ast.dump(g.a)[:60]} vs independent parse', twin, g, True))
        out.append((f'{g.a.__class__.__name__} {ast.dump(g.a)[:60]} vs fresh copy', _fresh_tree(g.a), g, True))
    for v in (b'abc', 'hello world', 100000, 12345678901234567890, 1.5e10, 2.5j, None, ..., True, 3.25, 123456):
        tgt = next(g for g in nodes_f if isinstance(g.a, ast.Constant) and type(g.a.value) is type(v) and g.a.value == v)
        pat = MConstant(value=_fresh(v))
        out.append((f'MConstant({v!r}) vs its constant', pat, tgt, True))
        out.append((f'search(MConstant({v!r}))', ('search', pat, ast.dump(tgt.a)), f, True))
    for nm in ('obj_x', 'subj', 'Cls'):
        out.append((f'search(MName({nm!r}))', ('search', MName(id=_fresh(nm)), None), f, True))
    return out


def _prim_run(pat, tgt):
    if isinstance(pat, tuple) and pat[0] == 'search':
        try:
            return len(list(tgt.search(pat[1]))) >= 1
        except Exception as e:      # noqa: BLE001
            return 'raised ' + type(e).__name__
    from fst import FST
    if isinstance(tgt, FST) and isinstance(pat, ast.AST):
        try:
            return tgt.match(pat) is not None
        except Exception as e:      # noqa: BLE001
            return 'raised ' + type(e).__name__
    return _m(pat, tgt)


# ---- (1c) lists of identifiers, every position, non-NFKC spellings, sibling-valued single-leaf variants ---------------

ID_NAMES = ['x', '\ufb01', 'yy', '\u210c', '\u00b51']       # 'fi' ligature -> 'fi', script H -> 'H', micro sign -> Greek mu


def _id_src(kind, names):
    if kind == 'global':
        return 'def f():\n    global ' + ', '.join(names) + '\n'
    if kind == 'nonlocal':
        return 'def g():\n  ' + '; '.join(n + ' = 1' for n in names) + '\n  def f():\n    nonlocal ' + ', '.join(names) + '\n'
    if kind == 'kwd_attrs':
        return 'match s:\n    case C(' + ', '.join(f'{n}={i}' for i, n in enumerate(names)) + '): pass\n'
    if kind == 'import':
        return 'from m import ' + ', '.join(names) + '\n'
    if kind == 'args':
        return 'def f(' + ', '.join(names) + '): pass\n'
    raise ValueError(kind)


def identifier_list_cases():
    """[(name, kind, target src, pattern src, expected)]: expected = the two sources parse to the same tree (ast.dump)"""
    import unicodedata
    out = []
    for kind in ('global', 'nonlocal', 'kwd_attrs', 'import', 'args'):
        for n in (1, 2, 3):
            for i in range(len(ID_NAMES) - n + 1):
                names = ID_NAMES[i:i + n]
                src = _id_src(kind, names)
                variants = [list(names)]
                for p in range(n):
                    for repl in set([names[0], names[-1], 'zz', unicodedata.normalize('NFKC', names[p])] + names):
                        v = list(names)
                        v[p] = repl
                        if len(set(unicodedata.normalize('NFKC', q) for q in v)) == len(v) or kind in ('global', 'import'):
                            variants.append(v)
                    for q in range(p + 1, n):
                        v = list(names)
                        v[p], v[q] = v[q], v[p]
                        variants.append(v)
                seen = set()
                for v in variants:
                    if tuple(v) in seen:
                        continue
                    seen.add(tuple(v))
                    try:
                        psrc = _id_src(kind, v)
                        same = ast.dump(ast.parse(src)) == ast.dump(ast.parse(psrc))
                    except SyntaxError:
                        continue
                    out.append((f'{kind} {names} vs pattern from {v}', kind, src, psrc, same))
    return out


def _id_run(src, psrc):
    """(FST target vs AST pattern, pure AST target vs AST pattern, search of the own statement finds it)"""
    from fst import FST
    from fst.match import M
    try:
        f = FST(src, 'exec')
        a = f.match(ast.parse(psrc)) is not None
        b = M(ast.parse(psrc)).match(ast.parse(src)) is not None
        return a, b
    except Exception as e:      # noqa: BLE001
        return 'raised ' + type(e).__name__, None


# ---- (1d) type patterns on the items of multi-node views --------------------------------------------------------------

def view_type_cases():
    """[(name, pattern thunk, target src, mode, expected)]: an item of Dict._all / MatchMapping._all / arguments._all is
    'a Dict' / 'a MatchMapping' / 'an arguments', a Global / Nonlocal name is 'a Name' (documented implicit types): a
    class pattern matches such an item iff the implicit type is a subclass of the class, exactly as for real nodes"""
    from fst import match as M
    conts = [
        ('Dict', ast.Dict, '{a: b, **c, d: e}', None, lambda els: M.MDict(_all=els)),
        ('MatchMapping', ast.MatchMapping, 'match s:\n    case {1: a, 2: b}: pass\n', 'case', lambda els: M.MMatchMapping(_all=els)),
        ('arguments', ast.arguments, 'a, /, b=1, *c, d=2, **e', 'arguments', lambda els: M.Marguments(_all=els)),
        ('Global', ast.Name, 'global x, y, z', None, lambda els: M.MGlobal(names=els)),
        ('Nonlocal', ast.Name, 'nonlocal x, y', None, lambda els: M.MNonlocal(names=els)),
    ]
    types = [ast.AST, ast.expr, ast.stmt, ast.pattern, ast.Dict, ast.MatchMapping, ast.arguments, ast.Name, ast.Constant,
             M.MAST, M.Mexpr, M.Mstmt, M.Mpattern, M.MDict, M.MMatchMapping, M.Marguments, M.MName]
    out = []
    for cname, implicit, src, mode, mk in conts:
        for T in types:
            base = T._types if issubclass(T, M.M_Pattern) else T
            exp = issubclass(implicit, base)
            tn = T.__name__
            out.append((f'{cname} items vs [MQSTAR(t={tn})]', (lambda mk=mk, T=T: mk([M.MQSTAR(**{TN(0): T})])), src, mode, exp))
            out.append((f'{cname} items vs [{tn}, MQSTAR]', (lambda mk=mk, T=T: mk([T, M.MQSTAR])), src, mode, exp))
            out.append((f'{cname} items vs [MQSTAR, M(t={tn})]', (lambda mk=mk, T=T: mk([M.MQSTAR, M.M(**{TN(0): T})])), src, mode, exp))
    return out


def _view_type_run(thunk, src, mode):
    from fst import FST
    try:
        if mode == 'case':
            tgt = FST(src, 'exec').body[0].cases[0].pattern
        elif mode == 'arguments':
            tgt = FST(src, 'arguments')
        else:
            tgt = FST(src)
        return thunk().match(tgt) is not None
    except Exception as e:      # noqa: BLE001
        return 'raised ' + type(e).__name__


# ---- (2) ------------------------------------------------------------------------------------------------------------

def constructor_cases():
    """[(name, thunk, should_accept)]"""
    from fst import match as M
    out = []
    bodies = {'single': lambda: 'a', 'sublist': lambda: ['a', 'b'], 'nullable-sublist': lambda: [M.MQSTAR('a'), M.MQOPT],
              'nested-nullable': lambda: [M.MQ(['a'], 0, 2)]}
    for bname, mk in bodies.items():
        for mn in (0, 1, 2):
            for mx in (0, 1, 2, None):
                ok_re = True
                try:
                    re.compile('(?:ab){%d,%s}' % (mn, '' if mx is None else mx))
                except re.error:
                    ok_re = False
                ok = ok_re and not (mx is None and bname in ('nullable-sublist', 'nested-nullable'))
                for cname, cls in (('MQ', M.MQ), ('MQ.NG', M.MQ.NG)):
                    out.append((f'{cname}({bname}, {mn}, {mx})', (lambda cls=cls, mk=mk, mn=mn, mx=mx: cls(mk(), mn, mx)), ok))
    out.append(('MQ(a, -1, 2)', lambda: M.MQ('a', -1, 2), False))
    out.append(('MQ(a, 0, -1)', lambda: M.MQ('a', 0, -1), False))
    out.append(('MQSTAR(MQSTAR)', lambda: M.MQSTAR(M.MQSTAR), False))
    out.append(('MQPLUS(MQ(a,1,2))', lambda: M.MQPLUS(M.MQ('a', 1, 2)), False))
    out.append(('MQMIN(nullable-sublist, 1)', lambda: M.MQMIN([M.MQOPT('a')], min=1), False))
    out.append(('MQMIN(sublist, 0)', lambda: M.MQMIN(['a'], min=0), True))
    out.append(('MQN(a, 0)', lambda: M.MQN('a', n=0), True))
    return out


# ---- (3) ------------------------------------------------------------------------------------------------------------

VIEW_SRCS = [
    ('Compare', 'a < b <= c < b <= c', lambda f: f._all),
    ('Compare', 'x == y != x == y', lambda f: f._all),
    ('Dict', '{a: b, **c, d: e, a: b}', lambda f: f._all),
    ('Dict', '{1: 2, 3: b, **b}', lambda f: f._all),
    ('MatchMapping', 'match x:\n case {1: a, 2: b, 1: a}: pass', lambda f: f.cases[0].pattern._all),
    ('arguments', 'def f(a, b=1, /, c=2, *d, e, g=3, **h): pass', lambda f: f.args._all),
    ('arguments', 'lambda a, /, b, *, c=1: 0', lambda f: f.args._all),
]


def view_cases():
    """[(name, pattern view, target node, expected, kind)]"""
    from fst import FST
    out = []
    for kind, src, get in VIEW_SRCS:
        f = FST(src)
        v = get(f)
        n = len(v)
        slices = [(a, b) for a in range(n) for b in range(a + 1, n + 1) if kind != 'Compare' or b - a >= 2]
        copies = {}
        for a, b in slices:
            try:
                copies[(a, b)] = v[a:b].copy()
            except Exception:       # noqa: BLE001
                pass
        for (a, b), cp in copies.items():
            out.append((f'{kind} view [{a}:{b}] of {src!r} vs its own copy', v[a:b], cp, True, kind))
            if kind == 'arguments':
                continue            # argument kinds may match loosely: only the self-match is specified here
            for (x, y), cp2 in copies.items():
                if (x, y) != (a, b):
                    same = ast.dump(cp.a) == ast.dump(cp2.a)
                    out.append((f'{kind} view [{a}:{b}] of {src!r} vs copy of [{x}:{y}]', v[a:b], cp2, same, kind))
    return out


# ---- (4) ------------------------------------------------------------------------------------------------------------

def argument_cases():
    """[(name, pattern, target arguments FST, expected)] after docs 'arguments virtual field matching'"""
    from fst import FST
    from fst.match import Marguments, M
    NS = object()
    tgts = {}
    for tk, fmt in (('posonlyargs', '{}, /'), ('args', '{}'), ('kwonlyargs', '*, {}')):
        for nm in ('a', 'b'):
            for d in (None, '1', '2'):
                tgts[(tk, nm, d)] = fmt.format(nm if d is None else f'{nm}={d}')
    out = []
    for pk in ('posonlyargs', 'args', 'kwonlyargs'):
        dfield = 'kw_defaults' if pk == 'kwonlyargs' else 'defaults'
        for strict in (NS, True, None):
            for dspec in ('unspecified', 'optional', 'required', 'excluded'):
                kw = {pk: ['a']}
                if dspec == 'optional':
                    kw[dfield] = ...
                elif dspec == 'required':
                    kw[dfield] = ['1']
                elif dspec == 'excluded':
                    kw[dfield] = [None] if pk == 'kwonlyargs' else []
                if strict is not NS:
                    kw['_strict'] = strict
                for (tk, nm, d), tsrc in tgts.items():
                    if strict is True:
                        kind_ok = pk == tk
                    elif strict is None:
                        kind_ok = True
                    else:
                        kind_ok = pk == 'args' or pk == tk
                    if dspec in ('unspecified', 'optional'):
                        d_ok = True
                    elif dspec == 'required':
                        d_ok = d == '1'
                    else:
                        d_ok = d is None
                    exp = kind_ok and nm == 'a' and d_ok
                    sname = 'default' if strict is NS else strict
                    out.append((f'Marguments(_all=[Marguments({pk}=[a], {dfield}: {dspec}, _strict={sname})]) vs {tsrc!r}',
                                (pk, dict(kw)), tsrc, exp))
    # the same with plain `ast.arguments` instances as single-argument patterns (no `_strict`: the default rules; an
    # instance says exactly whether there is a default)
    for (pk, pnm, pd), psrc in tgts.items():
        if pnm != 'a' or pd == '2':
            continue
        for (tk, nm, d), tsrc in tgts.items():
            kind_ok = pk == 'args' or pk == tk
            exp = kind_ok and nm == 'a' and d == pd
            out.append((f'Marguments(_all=[<ast.arguments of {psrc!r}>]) vs {tsrc!r}', ('ast', psrc), tsrc, exp))
    return out


def _build_arg_pattern(spec):
    from fst.match import Marguments, M
    pk, kw = spec
    if pk == 'ast':
        return Marguments(_all=[M(**{TN(0): ast.parse(f'def f({kw}): pass').body[0].args})])
    return Marguments(_all=[M(**{TN(0): Marguments(**kw)})])


# ---------------------------------------------------------------------------------------------------------------------

def sweep(ctx):
    from fst import FST
    seen = {}

    def fail(sig, what, w):
        seen[sig] = seen.get(sig, 0) + 1
        if seen[sig] <= 2:
            ctx.fail(sig, what, w)

    for i, (name, pat, tgt, exp) in enumerate(falsy_cases()):
        ctx.count(('falsy', name))
        got = _m(pat, tgt)
        if got != exp:
            cls = 'raised' if isinstance(got, str) else 'wrong-accept' if got else 'wrong-reject'
            fail(f'C17|structural|none-vs-falsy|{cls}', f'{name}: match gives {got}, expected {exp} (None matches only None)',
                 {'kind': 'views', 'family': 'falsy', 'index': i, 'name': name})
    for i, (name, pat, tgt, exp) in enumerate(primitive_cases()):
        ctx.count(('prim', name))
        got = _prim_run(pat, tgt)
        if got != exp:
            cls = 'raised' if isinstance(got, str) else 'own-pattern-rejected'
            what = 'search-constant' if name.startswith('search') else name.split(' ')[0].split('(')[0]
            fail(f'C17|structural|equal-not-identical-leaf-{what}|{cls}',
                 f'{name}: a pattern with equal but not identical leaf objects gives {got}, expected {exp}',
                 {'kind': 'views', 'family': 'prim', 'index': i, 'name': name})
    for i, (name, thunk, src, mode, exp) in enumerate(view_type_cases()):
        ctx.count(('viewtype', name))
        got = _view_type_run(thunk, src, mode)
        if got != exp:
            cls = 'raised' if isinstance(got, str) else 'wrong-accept' if got else 'wrong-reject'
            fail(f'C17|virtual-field|{name.split(" ")[0]}-item-type-pattern|{cls}',
                 f'{name} on {src!r}: match gives {got}, issubclass(implicit item type, pattern class) is {exp}',
                 {'kind': 'views', 'family': 'viewtype', 'index': i, 'name': name})
    for i, (name, kind, src, psrc, exp) in enumerate(identifier_list_cases()):
        ctx.count(('idlist', name))
        got = _id_run(src, psrc)
        if got != (exp, exp):
            which = 'raised' if isinstance(got[0], str) else ('own-pattern-rejected' if exp and src == psrc else
                                                              'wrong-reject' if exp else 'single-leaf-variant-accepted')
            where = 'formatted' if got[0] != exp else 'pure-ast'
            fail(f'C17|structural|identifier-list-{kind}|{which}',
                 f'{name}: match on the {where} tree gives {got}, ast.dump says the trees are {"equal" if exp else "different"}',
                 {'kind': 'views', 'family': 'idlist', 'index': i, 'name': name})
    for i, (name, thunk, ok) in enumerate(constructor_cases()):
        ctx.count(('ctor', name))
        try:
            thunk()
            got = True
        except ValueError:
            got = False
        except Exception as e:      # noqa: BLE001
            got = 'raised ' + type(e).__name__
        if got != ok:
            fail(f'C17|list-quantifier|constructor-bounds|{"wrong-accept" if got is True else "wrong-reject"}',
                 f'{name}: constructor {"accepts" if got is True else "refuses (" + str(got) + ")"}, a regular expression with these bounds is '
                 f'{"valid" if ok else "invalid"}', {'kind': 'views', 'family': 'ctor', 'index': i, 'name': name})
    for i, (name, pat, tgt, exp, kind) in enumerate(view_cases()):
        ctx.count(('view', name))
        got = _m(pat, tgt)
        if got != exp:
            cls = 'raised' if isinstance(got, str) else ('own-copy-rejected' if 'own copy' in name else 'wrong-accept' if got else 'wrong-reject')
            fail(f'C17|virtual-field|{kind}-view-as-pattern|{cls}', f'{name}: match gives {got}, expected {exp}',
                 {'kind': 'views', 'family': 'view', 'index': i, 'name': name})
    for i, (name, spec, tsrc, exp) in enumerate(argument_cases()):
        ctx.count(('arg', name))
        got = _m(_build_arg_pattern(spec), FST(tsrc, 'arguments'))
        if got != exp:
            cls = 'raised' if isinstance(got, str) else 'wrong-accept' if got else 'wrong-reject'
            fail(f'C17|virtual-field|arguments-single-arg|{cls}', f'{name}: match gives {got}, documented rules say {exp}',
                 {'kind': 'views', 'family': 'arg', 'index': i, 'name': name})
    ctx.notes['deterministic_product_failures'] = seen


def replay(ctx, w):
    from fst import FST
    fam, i = w['family'], w['index']
    if fam == 'falsy':
        name, pat, tgt, exp = falsy_cases()[i]
        got = _m(pat, tgt)
    elif fam == 'viewtype':
        name, thunk, src, mode, exp = view_type_cases()[i]
        got = _view_type_run(thunk, src, mode)
    elif fam == 'idlist':
        name, kind, src, psrc, e0 = identifier_list_cases()[i]
        got, exp = _id_run(src, psrc), (e0, e0)
    elif fam == 'prim':
        name, pat, tgt, exp = primitive_cases()[i]
        got = _prim_run(pat, tgt)
    elif fam == 'ctor':
        name, thunk, exp = constructor_cases()[i]
        try:
            thunk()
            got = True
        except Exception:       # noqa: BLE001
            got = False
    elif fam == 'view':
        name, pat, tgt, exp, kind = view_cases()[i]
        got = _m(pat, tgt)
    else:
        name, spec, tsrc, exp = argument_cases()[i]
        got = _m(_build_arg_pattern(spec), FST(tsrc, 'arguments'))
    if got != exp:
        ctx.fail('replay', f'{name}: got {got}, expected {exp}', w)
