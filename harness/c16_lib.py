"""C16 helpers.

* `to_model(tree)`: translate a real `ast` tree (as held by pfst) into the abstract syntax of lean/Pfst/Scope.lean.
* `Ref`: reference scope analysis written from the language reference over plain `ast` (no pfst code): which scope every
  node belongs to, the names every scope binds / reads / deletes / declares.
* `symtable_scopes(src)`: CPython's own symbol tables for the same program, with PEP 709 inlining undone (see there),
  paired with the AST scope nodes, mapped onto pfst's seven classes.
"""

from __future__ import annotations

import ast
import symtable
import sys

SCOPE_DEF = (ast.FunctionDef, ast.AsyncFunctionDef, ast.ClassDef)
FUNC_DEF = (ast.FunctionDef, ast.AsyncFunctionDef)
COMPS = (ast.ListComp, ast.SetComp, ast.DictComp, ast.GeneratorExp)
SCOPES = SCOPE_DEF + (ast.Lambda,) + COMPS
TYPE_PARAMS = (ast.TypeVar, ast.ParamSpec, ast.TypeVarTuple)
CLASSES7 = ('load', 'store', 'del', 'global', 'nonlocal', 'local', 'free')


# ----------------------------------------------------------------------------------------------------------------------
# translation into the model's abstract syntax (uses pfst's syntax order of children so that walk *order* can be compared)

def _kind(n):
    if isinstance(n, ast.Module):
        return 'module'
    if isinstance(n, FUNC_DEF):
        return 'funcdef'
    if isinstance(n, ast.ClassDef):
        return 'classdef'
    if isinstance(n, ast.Lambda):
        return 'lambda'
    if isinstance(n, COMPS):
        return 'comp'
    if isinstance(n, ast.arguments):
        return 'arguments'
    if isinstance(n, ast.arg):
        return 'arg'
    if isinstance(n, TYPE_PARAMS):
        return 'tparam'
    if isinstance(n, ast.comprehension):
        return 'gen'
    if isinstance(n, ast.NamedExpr):
        return 'namedexpr'
    if isinstance(n, ast.Name):
        return {'Load': 'nameLoad', 'Store': 'nameStore', 'Del': 'nameDel'}[type(n.ctx).__name__]
    if isinstance(n, ast.Global):
        return 'global'
    if isinstance(n, ast.Nonlocal):
        return 'nonlocal'
    if isinstance(n, (ast.Import, ast.ImportFrom)):
        return 'import'
    if isinstance(n, ast.AugAssign):
        return 'augassign'
    if isinstance(n, ast.ExceptHandler):
        return 'handler'
    if isinstance(n, ast.MatchAs):
        return 'matchAs'
    if isinstance(n, ast.MatchStar):
        return 'matchStar'
    if isinstance(n, ast.MatchMapping):
        return 'matchMap'
    return 'other'


def import_names(n):
    """names an Import / ImportFrom binds (`from m import *` binds nothing that can be named)"""
    out = []
    for al in n.names:
        if al.name == '*':
            continue
        out.append(al.asname or (al.name.split('.', 1)[0] if isinstance(n, ast.Import) else al.name))
    return out


def _names(n):
    if isinstance(n, ast.Name):
        return [n.id]
    if isinstance(n, ast.arg):
        return [n.arg]
    if isinstance(n, SCOPE_DEF) or isinstance(n, TYPE_PARAMS):
        return [n.name]
    if isinstance(n, (ast.Global, ast.Nonlocal)):
        return list(n.names)
    if isinstance(n, (ast.Import, ast.ImportFrom)):
        return import_names(n)
    if isinstance(n, ast.AugAssign):
        return [n.target.id] if isinstance(n.target, ast.Name) else []
    if isinstance(n, (ast.ExceptHandler, ast.MatchAs, ast.MatchStar)):
        return [n.name] if n.name else []
    if isinstance(n, ast.MatchMapping):
        return [n.rest] if n.rest else []
    return []


def _role(p, c):
    """coarsened `pfield.name` of child `c` in parent `p`"""
    if isinstance(p, SCOPE_DEF):
        if any(c is d for d in p.decorator_list):
            return 'deco'
        if any(c is d for d in getattr(p, 'type_params', ())):
            return 'tparam'
        if any(c is d for d in p.body):
            return 'body'
        if isinstance(p, ast.ClassDef):
            if any(c is d for d in p.bases):
                return 'base'
            if any(c is d for d in p.keywords):
                return 'kw'
        else:
            if c is p.args:
                return 'args'
            if c is p.returns:
                return 'returns'
        return 'plain'
    if isinstance(p, ast.Lambda):
        return 'args' if c is p.args else 'body'
    if isinstance(p, ast.arguments):
        return 'argr' if isinstance(c, ast.arg) else 'dflt'
    if isinstance(p, ast.arg):
        return 'ann'
    if isinstance(p, TYPE_PARAMS):
        return 'bound'
    if isinstance(p, COMPS):
        return ('gen0' if p.generators and c is p.generators[0] else 'gen') if isinstance(c, ast.comprehension) else 'elt'
    if isinstance(p, ast.comprehension):
        return 'target' if c is p.target else 'iter' if c is p.iter else 'cond'
    if isinstance(p, ast.NamedExpr):
        return 'wtarget' if c is p.target else 'plain'
    if isinstance(p, ast.TypeAlias) and any(c is d for d in p.type_params):
        return 'tparam'
    return 'plain'


def to_model(tree, children):
    """-> (json tree, {id(ast node): model id}, [ast node by model id], [name by number]).  `children(n)` gives the
    syntax-ordered children."""
    ids = {}
    nodes = []
    names = {}
    sys.setrecursionlimit(max(sys.getrecursionlimit(), 10000))

    def go(n, role):
        i = len(nodes)
        ids[id(n)] = i
        nodes.append(n)
        ns = [names.setdefault(x, len(names)) for x in _names(n)]
        return [i, _kind(n), role, ns, [go(c, _role(n, c)) for c in children(n)]]

    j = go(tree, 'plain')
    return j, ids, nodes, list(names)


# ----------------------------------------------------------------------------------------------------------------------
# reference scope analysis from the language reference (plain ast)

class Scope:
    def __init__(self, node, parent):
        self.node = node
        self.parent = parent
        self.nodes = []            # ast nodes belonging to this scope (not the scope node itself)
        self.ann_nodes = set()     # id() of nodes that CPython puts into an annotation scope (PEP 695) - see Ref
        self.ev = {k: {} for k in ('load', 'store', 'del', 'global', 'nonlocal')}   # name -> [kind of binder, ...]
        self.hard = {}             # class -> names with an occurrence outside annotation-scope regions
        self.softn = {}            # class -> names with an occurrence inside annotation-scope regions
        self.walrus_in = set()     # names bound here by a walrus inside comprehensions
        self.kids = []
        if parent:
            parent.kids.append(self)

    @property
    def is_comp(self):
        return isinstance(self.node, COMPS)

    def fn_scope(self):
        s = self
        while s.is_comp:
            s = s.parent
        return s


class Ref:
    """Language reference 4.2 (naming and binding), 6.2.4 (displays: "the iterable expression in the leftmost for clause
    is evaluated directly in the enclosing scope"), 6.12 (assignment expressions bind in the containing non-comprehension
    scope), 8.7/8.8 (decorators, defaults, annotations, bases, keywords are evaluated in the enclosing scope).

    PEP 695 annotation scopes (type parameter lists, bounds, the value of a `type` statement, and - for *generic*
    defs/classes - the annotations, bases and keywords) are not scopes pfst knows about; pfst's documentation puts bounds,
    annotations, bases and keywords into the enclosing scope and the type parameters into the def's own scope.  The
    reference follows the pfst documentation there and records those nodes in `ann_nodes` / `soft` so that comparisons
    against CPython can leave them out."""

    def __init__(self, tree):
        self.tree = tree
        self.scope_of = {}         # id(ast node) -> Scope
        self.scopes = {}           # id(scope node) -> Scope
        self.order = []            # scopes in creation order
        self.root = self.new_scope(tree, None)
        self.keep = []
        self.visit_children(tree, self.root, False)

    def new_scope(self, node, parent):
        s = Scope(node, parent)
        self.scopes[id(node)] = s
        self.order.append(s)
        return s

    def own(self, n, sc, soft):
        self.scope_of[id(n)] = sc
        sc.nodes.append(n)
        if soft:
            sc.ann_nodes.add(id(n))

    def ev(self, sc, cls, name, what, soft=False):
        sc.ev[cls].setdefault(name, []).append(what)
        (sc.softn if soft else sc.hard).setdefault(cls, set()).add(name)

    def visit(self, n, sc, soft):
        """`n` lives in scope `sc`"""
        self.own(n, sc, soft)
        if isinstance(n, ast.Name):
            cls = {'Load': 'load', 'Store': 'store', 'Del': 'del'}[type(n.ctx).__name__]
            self.ev(sc, cls, n.id, 'Name', soft)
            return self.visit_children(n, sc, soft)
        if isinstance(n, FUNC_DEF + (ast.ClassDef,)):
            self.ev(sc, 'store', n.name, type(n).__name__)
            generic = bool(getattr(n, 'type_params', None))
            inner = self.new_scope(n, sc)
            for d in n.decorator_list:
                self.visit(d, sc, soft)
            for tp in getattr(n, 'type_params', ()):
                self.own(tp, inner, True)
                self.ev(inner, 'store', tp.name, 'type_param', True)
                for f in ('bound', 'default_value'):
                    if getattr(tp, f, None) is not None:
                        self.visit(getattr(tp, f), sc, True)
            if isinstance(n, ast.ClassDef):
                for b in n.bases:
                    self.visit(b, sc, soft or generic)
                for k in n.keywords:
                    self.visit(k, sc, soft or generic)
            else:
                self.visit_arguments(n.args, sc, inner, soft, generic)
                if n.returns is not None:
                    self.visit(n.returns, sc, soft or generic)
            for st in n.body:
                self.visit(st, inner, False)
            return
        if isinstance(n, ast.Lambda):
            inner = self.new_scope(n, sc)
            self.visit_arguments(n.args, sc, inner, soft, False)
            self.visit(n.body, inner, False)
            return
        if isinstance(n, COMPS):
            inner = self.new_scope(n, sc)
            for i, g in enumerate(n.generators):
                self.own(g, inner, False)
                self.visit(g.target, inner, False)
                self.visit(g.iter, sc if i == 0 else inner, soft if i == 0 else False)
                for c in g.ifs:
                    self.visit(c, inner, False)
            if isinstance(n, ast.DictComp):
                self.visit(n.key, inner, False)
                self.visit(n.value, inner, False)
            else:
                self.visit(n.elt, inner, False)
            return
        if isinstance(n, ast.NamedExpr):
            self.visit(n.target, sc.fn_scope(), soft)
            self.visit(n.value, sc, soft)
            if sc.is_comp:
                sc.fn_scope().walrus_in.add(n.target.id)
            s = sc
            while s.is_comp:       # every comprehension between the walrus and the scope it binds in
                s.ev.setdefault('walrus', {}).setdefault(n.target.id, []).append('NamedExpr')
                s = s.parent
            return
        if isinstance(n, (ast.Global, ast.Nonlocal)):
            for x in n.names:
                self.ev(sc, 'global' if isinstance(n, ast.Global) else 'nonlocal', x, type(n).__name__)
        elif isinstance(n, (ast.Import, ast.ImportFrom)):
            for x in import_names(n):
                self.ev(sc, 'store', x, 'import')
        elif isinstance(n, ast.AugAssign):
            if isinstance(n.target, ast.Name):
                self.ev(sc, 'load', n.target.id, 'AugAssign')
        elif isinstance(n, ast.ExceptHandler):
            if n.name:
                self.ev(sc, 'store', n.name, 'ExceptHandler.name')
        elif isinstance(n, (ast.MatchAs, ast.MatchStar)):
            if n.name:
                self.ev(sc, 'store', n.name, type(n).__name__ + '.name')
        elif isinstance(n, ast.MatchMapping):
            if n.rest:
                self.ev(sc, 'store', n.rest, 'MatchMapping.rest')
        elif isinstance(n, ast.TypeAlias):
            # `type A[T] = v`: A is bound here; T and v live in annotation scopes (not modelled by pfst: it walks them
            # as ordinary children) -> soft
            self.visit(n.name, sc, soft)
            for tp in n.type_params:
                self.visit_typealias_tp(tp, sc)
            self.visit(n.value, sc, True)
            return
        self.visit_children(n, sc, soft)

    def visit_typealias_tp(self, tp, sc):
        self.own(tp, sc, True)
        self.ev(sc, 'store', tp.name, 'TypeAlias.type_params', True)
        for f in ('bound', 'default_value'):
            if getattr(tp, f, None) is not None:
                self.visit(getattr(tp, f), sc, True)

    def visit_arguments(self, a, sc, inner, soft, generic):
        self.own(a, inner, False)
        for arg_ in a.posonlyargs + a.args + ([a.vararg] if a.vararg else []) + a.kwonlyargs + ([a.kwarg] if a.kwarg else []):
            self.own(arg_, inner, False)
            self.ev(inner, 'store', arg_.arg, 'arg')
            if arg_.annotation is not None:
                self.visit(arg_.annotation, sc, soft or generic)
        for d in a.defaults + [d for d in a.kw_defaults if d is not None]:
            self.visit(d, sc, soft)

    def visit_children(self, n, sc, soft):
        for c in ast.iter_child_nodes(n):
            self.visit(c, sc, soft)

    # ---- the seven classes as the pfst docstring defines them ----
    def classes(self, sc):
        ev = sc.ev
        walrus = set(ev.get('walrus', ()))
        out = {k: set(ev[k]) for k in ('load', 'store', 'del', 'global', 'nonlocal')}
        out['local'] = out['store'] - out['global'] - out['nonlocal']
        out['free'] = out['load'] - out['store'] - out['del'] - out['global'] - out['nonlocal']
        return out, walrus


# ----------------------------------------------------------------------------------------------------------------------
# CPython's symbol table

class _Uninline(ast.NodeTransformer):
    """PEP 709 (3.12) inlines list/set/dict comprehensions into the enclosing function's table and removes their own
    tables.  A generator expression has exactly the same scoping rules and is never inlined, so the comprehension's own
    table is obtained by asking CPython about the same program with every comprehension display written as a generator
    expression.  (Dict comprehension: the element becomes the tuple (key, value).)"""

    def visit_ListComp(self, n):
        self.generic_visit(n)
        return ast.copy_location(ast.GeneratorExp(n.elt, n.generators), n)

    visit_SetComp = visit_ListComp

    def visit_DictComp(self, n):
        self.generic_visit(n)
        return ast.copy_location(ast.GeneratorExp(ast.Tuple([n.key, n.value], ast.Load()), n.generators), n)


def uninlined_source(tree):
    """source of the same program with comprehension displays as generator expressions, one statement per line (ast.unparse),
    and the statement-level layout needed to pair tables with AST scopes: returns (src2, tree2)"""
    import copy
    t2 = _Uninline().visit(copy.deepcopy(tree))
    ast.fix_missing_locations(t2)
    src2 = ast.unparse(t2)
    return src2, ast.parse(src2)


def table_children(tb):
    """children tables with the PEP 695 annotation-scope tables flattened away: [(table, through_annotation_scope)]"""
    out = []
    for c in tb.get_children():
        ty = str(c.get_type()).lower()
        if 'type' in ty or 'bound' in ty or 'alias' in ty or 'annotation' in ty:   # "type parameters", "TypeVar bound", "type alias"
            for cc, _ in table_children(c):
                out.append((cc, True))
        else:
            out.append((c, False))
    return out


def _is_annotation_table(c):
    ty = str(c.get_type()).lower()
    return 'type' in ty or 'bound' in ty or 'alias' in ty or 'annotation' in ty


def annotation_tables(tb):
    """the PEP 695 annotation-scope tables nested directly (through annotation scopes only) in real scope table `tb`"""
    out = []
    for c in tb.get_children():
        if _is_annotation_table(c):
            out.append(c)
            out.extend(annotation_tables(c))
    return out


def sym_classes(tb):
    """map one symtable table onto what is well defined of pfst's seven classes.  Returns dict of sets plus 'all'."""
    d = {k: set() for k in ('referenced', 'assigned', 'global_decl', 'nonlocal', 'param', 'imported', 'local', 'free', 'global_impl',
                            'annotated')}
    for s in tb.get_symbols():
        n = s.get_name()
        if n.startswith('.'):                     # implicit: .0 (comprehension argument), .defaults, .type_params ...
            continue
        if s.is_referenced():
            d['referenced'].add(n)
        if s.is_assigned():
            d['assigned'].add(n)
        if s.is_declared_global():
            d['global_decl'].add(n)
        if s.is_nonlocal():
            d['nonlocal'].add(n)
        if s.is_parameter():
            d['param'].add(n)
        if s.is_imported():
            d['imported'].add(n)
        if s.is_local():
            d['local'].add(n)
        if s.is_free():
            d['free'].add(n)
        if s.is_global() and not s.is_declared_global():
            d['global_impl'].add(n)
        if s.is_annotated():
            d['annotated'].add(n)
    return d
