"""C18 reference transformer over pure CPython ASTs (plain Python, `copy.deepcopy`, no pfst code in the transformation).

`sub(pattern, template)` is specified as: replace each matched node (outermost first; all of them when nested; bottom-up
for on='leave') by the template with every tag slot filled by a copy of the captured node / the captured elements
spliced in.  Which nodes match, and what they capture, is asked of the real matcher (the matcher is C17's subject); the
captures are translated to pure nodes by their path, never by pfst's index arithmetic.
"""

from __future__ import annotations

import ast
import copy
import re

SLOT = re.compile(r'__FS([TSO])_(\w*)$')
STR_SLOT = re.compile(r'\b__FS[TSO]_(\w*)\b')          # a slot inside a string / bytes constant of the template


class Refuse(Exception):
    """the request is a documented refusal (pfst is expected to raise)"""


class Skip(Exception):
    """outside what the reference covers"""


def parse_template(src, cat):
    if cat == 'pattern':
        return 'expr', ast.parse('match _:\n case ' + src + ':\n  pass').body[0].cases[0].pattern
    if cat == 'expr':
        return 'expr', ast.parse(src, mode='eval').body
    m = ast.parse(src)
    if len(m.body) == 1 and isinstance(m.body[0], ast.Expr):
        v = m.body[0].value
        if not (isinstance(v, ast.Name) and SLOT.match(v.id)):
            raise Skip('expression template for a statement match')
        return 'expr', v
    return ('stmt', m.body[0]) if len(m.body) == 1 else ('stmts', m.body)


def _resolve(node, path):
    for f in path:
        node = getattr(node, f.name)
        if f.idx is not None:
            node = node[f.idx]
    return node


VIRT = {ast.Call: ('args', 'keywords', '_args'), ast.ClassDef: ('bases', 'keywords', '_bases')}


def _kpos(x):
    v = x if hasattr(x, 'lineno') else getattr(x, 'value', x)
    return (v.lineno, v.col_offset)


def _container(parent, field):
    """the node a slice of this field is when it is put as ONE element (documented `__FSO_`): a List / Tuple / Set of its
    elements; call arguments become a Tuple"""
    if isinstance(parent, (ast.List, ast.Tuple, ast.Set)) and field == 'elts':
        return parent.__class__
    if isinstance(parent, ast.Call) and field in ('args', '_args'):
        return ast.Tuple
    return None


class Matcher:
    """ask the real matcher about pure nodes"""

    def arglikes(self, node):
        """arguments of a Call / bases of a ClassDef in SOURCE order (CPython positions of the original program)"""
        a, k, _ = VIRT[node.__class__]
        xs = list(getattr(node, a)) + list(getattr(node, k))
        if not getattr(node, k) or not any(isinstance(x, ast.Starred) for x in getattr(node, a)):
            return xs                                           # positional before keywords: no interleaving possible
        if id(node) not in self.map:
            raise Skip('source order of the arguments of a rebuilt call is unknown')
        return sorted(xs, key=_kpos)

    def __init__(self, root_fst, pure, pat, range_fill=False, ctx=False, spec=None):
        self.spec = spec
        self.ctx = ctx
        self.range_fill = range_fill
        self.noncontig = False
        self.pat = pat
        self.map = {}
        for a, b in zip(ast.walk(pure), ast.walk(root_fst.a)):
            if a.__class__ is not b.__class__:
                raise Skip('parallel walk out of step')
            self.map[id(a)] = b
        self.keep = pure

    def match(self, node):
        from fst import FST
        if self.spec is not None:               # the harness's own matcher on the CPython tree (harness/c18_mini.py)
            import c18_mini
            if isinstance(node, (ast.expr_context, ast.operator, ast.unaryop, ast.boolop, ast.cmpop)):
                return None
            m = c18_mini.mini(self.spec, node)
            if m is None:
                return None
            return {t: (('slice', list(v[1]), None) if isinstance(v, tuple) else ('whole', node) if v is node else ('node', v))
                    for t, v in m.items() if not (isinstance(v, tuple) and not v[1])}
        b = self.map.get(id(node))
        if b is not None:
            f = b.f
        else:
            try:
                import c18_lib
                f = c18_lib.fst_of_ast(copy.deepcopy(node))
            except Exception as e:
                raise Skip('cannot rebuild intermediate node: ' + type(e).__name__)
        if isinstance(node, (ast.expr_context, ast.operator, ast.unaryop, ast.boolop, ast.cmpop)):
            return None
        m = f.match(self.pat, ctx=self.ctx)
        if m is None:
            return None
        return self.captures(f, m, node)

    def captures(self, f, m, node):
        from fst import FST
        from fst.view import FSTView
        from fst.match import FSTMatch
        caps = {}
        for tag, v in m.tags.items():
            if isinstance(v, FST):
                caps[tag] = ('node', _resolve(node, f.child_path(v))) if v is not f else ('whole', node)
            elif isinstance(v, FSTView):
                base = _resolve(node, f.child_path(v.base)) if v.base is not f else node
                if base.__class__ in VIRT and v.field == VIRT[base.__class__][2]:
                    caps[tag] = ('slice', self.arglikes(base)[v.start:v.stop], _container(base, v.field))
                elif not hasattr(base, v.field):
                    raise Skip('virtual view')
                else:
                    caps[tag] = ('slice', list(getattr(base, v.field)[v.start:v.stop]), _container(base, v.field))
            elif isinstance(v, list):
                out = []
                parent = None
                for q in v:
                    if not isinstance(q, FSTMatch):
                        raise Skip('quantifier item')
                    for x in (q.matched if isinstance(q.matched, list) else [q.matched]):
                        if not isinstance(x, FST):
                            raise Skip('quantifier element')
                        pth = f.child_path(x)
                        out.append(_resolve(node, pth))
                        if parent is None:
                            parent = (_resolve(node, pth[:-1]), pth[-1].name)
                if out:
                    # the captured elements themselves, in capture order.  Are they consecutive in their list?
                    pn, fname = parent
                    lst = self.arglikes(pn) if pn.__class__ in VIRT and fname in VIRT[pn.__class__][:2] else getattr(pn, fname)
                    idxs = [next(i for i, y in enumerate(lst) if y is x) for x in out]
                    if idxs != list(range(idxs[0], idxs[0] + len(idxs))):
                        self.noncontig = True
                        if self.range_fill:                     # what a first..last range of the list would hold
                            out = list(lst[min(idxs):max(idxs) + 1])
                    caps[tag] = ('slice', out, _container(pn, fname))
            elif v is None:
                continue
            elif isinstance(v, str):
                caps[tag] = ('str', v)               # an identifier captured from an identifier field
            else:
                raise Skip('static tag')
        return caps


def _is_stmt_list(parent, field):
    return field in ('body', 'orelse', 'finalbody') and isinstance(parent, (ast.stmt, ast.mod, ast.ExceptHandler, ast.match_case))


class Ref:
    def __init__(self, matcher, tkind, tmpl, nested, count, loop, on, quirk=False):
        self.m = matcher
        self.tkind, self.tmpl = tkind, tmpl
        self.nested, self.count, self.loop, self.on = nested, count, loop, on
        self.quirk = quirk
        self.unique = 0
        self.total = 0
        self.touched = set()       # ids of original nodes that were substituted

    def capped(self):
        return self.count and self.unique >= self.count

    # ---- walking ----------------------------------------------------------------------------------------------
    def visit(self, node, matchable=True):
        """-> list of nodes replacing `node`"""
        if self.on == 'leave':
            node = self.descend(node)
            if self.capped() or not matchable:
                return [node]
            caps = self.m.match(node)
            return [node] if caps is None else self.substitute(node, caps)
        if self.capped():
            return [node]
        caps = self.m.match(node) if matchable else None
        if caps is None:
            return [self.descend(node)]
        return self.substitute(node, caps)

    def descend(self, node):
        """node with its children visited; the same object if nothing changed"""
        new = {}
        for name, v in ast.iter_fields(node):
            if isinstance(v, ast.AST):
                r = self.visit(v)
                if len(r) != 1:
                    raise Skip('several nodes for a single field')
                if r[0] is not v:
                    new[name] = r[0]
            elif isinstance(v, list) and any(isinstance(x, ast.AST) for x in v):
                out, ch = [], False
                for x in v:
                    if isinstance(x, ast.AST):
                        r = self.visit(x)
                        ch = ch or len(r) != 1 or r[0] is not x
                        out.extend(r)
                    else:
                        out.append(x)
                if ch:
                    if not out and name in ('body', 'handlers', 'cases', 'items', 'targets', 'names', 'values', 'ops'):
                        raise Skip('a required list becomes empty (pfst documents invalid trees unless norm=True)')
                    new[name] = out
        if not new:
            return node
        c = copy.copy(node)
        for k, v in new.items():
            setattr(c, k, v)
        return c

    def substitute(self, node, caps):
        self.unique += 1
        self.total += 1
        self.touched.add(id(node))
        deep = self.nested and self.on == 'enter'
        res, sliced = self.fill(node, caps, deep)
        here = 1
        while self.loop is not False and (self.loop is True or self.loop == 0 or here < self.loop):
            if deep:
                raise Skip('loop with nested (reference covers them separately)')
            if sliced or len(res) != 1:
                raise Skip('loop after a slice put')
            caps2 = self.m.match(res[0])
            if caps2 is None:
                break
            res, sliced = self.fill(res[0], caps2, False)
            self.total += 1
            here += 1
            if here > 10 or sum(1 for _ in ast.walk(res[0])) > 3000:
                raise Skip('non-terminating loop')
        return res

    # ---- template ----------------------------------------------------------------------------------------------
    def fill(self, node, caps, deep):
        """-> (nodes, put as a slice)"""
        sliced = self.tkind == 'stmts'
        if deep and sliced and self.quirk is True:
            deep = False

        def T(c):
            return self.visit(c) if deep else [copy.deepcopy(c)]

        def whole():
            return [copy.copy(self.descend(node)) if deep else copy.deepcopy(node)]

        def cap(m):
            letter, tag = m.group(1), m.group(2)
            if not tag:
                return ('whole', node)
            c = caps.get(tag)
            if c is None:
                return None
            return c

        def against(c, letter):
            return c is not None and ((c[0] != 'slice' and letter == 'S') or (c[0] == 'slice' and letter == 'O'))

        def ident(m):
            c = cap(m)
            if c is not None and c[0] == 'str':
                return c[1]
            if c is None or c[0] == 'slice' or not isinstance(c[1], ast.Name):
                raise Skip('identifier slot without a Name capture')
            return c[1].id

        def put(c):
            if c[0] == 'whole':
                return whole()
            if c[0] == 'node':
                return T(c[1])
            out = []
            for x in c[1]:
                out.extend(T(x))
            return out

        def inst(t, parent, field, in_list):
            if isinstance(t, ast.Expr) and isinstance(t.value, ast.Name) and (m := SLOT.match(t.value.id)) and in_list:
                c = cap(m)
                if against(c, m.group(1)):
                    raise Skip('override against the default decision in a statement slot')
                if c is None:
                    return []
                first = c[1] if c[0] != 'slice' else (c[1][0] if c[1] else None)
                if c[0] == 'slice' and first is not None and not isinstance(first, ast.stmt):
                    raise Skip('expression slice in a statement slot')
                if c[0] != 'slice' and not isinstance(first, ast.stmt):
                    r = put(c)
                    if len(r) != 1:
                        raise Skip('several nodes for Expr.value')
                    return [ast.Expr(value=r[0])]
                return put(c)
            if isinstance(t, ast.MatchAs) and t.pattern is None and t.name and (m := SLOT.match(t.name)):
                c = cap(m)                      # `case __FST_p` / `k=__FST_p`: the whole sub-pattern is the slot
                if c is None or c[0] != 'node' or not isinstance(c[1], ast.pattern):
                    raise Skip('pattern slot without a pattern capture')
                return put(c)
            if isinstance(t, ast.Name) and (m := SLOT.match(t.id)):
                c = cap(m)
                if c is not None and c[0] == 'str':
                    raise Skip('identifier capture in a node slot')
                if c is None:
                    if in_list:
                        return []
                    raise Refuse('delete of a required field')
                letter = m.group(1)
                # the documented decision: one = not slice; __FSO_ / __FSS_ override it; a slice into a non-list field
                # is put as one element
                one = c[0] != 'slice'
                if letter == 'O':
                    one = True
                elif letter == 'S':
                    one = False
                elif not one and not in_list:
                    one = True
                if c[0] == 'slice' and c[1] and isinstance(c[1][0], ast.stmt):
                    raise Skip('statement slice in an expression slot')
                if c[0] != 'slice':
                    if one:
                        return put(c)
                    if not in_list:
                        raise Refuse('slice put into a single field')
                    src_node = c[1]
                    if isinstance(src_node, (ast.List, ast.Tuple, ast.Set)):        # forced slice: its elements
                        out = []
                        for i, e in enumerate(src_node.elts):
                            if (i == 0 and self.quirk == 'first-dirty' and c[0] == 'whole' and deep
                                    and not isinstance(parent, (ast.Call, ast.ClassDef))):
                                out.append(copy.deepcopy(e))         # variant: the first spliced element is never looked at
                            else:
                                out.extend(T(e))
                        return out
                    return put(c)                                                    # not a sequence: one element
                if not one:
                    return put(c)
                if deep:
                    # the container is a new node that can itself match (the docs warn about __FSO_ and nested)
                    raise Skip('slice as one element under nested')
                kind = c[2] if len(c) > 2 else None                                  # the slice as ONE element
                if kind is None or any(isinstance(x, (ast.keyword, ast.Starred)) for x in c[1]):
                    raise Skip('slice as one element: container not covered')
                return [kind(elts=put(c), ctx=ast.Load()) if kind is not ast.Set else ast.Set(elts=put(c))]
            if isinstance(t, ast.Constant) and isinstance(t.value, (str, bytes)):
                text = t.value if isinstance(t.value, str) else t.value.decode('latin-1')
                if STR_SLOT.search(text):
                    # textual substitution inside the constant: expected VALUE = template text with every slot name
                    # replaced by the source of the captured node (judged on the re-parsed result, see check_spec)
                    parts, pos = [], 0
                    for mm in STR_SLOT.finditer(text):
                        parts.append(text[pos:mm.start()])
                        tag = mm.group(1)
                        if not tag:
                            c = ('whole', node)
                        else:
                            c = caps.get(tag)
                        if c is not None:
                            if c[0] == 'slice' or isinstance(c[1], ast.stmt) or not isinstance(c[1], (ast.expr, ast.keyword)):
                                raise Skip('string slot with a statement or slice capture')
                            c = c[1]
                            if isinstance(t.value, bytes):
                                try:
                                    ascii_ok = ast.unparse(ast.fix_missing_locations(copy.deepcopy(c))).isascii()
                                except Exception:
                                    ascii_ok = False
                                if not ascii_ok:
                                    raise Skip('non-ASCII source into a bytes constant')
                        parts.append(('slot', c))
                        pos = mm.end()
                    parts.append(text[pos:])
                    n = copy.copy(t)
                    n._c18_spec = (parts, isinstance(t.value, bytes))
                    return [n]
            n = copy.copy(t)
            for name, v in ast.iter_fields(t):                       # identifier slots: the id of the captured Name
                if isinstance(v, str) and not isinstance(t, ast.Constant) and (m := SLOT.match(v)):
                    setattr(n, name, ident(m))
                elif isinstance(v, list) and v and all(isinstance(x, str) for x in v):
                    setattr(n, name, [ident(mm) if (mm := SLOT.match(x)) else x for x in v])
            vf = VIRT.get(t.__class__)
            if vf:
                # arguments / bases: ONE list in the template's source order; captured keywords go to `keywords`, the
                # rest to `args` (their relative order is all the AST records)
                merged = sorted(list(getattr(t, vf[0])) + list(getattr(t, vf[1])), key=_kpos)
                out = []
                for x in merged:
                    out.extend(inst(x, t, vf[0], True))
                setattr(n, vf[0], [x for x in out if not isinstance(x, ast.keyword)])
                setattr(n, vf[1], [x for x in out if isinstance(x, ast.keyword)])
            for name, v in ast.iter_fields(t):
                if vf and name in vf[:2]:
                    continue
                if isinstance(v, ast.AST):
                    r = inst(v, t, name, False)
                    if len(r) != 1:
                        raise Skip('several nodes for a single field')
                    setattr(n, name, r[0])
                elif isinstance(v, list) and any(isinstance(x, ast.AST) for x in v):
                    out = []
                    for x in v:
                        out.extend(inst(x, t, name, True) if isinstance(x, ast.AST) else [x])
                    if not out and name == 'body':
                        raise Skip('a required list becomes empty (pfst documents invalid trees unless norm=True)')
                    setattr(n, name, out)
            return [n]

        if self.tkind == 'stmts':
            out = []
            for s in self.tmpl:
                out.extend(inst(s, None, 'body', True))
            return out, True
        t = self.tmpl
        if isinstance(t, ast.Name) and (m := SLOT.match(t.id)):          # the template is just a slot
            c = cap(m)
            if deep and c is not None and c[0] != 'whole':
                # the captured node takes the place of the match; walk() continues with its children and never
                # looks at the node itself - whether that node counts as "matched" is not decided by the property text
                raise Skip('nested with a bare tag as template')
            if c is None:
                raise Refuse('delete of the root')
            if c[0] == 'slice':
                if not (isinstance(node, ast.stmt) and c[1] and isinstance(c[1][0], ast.stmt)):
                    raise Skip('slice as whole template')
                return put(c), True
            return put(c), False
        r = inst(t, None, None, False)
        return r, False


def reference(root_fst, src, pat, tmpl_src, cat, nested, count, loop, on, quirk=False, range_fill=False, info=None, ctx=False, spec=None):
    """-> (pure result Module, unique, total, set of ids of untouched top-level statements' sources)"""
    pure = ast.parse(src)
    tkind, tmpl = parse_template(tmpl_src, cat)
    if cat == 'expr' and tkind != 'expr':
        raise Skip('template kind')
    mt = Matcher(root_fst, pure, pat, range_fill, ctx, spec)
    if info is not None:
        info['matcher'] = mt
    ref = Ref(mt, tkind, tmpl, nested, count, loop, on, quirk)
    out = ref.visit(pure, matchable=False)
    if len(out) != 1:
        raise Skip('module replaced')
    res = out[0]
    kept = []
    if isinstance(res, ast.Module):
        new_ids = {id(s) for s in res.body}
        for s in pure.body:
            if id(s) in new_ids:
                kept.append(s)
    return res, ref.unique, ref.total, kept


# ---------------------------------------------------------------------------------------------------------------------
# comparison of the reference with the (re-parsed) result, string slots judged by value

def _dump_noctx(n):
    n = copy.deepcopy(n)
    for x in ast.walk(n):
        if hasattr(x, 'ctx'):
            x.ctx = ast.Load()
    return ast.dump(n)


_BUDGET = [0]


def _slot_text_ok(g, node):
    _BUDGET[0] -= 1
    if _BUDGET[0] < 0:
        raise Skip('string slot: too many ways to split the constant')
    for form in ('(%s\n)', 'f(%s\n)'):
        try:
            got = ast.parse(form % g, mode='eval').body
        except (SyntaxError, ValueError, RecursionError):
            continue
        if form[0] == 'f':                               # a starred or keyword argument is source only inside a call
            al = got.args + got.keywords
            if len(al) != 1:
                continue
            got = al[0]
        if cmp_ast(node, got, 'slot', ctx=False) is None:
            return True
    return False


def _match_parts(parts, i, text, pos):
    """text[pos:] = parts[i:] with every slot replaced by source text of its captured node (all splits tried)"""
    if i == len(parts):
        return pos == len(text)
    p = parts[i]
    if isinstance(p, str):
        return text.startswith(p, pos) and _match_parts(parts, i + 1, text, pos + len(p))
    if p[1] is None:                                    # tag not set by the match: replaced by nothing
        return _match_parts(parts, i + 1, text, pos)
    nxt = parts[i + 1] if i + 1 < len(parts) and isinstance(parts[i + 1], str) else ''
    if i + 1 >= len(parts) - 1 and isinstance(nxt, str) and i + 2 >= len(parts):
        ends = [len(text) - len(nxt)] if text.endswith(nxt) else []       # last slot: must reach the final literal
    elif nxt:
        ends, k = [], text.find(nxt, pos)
        while k >= 0:
            ends.append(k)
            k = text.find(nxt, k + 1)
    else:
        ends = list(range(pos, len(text) + 1))
    for e in ends:
        if e >= pos and _slot_text_ok(text[pos:e], p[1]) and _match_parts(parts, i + 1, text, e):
            return True
    return False


def check_spec(spec, value, path):
    """the Constant VALUE in the parsed result must be the template string with every slot name replaced by source text
    of the captured node (text that parses back to the captured node; layout of that text is pfst's business)"""
    parts, is_bytes = spec
    if is_bytes != isinstance(value, bytes) or not isinstance(value, (str, bytes)):
        return f'{path}: constant type changed'
    text = value.decode('latin-1') if is_bytes else value
    _BUDGET[0] = 400
    merged = []
    for p in parts:                                      # normalise: literals and slots alternate
        if isinstance(p, str) and merged and isinstance(merged[-1], str):
            merged[-1] += p
        else:
            merged.append(p)
    if not _match_parts(merged, 0, text, 0):
        return f'{path}: string constant {text!r} is not the template text with every slot replaced by the source of the captured node'
    return None


def cmp_ast(a, b, path='Module', ctx=True):
    """None if the reference tree `a` and the result tree `b` agree, else a description"""
    if isinstance(a, ast.expr_context) and isinstance(b, ast.expr_context) and not ctx:
        return None
    if type(a) is not type(b):
        return f'{path}: {type(a).__name__} expected, {type(b).__name__} found'
    if isinstance(a, ast.Constant) and hasattr(a, '_c18_spec'):
        return check_spec(a._c18_spec, b.value, path)
    for name in a._fields:
        if name == 'type_comment':
            continue
        x, y = getattr(a, name, None), getattr(b, name, None)
        p = f'{path}.{name}'
        if isinstance(x, ast.AST) or isinstance(y, ast.AST):
            if not (isinstance(x, ast.AST) and isinstance(y, ast.AST)):
                return f'{p}: {x!r} expected, {y!r} found'
            d = cmp_ast(x, y, p, ctx)
            if d:
                return d
        elif isinstance(x, list) and isinstance(y, list):
            if len(x) != len(y):
                return f'{p}: {len(x)} elements expected, {len(y)} found'
            for i, (u, v) in enumerate(zip(x, y)):
                if isinstance(u, ast.AST) or isinstance(v, ast.AST):
                    if not (isinstance(u, ast.AST) and isinstance(v, ast.AST)):
                        return f'{p}[{i}]: {u!r} expected, {v!r} found'
                    d = cmp_ast(u, v, f'{p}[{i}]', ctx)
                    if d:
                        return d
                elif u != v:
                    return f'{p}[{i}]: {u!r} expected, {v!r} found'
        elif x != y or type(x) is not type(y):
            return f'{p}: {x!r} expected, {y!r} found'
    return None


def has_string_slot(tmpl_src):
    try:
        t = ast.parse(tmpl_src)
    except SyntaxError:
        return False
    for n in ast.walk(t):
        if isinstance(n, ast.Constant) and isinstance(n.value, (str, bytes)):
            v = n.value if isinstance(n.value, str) else n.value.decode('latin-1')
            if STR_SLOT.search(v):
                return True
    return False


def stale_constants_only(live, parsed):
    """C01 failed: is the ONLY difference that string/bytes Constant values of the live tree still hold slot names
    while the source (and so the parse) holds the filled text?  Positions included."""
    a = copy.deepcopy(live)
    la, lb = list(ast.walk(a)), list(ast.walk(parsed))
    if len(la) != len(lb):
        return False
    n = 0
    for x, y in zip(la, lb):
        if isinstance(x, ast.Constant) and isinstance(y, ast.Constant) and x.value != y.value \
                and isinstance(x.value, (str, bytes)) and type(x.value) is type(y.value):
            v = x.value if isinstance(x.value, str) else x.value.decode('latin-1')
            if STR_SLOT.search(v):
                x.value = y.value
                n += 1
    return n > 0 and ast.dump(a, include_attributes=True) == ast.dump(parsed, include_attributes=True)
