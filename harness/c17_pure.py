"""C17: a match never depends on previous match calls.

(a) pattern-object purity: a deep structural dump of every pattern object reachable from a pattern (static_tags
    dictionaries with key order, sub-patterns, AST fields, quantifier bounds) and of the module-level shared containers
    of fst.match must be the same before and after match() / search() / sub().
(b) history independence: every scenario builds its shared sub-pattern TWICE; one copy goes through a history of other
    matches in which it is wrapped by / shared with other patterns; afterwards it (and every wrapper built on it) must
    give exactly the results - tags with key order - of an equal, freshly built pattern on the same targets.
"""

from __future__ import annotations

import ast
import random
import re

import c17_lib as L

TN = L.tname


# ---------------------------------------------------------------------------------------------------------------------
# structural dump

def dump(o, depth=0):
    from fst.match import M_Pattern
    if depth > 40:
        return '<deep>'
    if isinstance(o, M_Pattern):
        return [o.__class__.__qualname__, [[k, dump(v, depth + 1)] for k, v in sorted(vars(o).items())]]
    if isinstance(o, ast.AST):
        return ['ast', o.__class__.__name__, [[f, dump(getattr(o, f, None), depth + 1)] for f in o._fields]]
    if isinstance(o, dict):
        return ['dict', [[repr(k), dump(v, depth + 1)] for k, v in o.items()]]          # key order matters
    if isinstance(o, (list, tuple)):
        return [type(o).__name__, [dump(x, depth + 1) for x in o]]
    if isinstance(o, (set, frozenset)):
        return ['set', sorted(repr(x) for x in o)]
    if isinstance(o, re.Pattern):
        return ['re', o.pattern, o.flags]
    if isinstance(o, type):
        return ['type', o.__qualname__]
    if callable(o):
        return ['fn', getattr(o, '__qualname__', repr(type(o)))]
    return [type(o).__name__, repr(o)]


def module_state():
    """the shared empty containers of fst.match and the class-level defaults of the quantifier classes"""
    from fst import match as M
    return dump([M._EMPTY_LIST, sorted(M._EMPTY_SET, key=repr), M._EMPTY_DICT, dict(M._EMPTY_MAPPINGPROXY),
                 M.MQ.static_tags, M.MQ.pat_tag, M.MQSTAR.static_tags, M.MQPLUS.static_tags, M.MQOPT.static_tags])


def first_diff(a, b, path=''):
    if type(a) is not type(b) or (isinstance(a, list) and len(a) != len(b)):
        return f'{path}: {str(a)[:120]} -> {str(b)[:120]}'
    if isinstance(a, list):
        for i, (x, y) in enumerate(zip(a, b)):
            d = first_diff(x, y, f'{path}/{x[0] if isinstance(x, list) and x and isinstance(x[0], str) else i}')
            if d:
                return d
        return None
    return None if a == b else f'{path}: {a!r} -> {b!r}'


# ---------------------------------------------------------------------------------------------------------------------
# scenario vocabulary

def _cb_name(f):
    return isinstance(getattr(f, 'a', f), ast.Name)


def leaves():
    """{kind: factory} shared sub-patterns; the anonymous tagging ones return their own static_tags dictionary"""
    from fst import match as M
    return {
        'M-static': lambda: M.M(ast.Name, **{TN(5): 1}),
        'M-static-wild': lambda: M.M(..., **{TN(5): 1, TN(6): 'w'}),
        'MCB-static': lambda: M.MCB(_cb_name, **{TN(5): 1}),
        'MMAYBE-static': lambda: M.MMAYBE(ast.Name, **{TN(5): 1}),
        'MNOT-static': lambda: M.MNOT(ast.Constant, **{TN(5): 1}),
        'MRE-static': lambda: M.MRE('^[a-z]$', **{TN(5): 1}),
        'MTAG-static': lambda: M.MTAG(TN(0), **{TN(5): 1}),
        'MOR-of-static': lambda: M.MOR(M.M(ast.Name, **{TN(5): 1}), ast.Constant),
        'MAND-one-static': lambda: M.MAND(M.M(ast.Name, **{TN(5): 1})),
        'M-tagged': lambda: M.M(**{TN(0): ast.Name, TN(5): 1}),
        'MName-plain': lambda: M.MName(id=M.M('x', **{TN(5): 1})),
        'AST-instance': lambda: ast.Name(id='x', ctx=ast.Load()),
    }


def wrappers():
    """{kind: inner -> pattern}"""
    from fst import match as M
    st7 = {TN(7): 3}
    return {
        'M': lambda p: M.M(p, **st7),
        'M-M': lambda p: M.M(M.M(p, **st7), **{TN(8): 4}),
        'M-tag': lambda p: M.M(**{TN(1): p}, **st7),
        'M-over-MOR': lambda p: M.M(M.MOR(ast.Starred, p), **st7),
        'M-over-MAND': lambda p: M.M(M.MAND(p), **st7),
        'MAND': lambda p: M.MAND(p, M.M(..., **st7)),
        'MAND-ctx': lambda p: M.MAND(M.M(**{TN(0): ...}), M.M(p, **st7)),
        'MMAYBE': lambda p: M.MMAYBE(p, **st7),
        'MNOT-MNOT': lambda p: M.MNOT(M.MNOT(M.M(p, **st7)), **{TN(8): 4}),
        'MBinOp-left': lambda p: M.MBinOp(left=M.M(p, **st7)),
        'MCall-args': lambda p: M.MCall(args=[M.MQSTAR.NG, M.M(p, **st7), M.MQSTAR]),
        'MList-star': lambda p: M.MList(elts=[M.MQSTAR(M.M(p, **st7))]),
        'MList-star-static': lambda p: M.MList(elts=[M.MQSTAR(p, **st7), M.MQSTAR]),
        'MList-plus-tag': lambda p: M.MList(elts=[M.MQPLUS(**{TN(1): M.M(p, **st7)}), M.MQSTAR]),
        'MList-sublist': lambda p: M.MList(elts=[M.MQ([M.M(p, **st7), ...], min=0, max=2, **{TN(8): 4}), M.MQSTAR]),
        'AST-field': lambda p: ast.BinOp(left=M.M(p, **st7), op=ast.Add(), right=...),
    }


TARGET_SRCS = ['x', '1', 'x + y', 'x + 1', 'f(a + b, c)', '[a, b, 1]', '[x, x]', 'x = [y, z]\nreturn\n']


def _targets():
    from fst import FST
    out = []
    for src in TARGET_SRCS:
        f = FST(src) if '\n' not in src else FST(src, 'exec')
        ids = {}
        for i, n in enumerate(ast.walk(f.a)):
            ids[id(n)] = i
        out.append((src, f, ids))
    return out


def canon(v, ids):
    from fst.match import FSTMatch
    if isinstance(v, FSTMatch):
        return ['match', canon(v.matched, ids), [[k, canon(x, ids)] for k, x in v.tags.items()]]
    if isinstance(v, list):
        return ['list', [canon(x, ids) for x in v]]
    if isinstance(v, re.Match):
        return ['re', v.group(0)]
    a = getattr(v, 'a', v)
    if isinstance(a, ast.AST):
        return ['n', ids.get(id(a), '?')]
    if hasattr(v, 'base'):          # FSTView
        return ['view', repr(v)[:60]]
    return [type(v).__name__, repr(v)]


def results(pat, targets, pure=False):
    """every observable result of `pat` on the targets: match on each node (FST, and pure AST of the root), search"""
    from fst.match import M, M_Pattern
    out = []

    def m_of(tgt_fst):
        if isinstance(pat, M_Pattern):
            return pat.match(tgt_fst)
        return tgt_fst.match(pat)

    for src, f, ids in targets:
        for g in f.walk(True):
            try:
                m = m_of(g)
                out.append(None if m is None else [[k, canon(x, ids)] for k, x in m.tags.items()])
            except Exception as e:      # noqa: BLE001
                out.append(['exc', type(e).__name__])
        try:
            out.append([[ids[id(m.matched.a)], [[k, canon(x, ids)] for k, x in m.tags.items()]] for m in f.search(pat)])
        except Exception as e:      # noqa: BLE001
            out.append(['exc', type(e).__name__])
        try:
            wrapped = pat if isinstance(pat, M_Pattern) else M(pat)
            m = wrapped.match(f.a)
            out.append(None if m is None else [[k, canon(x, ids)] for k, x in m.tags.items()])
        except Exception as e:      # noqa: BLE001
            out.append(['exc', type(e).__name__])
    return out


def exercise(pat, targets):
    """history step: match on every node, search, sub (on a throw-away copy of the tree)"""
    from fst import FST
    results(pat, targets)
    for src, f, ids in targets[:4]:
        try:
            g = FST(src) if '\n' not in src else FST(src, 'exec')
            g.sub(pat, '__FST_')
        except Exception:       # noqa: BLE001
            pass


def run_scenario(leaf_kind, wrapper_kinds):
    """-> list of failures [(sig_area, shape, cls, what)]"""
    LV, WR = leaves(), wrappers()
    mk = LV[leaf_kind]
    targets = _targets()
    fails = []
    used = mk()
    ws = [(w, WR[w](used)) for w in wrapper_kinds]
    mod0 = module_state()
    snap = {'leaf': dump(used)}
    for w, p in ws:
        snap[w] = dump(p)
    baseline = results(mk(), targets)
    r_first = results(used, targets)
    d = first_diff(snap['leaf'], dump(used))
    if d:
        fails.append(('pattern-purity', f'{leaf_kind}', 'pattern-object-mutated', f'matching {leaf_kind} on its own changed the pattern object: {d}'))
    for w, p in ws:
        exercise(p, targets)
        d = first_diff(snap['leaf'], dump(used)) or first_diff(snap[w], dump(p))
        if d:
            fails.append(('pattern-purity', f'{leaf_kind}-in-{w}', 'pattern-object-mutated',
                          f'match/search/sub with {w}({leaf_kind}) changed a pattern object: {d}'))
            snap['leaf'] = dump(used)
            snap[w] = dump(p)
        d = first_diff(mod0, module_state())
        if d:
            fails.append(('pattern-purity', f'{leaf_kind}-in-{w}', 'shared-container-mutated',
                          f'match/search/sub with {w}({leaf_kind}) changed a module-level container of fst.match: {d}'))
            mod0 = module_state()
    r_after = results(used, targets)
    hist = '+'.join(wrapper_kinds)
    if r_first != baseline:
        fails.append(('history-independence', leaf_kind, 'two-equal-fresh-patterns-differ', _res_diff(baseline, r_first)))
    if r_after != baseline:
        fails.append(('history-independence', f'{leaf_kind}-after-{hist}' if len(wrapper_kinds) == 1 else f'{leaf_kind}-after-history',
                      'result-differs-from-fresh-pattern',
                      f'{leaf_kind} after being used inside {hist}: ' + _res_diff(baseline, r_after)))
    for w, p in ws:
        fresh_w = WR[w](mk())
        a, b = results(fresh_w, targets), results(p, targets)
        if a != b:
            fails.append(('history-independence', f'{w}-of-{leaf_kind}', 'result-differs-from-fresh-pattern',
                          f'{w}({leaf_kind}) after the history {hist}: ' + _res_diff(a, b)))
    return fails


def _res_diff(a, b):
    for i, (x, y) in enumerate(zip(a, b)):
        if x != y:
            return f'result #{i}: fresh pattern gives {str(x)[:200]}, used pattern gives {str(y)[:200]}'
    return f'{len(a)} vs {len(b)} results'


def scenarios(rng, n_multi):
    LV, WR = list(leaves()), list(wrappers())
    out = [(lf, [w]) for lf in LV for w in WR]
    for _ in range(n_multi):
        out.append((rng.choice(LV), rng.sample(WR, rng.randint(2, 4))))
    return out


def _scenario_worker(arg):
    lf, ws = arg
    try:
        return [(lf, ws, f) for f in L.call_with_timeout(120, run_scenario, lf, ws)]
    except Exception as e:      # noqa: BLE001
        return [(lf, ws, ('pattern-purity', lf, 'harness-raised', f'{type(e).__name__}: {e}'))]


def sweep(ctx):
    from framework import pmap
    rng = random.Random(ctx.rng.random())
    scs = scenarios(rng, 40 if ctx.quick else 400)
    res = pmap(_scenario_worker, scs)
    seen = {}
    n = 0
    for lst, (lf, ws) in zip(res, scs):
        n += 1
        ctx.count(('P', lf, ws))
        ctx.tally('purity_leaf', lf)
        for lf, ws, (area, shape, cls, what) in lst:
            sig = f'C17|{area}|{shape}|{cls}'
            seen[sig] = seen.get(sig, 0) + 1
            if seen[sig] <= 2:
                ctx.fail(sig, what, {'kind': 'purity', 'leaf': lf, 'wrappers': ws})
    ctx.notes['purity_scenarios'] = n
    ctx.notes['purity_failures_by_signature'] = seen


def replay(ctx, w):
    for area, shape, cls, what in run_scenario(w['leaf'], w['wrappers']):
        ctx.fail('replay', f'{area}/{shape}/{cls}: {what}', w)
        return
