"""C12 sweep: direct evaluation of the property on the real code.

For corpus programs and many targets (node x field x index) issue INVALID requests of every kind through the public
edit API; for each call that RAISES check
  (1) `root.src` and `ast.dump(root.a, include_attributes=True)` are exactly what they were before the call,
  (2) the registry `fst_core._MODIFYING` is empty,
  (3) a following simple VALID edit gives the same (src, dump) as the same edit on a fresh twin built from the same
      source, and the result equals a from-scratch CPython parse (C01 oracle `util.tree_equals_parse`).
Calls that succeed are not judged (only: if the tree is then no longer equal to a fresh parse of its source the sequence
is abandoned, because the twin construction needs that; that is C01's business and is only tallied).

Requests are plain JSON (replayable): nodes are addressed by their index in `list(root.walk(True))` of the current tree.
"""

from __future__ import annotations

import ast
import random

import util

UNPARSABLE = ['1 +', '((', 'x y z', ')', 'def', '$', 'if :', "'abc", '1 2', 'a, , b', 'lambda', '= 3', 'a b = c', '[1, 2',
              'x = (', 'f(a b)', '"""abc', 'a +* b', '\\', '@']
STMT_SRC = ['x = 1', 'pass', 'import os', 'def f(): pass', 'return', 'if a: b', 'del q', 'a; b', 'x = 1\ny = 2', 'x += 1',
            'class K: pass', 'for i in j: pass', 'raise E', 'global g', 'with a: pass']
MISC_SRC = ['except: pass', 'case _: pass', '**k', '*s', 'k=1', 'a as b', 'x: int', '*', '/', 'not', 'a.b as c',
            'T: int', '**P', '', 'for a in b', 'if c', 'a: b = c', '==', '+', 'and', 'is not', 'x := 1', 'yield', 'await z',
            '*a, b', 'a if b else c', 'lambda: 0', '-1', '1+2j', 'not a', 'a.b.c', '{**a}', '[*a]', 'a[b:c]', 'b:c', 'b:c:d, e',
            "f'{a}'", "'s'", '...', 'None', 'a < b < c', 'a or b', '(yield)', '(a, b)', 'a, b', '[x for x in y]']
PATTERN_WRONG = ['a + b', 'f(x)()', 'lambda: 0', 'a if b else c', 'x = 1', 'pass', '[i for i in j]', 'not a', 'a[0]', '*a, *b',
                 'a.b()', '1 + 2', '-a', '{1, 2}', 'a and b']
AST_WRONG = [('stmt', 'pass'), ('stmt', 'x = 1'), ('stmt', 'def f(): pass'), ('handler', 'try: pass\nexcept E: pass'),
             ('module', 'a = 1\nb = 2'), ('expr', 'lambda: 0'), ('expr', 'a + b'), ('expr', '*s'), ('expr', 'a, b'),
             ('case', 'match a:\n case 1: pass'), ('pattern', 'match a:\n case [1, x]: pass'), ('expr', 'x := 1'),
             ('stmt', 'import a'), ('expr', 'yield'), ('expr', "f'{a}'"), ('expr', 'a[b:c]')]
FST_WRONG = [('x = 1', 'exec'), ('pass', 'exec'), ('a = 1\nb = 2', 'exec'), ('def f(): pass', 'exec'), ('a + b', None),
             ('except: pass', 'ExceptHandler'), ('case _: pass', 'match_case'), ('a as b', 'withitem'),
             ('a, /, b', 'arguments'), ('k=1', 'keyword'), ('[1, x]', 'pattern'), ('x: int', 'arg'), ('a.b as c', 'alias'),
             ('for a in b', 'comprehension'), ('*s', None), ('lambda: 0', None), ('x := 1', None), ('a, b', None)]

BAD_OPT_NAMES = [{'bogus': 1}, {'Raw': True}, {'triva': False}, {'par': True}, {'normalize': True}, {'index': 0}]
BAD_OPT_VALUES = [{'raw': 'x'}, {'raw': 1}, {'trivia': 'zz'}, {'trivia': ('all', 'all', 'all')}, {'pars': 3}, {'pars': 'maybe'},
                  {'coerce': 'y'}, {'norm': 'q'}, {'pep8space': 2}, {'docstr': 'loose'}, {'set_norm': 'x'},
                  {'op_side': 'middle'}, {'args_as': 'zz'}, {'pars_walrus': 'x'}, {'elif_': 3}, {'promote': 'some'},
                  {'norm_self': 'w'}, {'pars_arglike': 'x'}, {'op': 3.5}]

# weights: the kinds that reach the put handlers (where a splice-before-validate bug would live) are drawn more often
# than the ones stopped by the guards at the API entry
ERR_WEIGHTS = {'unparsable': 3, 'wrongcat': 5, 'wrongcat-ast': 3, 'wrongcat-fst': 3, 'arglike': 4, 'index': 1.5, 'optname': 0.5,
               'optvalue': 1, 'consumed': 1, 'nonroot': 0.7, 'nonroot-self': 1, 'ownroot': 0.7, 'undeletable': 2.5,
               'to-nonraw': 1, 'one-false': 1, 'raw-unparsable': 1, 'raw-wrongcat': 2, 'badarg': 0.4, 'vslice': 5,
               'put_src': 2.5, 'root': 1.5, 'delete-field': 2, 'optvalue-stmt': 3, 'valid-any': 6, 'raw-any': 4, 'prim': 3, 'trivia': 3}

ERR_KINDS = ['unparsable', 'wrongcat', 'wrongcat-ast', 'wrongcat-fst', 'arglike', 'index', 'optname', 'optvalue',
             'consumed', 'nonroot', 'nonroot-self', 'ownroot', 'undeletable', 'to-nonraw', 'one-false', 'raw-unparsable',
             'raw-wrongcat', 'badarg', 'vslice', 'put_src', 'root', 'delete-field', 'optvalue-stmt', 'valid-any', 'raw-any', 'prim', 'trivia']


def nodes_of(root):
    return list(root.walk(True))


def category(a):
    if isinstance(a, ast.stmt):
        return 'stmt'
    if isinstance(a, ast.expr):
        return 'expr'
    if isinstance(a, ast.pattern):
        return 'pattern'
    return a.__class__.__name__


VALID_CODE = {'stmt': 'c12v = 1', 'expr': 'c12v', 'pattern': 'c12v', 'alias': 'c12v', 'arg': 'c12v', 'keyword': 'c12k=1',
              'withitem': 'c12v', 'comprehension': 'for c12v in c12w', 'ExceptHandler': 'except c12v: pass',
              'match_case': 'case c12v: pass', 'arguments': 'c12v', 'TypeVar': 'c12v'}


# ---------------------------------------------------------------------------------------------------------------------
# request -> call

def mk_code(spec, root, nodes):
    from fst import FST
    k = spec['k']
    if k == 'src':
        return spec['v']
    if k == 'lines':
        return spec['v'].split('\n')
    if k == 'none':
        return None
    if k == 'prim':           # a primitive value (int / bool / str / float / None), not source
        return spec['v']
    if k == 'ast':
        t = ast.parse(spec['v'])
        what = spec['what']
        if what == 'stmt':
            return t.body[0]
        if what == 'expr':
            return t.body[0].value
        if what == 'handler':
            return t.body[0].handlers[0]
        if what == 'case':
            return t.body[0].cases[0]
        if what == 'pattern':
            return t.body[0].cases[0].pattern
        return t
    if k == 'fst':
        return FST(spec['v'], spec['mode']) if spec.get('mode') else FST(spec['v'])
    if k == 'consumed':
        c = FST('c12z')
        FST('[1]').elts[0].replace(c)
        return c
    if k == 'nonroot':
        return FST('[c12a, c12b]', 'exec').a.body[0].value.elts[0].f
    if k == 'nonroot-self':
        return nodes[spec['idx']]
    if k == 'ownroot':
        return root
    raise AssertionError(k)


def execute(root, req):
    nodes = nodes_of(root)
    f = nodes[req['node']]
    code = mk_code(req['code'], root, nodes) if 'code' in req else None
    opts = dict(req.get('opts') or {})
    if 'to_idx' in req:
        opts['to'] = nodes[req['to_idx']]
    op = req['op']
    field = req.get('field')
    idx = req.get('idx')
    one = req.get('one', '-')
    kw = dict(opts)
    if one != '-':
        kw['one'] = one
    if op == 'replace':
        return f.replace(code, **kw)
    if op == 'remove':
        return f.remove(**opts)
    if op == 'put':
        if 'stop' in req:
            return f.put(code, idx, req['stop'], field, **kw)
        return f.put(code, idx, field=field, **kw)
    if op == 'put_slice':
        return f.put_slice(code, req['start'], req['stop'], field, **kw)
    if op == 'insert':
        return f.insert(code, idx, field, **kw)
    if op == 'append':
        return f.append(code, field, **opts)
    if op == 'prepend':
        return f.prepend(code, field, **opts)
    if op == 'extend':
        return f.extend(code, field, **opts)
    if op == 'prextend':
        return f.prextend(code, field, **opts)
    if op == 'setattr':
        return setattr(f, field, code)
    if op == 'delattr':
        return delattr(f, field)
    if op == 'setitem':
        getattr(f, field)[idx] = code
        return None
    if op == 'setslice':
        getattr(f, field)[req['start']:req['stop']] = code
        return None
    if op == 'delitem':
        del getattr(f, field)[idx]
        return None
    if op == 'unpar':
        return f.unpar(**req['kw'])
    if op == 'put_line_comment':
        kw = {k: req[k] for k in ('field', 'full') if k in req}
        return f.put_line_comment(req['comment'], **kw)
    if op == 'put_docstr':
        return f.put_docstr(req['text'])
    if op == 'delslice':
        del getattr(f, field)[req['start']:req['stop']]
        return None
    if op == 'cut':
        return f.cut(**opts)
    if op == 'get_slice':
        return f.get_slice(req['start'], req['stop'], field, cut=True, **opts)
    if op == 'put_src':
        kw = {'action': req['action']} if 'action' in req else {}
        return f.put_src(req['text'], *req['loc'], **kw)
    if op == 'reparse':
        return f.reparse()
    raise AssertionError(op)


# ---------------------------------------------------------------------------------------------------------------------
# generators

def _targets(nodes):
    """[(node index, parent index, field, idx, category)] for every non-root node"""
    ix = {id(f): i for i, f in enumerate(nodes)}
    out = []
    for i, f in enumerate(nodes):
        p = f.parent
        if p is None or id(p) not in ix:
            continue
        pf = f.pfield
        out.append((i, ix[id(p)], pf.name, pf.idx, category(f.a)))
    return out


def _wrap(rng, tgt, code, extra=None, errkind='?'):
    """wrap a code spec into one of the op forms that address target `tgt`"""
    i, pi, field, idx, cat = tgt
    extra = dict(extra or {})
    ops = ['replace', 'put', 'setattr' if idx is None else 'setitem']
    if idx is not None:
        ops += ['put_slice', 'insert', 'append', 'prepend', 'setslice', 'replace-one-false', 'extend', 'put-stop']
    op = rng.choice(ops)
    opts_ok = op not in ('setattr', 'setitem', 'setslice')
    if not opts_ok:
        extra.pop('opts', None)
        extra.pop('to_idx', None)
    req = {'errkind': errkind, 'code': code, **extra}
    if op == 'replace':
        req.update(op='replace', node=i)
    elif op == 'replace-one-false':
        req.update(op='replace', node=i, one=rng.choice([False, None]))
    elif op == 'put':
        req.update(op='put', node=pi, field=field, idx=idx)
    elif op == 'put-stop':
        req.update(op='put', node=pi, field=field, idx=idx, stop=idx + 1, one=rng.choice([True, False, None]))
    elif op == 'setattr':
        req.update(op='setattr', node=pi, field=field)
    elif op == 'setitem':
        req.update(op='setitem', node=pi, field=field, idx=idx)
    elif op == 'setslice':
        req.update(op='setslice', node=pi, field=field, start=idx, stop=idx + rng.choice([0, 1, 1, 2]))
    elif op == 'put_slice':
        req.update(op='put_slice', node=pi, field=field, start=idx, stop=idx + rng.choice([0, 1, 1, 2]),
                   one=rng.choice([True, False, False, None]))
    elif op == 'insert':
        req.update(op='insert', node=pi, field=field, idx=rng.choice([idx, idx, 0, 'end']), one=rng.choice([True, True, False, None]))
    elif op in ('append', 'prepend', 'extend'):
        req.update(op=op, node=pi, field=field)
    return req


def _arglike_req(rng, nodes):
    """requests that break the ordering rules of Call._args / ClassDef._bases (positional after keyword, etc.)"""
    cands = []
    for i, f in enumerate(nodes):
        a = f.a
        if isinstance(a, ast.Call):
            al = sorted(a.args + a.keywords, key=lambda x: (x.lineno, x.col_offset))
            fld, pf, kf = '_args', 'args', 'keywords'
        elif isinstance(a, ast.ClassDef):
            al = sorted(a.bases + a.keywords, key=lambda x: (x.lineno, x.col_offset))
            fld, pf, kf = '_bases', 'bases', 'keywords'
        else:
            continue
        if al:
            cands.append((i, fld, pf, kf, al, a))
    if not cands:
        return None
    i, fld, pf, kf, al, a = rng.choice(cands)

    def kind(x):
        return 1 if isinstance(x, ast.Starred) else 0 if not isinstance(x, ast.keyword) else 3 if x.arg is None else 2

    kinds = [kind(x) for x in al]
    n = len(al)
    choices = []
    # positional / starred after a keyword
    for j in range(n + 1):
        before = kinds[:j]
        after_rep = kinds[j + 1:]
        after_ins = kinds[j:]
        if before and max(before) >= 2:
            choices.append(('ins', j, 'c12p'))
            if max(before) == 3:
                choices.append(('ins', j, '*c12s'))
            if j < n:
                choices.append(('rep', j, 'c12p'))
        if after_ins and min(after_ins) == 0:
            choices.append(('ins', j, 'c12k=1'))
            choices.append(('ins', j, '**c12d'))
        if j < n and after_rep and min(after_rep) == 0:
            choices.append(('rep', j, 'c12k=1'))
            choices.append(('rep', j, '**c12d'))
        if after_ins and min(after_ins) <= 1:
            choices.append(('ins', j, '**c12d'))
    if not choices:
        return None
    how, j, src = rng.choice(choices)
    code = {'k': 'src', 'v': src}
    if rng.random() < 0.2:
        code = {'k': 'fst', 'v': src, 'mode': None} if '=' not in src and '**' not in src else {'k': 'fst', 'v': src, 'mode': 'keyword'}
    req = {'errkind': 'arglike', 'code': code, 'node': i}
    if how == 'rep':
        c = rng.random()
        if c < 0.3:
            req.update(op='put', field=fld, idx=j)
        elif c < 0.5:
            req.update(op='setitem', field=fld, idx=j)
        elif c < 0.7:
            req.update(op='put_slice', field=fld, start=j, stop=j + 1, one=rng.choice([True, False]))
        else:
            # through the real child
            ix = {id(f.a): k for k, f in enumerate(nodes)}
            req.update(op='replace', node=ix[id(al[j])])
    else:
        c = rng.random()
        if j == n and c < 0.3:
            req.update(op='append', field=fld)
        elif j == 0 and c < 0.3:
            req.update(op='prepend', field=fld)
        elif c < 0.65:
            req.update(op='insert', field=fld, idx=j, one=rng.choice([True, False]))
        else:
            req.update(op='put_slice', field=fld, start=j, stop=j, one=rng.choice([True, False]))
    return req


ARGS_POOL = ['**kw', 'q', 'p, /', '*v', '*, k', 'a=1', 'x, y', '/', '*', 'a, /, b', '*, a, **k', 'z=3, w', '*v, *w', '**k1, **k2',
             'a: int', '*, ', 'p, /, q, /']
VPOOLS = {
    ('arguments', '_all'): ARGS_POOL,
    ('Dict', '_all'): ['**d', 'k: v', '1: 2, **e', 'a', '{a: b}', '**a, **b', 'k:', ': v'],
    ('Compare', '_all'): ['a', '< b', 'a < b', 'in c', '==', 'a if b', 'not in', '< <'],
    ('MatchMapping', '_all'): ['**r', '1: x', '"k": _, **r', 'a', '**r, 1: x', '{1: x}'],
    ('MatchClass', '_attrs'): ['a=1', 'b', 'a=1, b', 'x, y=2', '*s', '**k'],
    ('_pattern_attrlikes', '_attrs'): ['a=1', 'b', 'a=1, b', 'x, y=2', '*s'],
    '_args': ['c12p', '*c12s', 'c12k=1', '**c12d', 'a, b=1', 'k=1, p', '**d, a', '*a, k=2, **d', 'x for x in y'],
    '_body': ['c12v = 1', 'pass', '"""doc"""', 'except: pass', '1 +', 'case _: pass', 'return', 'a as b'],
    'arglikes': ['c12p', '*c12s', 'c12k=1', '**c12d', 'k=1, p', '**d, a'],
}
GENERIC_SLICE = ['1 +', '((', '', 'x = 1', '**k', '*s', 'a as b', 'except: pass', 'c12v', 'c12a, c12b', 'k=1', 'pass', 'x: int']


def _virtual_fields(a):
    """slice fields pfst offers for this node: the virtual (underscore) ones and the real list fields"""
    from fst.fst_put_slice import _PUT_SLICE_HANDLERS
    out = []
    cls = a.__class__
    for (c, fld) in _PUT_SLICE_HANDLERS:
        if c is cls:
            out.append(fld)
    return out


def _vpool(a, fld):
    cn = a.__class__.__name__
    if (cn, fld) in VPOOLS:
        return VPOOLS[(cn, fld)]
    if fld in ('_args', '_bases'):
        return VPOOLS['_args']
    if fld in VPOOLS:
        return VPOOLS[fld]
    return GENERIC_SLICE


def _flen(f, fld):
    try:
        v = getattr(f.a, fld, None)
        if isinstance(v, list):
            return len(v)
        return len(getattr(f, fld))
    except Exception:
        return 2


def _slice_req(rng, i, f, fld, src, errkind):
    n = _flen(f, fld)
    pos = rng.choice(list(range(n + 1)) + ['end', 0, n])
    code = {'k': 'src', 'v': src}
    c = rng.random()
    req = {'errkind': errkind, 'code': code, 'node': i, 'field': fld}
    ipos = n if pos == 'end' else pos
    if c < 0.3:
        req.update(op='insert', idx=pos, one=rng.choice([True, False, False, None]))
    elif c < 0.55:
        req.update(op='put_slice', start=ipos, stop=min(n, ipos + rng.choice([0, 0, 1, 2])), one=rng.choice([True, False, False, None]))
    elif c < 0.65:
        req.update(op=rng.choice(['append', 'prepend', 'extend', 'prextend']))
    elif c < 0.8:
        req.update(op='put', idx=min(ipos, max(n - 1, 0)))
    elif c < 0.9:
        req.update(op='setslice', start=ipos, stop=min(n, ipos + rng.choice([0, 1])))
    else:
        req.update(op='put', idx=min(ipos, max(n - 1, 0)), stop=min(n, ipos + 1), one=rng.choice([True, False]))
    return req


def _vslice_req(rng, nodes):
    """slice requests to virtual fields (`_all`, `_args`, `_bases`, `_body`, `_attrs`) and to the list fields of special
    slice containers, with code that breaks the field's ordering / category rules"""
    cands = []
    for i, f in enumerate(nodes):
        vf = _virtual_fields(f.a)
        if vf:
            cands.append((i, f, vf))
    if not cands:
        return None
    virt = [c for c in cands if any(x.startswith('_') for x in c[2])]
    i, f, vf = rng.choice(virt if virt and rng.random() < 0.75 else cands)
    under = [x for x in vf if x.startswith('_')]
    fld = rng.choice(under) if under and rng.random() < 0.8 else rng.choice(vf)
    if rng.random() < 0.2:
        return rng.choice(_slice_delete_reqs(i, f, fld, 'vslice'))
    pool = _vpool(f.a, fld)
    src = rng.choice(pool) if rng.random() < 0.85 else rng.choice(GENERIC_SLICE)
    return _slice_req(rng, i, f, fld, src, 'vslice')


CUT_OPTS = [{'trivia': False}, {'norm': True}, {'pars': False}, {'norm_get': True}, {'set_norm': 'call'}]
ARGS_AS_OPTS = [{'args_as': v} for v in ('pos', 'arg', 'kw', 'arg_only', 'kw_only', 'pos_maybe', 'arg_maybe', 'kw_maybe')]


def _slice_delete_reqs(i, f, fld, errkind='slice-delete'):
    """deletes of sub-ranges of a slice field, the whole range included, through every entry point that can delete"""
    n = _flen(f, fld)
    ranges = sorted(set([(0, n), (0, 'end'), (0, 1), (max(n - 1, 0), n), (1, n), (0, max(n - 1, 0))]), key=str)
    out = []
    for a, b in ranges:
        base = {'errkind': errkind, 'node': i, 'field': fld}
        out.append({**base, 'op': 'put_slice', 'start': a, 'stop': b, 'code': {'k': 'none'}, 'one': False})
        out.append({**base, 'op': 'get_slice', 'start': a, 'stop': b})
        for o in (CUT_OPTS + (ARGS_AS_OPTS if isinstance(f.a, ast.arguments) else [])) if (a, b) in ((0, n), (0, 1)) else ():
            # the cut with VALID values of the options that steer what is returned: a refusal of the requested form must
            # come before the cut
            out.append({**base, 'op': 'get_slice', 'start': a, 'stop': b, 'opts': o})
        out.append({**base, 'op': 'put', 'idx': a, 'stop': b, 'code': {'k': 'none'}, 'one': False})
        if b != 'end':
            out.append({**base, 'op': 'delslice', 'start': a, 'stop': b})
    return out


PUT_SRC_TEXT = ['(', ')', 'in', 'def', ':', '"', '1 +', '$', ' = = ', '[', 'lambda', '\\', 'x y', ',,', 'if', '\n  indented', '*',
                'class', '@', '}', 'a b c']


def _put_src_req(rng, root, nodes):
    """raw source puts (`put_src`, action='reparse') that make the source invalid, at and inside node locations"""
    locd = [(i, f) for i, f in enumerate(nodes) if f.loc is not None]
    if not locd:
        return None
    i, f = rng.choice(locd)
    ln, col, end_ln, end_col = f.loc
    c = rng.random()
    if c < 0.4:
        loc = [ln, col, end_ln, end_col]
    elif c < 0.6:
        loc = [ln, col, ln, col]
    elif c < 0.8:
        loc = [end_ln, end_col, end_ln, end_col]
    else:
        loc = [ln, col, ln, col + 1] if (end_ln, end_col) > (ln, col) else [ln, col, ln, col]
    req = {'errkind': 'put_src', 'op': 'put_src', 'node': rng.choice([i, i, 0]), 'text': rng.choice(PUT_SRC_TEXT), 'loc': loc}
    c = rng.random()
    if c < 0.25:
        req['action'] = 'reparse'
    elif c < 0.33:
        req['action'] = rng.choice(['bogus', 'Reparse', 1])
    return req


def _root_req(rng, root, nodes):
    """requests addressed to the root node itself"""
    c = rng.random()
    if c < 0.12:
        return {'errkind': 'root', 'op': 'remove', 'node': 0}
    pool = ([{'k': 'src', 'v': v} for v in UNPARSABLE[:8]] + [{'k': 'none'}, {'k': 'consumed'}, {'k': 'consumed'}, {'k': 'nonroot'},
            {'k': 'ownroot'}, {'k': 'ownroot'}, ({'k': 'nonroot-self', 'idx': rng.randrange(1, len(nodes))} if len(nodes) > 1 else {'k': 'nonroot'}),
            {'k': 'src', 'v': ''},
            {'k': 'lines', 'v': '1 +\n2 +'}])
    req = {'errkind': 'root', 'op': 'replace', 'node': 0, 'code': rng.choice(pool)}
    c = rng.random()
    if c < 0.15:
        req['opts'] = rng.choice(BAD_OPT_NAMES + BAD_OPT_VALUES)
        req['code'] = {'k': 'src', 'v': 'c12v'}
    elif c < 0.25:
        req['opts'] = {'raw': rng.choice([True, 'auto'])}
    elif c < 0.32 and len(nodes) > 1:
        req['to_idx'] = rng.randrange(1, len(nodes))
        req['code'] = {'k': 'src', 'v': 'c12v'}
    elif c < 0.4:
        req['one'] = rng.choice([False, None])
    return req


def _delete_field_req(rng, nodes):
    """delete (put None / del attribute) of ANY non-list field of any node: most are not deletable, some only in
    certain states (`except*` type, a keyword's arg, ...)"""
    cands = []
    for i, f in enumerate(nodes):
        for fld in f.a._fields:
            if fld in ('ctx',):
                continue
            v = getattr(f.a, fld, None)
            if not isinstance(v, list):
                cands.append((i, fld))
    if not cands:
        return None
    i, fld = rng.choice(cands)
    if rng.random() < 0.7:
        return {'errkind': 'delete-field', 'op': 'put', 'node': i, 'field': fld, 'idx': None, 'code': {'k': 'none'}}
    return {'errkind': 'delete-field', 'op': 'delattr', 'node': i, 'field': fld}


# ---- requests that are (mostly) VALID: the property speaks about every call that raises, whatever the request --------

OPS = {'boolop': ['and', 'or'],
       'operator': ['+', '-', '*', '/', '//', '%', '**', '<<', '>>', '|', '^', '&', '@'],
       'unaryop': ['not', '-', '+', '~'],
       'cmpop': ['==', '!=', '<', '<=', '>', '>=', 'is', 'is not', 'in', 'not in']}
VALID_POOLS = {
    'expr': ['c12v', 'c12f(1)', '(c12a, c12b)', '[1, 2]', 'a.b', '-1', 'x if y else z', 'lambda: 0', 'a or b', 'a and b and c', 'not a',
             "'s'", '1.5', 'a < b', 'a + b', 'await z', '*s', 'x := 1', 'yield', 'c12_a_rather_long_name_to_grow_the_line', 'z', '{a: b}',
             'f"{a}"', 'a[b:c]', '(yield)', 'a if b else c if d else e'],
    'stmt': ['c12v = 1', 'pass', 'if a: b', 'return', 'del q', 'x: int = 1', 'import os', 'def f(): pass', 'a; b', 'raise', 'break'],
    'pattern': ['c12v', '1', '[a, b]', '{1: x}', 'C()', '_', 'a | b', '*r', 'a.b', '-1', '"s"', 'None', 'C(a, b=c)'],
}
VALID_POOLS.update({
    'alias': ['*', 'c12v', 'a.b', 'a as b', 'a.b as c', 'a.b.c'],
    'arg': ['c12a', 'a: int', 'a: (yield)', 'a: *b'],
    'keyword': ['c12k=1', '**c12d', 'k=(yield)', 'k=*a'],
    'withitem': ['c12v', 'a as b', '(a, b) as c', 'a as (b, c)', 'a as b.c', '(a as b)'],
    'comprehension': ['for c12v in c12w', 'async for a in b', 'for a in b if c if d', 'for a, b in c'],
    'ExceptHandler': ['except: pass', 'except c12v: pass', 'except E as e: pass', 'except* E: pass', 'except* (A, B) as e: pass', 'except (A, B): pass'],
    'match_case': ['case c12v: pass', 'case _: pass', 'case [a, *b] if c: pass', 'case {1: x, **r}: pass'],
    'arguments': ARGS_POOL,
    'TypeVar': ['c12v', 'T: int', '*Ts', '**P'], 'TypeVarTuple': ['c12v', 'T: int', '*Ts', '**P'], 'ParamSpec': ['c12v', 'T: int', '*Ts', '**P'],
    'Starred': ['*c12s', 'c12v', '*(a, b)', '*a or b'], 'Slice': ['a:b', ':', 'a:b:c', 'c12v', '::'],
})
SMALL_CATEGORIES = ('alias', 'arg', 'keyword', 'withitem', 'comprehension', 'ExceptHandler', 'match_case', 'arguments', 'TypeVar',
                    'TypeVarTuple', 'ParamSpec', 'pattern', 'Starred', 'Slice')

RAW_CODES = ['1  # ', '"s"  # x', 'None #', 'c12v #', '1', "'s'", 'b"x"', '...', 'a.b', '(c12v', 'c12v)', '[', 'lambda:', 'x if',
             '1 if 2 else', 'not', '-', 'c12v  \\', '# only comment', 'c12v', '1.5', 'True', '(1, 2)', '[a]', 'a or b', 'x = 1', 'pass',
             'global g', '*s', '**k', 'k=1', 'f(', "f'", 'a, b', 'await x', '1 #\n', '2  # ) ]', "'''"]


COMMENT_TEXTS = ['note', '# note', '', 'a\nb', 'a\rb', 'a\r\nb', 'note\rimport os', 'x\x0cy', 'a\0b', 'caf\u00e9 \u65e5', 'a # b', '\\',
                 'trailing backslash \\', 'q' * 3, 1, None]
DOCSTR_TEXTS = ['doc', 'a\nb', "'''", 'back\\slash', '\\', 'a\rb', 'a\0b', '', None, 1]


def _trivia_reqs(nodes, i):
    """edits that by contract change only trivia / one string (line comments, docstrings), with acceptable and with
    impossible text (line terminators - the tokenizer ends a line at a lone CR too -, NUL, non-strings)"""
    f = nodes[i]
    out = []
    if isinstance(f.a, ast.stmt):
        for c in COMMENT_TEXTS:
            for full in (False, True):
                out.append({'errkind': 'trivia', 'op': 'put_line_comment', 'node': i, 'comment': c, 'full': full})
            for fld in ('orelse', 'finalbody'):
                if getattr(f.a, fld, None):
                    out.append({'errkind': 'trivia', 'op': 'put_line_comment', 'node': i, 'comment': c, 'field': fld})
    if isinstance(f.a, (ast.FunctionDef, ast.AsyncFunctionDef, ast.ClassDef, ast.Module)):
        for t in DOCSTR_TEXTS:
            out.append({'errkind': 'trivia', 'op': 'put_docstr', 'node': i, 'text': t})
    return out


PRIM_VALUES = [0, 1, True, False, 2, -1, None, 'u', '', 'c12v', 1.5, 'r', 115, 'not an identifier', '_', '*']


def _prim_fields(a):
    """fields of the node that hold a primitive (flags, levels, kinds, conversions, constants, identifiers) or a list of
    identifiers"""
    out = []
    for fld in a._fields:
        v = getattr(a, fld, None)
        if isinstance(v, ast.AST):
            continue
        if isinstance(v, list):
            if v and all(isinstance(x, str) for x in v):
                out.extend((fld, j) for j in range(len(v)))
            continue
        out.append((fld, None))
    return out


def _prim_reqs(nodes, i):
    """every primitive value (valid, out of range, wrong type) put to every primitive field of node i, through put() and
    through attribute assignment: flags like AnnAssign.simple / is_async / ImportFrom.level / Constant.kind /
    FormattedValue.conversion, constants, identifiers"""
    f = nodes[i]
    out = []
    for fld, idx in _prim_fields(f.a):
        for v in PRIM_VALUES:
            code = {'k': 'prim', 'v': v}
            out.append({'errkind': 'prim', 'op': 'put', 'node': i, 'field': fld, 'idx': idx, 'code': code})
            if idx is None:
                out.append({'errkind': 'prim', 'op': 'setattr', 'node': i, 'field': fld, 'code': code})
            else:
                out.append({'errkind': 'prim', 'op': 'setitem', 'node': i, 'field': fld, 'idx': idx, 'code': code})
    return out


def _op_category(a):
    for base, name in ((ast.boolop, 'boolop'), (ast.operator, 'operator'), (ast.unaryop, 'unaryop'), (ast.cmpop, 'cmpop')):
        if isinstance(a, base):
            return name
    return None


def _valid_pool(a):
    oc = _op_category(a)
    if oc:
        return OPS[oc]
    cat = category(a)
    return VALID_POOLS.get(cat) or [VALID_CODE.get(cat, 'c12v')]


def _valid_any_req(rng, nodes, tg):
    """code of the right category put to any (node, field, index) through any entry point: mostly valid requests, some of
    them multi-site edits (operators of chains); whatever raises is judged like any other raising call"""
    if not tg:
        return None
    ops_t = [t for t in tg if _op_category(nodes[t[0]].a)]
    tgt = rng.choice(ops_t) if ops_t and rng.random() < 0.35 else rng.choice(tg)
    if tgt[4] in ('Load', 'Store', 'Del'):
        tgt = rng.choice(tg)
    src = rng.choice(_valid_pool(nodes[tgt[0]].a))
    return _wrap(rng, tgt, {'k': rng.choice(['src', 'src', 'src', 'fst-any']), 'v': src} if False else {'k': 'src', 'v': src}, errkind='valid-any')


def _raw_any_req(rng, nodes, tg):
    """raw puts (raw=True / 'auto') of code that may well be acceptable: comments swallowing the rest of the line, literals
    (the reparsed ancestor then has a primitive where the path expects a node), unbalanced brackets ..."""
    if not tg:
        return None
    tgt = rng.choice(tg)
    if tgt[4] in ('Load', 'Store', 'Del'):
        tgt = rng.choice(tg)
    for _ in range(8):
        req = _wrap(rng, tgt, {'k': 'src', 'v': rng.choice(RAW_CODES)}, {'opts': {'raw': rng.choice([True, True, 'auto'])}}, errkind='raw-any')
        if 'opts' in req:
            return req
    return None


OPTION_NAMES = ['raw', 'trivia', 'coerce', 'promote', 'elif_', 'pep8space', 'docstr', 'pars', 'pars_walrus', 'pars_arglike', 'norm',
                'norm_self', 'norm_get', 'set_norm', 'op_side', 'op', 'args_as']
OPTION_JUNK = [2, 3, -1, 100, 1.5, 'zz', '', (1, 2, 3), b'x']
STMT_LIST_FIELDS = ('body', 'orelse', 'finalbody', 'handlers', 'cases')
STMT_CODE = {'handlers': 'except c12v: pass', 'cases': 'case c12v: pass'}


def option_names():
    try:
        from fst.fst_options import _GLOBAL_OPTIONS_W_DEFAULTS
        return sorted(set(OPTION_NAMES) | set(_GLOBAL_OPTIONS_W_DEFAULTS))
    except Exception:
        return OPTION_NAMES


def _stmt_lists(nodes):
    out = []
    for i, f in enumerate(nodes):
        for fld in STMT_LIST_FIELDS:
            v = getattr(f.a, fld, None)
            if isinstance(v, list) and v and isinstance(v[0], (ast.stmt, ast.ExceptHandler, ast.match_case)):
                out.append((i, fld, len(v)))
    return out


def _stmt_opt_reqs(i, fld, n, opts, errkind='optvalue-stmt'):
    """every public entry-point family of a statement-list edit, with the given options"""
    code = {'k': 'src', 'v': STMT_CODE.get(fld, 'c12v = 1')}
    base = {'errkind': errkind, 'node': i, 'field': fld, 'opts': opts}
    reqs = [
        {**base, 'op': 'insert', 'idx': 0, 'code': code, 'one': True},
        {**base, 'op': 'insert', 'idx': 'end', 'code': code, 'one': False},
        {**base, 'op': 'append', 'code': code},
        {**base, 'op': 'prepend', 'code': code},
        {**base, 'op': 'extend', 'code': code},
        {**base, 'op': 'put_slice', 'start': 0, 'stop': 1, 'code': code, 'one': False},
        {**base, 'op': 'put_slice', 'start': n, 'stop': n, 'code': code, 'one': False},
        {**base, 'op': 'put', 'idx': 0, 'code': code},
        {**base, 'op': 'put', 'idx': n - 1, 'code': {'k': 'none'}},
        {**base, 'op': 'put_slice', 'start': 0, 'stop': 1, 'code': {'k': 'none'}, 'one': False},
        {**base, 'op': 'get_slice', 'start': 0, 'stop': 1},
    ]
    return reqs


def _optvalue_stmt_req(rng, nodes):
    """statement-list edits (all entry points) with an invalid value for some option"""
    sl = _stmt_lists(nodes)
    if not sl:
        return None
    i, fld, n = rng.choice(sl)
    opts = {rng.choice(option_names()): rng.choice(OPTION_JUNK)}
    c = rng.random()
    if c < 0.25:       # through the child: replace / remove / cut with options
        ix = {id(f.a): k for k, f in enumerate(nodes)}
        child = getattr(nodes[i].a, fld)[rng.randrange(n)]
        op = rng.choice(['replace', 'remove', 'cut'])
        req = {'errkind': 'optvalue-stmt', 'op': op, 'node': ix[id(child)], 'opts': opts}
        if op == 'replace':
            req['code'] = {'k': 'src', 'v': STMT_CODE.get(fld, 'c12v = 1')}
        return req
    return rng.choice(_stmt_opt_reqs(i, fld, n, opts))


SYST_JUNK = [2, -1, 'zz', 1.5]


def systematic_options(rng, root, nodes, cap):
    """every option x junk values x every entry-point family on every statement list of the tree; when capped, every
    (option, value) pair is still tried at least once on some list through some entry point"""
    sl = _stmt_lists(nodes)
    if not sl:
        return []
    first, rest = [], []
    for name in option_names():
        for val in SYST_JUNK:
            group = []
            for i, fld, n in sl:
                group.extend(_stmt_opt_reqs(i, fld, n, {name: val}))
            rng.shuffle(group)
            first.extend(group[:2])
            rest.extend(group[2:])
    if cap and len(first) + len(rest) > cap:
        rest = rng.sample(rest, max(0, min(len(rest), cap - len(first))))
    return first + rest


def layout_variants(spec, rng, n, tries=12):
    """the same tree written differently: extra blanks / line continuations inserted or blanks removed between two
    adjacent tokens of a line (`except *E`, `except\\\n *E`, `f (a)`, `a . b` ...); kept only if pfst parses it (same mode)
    to the same tree (dump without positions)"""
    import io
    import tokenize
    src, mode = spec['src'], spec.get('mode') or 'exec'
    try:
        ref = ast.dump(build(spec).a)
        toks = list(tokenize.generate_tokens(io.StringIO(src).readline))
    except Exception:     # noqa: BLE001
        return []
    skip = {tokenize.INDENT, tokenize.DEDENT, tokenize.NEWLINE, tokenize.NL, tokenize.COMMENT, tokenize.ENDMARKER}
    fnames = {'FSTRING_START', 'FSTRING_MIDDLE', 'FSTRING_END'}
    points = []      # (row, col_end_prev, col_start_tok, in_brackets)
    depth = fdepth = 0
    prev = None
    for t in toks:
        name = tokenize.tok_name[t.type]
        if name == 'FSTRING_START':
            fdepth += 1
        if t.type in skip:
            prev = None if t.type != tokenize.COMMENT else None
            continue
        if prev is not None and fdepth == 0 and prev.end[0] == t.start[0] and name not in fnames:
            points.append((t.start[0] - 1, prev.end[1], t.start[1], depth > 0))
        if name == 'FSTRING_END':
            fdepth -= 1
        if t.type == tokenize.OP and fdepth == 0:
            if t.string in '([{':
                depth += 1
            elif t.string in ')]}':
                depth -= 1
        prev = t if fdepth == 0 or name == 'FSTRING_END' else None
    if not points:
        return []
    out, seen = [], {src}
    for _ in range(tries):
        if len(out) >= n:
            break
        lines = src.split('\n')
        chosen = rng.sample(points, min(len(points), rng.choice([1, 1, 2, 3])))
        chosen.sort(reverse=True)
        used_rows = set()
        for row, c0, c1, inbr in chosen:
            if row in used_rows and any(True for _ in ()):
                continue
            l = lines[row]
            gap = l[c0:c1]
            c = rng.random()
            if c < 0.4:
                new = gap + ' ' * rng.randint(1, 2)
            elif c < 0.7:
                new = gap + ' \\\n' + ' ' * rng.randint(0, 3)
            elif c < 0.8 and inbr:
                new = gap + '\n' + ' ' * rng.randint(0, 3)
            else:
                new = ''
            lines[row] = l[:c0] + new + l[c1:]
        new_src = '\n'.join(lines)
        if new_src in seen:
            continue
        seen.add(new_src)
        try:
            if ast.dump(build({'src': new_src, 'mode': mode}).a) != ref:
                continue
        except Exception:     # noqa: BLE001
            continue
        out.append({'src': new_src, 'mode': mode})
    registry().clear()
    return out


def systematic(rng, root, nodes, cap):
    """deterministic families over a (small) tree: delete every node and every field; every position x every
    rule-breaking code of every slice field (virtual ones included)"""
    reqs = []
    deletes = []      # never capped: delete every node and put None to every field of every node
    for i, f in enumerate(nodes):
        if i and not isinstance(f.a, ast.expr_context):
            deletes.append({'errkind': 'undeletable', 'op': 'remove', 'node': i})
        for fld in f.a._fields:
            if fld == 'ctx':
                continue
            v = getattr(f.a, fld, None)
            if not isinstance(v, list):
                deletes.append({'errkind': 'delete-field', 'op': 'put', 'node': i, 'field': fld, 'idx': None, 'code': {'k': 'none'}})
        for fld in _virtual_fields(f.a):
            n = _flen(f, fld)
            for src in _vpool(f.a, fld):
                for pos in sorted(set([0, n, max(n - 1, 0), 1 if n > 1 else 0])):
                    for one in (True, False):
                        reqs.append({'errkind': 'vslice', 'op': 'put_slice', 'node': i, 'field': fld, 'start': pos, 'stop': pos,
                                     'one': one, 'code': {'k': 'src', 'v': src}})
                    if pos < n:
                        reqs.append({'errkind': 'vslice', 'op': 'put', 'node': i, 'field': fld, 'idx': pos, 'code': {'k': 'src', 'v': src}})
    first = []
    seen_cls = set()
    for i, f in enumerate(nodes):
        if cap >= 50 and not isinstance(f.a, ast.expr_context):
            # (hand-written special trees only) the primitive product once per (node class, parent class) of the tree
            key = (f.a.__class__, f.parent.a.__class__ if f.parent else None)
            if key not in seen_cls:
                seen_cls.add(key)
                first.extend(_prim_reqs(nodes, i))
        if cap >= 50 and ('trivia', f.a.__class__) not in seen_cls:
            seen_cls.add(('trivia', f.a.__class__))
            first.extend(_trivia_reqs(nodes, i))
        for fld in _virtual_fields(f.a):
            first.extend(_slice_delete_reqs(i, f, fld))
        if f.parent is not None and category(f.a) in SMALL_CATEGORIES:
            # every shape of the node's own category (star alias, `as` forms, ** keyword, except* ...), through the node
            # and through the parent
            pi_ = next(k for k, g in enumerate(nodes) if g is f.parent)
            for src in _valid_pool(f.a):
                first.append({'errkind': 'valid-any', 'op': 'replace', 'node': i, 'code': {'k': 'src', 'v': src}})
                first.append({'errkind': 'valid-any', 'op': 'put', 'node': pi_, 'field': f.pfield.name, 'idx': f.pfield.idx,
                              'code': {'k': 'src', 'v': src}})
    for i, f in enumerate(nodes):
        oc = _op_category(f.a)
        p = f.parent
        if oc and p is not None:
            pi = next(k for k, g in enumerate(nodes) if g is p)
            pf = f.pfield
            for o in OPS[oc]:
                # every operator of the category, through the node and through the parent (multi-site edit on chains)
                first.append({'errkind': 'valid-any', 'op': 'replace', 'node': i, 'code': {'k': 'src', 'v': o}})
                first.append({'errkind': 'valid-any', 'op': 'put', 'node': pi, 'field': pf.name, 'idx': pf.idx, 'code': {'k': 'src', 'v': o}})
        if p is not None and isinstance(f.a, (ast.expr, ast.pattern)) and f.pfield.idx is None and not isinstance(f.a, ast.expr_context):
            pi = next(k for k, g in enumerate(nodes) if g is p)
            for code in ('1  # ', "'s' # ", 'c12v # ', '(', '1', 'c12v'):
                # raw puts that change the kind of an ancestor, through the API that returns the parent and the one that
                # returns the child
                reqs.append({'errkind': 'raw-any', 'op': 'put', 'node': pi, 'field': f.pfield.name, 'idx': None,
                             'code': {'k': 'src', 'v': code}, 'opts': {'raw': True}})
                reqs.append({'errkind': 'raw-any', 'op': 'replace', 'node': i, 'code': {'k': 'src', 'v': code}, 'opts': {'raw': True}})
    if len(reqs) > cap:
        reqs = rng.sample(reqs, cap)
    return deletes + first + reqs


def gen_invalid(rng, root, nodes, errkind=None):
    tg = _targets(nodes)
    kind = errkind or rng.choices(ERR_KINDS, [ERR_WEIGHTS[k] for k in ERR_KINDS])[0]
    if kind == 'vslice':
        return _vslice_req(rng, nodes)
    if kind == 'put_src':
        return _put_src_req(rng, root, nodes)
    if kind == 'root':
        return _root_req(rng, root, nodes)
    if kind == 'delete-field':
        return _delete_field_req(rng, nodes)
    if kind == 'optvalue-stmt':
        return _optvalue_stmt_req(rng, nodes)
    if kind == 'trivia':
        reqs = _trivia_reqs(nodes, rng.randrange(len(nodes)))
        return rng.choice(reqs) if reqs else None
    if kind == 'prim':
        reqs = _prim_reqs(nodes, rng.randrange(len(nodes)))
        return rng.choice(reqs) if reqs else None
    if kind == 'valid-any':
        return _valid_any_req(rng, nodes, tg)
    if kind == 'raw-any':
        return _raw_any_req(rng, nodes, tg)
    if not tg:
        return None
    tgt = rng.choice(tg)
    if tgt[4] in ('Load', 'Store', 'Del') and rng.random() < 0.9:      # expr_context nodes: keep a few only
        tgt = rng.choice(tg)
    i, pi, field, idx, cat = tgt
    if kind == 'badarg':
        return {'errkind': kind, 'op': 'unpar', 'node': i, 'kw': {'node': rng.choice(['bogus', 1, 'Invalid', 0, None])}}
    if kind == 'unparsable':
        return _wrap(rng, tgt, {'k': rng.choice(['src', 'src', 'lines']), 'v': rng.choice(UNPARSABLE)}, errkind=kind)
    if kind == 'wrongcat':
        pool = {'expr': STMT_SRC + MISC_SRC[:16], 'stmt': MISC_SRC[:14], 'pattern': PATTERN_WRONG + STMT_SRC[:4]}.get(cat, STMT_SRC + MISC_SRC)
        return _wrap(rng, tgt, {'k': 'src', 'v': rng.choice(pool)}, errkind=kind)
    if kind == 'wrongcat-ast':
        what, src = rng.choice(AST_WRONG)
        return _wrap(rng, tgt, {'k': 'ast', 'what': what, 'v': src}, errkind=kind)
    if kind == 'wrongcat-fst':
        src, mode = rng.choice(FST_WRONG)
        return _wrap(rng, tgt, {'k': 'fst', 'v': src, 'mode': mode}, errkind=kind)
    if kind == 'arglike':
        return _arglike_req(rng, nodes)
    valid = {'k': 'src', 'v': VALID_CODE.get(cat, 'c12v')}
    if kind == 'index':
        lists = [(t[1], t[2]) for t in tg if t[3] is not None]
        if not lists:
            return None
        pi, field = rng.choice(lists)
        n = len(getattr(nodes[pi].a, field))
        bad = rng.choice([n, n + 1, n + 7, -n - 1, -n - 5])
        cat2 = category(getattr(nodes[pi].a, field)[0])
        valid = {'k': 'src', 'v': VALID_CODE.get(cat2, 'c12v')}
        op = rng.choice(['put', 'setitem', 'delitem', 'put-none'])
        if op == 'put':
            return {'errkind': kind, 'op': 'put', 'node': pi, 'field': field, 'idx': bad, 'code': valid}
        if op == 'put-none':
            return {'errkind': kind, 'op': 'put', 'node': pi, 'field': field, 'idx': bad, 'code': {'k': 'none'}}
        if op == 'delitem':
            return {'errkind': kind, 'op': 'delitem', 'node': pi, 'field': field, 'idx': bad}
        return {'errkind': kind, 'op': 'setitem', 'node': pi, 'field': field, 'idx': bad, 'code': valid}
    if kind in ('optname', 'optvalue'):
        opts = rng.choice(BAD_OPT_NAMES if kind == 'optname' else BAD_OPT_VALUES)
        for _ in range(8):
            req = _wrap(rng, tgt, valid, {'opts': opts}, errkind=kind)
            if 'opts' in req:
                return req
        return None
    if kind in ('consumed', 'nonroot', 'ownroot'):
        return _wrap(rng, tgt, {'k': kind}, errkind=kind)
    if kind == 'nonroot-self':
        return _wrap(rng, tgt, {'k': 'nonroot-self', 'idx': rng.randrange(1, len(nodes))}, errkind=kind)
    if kind == 'undeletable':
        c = rng.random()
        if c < 0.4:
            return {'errkind': kind, 'op': 'remove', 'node': i}
        if c < 0.7:
            return {'errkind': kind, 'op': 'replace', 'node': i, 'code': {'k': 'none'}}
        if idx is None:
            return {'errkind': kind, 'op': 'delattr', 'node': pi, 'field': field}
        return {'errkind': kind, 'op': 'put', 'node': pi, 'field': field, 'idx': idx, 'code': {'k': 'none'}}
    if kind == 'to-nonraw':
        later = [t for t in tg if t[0] > i]
        to = rng.choice(later)[0] if later and rng.random() < 0.8 else rng.choice(tg)[0]
        for _ in range(8):
            req = _wrap(rng, tgt, valid, {'to_idx': to}, errkind=kind)
            if 'to_idx' in req:
                return req
        return None
    if kind == 'one-false':
        if idx is not None:
            return None
        return {'errkind': kind, 'op': rng.choice(['replace', 'put']), **({'node': i} if False else {}),
                **_one_false(rng, tgt, valid)}
    if kind in ('raw-unparsable', 'raw-wrongcat'):
        src = rng.choice(UNPARSABLE) if kind == 'raw-unparsable' else rng.choice(STMT_SRC[:8] + MISC_SRC[:10])
        for _ in range(8):
            req = _wrap(rng, tgt, {'k': 'src', 'v': src}, {'opts': {'raw': rng.choice(['auto', 'auto', True])}}, errkind=kind)
            if 'opts' in req:
                return req
        return None
    return None


def _one_false(rng, tgt, valid):
    i, pi, field, idx, cat = tgt
    if rng.random() < 0.5:
        return {'op': 'replace', 'node': i, 'one': False, 'code': valid}
    return {'op': 'put', 'node': pi, 'field': field, 'idx': None, 'one': False, 'code': valid}


def gen_valid(rng, root, nodes, near=None):
    """a simple edit that must succeed: Name(Load) -> Name, int Constant -> int, rename of an arg / handler name / keyword,
    append a statement to a module"""
    cands = []
    for i, f in enumerate(nodes):
        a = f.a
        if f.parent is None:
            continue
        if isinstance(a, ast.Name) and isinstance(a.ctx, ast.Load):
            cands.append({'op': 'replace', 'node': i, 'code': {'k': 'src', 'v': 'c12n'}})
        elif isinstance(a, ast.Constant) and type(a.value) is int and not isinstance(f.parent.a, (ast.JoinedStr, ast.FormattedValue)):
            cands.append({'op': 'replace', 'node': i, 'code': {'k': 'src', 'v': '42'}})
        elif isinstance(a, ast.arg):
            cands.append({'op': 'put', 'node': i, 'field': 'arg', 'idx': None, 'code': {'k': 'src', 'v': 'c12a'}})
        elif isinstance(a, ast.ExceptHandler) and a.name:
            cands.append({'op': 'put', 'node': i, 'field': 'name', 'idx': None, 'code': {'k': 'src', 'v': 'c12e'}})
        elif isinstance(a, ast.keyword) and a.arg:
            cands.append({'op': 'put', 'node': i, 'field': 'arg', 'idx': None, 'code': {'k': 'src', 'v': 'c12k'}})
    if near is not None and cands and rng.random() < 0.6:
        close = sorted(cands, key=lambda c: abs(c['node'] - near))[:3]
        return {'errkind': 'valid', **rng.choice(close)}
    if cands and rng.random() < 0.85:
        return {'errkind': 'valid', **rng.choice(cands)}
    if isinstance(root.a, ast.Module):
        return {'errkind': 'valid', 'op': 'append', 'node': 0, 'field': 'body', 'code': {'k': 'src', 'v': 'c12s = 1'}}
    if cands:
        return {'errkind': 'valid', **rng.choice(cands)}
    return None


# ---------------------------------------------------------------------------------------------------------------------
# trees: (src, mode) specs; Module roots, other roots, special slice containers

SPECIAL = [
    # handlers / cases
    ('except* ValueError as exc: pass\nexcept* KeyError as other: pass', '_ExceptHandlers'),
    ('except* (A, B) as group:\n    handle(group)\nexcept* C as c:\n    pass', '_ExceptHandlers'),
    ('except*   E   as   e  :  # comment\n    pass', '_ExceptHandlers'),
    ('except E as e: pass\nexcept (F, G): pass\nexcept: pass', '_ExceptHandlers'),
    ('except* E: pass', 'ExceptHandler'), ('except E as e: pass', 'ExceptHandler'), ('except* E as e:\n    pass', 'ExceptHandler'),
    ('try: pass\nexcept* ValueError as exc: pass\nexcept* K as k: pass', 'exec'),
    ('try:\n    a\nexcept E as e:\n    b\nexcept:\n    c\nelse:\n    d\nfinally:\n    f', 'exec'),
    ('case 1: pass\ncase [a, *b]: pass\ncase {"k": v, **r} if v: pass', '_match_cases'),
    ('case C(p, q=r) as s: pass', 'match_case'),
    ('match x:\n    case {1: a, **r}: pass\n    case C(a, b=c): pass\n    case [a, *r] | (1 | 2): pass', 'exec'),
    ('except *E as e: pass', 'ExceptHandler'), ('except  * (A, B) as e: pass', 'ExceptHandler'), ('except *E as e: pass\nexcept * F as f: pass', '_ExceptHandlers'),
    ('try: pass\nexcept *E as e: pass', 'exec'), ('try: pass\nexcept \\\n  * (A, B) as e: pass', 'exec'), ('try: pass\nexcept*E as e: pass', 'exec'),
    # blocks written on the header line, elif chains
    ('if a: b; c', 'exec'), ('def f(): a; b', 'exec'), ('try: a\nexcept E: b', 'exec'), ('if a: b\nelif c: d', 'exec'),
    ('if a: b\nelif c: d\nelse: e', 'exec'), ('class C: a; b', 'exec'), ('for i in j: a; b', 'exec'), ('while x: a; b\nelse: c; d', 'exec'),
    ('with a: b; c', 'exec'), ('match x:\n case 1: a; b\n case _: c', 'exec'), ('try: a; b\nfinally: c; d', 'exec'),
    ('if a:\n    b\nelif c:\n    d\nelse:\n    e', 'exec'), ('def f():\n    if a: b; c\n    elif d: e', 'exec'), ('async def f(): await a; b', 'exec'),
    ('if a: b; c', 'stmt'), ('a; b', 'exec'), ('try: a\nexcept* E: b; c\nelse: d', 'exec'),
    # operator chains (multi-site edits), attribute / subscript chains (raw puts that change an ancestor)
    ('a or b or c or d or e', 'exec'), ('x = a and b and c and d and e and f', 'exec'), ('a or b or c or d or e or f or g', 'expr'),
    ('(a or\n b or c or d or e)', 'exec'), ('a and b or c and d or e', 'exec'), ('a + b + c + d + e', 'exec'), ('a < b < c < d < e < f', 'exec'),
    ('a or b', 'exec'), ('not not a', 'exec'), ('x **= 2', 'exec'), ('a if b or c or d or e or f else g', 'expr'), ('-a ** -b', 'expr'),
    ('a is not b not in c', 'expr'), ('x = a.b.c', 'exec'), ('x = a.b.c.d', 'exec'), ('f(a.b).c[d].e', 'exec'), ('x = a[b][c]', 'exec'),
    ('return a.b', 'stmt'), ('x = (a.b).c', 'exec'), ('a.b.c', 'expr'),
    # primitive-valued fields: flags, levels, kinds, conversions, constants
    ('self.x: int = 1', 'exec'), ('d[k]: str', 'exec'), ('(a): int = 0\nb.c: float', 'exec'), ('a: int', 'exec'), ('class C:\n    self.x: int = 1', 'exec'),
    ('from . import x', 'exec'), ('from ...m import y', 'exec'), ('async def f():\n    async for a in b: pass\n    async with c: pass\n    [x async for x in y]', 'exec'),
    ("x = u'a', b'b', 1, 1.5, None, True, ...", 'exec'), ("f'{a!r:>3}{b=}{c!s}'", 'exec'), ('match x:\n case None: pass\n case True: pass\n case {**r}: pass\n case [*s]: pass\n case C(k=1) as n: pass', 'exec'),
    ('nonlocal_ = 1\ndef f():\n    global g1, g2\n    def h():\n        nonlocal g1', 'exec') if False else ('def f():\n    x = 1\n    def h():\n        nonlocal x\n    global g1, g2', 'exec'),
    ('a.b.c = x.y', 'exec'), ('import a as b', 'exec'), ('f(k=1)', 'exec'), ('def f(a): pass', 'exec'), ('class C: pass', 'exec'), ('type A = int', 'exec'),
    # arglikes
    ('a, *b, c=1, **d', '_arglikes'), ('k=1, **d', '_arglikes'), ('*a, *b', '_arglikes'), ('a', '_arglikes'),
    ('f(a, *b, c=1, **d)', 'exec'), ('f(**d)', 'exec'), ('f(k=1)', 'exec'), ('f(x for x in y)', 'exec'), ('f()', 'exec'),
    ('class C(A, *B, k=1, **d): pass', 'exec'), ('class C(metaclass=M): pass', 'exec'), ('class C: pass', 'exec'),
    # other containers
    ('a = b = ', '_Assign_targets'), ('a, b = c.d = e[0] = ', '_Assign_targets'), ('@a\n@b(1)\n@c.d', '_decorator_list'),
    ('a, b as c', '_aliases'), ('a.b, c as d', '_Import_names'), ('a, b as c', '_ImportFrom_names'), ('*', '_ImportFrom_names'),
    ('a as b, c, d as (e, f)', '_withitems'), ('T, *Ts, **P', '_type_params'), ('T: int, U', '_type_params'),
    ('for a in b if c for d in e', '_comprehensions'), ('async for a in b', '_comprehensions'), ('if a if b', '_comprehension_ifs'),
    ('a=1, b=2', '_pattern_attrlikes'), ('x, y, a=1', '_pattern_attrlikes'),
    ('from m import a, b as c', 'exec'), ('from m import *', 'exec'), ('import a.b, c as d', 'exec'),
    ('with a as b, c: pass', 'exec'), ('with (a as b, c as d): pass', 'exec'),
    ('def f[T, *Ts, **P](x: T): pass', 'exec'), ('type A[T: int] = list[T]', 'exec'),
    ('x = [i for i in a if i if j for k in l]', 'exec'), ('del a, b[0], c.d', 'exec'), ('a = b = c', 'exec'),
    ('global g1, g2', 'exec'), ('x = {**a, "b": c, **d}', 'exec'), ('x = a < b <= c != d', 'exec'), ('x = a and b and c', 'exec'),
    # arguments of every shape
    ('*, a, b=1', 'arguments'), ('*, k', 'arguments_lambda'), ('a, /, b, *c, d, **e', 'arguments'), ('**kw', 'arguments'),
    ('a, /', 'arguments'), ('', 'arguments'), ('*a', 'arguments'), ('a, b=1', 'arguments'), ('a, /, *, b', 'arguments'),
    ('*a, b=1, **c', 'arguments'), ('a=1, /, b=2, *, c=3', 'arguments'), ('a: int, *b: str, **c: float', 'arguments'),
    ('def f(*, a, b=1): pass', 'exec'), ('def g(*, key): return key', 'exec'), ('x = lambda *, k: k', 'exec'),
    ('def h(s, *, a): pass', 'exec'), ('def k(p, /, *, a): pass', 'exec'), ('def f(a, /): pass', 'exec'), ('def f(**kw): pass', 'exec'),
    ('def f(*a): pass', 'exec'), ('def f(): pass', 'exec'), ('def f(a, /, b: int = 1, *c, d, e=2, **g) -> int: pass', 'exec'),
    ('f = lambda a, /, b, *, c: 0', 'exec'), ('f = lambda: 0', 'exec'), ('f = lambda **k: k', 'exec'), ('f = lambda *a, b=1: b', 'exec'),
    ('async def f(*, a, **k): pass', 'exec'), ('def f(a=1, *, b): pass', 'exec'),
    # non-Module roots
    ('a + b * c', 'expr'), ('f(a, b=1)', 'expr'), ('[a, b, *c]', 'expr'), ('{a: b, **c}', 'expr'), ('a if b else c', 'expr'),
    ('a < b < c', 'expr'), ('lambda *, k: k', 'expr'), ("f'{a!r:>{w}}'", 'expr'), ('a[b:c, d]', 'expr'), ('(a, b)', 'expr'),
    ('x = 1', 'stmt'), ('if a: b\nelse: c', 'stmt'), ('def f(*, a): pass', 'stmt'), ('for a in b: pass', 'stmt'),
    ('a as b', 'withitem'), ('k=1', 'keyword'), ('**k', 'keyword'), ('a: int', 'arg'), ('a as b', 'alias'), ('for a in b if c', 'comprehension'),
    ('[a, *b]', 'pattern'), ('{1: a, **r}', 'pattern'), ('C(a, b=c)', 'pattern'), ('a | b', 'pattern'), ('a, b', 'Tuple'),
    ('a; b', 'single'), ('a + b', 'eval'), ('T: int', 'type_param'), ('b:c', 'expr_slice'), ('*a, b', '_expr_arglikes'),
]


def build(spec):
    from fst import FST
    return FST(spec['src'], spec.get('mode') or 'exec')


def dump(root):
    a = root.a
    if a is None:
        return '<root.a is None>'
    return ast.dump(a, include_attributes=True)


def fresh_diff(root, mode):
    """None if the live tree equals a from-scratch parse of its own source (Module roots: CPython; other roots: pfst's own
    parser in the same mode, which is what a fresh twin is)"""
    if (mode or 'exec') == 'exec' and isinstance(root.a, ast.Module):
        return util.tree_equals_parse(root)
    try:
        t = build({'src': root.src, 'mode': mode})
    except Exception as e:     # noqa: BLE001
        return f'source no longer accepted in mode {mode}: {type(e).__name__}'
    d1, d2 = dump(root), dump(t)
    return None if d1 == d2 else 'differs from fresh tree ' + util.first_diff(d1, d2)


def derive_specs(src, rng, n):
    """special slice containers and non-Module roots cut out of a corpus program with get_slice()/copy(): returned as
    (source, mode) specs when a fresh FST(source, mode) reproduces them exactly"""
    from fst import FST
    out = []
    try:
        root = FST(src, 'exec')
    except Exception:
        return out
    nodes = nodes_of(root)
    cands = []
    for i, f in enumerate(nodes):
        if f.parent is None:
            continue
        for fld in _virtual_fields(f.a):
            if _flen(f, fld):
                cands.append((i, fld))
        if isinstance(f.a, (ast.arguments, ast.ExceptHandler, ast.match_case, ast.withitem, ast.keyword, ast.arg, ast.alias,
                            ast.comprehension, ast.pattern, ast.Call, ast.Lambda, ast.Dict, ast.Compare, ast.Tuple, ast.stmt)):
            cands.append((i, None))
    rng.shuffle(cands)
    for i, fld in cands[:n * 3]:
        f = nodes[i]
        try:
            if fld is None:
                s = f.copy()
            else:
                nn = _flen(f, fld)
                a = rng.randrange(nn)
                s = f.get_slice(a, rng.choice([nn, 'end', min(nn, a + 1)]), fld)
            mode = s.a.__class__.__name__
            if mode == 'Module':
                mode = 'exec'
            spec = {'src': s.src, 'mode': mode}
            if dump(build(spec)) != dump(s):
                continue
        except Exception:     # noqa: BLE001
            continue
        out.append(spec)
        if len(out) >= n:
            break
    registry().clear()
    return out


# ---------------------------------------------------------------------------------------------------------------------
# the check

def links(root):
    """'' if every AST node of the tree carries its FST node (`a.f`, `f.a is a`) whose `parent` is the FST node of the AST
    parent; else a description.  Plain attribute traversal, no pfst algorithm involved."""
    a0 = root.a
    if a0 is None:
        return 'root.a is None'
    if getattr(a0, 'f', None) is not root:
        return 'root.a.f is not root'
    stack = [(a0, root)]
    while stack:
        a, f = stack.pop()
        for name, child in ast.iter_fields(a):
            for c in (child if isinstance(child, list) else [child]):
                if isinstance(c, ast.AST):
                    cf = getattr(c, 'f', None)
                    if cf is None or getattr(cf, 'a', None) is not c:
                        return f'{type(a).__name__}.{name}: {type(c).__name__} has no (matching) FST node'
                    if cf.parent is not f:
                        return f'{type(a).__name__}.{name}: FST parent link of {type(c).__name__} is wrong'
                    stack.append((c, cf))
    return ''


def state(root):
    try:
        lk = links(root)
    except Exception as e:     # noqa: BLE001
        lk = f'links unreadable: {type(e).__name__}'
    return root.src, dump(root), lk


def registry():
    from fst.fst_core import _MODIFYING
    return _MODIFYING


def _short(req):
    r = {k: v for k, v in req.items() if k != 'errkind'}
    return r


def target_sig(root, req):
    """'<op>|<ParentClass.field>' of a request (for signatures / tallies)"""
    try:
        nodes = nodes_of(root)
        f = nodes[req['node']]
        if req['op'] in ('replace', 'remove', 'unpar', 'put_src', 'reparse', 'cut', 'put_line_comment', 'put_docstr'):
            p = f.parent
            return f"{req['op']}|{p.a.__class__.__name__ if p else 'root:' + f.a.__class__.__name__}.{f.pfield.name if p else ''}"
        return f"{req['op']}|{f.a.__class__.__name__}.{req.get('field')}"
    except Exception:
        return f"{req.get('op')}|?"


ONE_OPS = ('replace', 'remove', 'put', 'setattr', 'delattr', 'setitem', 'delitem', 'unpar', 'cut', 'put_line_comment', 'put_docstr')


def raise_site(exc):
    """name of the innermost pfst function on the traceback (identifies the raise site without line numbers)"""
    import os
    tb = exc.__traceback__
    name = '?'
    while tb is not None:
        fn = tb.tb_frame.f_code.co_filename
        if os.sep + 'fst' + os.sep in fn and 'harness' not in fn:
            name = tb.tb_frame.f_code.co_name
        tb = tb.tb_next
    return name


def in_reparse(exc):
    """did the exception come out of the raw reparse itself (fst_raw.py on the traceback) or was it raised after the
    reparse had returned (the edit is then already applied in full)"""
    import os
    tb = exc.__traceback__
    while tb is not None:
        if os.path.basename(tb.tb_frame.f_code.co_filename) == 'fst_raw.py':
            return True
        tb = tb.tb_next
    return False


def op_family(req):
    if req['op'] in ('put_src', 'reparse'):
        return 'src'
    if req['op'] == 'put' and 'stop' in req:
        return 'slice'
    if req['op'] == 'replace' and req.get('one', True) is not True:
        return 'slice'
    return 'one' if req['op'] in ONE_OPS else 'slice'


def is_raw(req):
    return req['op'] in ('put_src', 'reparse') or bool((req.get('opts') or {}).get('raw'))


def base_sig(req, exc):
    site = raise_site(exc)
    # signature: raw or not | op family | exception class @ pfst function that raised (= the defect site); the target
    # kind and requested error kind are in the witness / description
    if req.get('node') == 0 and req['op'] in ('replace', 'remove'):
        # FST.replace / remove on the root has its own code path (no _put_one guards): keyed by the kind of code passed
        return f"root|{(req.get('code') or {}).get('k', 'none')}|{type(exc).__name__}@{site}", site
    if is_raw(req):
        # raw mode: the defect site is characterised by whether the reparse itself raised or the code after it
        return f"raw|{op_family(req)}|{'in-reparse' if in_reparse(exc) else 'after-reparse'}|{type(exc).__name__}", site
    return f"nonraw|{op_family(req)}|{type(exc).__name__}@{site}", site


def check_failing(spec, root, req, exc, before, rng, applied, followup=None):
    """`req` raised `exc` on `root` (built from `spec`, state before the call `before`).  Returns (failures, info)."""
    fails = []
    mode = spec.get('mode') or 'exec'
    reg = registry()
    saved = dict(reg)           # what the failed call left in the registry
    reg.clear()
    try:
        tsig = target_sig(build(spec), req)
    except Exception:     # noqa: BLE001
        tsig = f"{req.get('op')}|?"
    base, site = base_sig(req, exc)
    wit = {'src': spec['src'], 'mode': mode, 'failing': req, 'exc': f'{type(exc).__name__}: {str(exc)[:160]}', 'raise_site': site,
           'target': tsig, 'prefix': applied}
    stale = bool(saved)
    if stale:
        fails.append((f'C12|registry-stale|{base}', f'_MODIFYING not empty after a raising {req["op"]} on {tsig.split("|", 1)[1]} '
                      f'({req["errkind"]} request, {type(exc).__name__}): {len(saved)} entr(y/ies); every later edit of another node of '
                      f'this tree raises RuntimeError', dict(wit)))
    try:
        after = state(root)
    except Exception as e2:     # noqa: BLE001
        after = ('<state unreadable>', f'{type(e2).__name__}: {e2}')
    if after != before:
        what = ('source' if after[0] != before[0] else 'tree (structure/positions)' if after[1] != before[1]
                else 'FST node links (' + str(after[2]) + ')')
        w = dict(wit)
        w['after_src'] = after[0]
        w['diff'] = (util.first_diff(after[0], before[0]) if after[0] != before[0] else util.first_diff(after[1], before[1])
                     if after[1] != before[1] else str(after[2]))
        fails.append((f'C12|state-changed|{base}', f'{req["op"]} on {tsig.split("|", 1)[1]} ({req["errkind"]} request) raised '
                      f'{type(exc).__name__} in {site} but the {what} changed', w))
        return fails, None        # no follow-up on a tree already known to be damaged
    # follow-up valid edit on the SAME tree vs. a fresh twin (the registry is left as the failed call left it)
    nodes = nodes_of(root)
    v = followup or gen_valid(rng, root, nodes, near=req.get('node'))
    if v is None:
        return fails, 'no-followup-candidate'
    try:
        twin = build(spec)
    except Exception:     # noqa: BLE001
        return fails, 'twin-unparsable'
    t_exc = r_exc = None
    try:
        execute(twin, v)
    except Exception as e:     # noqa: BLE001
        t_exc = e
    reg.clear()
    reg.update(saved)
    try:
        execute(root, v)
    except Exception as e:     # noqa: BLE001
        r_exc = e
    reg.clear()
    wit['followup'] = v
    for f_ in fails:
        f_[2]['followup'] = v
    if t_exc is not None:
        if r_exc is None:
            return fails, 'followup-raises-on-twin-only'
        return fails, 'followup-raises-on-both'
    if r_exc is not None:
        fx = f'{type(r_exc).__name__}: {str(r_exc)[:160]}'
        if stale:       # the visible consequence of the stale registry entry: same defect, already reported
            fails[0][2]['followup_exc'] = fx
        else:
            w = dict(wit)
            w['followup_exc'] = fx
            fails.append((f'C12|followup-raises|{base}', f'after the failed {req["op"]} a valid edit raises {type(r_exc).__name__} '
                          f'({str(r_exc)[:80]}) while it succeeds on a fresh twin', w))
        return fails, None
    rs, ts = state(root), state(twin)
    if rs != ts:
        w = dict(wit)
        w['root_src'], w['twin_src'] = rs[0], ts[0]
        w['diff'] = (util.first_diff(rs[0], ts[0]) if rs[0] != ts[0] else util.first_diff(rs[1], ts[1]) if rs[1] != ts[1]
                     else f'links: {rs[2]!r} vs {ts[2]!r}')
        fails.append((f'C12|followup-differs|{base}', f'after the failed {req["op"]} a valid edit gives a different result than on a fresh twin', w))
        return fails, None
    if fails:
        return fails, None
    if fresh_diff(root, mode):
        return fails, 'followup-c01-both'      # identical on the twin: not caused by the failed edit (C01's business)
    return fails, 'ok'


class _Out:
    def __init__(self):
        self.d = {'fails': [], 'tally': {}, 'n_raise': 0, 'n_ok': 0, 'keys': []}

    def tally(self, g, key):
        d = self.d['tally'].setdefault(g, {})
        d[str(key)] = d.get(str(key), 0) + 1


def _one_call(out, spec, root, req, rng, applied, step):
    """execute one request; returns 'raised-ok' | 'raised-stop' | 'ok' | 'ok-stop'"""
    reg = registry()
    before = state(root)
    cur = {'src': before[0], 'mode': spec.get('mode') or 'exec'}
    tsig = target_sig(root, req)
    try:
        execute(root, req)
    except Exception as e:     # noqa: BLE001
        d = out.d
        d['n_raise'] += 1
        d['keys'].append(hash((cur['src'], cur['mode'], repr(sorted(_short(req).items(), key=str)))))
        out.tally('error_kind_requested', req['errkind'])
        out.tally('exception_class', type(e).__name__)
        out.tally('op', req['op'])
        out.tally('target', tsig.split('|', 1)[1])
        out.tally('root_kind', root.a.__class__.__name__ if root.a is not None else 'None')
        out.tally('step_in_sequence', step)
        fails, info = check_failing(cur, root, req, e, before, rng, list(applied))
        if info:
            out.tally('followup', info)
        d['fails'].extend(fails)
        if fails or info not in ('ok', 'no-followup-candidate'):
            return 'raised-stop'
        return 'raised-ok'
    out.d['n_ok'] += 1
    out.tally('succeeded_requests', req['errkind'])
    if req['op'] == 'put_line_comment' and cur['mode'] == 'exec' and isinstance(root.a, ast.Module):
        # contract of the API: only a comment changes.  CPython is the judge: the new source must parse to the same
        # tree (without positions) as the old one and the live tree must equal that parse; otherwise an impossible
        # request (text that is not one comment) was accepted and spliced in instead of being refused
        try:
            new_dump = ast.dump(ast.parse(root.src))
        except SyntaxError as e2:
            new_dump = f'SyntaxError: {e2}'
        if new_dump != ast.dump(ast.parse(cur['src'])) or util.tree_equals_parse(root):
            out.d['fails'].append((f'C12|not-refused|{req["op"]}|tree-no-longer-its-source',
                                   f'{req["op"]}({req["comment"]!r}) was accepted although the text cannot be one line comment: '
                                   f'the source now parses to a different tree than the live one (request must be refused, tree untouched)',
                                   {'src': cur['src'], 'mode': cur['mode'], 'failing': req, 'after_src': root.src, 'prefix': list(applied)}))
            return 'ok-stop'
    if reg:
        out.d['fails'].append((f'C12|registry-stale-after-success|{tsig}|{req["errkind"]}',
                               f'_MODIFYING not empty after a successful {req["op"]}',
                               {'src': cur['src'], 'mode': cur['mode'], 'failing': req, 'prefix': list(applied)}))
        reg.clear()
        return 'ok-stop'
    try:
        bad = fresh_diff(root, cur['mode']) or links(root)
    except Exception:     # noqa: BLE001
        bad = 'unreadable'
    if bad:
        out.tally('abandoned', 'tree-not-equal-fresh-after-successful-edit:' + req['errkind'])
        return 'ok-stop'
    return 'ok'


def run_tree(arg):
    """(spec, seed, n_seq, k, errkinds|None, systematic_cap) -> {'fails': [...], 'tally': {...}, counts}
    spec = {'src', 'mode'} or {'src', 'derive': n}: containers / non-Module roots cut out of the program"""
    spec, seed, n_seq, k, only, cap = arg
    rng = random.Random(seed)
    out = _Out()
    specs = [spec]
    if spec.get('derive'):
        specs = derive_specs(spec['src'], rng, spec['derive'])
        out.tally('derived_trees', len(specs))
    elif spec.get('layouts'):
        specs = layout_variants(spec, rng, spec['layouts'])
        out.tally('layout_variants', len(specs))
    ocap = spec.get('options_cap')
    reg = registry()
    for sp in specs:
        mode = sp.get('mode') or 'exec'
        try:
            root = build(sp)
        except Exception:     # noqa: BLE001
            out.tally('skip', 'source-not-accepted')
            continue
        if fresh_diff(root, mode) or links(root):
            out.tally('skip', 'fresh-tree-not-equal-parse' if not links(root) else 'fresh-tree-links:' + links(root))
            continue
        out.tally('tree_mode', mode)
        # random sequences mixing failing and succeeding edits
        for _ in range(n_seq):
            root = build(sp)
            reg.clear()
            applied = []
            for step in range(k):
                nodes = nodes_of(root)
                if rng.random() < 0.22:
                    req = gen_valid(rng, root, nodes)
                else:
                    req = gen_invalid(rng, root, nodes, rng.choice(only) if only else None)
                if req is None:
                    continue
                r = _one_call(out, sp, root, req, rng, applied, step)
                if r.endswith('stop'):
                    break
                applied.append(req if r == 'ok' else {'_failed_then_followup': req['errkind']})
        # systematic families, each request on a fresh tree
        if cap:
            root = build(sp)
            for req in systematic(rng, root, nodes_of(root), cap):
                reg.clear()
                root = build(sp)
                _one_call(out, sp, root, req, rng, [], 'systematic')
        if ocap is not None:
            root = build(sp)
            for req in systematic_options(rng, root, nodes_of(root), ocap):
                reg.clear()
                root = build(sp)
                _one_call(out, sp, root, req, rng, [], 'systematic-options')
    reg.clear()
    return out.d


def run_sequence(arg):
    """compatibility: (src, seed, n_seq, k, errkinds|None)"""
    src, seed, n_seq, k, only = arg
    return run_tree(({'src': src, 'mode': 'exec'}, seed, n_seq, k, only, 0))


def replay_witness(w):
    """-> list of (sig, what, witness) still failing"""
    rng = random.Random(0)
    spec = {'src': w['src'], 'mode': w.get('mode') or 'exec'}
    root = build(spec)
    registry().clear()
    req = w['failing']
    before = state(root)
    try:
        execute(root, req)
    except Exception as e:     # noqa: BLE001
        fails, info = check_failing(spec, root, req, e, before, rng, [], followup=w.get('followup'))
        registry().clear()
        return fails
    if registry():
        registry().clear()
        return [('replay', 'registry not empty after successful call', w)]
    return []
