"""C12 sweep: direct evaluation of the property on the real code.

For corpus programs and many targets (node x field x index) issue INVALID requests of every kind through the public
edit API; for each call that RAISES check
  (1) `root.src` and `ast.dump(root.a, include_attributes=True)` are exactly what they were before the call,
  (2) the registry `fst_core._MODIFYING` is empty,
  (3) a following simple VALID edit gives the same (src, dump) as the same edit on a fresh twin built from the same
      source, and the result equals a from-scratch CPython parse (C01 oracle `util.tree_equals_parse`).
Calls that succeed are not judged (only: if the tree is then no longer equal to a fresh parse of its source the sequence
is abandoned, because the twin construction needs that; that is C01's business and is only tallied).

Requests are plain JSON (replayable): nodes are addressed by their index in `list(root.walk(True))` of the current tree.
"""

from __future__ import annotations

import ast
import random

import util

UNPARSABLE = ['1 +', '((', 'x y z', ')', 'def', '$', 'if :', "'abc", '1 2', 'a, , b', 'lambda', '= 3', 'a b = c', '[1, 2',
              'x = (', 'f(a b)', '"""abc', 'a +* b', '\\', '@']
STMT_SRC = ['x = 1', 'pass', 'import os', 'def f(): pass', 'return', 'if a: b', 'del q', 'a; b', 'x = 1\ny = 2', 'x += 1',
            'class K: pass', 'for i in j: pass', 'raise E', 'global g', 'with a: pass']
MISC_SRC = ['except: pass', 'case _: pass', '**k', '*s', 'k=1', 'a as b', 'x: int', '*', '/', 'not', 'a.b as c',
            'T: int', '**P', '', 'for a in b', 'if c', 'a: b = c', '==', '+', 'and', 'is not', 'x := 1', 'yield', 'await z',
            '*a, b', 'a if b else c', 'lambda: 0', '-1', '1+2j', 'not a', 'a.b.c', '{**a}', '[*a]', 'a[b:c]', 'b:c', 'b:c:d, e',
            "f'{a}'", "'s'", '...', 'None', 'a < b < c', 'a or b', '(yield)', '(a, b)', 'a, b', '[x for x in y]']
PATTERN_WRONG = ['a + b', 'f(x)()', 'lambda: 0', 'a if b else c', 'x = 1', 'pass', '[i for i in j]', 'not a', 'a[0]', '*a, *b',
                 'a.b()', '1 + 2', '-a', '{1, 2}', 'a and b']
AST_WRONG = [('stmt', 'pass'), ('stmt', 'x = 1'), ('stmt', 'def f(): pass'), ('handler', 'try: pass\nexcept E: pass'),
             ('module', 'a = 1\nb = 2'), ('expr', 'lambda: 0'), ('expr', 'a + b'), ('expr', '*s'), ('expr', 'a, b'),
             ('case', 'match a:\n case 1: pass'), ('pattern', 'match a:\n case [1, x]: pass'), ('expr', 'x := 1'),
             ('stmt', 'import a'), ('expr', 'yield'), ('expr', "f'{a}'"), ('expr', 'a[b:c]')]
FST_WRONG = [('x = 1', 'exec'), ('pass', 'exec'), ('a = 1\nb = 2', 'exec'), ('def f(): pass', 'exec'), ('a + b', None),
             ('except: pass', 'ExceptHandler'), ('case _: pass', 'match_case'), ('a as b', 'withitem'),
             ('a, /, b', 'arguments'), ('k=1', 'keyword'), ('[1, x]', 'pattern'), ('x: int', 'arg'), ('a.b as c', 'alias'),
             ('for a in b', 'comprehension'), ('*s', None), ('lambda: 0', None), ('x := 1', None), ('a, b', None)]

BAD_OPT_NAMES = [{'bogus': 1}, {'Raw': True}, {'triva': False}, {'par': True}, {'normalize': True}, {'index': 0}]
BAD_OPT_VALUES = [{'raw': 'x'}, {'raw': 1}, {'trivia': 'zz'}, {'trivia': ('all', 'all', 'all')}, {'pars': 3}, {'pars': 'maybe'},
                  {'coerce': 'y'}, {'norm': 'q'}, {'pep8space': 2}, {'docstr': 'loose'}, {'set_norm': 'x'},
                  {'op_side': 'middle'}, {'args_as': 'zz'}, {'pars_walrus': 'x'}, {'elif_': 3}, {'promote': 'some'},
                  {'norm_self': 'w'}, {'pars_arglike': 'x'}, {'op': 3.5}]

# weights: the kinds that reach the put handlers (where a splice-before-validate bug would live) are drawn more often
# than the ones stopped by the guards at the API entry
ERR_WEIGHTS = {'unparsable': 3, 'wrongcat': 5, 'wrongcat-ast': 3, 'wrongcat-fst': 3, 'arglike': 4, 'index': 1.5, 'optname': 0.5,
               'optvalue': 1, 'consumed': 1, 'nonroot': 0.7, 'nonroot-self': 1, 'ownroot': 0.7, 'undeletable': 2.5,
               'to-nonraw': 1, 'one-false': 1, 'raw-unparsable': 1, 'raw-wrongcat': 2, 'badarg': 0.4}

ERR_KINDS = ['unparsable', 'wrongcat', 'wrongcat-ast', 'wrongcat-fst', 'arglike', 'index', 'optname', 'optvalue',
             'consumed', 'nonroot', 'nonroot-self', 'ownroot', 'undeletable', 'to-nonraw', 'one-false', 'raw-unparsable',
             'raw-wrongcat', 'badarg']


def nodes_of(root):
    return list(root.walk(True))


def category(a):
    if isinstance(a, ast.stmt):
        return 'stmt'
    if isinstance(a, ast.expr):
        return 'expr'
    if isinstance(a, ast.pattern):
        return 'pattern'
    return a.__class__.__name__


VALID_CODE = {'stmt': 'c12v = 1', 'expr': 'c12v', 'pattern': 'c12v', 'alias': 'c12v', 'arg': 'c12v', 'keyword': 'c12k=1',
              'withitem': 'c12v', 'comprehension': 'for c12v in c12w', 'ExceptHandler': 'except c12v: pass',
              'match_case': 'case c12v: pass', 'arguments': 'c12v', 'TypeVar': 'c12v'}


# ---------------------------------------------------------------------------------------------------------------------
# request -> call

def mk_code(spec, root, nodes):
    from fst import FST
    k = spec['k']
    if k == 'src':
        return spec['v']
    if k == 'lines':
        return spec['v'].split('\n')
    if k == 'none':
        return None
    if k == 'ast':
        t = ast.parse(spec['v'])
        what = spec['what']
        if what == 'stmt':
            return t.body[0]
        if what == 'expr':
            return t.body[0].value
        if what == 'handler':
            return t.body[0].handlers[0]
        if what == 'case':
            return t.body[0].cases[0]
        if what == 'pattern':
            return t.body[0].cases[0].pattern
        return t
    if k == 'fst':
        return FST(spec['v'], spec['mode']) if spec.get('mode') else FST(spec['v'])
    if k == 'consumed':
        c = FST('c12z')
        FST('[1]').elts[0].replace(c)
        return c
    if k == 'nonroot':
        return FST('[c12a, c12b]', 'exec').a.body[0].value.elts[0].f
    if k == 'nonroot-self':
        return nodes[spec['idx']]
    if k == 'ownroot':
        return root
    raise AssertionError(k)


def execute(root, req):
    nodes = nodes_of(root)
    f = nodes[req['node']]
    code = mk_code(req['code'], root, nodes) if 'code' in req else None
    opts = dict(req.get('opts') or {})
    if 'to_idx' in req:
        opts['to'] = nodes[req['to_idx']]
    op = req['op']
    field = req.get('field')
    idx = req.get('idx')
    one = req.get('one', '-')
    kw = dict(opts)
    if one != '-':
        kw['one'] = one
    if op == 'replace':
        return f.replace(code, **kw)
    if op == 'remove':
        return f.remove(**opts)
    if op == 'put':
        if 'stop' in req:
            return f.put(code, idx, req['stop'], field, **kw)
        return f.put(code, idx, field=field, **kw)
    if op == 'put_slice':
        return f.put_slice(code, req['start'], req['stop'], field, **kw)
    if op == 'insert':
        return f.insert(code, idx, field, **kw)
    if op == 'append':
        return f.append(code, field, **opts)
    if op == 'prepend':
        return f.prepend(code, field, **opts)
    if op == 'extend':
        return f.extend(code, field, **opts)
    if op == 'prextend':
        return f.prextend(code, field, **opts)
    if op == 'setattr':
        return setattr(f, field, code)
    if op == 'delattr':
        return delattr(f, field)
    if op == 'setitem':
        getattr(f, field)[idx] = code
        return None
    if op == 'setslice':
        getattr(f, field)[req['start']:req['stop']] = code
        return None
    if op == 'delitem':
        del getattr(f, field)[idx]
        return None
    if op == 'unpar':
        return f.unpar(**req['kw'])
    raise AssertionError(op)


# ---------------------------------------------------------------------------------------------------------------------
# generators

def _targets(nodes):
    """[(node index, parent index, field, idx, category)] for every non-root node"""
    ix = {id(f): i for i, f in enumerate(nodes)}
    out = []
    for i, f in enumerate(nodes):
        p = f.parent
        if p is None or id(p) not in ix:
            continue
        pf = f.pfield
        out.append((i, ix[id(p)], pf.name, pf.idx, category(f.a)))
    return out


def _wrap(rng, tgt, code, extra=None, errkind='?'):
    """wrap a code spec into one of the op forms that address target `tgt`"""
    i, pi, field, idx, cat = tgt
    extra = dict(extra or {})
    ops = ['replace', 'put', 'setattr' if idx is None else 'setitem']
    if idx is not None:
        ops += ['put_slice', 'insert', 'append', 'prepend', 'setslice', 'replace-one-false', 'extend', 'put-stop']
    op = rng.choice(ops)
    opts_ok = op not in ('setattr', 'setitem', 'setslice')
    if not opts_ok:
        extra.pop('opts', None)
        extra.pop('to_idx', None)
    req = {'errkind': errkind, 'code': code, **extra}
    if op == 'replace':
        req.update(op='replace', node=i)
    elif op == 'replace-one-false':
        req.update(op='replace', node=i, one=rng.choice([False, None]))
    elif op == 'put':
        req.update(op='put', node=pi, field=field, idx=idx)
    elif op == 'put-stop':
        req.update(op='put', node=pi, field=field, idx=idx, stop=idx + 1, one=rng.choice([True, False, None]))
    elif op == 'setattr':
        req.update(op='setattr', node=pi, field=field)
    elif op == 'setitem':
        req.update(op='setitem', node=pi, field=field, idx=idx)
    elif op == 'setslice':
        req.update(op='setslice', node=pi, field=field, start=idx, stop=idx + rng.choice([0, 1, 1, 2]))
    elif op == 'put_slice':
        req.update(op='put_slice', node=pi, field=field, start=idx, stop=idx + rng.choice([0, 1, 1, 2]),
                   one=rng.choice([True, False, False, None]))
    elif op == 'insert':
        req.update(op='insert', node=pi, field=field, idx=rng.choice([idx, idx, 0, 'end']), one=rng.choice([True, True, False, None]))
    elif op in ('append', 'prepend', 'extend'):
        req.update(op=op, node=pi, field=field)
    return req


def _arglike_req(rng, nodes):
    """requests that break the ordering rules of Call._args / ClassDef._bases (positional after keyword, etc.)"""
    cands = []
    for i, f in enumerate(nodes):
        a = f.a
        if isinstance(a, ast.Call):
            al = sorted(a.args + a.keywords, key=lambda x: (x.lineno, x.col_offset))
            fld, pf, kf = '_args', 'args', 'keywords'
        elif isinstance(a, ast.ClassDef):
            al = sorted(a.bases + a.keywords, key=lambda x: (x.lineno, x.col_offset))
            fld, pf, kf = '_bases', 'bases', 'keywords'
        else:
            continue
        if al:
            cands.append((i, fld, pf, kf, al, a))
    if not cands:
        return None
    i, fld, pf, kf, al, a = rng.choice(cands)

    def kind(x):
        return 1 if isinstance(x, ast.Starred) else 0 if not isinstance(x, ast.keyword) else 3 if x.arg is None else 2

    kinds = [kind(x) for x in al]
    n = len(al)
    choices = []
    # positional / starred after a keyword
    for j in range(n + 1):
        before = kinds[:j]
        after_rep = kinds[j + 1:]
        after_ins = kinds[j:]
        if before and max(before) >= 2:
            choices.append(('ins', j, 'c12p'))
            if max(before) == 3:
                choices.append(('ins', j, '*c12s'))
            if j < n:
                choices.append(('rep', j, 'c12p'))
        if after_ins and min(after_ins) == 0:
            choices.append(('ins', j, 'c12k=1'))
            choices.append(('ins', j, '**c12d'))
        if j < n and after_rep and min(after_rep) == 0:
            choices.append(('rep', j, 'c12k=1'))
            choices.append(('rep', j, '**c12d'))
        if after_ins and min(after_ins) <= 1:
            choices.append(('ins', j, '**c12d'))
    if not choices:
        return None
    how, j, src = rng.choice(choices)
    code = {'k': 'src', 'v': src}
    if rng.random() < 0.2:
        code = {'k': 'fst', 'v': src, 'mode': None} if '=' not in src and '**' not in src else {'k': 'fst', 'v': src, 'mode': 'keyword'}
    req = {'errkind': 'arglike', 'code': code, 'node': i}
    if how == 'rep':
        c = rng.random()
        if c < 0.3:
            req.update(op='put', field=fld, idx=j)
        elif c < 0.5:
            req.update(op='setitem', field=fld, idx=j)
        elif c < 0.7:
            req.update(op='put_slice', field=fld, start=j, stop=j + 1, one=rng.choice([True, False]))
        else:
            # through the real child
            ix = {id(f.a): k for k, f in enumerate(nodes)}
            req.update(op='replace', node=ix[id(al[j])])
    else:
        c = rng.random()
        if j == n and c < 0.3:
            req.update(op='append', field=fld)
        elif j == 0 and c < 0.3:
            req.update(op='prepend', field=fld)
        elif c < 0.65:
            req.update(op='insert', field=fld, idx=j, one=rng.choice([True, False]))
        else:
            req.update(op='put_slice', field=fld, start=j, stop=j, one=rng.choice([True, False]))
    return req


def gen_invalid(rng, root, nodes, errkind=None):
    tg = _targets(nodes)
    if not tg:
        return None
    kind = errkind or rng.choices(ERR_KINDS, [ERR_WEIGHTS[k] for k in ERR_KINDS])[0]
    tgt = rng.choice(tg)
    if tgt[4] in ('Load', 'Store', 'Del') and rng.random() < 0.9:      # expr_context nodes: keep a few only
        tgt = rng.choice(tg)
    i, pi, field, idx, cat = tgt
    if kind == 'badarg':
        return {'errkind': kind, 'op': 'unpar', 'node': i, 'kw': {'node': rng.choice(['bogus', 1, 'Invalid', 0, None])}}
    if kind == 'unparsable':
        return _wrap(rng, tgt, {'k': rng.choice(['src', 'src', 'lines']), 'v': rng.choice(UNPARSABLE)}, errkind=kind)
    if kind == 'wrongcat':
        pool = {'expr': STMT_SRC + MISC_SRC[:16], 'stmt': MISC_SRC[:14], 'pattern': PATTERN_WRONG + STMT_SRC[:4]}.get(cat, STMT_SRC + MISC_SRC)
        return _wrap(rng, tgt, {'k': 'src', 'v': rng.choice(pool)}, errkind=kind)
    if kind == 'wrongcat-ast':
        what, src = rng.choice(AST_WRONG)
        return _wrap(rng, tgt, {'k': 'ast', 'what': what, 'v': src}, errkind=kind)
    if kind == 'wrongcat-fst':
        src, mode = rng.choice(FST_WRONG)
        return _wrap(rng, tgt, {'k': 'fst', 'v': src, 'mode': mode}, errkind=kind)
    if kind == 'arglike':
        return _arglike_req(rng, nodes)
    valid = {'k': 'src', 'v': VALID_CODE.get(cat, 'c12v')}
    if kind == 'index':
        lists = [(t[1], t[2]) for t in tg if t[3] is not None]
        if not lists:
            return None
        pi, field = rng.choice(lists)
        n = len(getattr(nodes[pi].a, field))
        bad = rng.choice([n, n + 1, n + 7, -n - 1, -n - 5])
        cat2 = category(getattr(nodes[pi].a, field)[0])
        valid = {'k': 'src', 'v': VALID_CODE.get(cat2, 'c12v')}
        op = rng.choice(['put', 'setitem', 'delitem', 'put-none'])
        if op == 'put':
            return {'errkind': kind, 'op': 'put', 'node': pi, 'field': field, 'idx': bad, 'code': valid}
        if op == 'put-none':
            return {'errkind': kind, 'op': 'put', 'node': pi, 'field': field, 'idx': bad, 'code': {'k': 'none'}}
        if op == 'delitem':
            return {'errkind': kind, 'op': 'delitem', 'node': pi, 'field': field, 'idx': bad}
        return {'errkind': kind, 'op': 'setitem', 'node': pi, 'field': field, 'idx': bad, 'code': valid}
    if kind in ('optname', 'optvalue'):
        opts = rng.choice(BAD_OPT_NAMES if kind == 'optname' else BAD_OPT_VALUES)
        for _ in range(8):
            req = _wrap(rng, tgt, valid, {'opts': opts}, errkind=kind)
            if 'opts' in req:
                return req
        return None
    if kind in ('consumed', 'nonroot', 'ownroot'):
        return _wrap(rng, tgt, {'k': kind}, errkind=kind)
    if kind == 'nonroot-self':
        return _wrap(rng, tgt, {'k': 'nonroot-self', 'idx': rng.randrange(1, len(nodes))}, errkind=kind)
    if kind == 'undeletable':
        c = rng.random()
        if c < 0.4:
            return {'errkind': kind, 'op': 'remove', 'node': i}
        if c < 0.7:
            return {'errkind': kind, 'op': 'replace', 'node': i, 'code': {'k': 'none'}}
        if idx is None:
            return {'errkind': kind, 'op': 'delattr', 'node': pi, 'field': field}
        return {'errkind': kind, 'op': 'put', 'node': pi, 'field': field, 'idx': idx, 'code': {'k': 'none'}}
    if kind == 'to-nonraw':
        later = [t for t in tg if t[0] > i]
        to = rng.choice(later)[0] if later and rng.random() < 0.8 else rng.choice(tg)[0]
        for _ in range(8):
            req = _wrap(rng, tgt, valid, {'to_idx': to}, errkind=kind)
            if 'to_idx' in req:
                return req
        return None
    if kind == 'one-false':
        if idx is not None:
            return None
        return {'errkind': kind, 'op': rng.choice(['replace', 'put']), **({'node': i} if False else {}),
                **_one_false(rng, tgt, valid)}
    if kind in ('raw-unparsable', 'raw-wrongcat'):
        src = rng.choice(UNPARSABLE) if kind == 'raw-unparsable' else rng.choice(STMT_SRC[:8] + MISC_SRC[:10])
        for _ in range(8):
            req = _wrap(rng, tgt, {'k': 'src', 'v': src}, {'opts': {'raw': rng.choice(['auto', 'auto', True])}}, errkind=kind)
            if 'opts' in req:
                return req
        return None
    return None


def _one_false(rng, tgt, valid):
    i, pi, field, idx, cat = tgt
    if rng.random() < 0.5:
        return {'op': 'replace', 'node': i, 'one': False, 'code': valid}
    return {'op': 'put', 'node': pi, 'field': field, 'idx': None, 'one': False, 'code': valid}


def gen_valid(rng, root, nodes, near=None):
    """a simple edit that must succeed: Name(Load) -> Name, int Constant -> int, append a statement to the module"""
    cands = []
    for i, f in enumerate(nodes):
        a = f.a
        if isinstance(a, ast.Name) and isinstance(a.ctx, ast.Load) and f.parent is not None:
            cands.append((i, 'c12n'))
        elif isinstance(a, ast.Constant) and type(a.value) is int and f.parent is not None \
                and not isinstance(f.parent.a, (ast.JoinedStr, ast.FormattedValue)):
            cands.append((i, '42'))
    if near is not None and cands and rng.random() < 0.6:
        lo = near
        close = sorted(cands, key=lambda c: abs(c[0] - lo))[:3]
        i, src = rng.choice(close)
        return {'errkind': 'valid', 'op': 'replace', 'node': i, 'code': {'k': 'src', 'v': src}}
    if cands and rng.random() < 0.85:
        i, src = rng.choice(cands)
        return {'errkind': 'valid', 'op': 'replace', 'node': i, 'code': {'k': 'src', 'v': src}}
    if isinstance(root.a, ast.Module):
        return {'errkind': 'valid', 'op': 'append', 'node': 0, 'field': 'body', 'code': {'k': 'src', 'v': 'c12s = 1'}}
    return None


# ---------------------------------------------------------------------------------------------------------------------
# the check

def state(root):
    return root.src, ast.dump(root.a, include_attributes=True)


def registry():
    from fst.fst_core import _MODIFYING
    return _MODIFYING


def _short(req):
    r = {k: v for k, v in req.items() if k != 'errkind'}
    return r


def target_sig(root, req):
    """'<op>|<ParentClass.field>' of a request (for signatures / tallies)"""
    try:
        nodes = nodes_of(root)
        f = nodes[req['node']]
        if req['op'] in ('replace', 'remove'):
            p = f.parent
            return f"{req['op']}|{p.a.__class__.__name__ if p else 'root'}.{f.pfield.name if p else ''}"
        return f"{req['op']}|{f.a.__class__.__name__}.{req.get('field')}"
    except Exception:
        return f"{req.get('op')}|?"


ONE_OPS = ('replace', 'remove', 'put', 'setattr', 'delattr', 'setitem', 'delitem', 'unpar')


def raise_site(exc):
    """name of the innermost pfst function on the traceback (identifies the raise site without line numbers)"""
    import os
    tb = exc.__traceback__
    name = '?'
    while tb is not None:
        fn = tb.tb_frame.f_code.co_filename
        if os.sep + 'fst' + os.sep in fn and 'harness' not in fn:
            name = tb.tb_frame.f_code.co_name
        tb = tb.tb_next
    return name


def in_reparse(exc):
    """did the exception come out of the raw reparse itself (fst_raw.py on the traceback) or was it raised after the
    reparse had returned (the edit is then already applied in full)"""
    import os
    tb = exc.__traceback__
    while tb is not None:
        if os.path.basename(tb.tb_frame.f_code.co_filename) == 'fst_raw.py':
            return True
        tb = tb.tb_next
    return False


def op_family(req):
    if req['op'] == 'put' and 'stop' in req:
        return 'slice'
    if req['op'] == 'replace' and req.get('one', True) is not True:
        return 'slice'
    return 'one' if req['op'] in ONE_OPS else 'slice'


def is_raw(req):
    return bool((req.get('opts') or {}).get('raw'))


def check_failing(src_before, root, req, exc, before, rng, applied):
    """`req` raised `exc` on `root` whose state before the call was `before`.  Returns (failures, info)."""
    fails = []
    tsig = target_sig(root, req) if state(root) == before else None
    if tsig is None:
        try:
            tsig = target_sig(__import__('fst').FST(src_before, 'exec'), req)
        except Exception:
            tsig = f"{req.get('op')}|?"
    site = raise_site(exc)
    # signature: raw or not | op family | exception class @ pfst function that raised (= the defect site); the target
    # kind and requested error kind are in the witness / description
    if is_raw(req):
        # raw mode: the defect site is characterised by whether the reparse itself raised or the code after it
        base = f"raw|{op_family(req)}|{'in-reparse' if in_reparse(exc) else 'after-reparse'}|{type(exc).__name__}"
    else:
        base = f"nonraw|{op_family(req)}|{type(exc).__name__}@{site}"
    wit = {'src': src_before, 'failing': req, 'exc': f'{type(exc).__name__}: {str(exc)[:160]}', 'raise_site': site,
           'target': tsig, 'prefix': applied}
    after = state(root)
    reg = registry()
    if reg:
        fails.append((f'C12|registry-stale|{base}', f'_MODIFYING not empty after a raising {req["op"]}: {len(reg)} entr(y/ies)', dict(wit)))
        reg.clear()
    if after != before:
        what = 'source' if after[0] != before[0] else 'tree (structure/positions)'
        w = dict(wit)
        w['after_src'] = after[0]
        w['diff'] = util.first_diff(after[1], before[1]) if after[0] == before[0] else util.first_diff(after[0], before[0])
        fails.append((f'C12|state-changed|{base}', f'{req["op"]} on {tsig.split("|", 1)[1]} ({req["errkind"]} request) raised '
                      f'{type(exc).__name__} in {site} but the {what} changed', w))
        return fails, None        # no follow-up on a tree already known to be damaged
    # follow-up valid edit vs. fresh twin
    from fst import FST
    nodes = nodes_of(root)
    v = gen_valid(rng, root, nodes, near=req.get('node'))
    if v is None:
        return fails, 'no-followup-candidate'
    try:
        twin = FST(src_before, 'exec')
    except Exception:
        return fails, 'twin-unparsable'
    t_exc = r_exc = None
    try:
        execute(twin, v)
    except Exception as e:     # noqa: BLE001
        t_exc = e
    try:
        execute(root, v)
    except Exception as e:     # noqa: BLE001
        r_exc = e
    if reg:
        reg.clear()
    wit['followup'] = v
    if t_exc is not None:
        if r_exc is None:
            return fails, 'followup-raises-on-twin-only'
        return fails, 'followup-raises-on-both'
    if r_exc is not None:
        w = dict(wit)
        w['followup_exc'] = f'{type(r_exc).__name__}: {str(r_exc)[:160]}'
        fails.append((f'C12|followup-raises|{base}', f'after the failed {req["op"]} a valid edit raises {type(r_exc).__name__} '
                      f'({str(r_exc)[:80]}) while it succeeds on a fresh twin', w))
        return fails, None
    rs, ts = state(root), state(twin)
    if rs != ts:
        w = dict(wit)
        w['root_src'], w['twin_src'] = rs[0], ts[0]
        w['diff'] = util.first_diff(rs[0], ts[0]) if rs[0] != ts[0] else util.first_diff(rs[1], ts[1])
        fails.append((f'C12|followup-differs|{base}', f'after the failed {req["op"]} a valid edit gives a different result than on a fresh twin', w))
        return fails, None
    d = util.tree_equals_parse(root)
    if d:
        return fails, 'followup-c01-both'      # identical on the twin: not caused by the failed edit (C01's business)
    return fails, 'ok'


def run_sequence(arg):
    """(src, seed, n_seq, k, errkinds|None) -> {'fails': [...], 'tally': {...}, 'n': counts}"""
    src, seed, n_seq, k, only = arg
    from fst import FST
    rng = random.Random(seed)
    out = {'fails': [], 'tally': {}, 'n_raise': 0, 'n_ok': 0, 'keys': []}

    def tally(g, key):
        d = out['tally'].setdefault(g, {})
        d[str(key)] = d.get(str(key), 0) + 1

    reg = registry()
    for _ in range(n_seq):
        try:
            root = FST(src, 'exec')
        except Exception:
            tally('skip', 'source-not-accepted')
            return out
        if util.tree_equals_parse(root):
            tally('skip', 'fresh-tree-not-equal-parse')
            return out
        reg.clear()
        applied = []
        for step in range(k):
            nodes = nodes_of(root)
            if rng.random() < 0.22:
                req = gen_valid(rng, root, nodes)
            else:
                req = gen_invalid(rng, root, nodes, rng.choice(only) if only else None)
            if req is None:
                continue
            before = state(root)
            src_before = before[0]
            tsig = target_sig(root, req)
            try:
                execute(root, req)
            except Exception as e:     # noqa: BLE001
                out['n_raise'] += 1
                out['keys'].append(hash((src_before, repr(sorted(_short(req).items(), key=str)))))
                tally('error_kind_requested', req['errkind'])
                tally('exception_class', type(e).__name__)
                tally('op', req['op'])
                tally('target', tsig.split('|', 1)[1])
                tally('step_in_sequence', step)
                fails, info = check_failing(src_before, root, req, e, before, rng, list(applied))
                if info:
                    tally('followup', info)
                out['fails'].extend(fails)
                if fails or info not in ('ok', 'no-followup-candidate'):
                    break           # damaged tree, or no twin comparison possible: start a new sequence
                applied.append({'_failed_then_followup': req['errkind']})
                continue
            out['n_ok'] += 1
            tally('succeeded_requests', req['errkind'])
            if reg:
                # a successful call that leaves the registry locked makes every later edit of this tree fail
                out['fails'].append((f'C12|registry-stale-after-success|{tsig}|{req["errkind"]}',
                                     f'_MODIFYING not empty after a successful {req["op"]}',
                                     {'src': src_before, 'failing': req, 'prefix': list(applied)}))
                reg.clear()
                break
            applied.append(req)
            if util.tree_equals_parse(root):
                tally('abandoned', 'tree-not-equal-parse-after-successful-edit:' + req['errkind'])
                break
    return out


def replay_witness(w):
    """-> list of (sig, what, witness) still failing"""
    from fst import FST
    rng = random.Random(0)
    root = FST(w['src'], 'exec')
    registry().clear()
    req = w['failing']
    before = state(root)
    try:
        execute(root, req)
    except Exception as e:     # noqa: BLE001
        fails, info = check_failing(w['src'], root, req, e, before, rng, [])
        if not fails and w.get('followup'):
            # the recorded follow-up rather than a random one
            root = FST(w['src'], 'exec')
            try:
                execute(root, req)
            except Exception:     # noqa: BLE001
                pass
            twin = FST(w['src'], 'exec')
            try:
                execute(twin, w['followup'])
                try:
                    execute(root, w['followup'])
                except Exception as e2:     # noqa: BLE001
                    return [('replay', f'follow-up raises {e2!r}', w)]
                if state(root) != state(twin):
                    return [('replay', 'follow-up differs from twin', w)]
            except Exception:     # noqa: BLE001
                pass
        return fails
    if registry():
        registry().clear()
        return [('replay', 'registry not empty after successful call', w)]
    return []
