"""C18: captures that are not plain expressions or statements (a function signature, with-items, dict pairs, comprehension
clauses, except handlers, match cases, comparison chains, boolean operands, decorators, class bases) put through pfst's
coercions into template slots.  What the filled slot must look like is the business of coercion (C19); what C18 promises
for ANY template is checked here without a structural reference: the returned tree is the parse of its own source
(types, fields, contexts and POSITIONS), the counts agree with each other, statements without a match keep their exact
lines, and the same substitution applied to the re-parsed result source of the first one behaves like on a fresh tree.
Programs carry multi-byte text before the captured pieces on the same line, so byte/character column mix-ups show.
"""

from __future__ import annotations

import ast

SIGS = ['def größe(länge, *maße, **übrige): pass',
        'def ß(é, /, länge, *maße, ключ, ü=1, **übrige):\n    return é',
        'def f(a, b=é, *c): return "ñ", a',
        'async def çé(ä, *ö): pass  # ü',
        'class Ä:\n    def méthode(self, größe, *maße, **kw): return größe']
PROGRAMS = {
    'sig': SIGS,
    'with': ['with ä as é, öffne(ü) as (x, y): pass', 'with é: ñ = 1\nwith a as b, c as d:\n    ü'],
    'dict': ['ä = {é: 1, "ñ": ü, **rest, k: v}', 'x = {a: b, c: d, e: f}'],
    'comp': ['ä = [é for é in ü if é for ñ in é]', 'x = {ö: v for ö, v in dä.items() if v}'],
    'try': ['try: é\nexcept Ä: a()\nexcept (Ö, Ü) as ñ: b()\nexcept C: c()\nfinally: pass'],
    'match': ['match ä:\n    case Ö(x=1): a\n    case [é, *ñ]: b\n    case {"k": ü}: c\n    case _: d'],
    'cmp': ['ä = é < ü <= ñ != ö', 'if "é" in ä is not None: pass'],
    'bool': ['ä = é and ü and ñ', 'x = a or "é" or c'],
    'deco': ['@é.ü\n@ñ(1)\ndef größe(): pass'],
    'class': ['class Ä(Ö, ü=1, *ñ): pass', 'class K(é.B, Ü): x = 1'],
    'call': ['ä = größe(é, *maße, schlüssel=ü, **übrige)', 'print("é", ü, sep="ñ")'],
}
# (program kind, pattern, template)
FORMS = [
    ('sig', 'MFunctionDef(name=M(n=...), args=M(a=...), body=M(b=...))', 'def __FST_n(__FST_a):\n    return impl(__FSS_a)'),
    ('sig', 'MFunctionDef(name=M(n=...), args=M(a=...), body=M(b=...))', 'def __FST_n(selbst, __FST_a):\n    __FST_b'),
    ('sig', 'MFunctionDef(name=M(n=...), args=M(a=...))', 'def __FST_n(*größen, **kw):\n    return __FST_n(__FSS_a)'),
    ('sig', 'MFunctionDef(name=M(n=...), args=M(a=...))', '__FST_n = lambda __FST_a: "é"'),
    ('sig', 'MAsyncFunctionDef(name=M(n=...), args=M(a=...))', 'def __FST_n(__FST_a):\n    return ü(__FSS_a)'),
    ('with', 'MWith(items=M(i=...), body=M(b=...))', 'with é as ü, __FST_i:\n    __FST_b'),
    ('with', 'MWith(items=M(i=...), body=M(b=...))', 'with __FST_i:\n    "ñ"\n    __FST_b'),
    ('dict', 'MDict(_all=[..., MQSTAR(m=...), ...])', '{é: ü, "...": __FST_m}'),
    ('dict', 'MDict(_all=M(m=...))', 'dict_(ñ, {"...": __FST_m, **é})'),
    ('comp', 'MListComp(elt=M(e=...), generators=M(g=...))', '{__FST_e for ü in é for __FST_g in "..."}'),
    ('comp', 'MDictComp(key=M(k=...), value=M(v=...), generators=M(g=...))', '[(__FST_k, __FST_v) for __FST_g in "..."]'),
    ('try', 'MTry(body=M(b=...), handlers=[..., MQSTAR(h=...), ...])', "try:\n    __FST_b\nexcept É: pass\nexcept '...': __FST_h"),
    ('try', 'MTry(handlers=M(h=...))', "try: ü()\nexcept '...': __FST_h\nfinally: é()"),
    ('match', 'MMatch(subject=M(s=...), cases=[..., MQSTAR(c=...), ...])', "match (é, __FST_s):\n    case '...': __FST_c\n    case ü: pass"),
    ('cmp', 'MCompare(_all=[..., MQSTAR(m=...), ...])', 'é < __FST_m'),
    ('cmp', 'MCompare(left=M(l=...), comparators=M(c=...))', 'ü(__FST_l, __FST_c)'),
    ('bool', 'MBoolOp(values=M(v=...))', 'é or __FST_v'),
    ('bool', 'MBoolOp(values=[M(f=...), MQSTAR(r=...)])', 'ü(__FST_f) and __FST_r'),
    ('bool', 'MBoolOp(values=[M(f=...), MQSTAR(r=...)])', 'ü and __FST_f and __FST_zz'),     # a tag the match never sets: deleted
    ('deco', 'MFunctionDef(decorator_list=M(d=...), name=M(n=...))', '@é\n@__FST_d\ndef __FST_n(): pass'),
    ('class', 'MClassDef(name=M(n=...), _bases=M(b=...))', '__FST_n = ü("é", __FSS_b)'),
    ('class', 'MClassDef(name=M(n=...), _bases=M(b=...))', 'class __FST_n(É, __FST_b):\n    pass'),
    ('call', 'MCall(func=M(f=...), _args=M(a=...))', 'ü(é, __FST_f)(__FST_a)'),
    ('call', 'MCall(func=M(f=...), _args=M(a=...))', 'class K(__FST_a): pass' ),
]


def cases():
    out = []
    for kind, pat, tmpl in FORMS:
        for pi, src in enumerate(PROGRAMS[kind]):
            for nested in ((False, True) if kind in ('sig', 'call') else (False,)):
                out.append({'kind': kind, 'prog': pi, 'src': 'ä = 1  # ü\n' + src + '\nñ = "é"\n', 'pat': pat, 'tmpl': tmpl,
                            'nested': nested})
    return out


def run_case(c):
    import c18_lib as L
    import util
    from fst import FST
    res = {'case': c}
    try:
        pat = L.make_pattern(c['pat'])
        root = FST(c['src'], 'exec')
    except Exception as e:
        res['skip'] = 'setup: ' + type(e).__name__
        return res
    nmatch = sum(1 for f in root.walk(True) if not isinstance(f.a, ast.expr_context) and f.match(pat))
    try:
        r = L.with_timeout(20, lambda: root.subn(pat, c['tmpl'], c['nested']))
    except L.Timeout:
        res['skip'] = 'timeout'
        return res
    except Exception as e:
        res['refused'] = type(e).__name__
        if type(e).__name__ not in L.REFUSALS:
            res['fail'] = ('crash', f'subn raised {type(e).__name__}: {e}')
        return res
    res['nsub'] = r[2]
    res['out'] = root.src
    d = util.tree_equals_parse(root)
    if d:
        res['fail'] = ('c01', 'the returned tree is not the parse of its own source: ' + d)
        return res
    if r[1] != r[2] or (nmatch and not r[1]) or (not nmatch and r[1]):
        res['fail'] = ('counts', f'counts {(r[1], r[2])} with {nmatch} matching nodes in the program')
        return res
    lines = root.src.split('\n')
    if lines[0] != 'ä = 1  # ü' or 'ñ = "é"' not in lines:
        res['fail'] = ('text-outside-changed', 'the statements around the substituted one changed')
        return res
    # the same substitution on the re-parsed result source must behave like on the live result (positions are right)
    try:
        a = FST(root.src, 'exec')
        ra = a.subn(pat, c['tmpl'], c['nested'])
        rb = root.subn(pat, c['tmpl'], c['nested'])
        if (a.src, ra[1], ra[2]) != (root.src, rb[1], rb[2]):
            res['fail'] = ('second-operation', f'a second substitution on the live result gives {root.src!r} {rb[1:]}, on its '
                           f're-parsed source {a.src!r} {ra[1:]}')
    except L.Timeout:
        pass
    except Exception as e:
        try:
            FST(res['out'], 'exec').subn(pat, c['tmpl'], c['nested'])
        except Exception as e2:
            if type(e2) is type(e):
                return res
        res['fail'] = ('second-operation', f'a second substitution raises {type(e).__name__} on the live result only')
    return res
