#!/usr/bin/env python3
"""c20_mutrun.py <operator> <file-glob>: harness/mutants.py restricted to line ranges (MUT_LINES="a-b,c-d"): the C20
campaign targets the option call sites of fst.py and the _Modifying registry of fst_core.py, not the whole files.
The shared tool is executed unchanged except for one inserted filter line."""
import os, sys
from pathlib import Path
src = (Path(__file__).resolve().parent / 'mutants.py').read_text()
ranges = [tuple(int(x) for x in r.split('-')) for r in os.environ.get('MUT_LINES', '').split(',') if r]
needle = '    ss = sites(text)\n'
assert src.count(needle) == 1
src = src.replace(needle, needle + "    ss = [s for s in ss if not _R or any(a <= text.count('\\n', 0, s[0]) + 1 <= b for a, b in _R)]\n")
g = {'__name__': '__main__', '__file__': str(Path(__file__).resolve().parent / 'mutants.py'), '_R': ranges}
exec(compile(src, 'mutants.py', 'exec'), g)
