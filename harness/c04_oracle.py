"""C04 sweep oracle: real structured edits on commented programs, judged WITHOUT pfst (CPython `ast` for the extent of the
edited element, `tokenize` for tokens and comments, plain line comparison).

Allowed-change region of one edit (computed generously, exactly what the property text allows):
  * the extent of the element (with decorators), for an insertion the empty point between its neighbours;
  * separators (`;` for statements, `,` for elements) and parentheses between the element and its neighbours;
  * comment tokens in the gaps to the neighbours that the `trivia` option selects (my own reading of the documented option:
    leading none / block / all / line number, trailing none / line / block / all / line number), always the line comment
    of a compound statement;
  * blank lines between the last protected non-blank line before and the first protected non-blank line after.
Flagged (only clear violations):
  comment-lost / comment-duplicated / comment-moved  a protected comment token disappears, appears twice, or changes its
                                                     order relative to protected tokens
  token-lost          a protected code token disappears or changes order
  line-changed        a non-blank line that touches nothing allowed is no longer present byte-identically, in order
  far-blank-lines     lines (including blank ones) before the last protected line above / after the first below differ
Edits that raise or whose result does not tokenize are not judged (C12 / C01).
"""

from __future__ import annotations

import ast
import io
import random
import tokenize

NONSIG = (tokenize.NL, tokenize.NEWLINE, tokenize.INDENT, tokenize.DEDENT, tokenize.ENDMARKER)

TRIVIA_VALUES = [True, False, 'all', 'block', 'none', 'all+', 'block+1', 'none-', 'all-2', '+', '-1', (), ('all', 'all'),
                 ('none', 'none'), ('block', 'block'), ('all+', 'all+'), ('none', 'line'), ('block+', 'block+2'),
                 (False, 'all'), ('line',), ('none',), ('all', 'none+'), ('block-', 'all-'), 'LN', ('LN', 'LN'), ('all', 'LN'),
                 ('LN', 'block')]

HAND_PROGRAMS = [
    'if m == 1:\n    pass\nelif m == 2:  # bin\n    t = """multi\n  line\nstr"""\n    B = b"""\\x00h\n  payload\ntail"""  # tc\n    n = len(B)\nelse:\n    r = rb\'\'\'q\n  w\'\'\'\n',
    'def f(x):\n    if x:\n        a = 1  # path C:\\tmp\\\n        b = 2\n        #   /  \\\n        c = 3\n    elif y:\n        d = b\'1\\\n  2\'\n    return a\n',
    'def f():\n    a = 1  # ta\n\n    # lead b1\n\n    # lead b2\n    b = 2  # tb\n    # trail b\n\n    # pre c\n    c = 3\n',
    'x = [a,  # ca\n     b,  # cb\n     # own line\n     c]\n',
    'if a:  # ha\n    x  # cx\n    # after x\nelif b:  # hb\n    y  # cy\nelse:  # he\n    # pre z\n    z  # cz\n# end\n',
    'class C:\n    """doc"""  # dc\n\n    # m1\n    @deco  # dd\n    def m(self):  # hm\n        return 1  # r\n    # after m\n\n    x = 2  # cx\n',
    'call(a,  # ca\n     # pre b\n     b,  # cb\n     c=d,  # cc\n     )  # end\n',
    'a = 1; b = 2; c = 3  # abc\n# next\nd = 4\n',
    'try:  # t\n    a  # ca\nexcept E:  # e\n    # pre b\n    b  # cb\nfinally:  # f\n    c  # cc\n',
    'import a, b, c  # imp\nfrom m import (x,  # cx\n               y,  # cy\n               z)\ndel p, q, r  # del\n',
    'with a as b, c as d:  # w\n    pass  # p\nmatch v:  # m\n    case [p1,  # c1\n          p2,  # c2\n          p3]:  # c3\n        pass\n',
    'def g():\n    """Doc\n\n    text\n    """\n    s = """multi\n  line\n"""  # cs\n    # pre t\n    t = 1  # ct\n    return s  # r\n',
    'r = y[c,  # c2\n      # own\n      d, e]\nq = [z for c,  # cc\n     d in e]\n',
    't = (a,  # ca\n     # block 1\n     # block 2\n     b,  # cb\n\n     # lone\n\n     c,  # cc\n     )\n',
]


def toks(src):
    return list(tokenize.generate_tokens(io.StringIO(src).readline))


_TC = [None, None]


def _toks_cached(src):
    if _TC[0] != src:
        _TC[0], _TC[1] = src, toks(src)
    return _TC[1]


def renumber_comments(src):
    """give every comment a unique text (so that lost / duplicated / moved comments are unambiguous)"""
    try:
        ts = toks(src)
        ref = ast.dump(ast.parse(src))
    except Exception:
        return None
    lines = src.split('\n')
    cs = [t for t in ts if t.type == tokenize.COMMENT]
    for k in range(len(cs) - 1, -1, -1):
        t = cs[k]
        l = lines[t.start[0] - 1]
        tail = 'é' if k % 7 == 3 else ' C:\\tmp\\' if k % 5 == 1 else '   /  \\' if k % 11 == 4 else ''
        lines[t.start[0] - 1] = l[:t.start[1]] + f'# c{k}' + tail + l[t.end[1]:]
    new = '\n'.join(lines)
    try:
        if ast.dump(ast.parse(new)) != ref:
            return None
    except Exception:
        return None
    return new


# ---------------------------------------------------------------------------------------------------------------------
# my own reading of the documented `trivia` option

def parse_trivia(v):
    """-> (lead_mode, trail_mode), each 'none' | 'block' | 'all' | 'line' | int"""
    if not isinstance(v, tuple):
        lead, trail = v, True
    elif len(v) == 0:
        lead, trail = False, False
    elif len(v) == 1:
        lead, trail = True, v[0]
    else:
        lead, trail = v

    def one(x, dflt):
        if isinstance(x, bool):
            return dflt if x else 'none'
        if isinstance(x, int):
            return x
        for i, ch in enumerate(x):
            if ch in '+-':
                x = x[:i]
                break
        return x or dflt

    return one(lead, 'block'), one(trail, 'line')


def _char_col(line, byte_off):
    return len(line.encode()[:byte_off].decode(errors='ignore'))


def analyse(src, s, e, kind, op, trivia, compound, extra_lines=(), extra_seps=(), allow_pos=()):
    """-> (protected token list [(string, is_comment)], touched line set) for an element with char span s..e
    ((line0, col) pairs; s == e for an insertion point that lies in the gap between two neighbours)."""
    lead_mode, trail_mode = parse_trivia(trivia)
    lines = src.split('\n')
    ts = [t for t in toks(src) if t.type not in NONSIG]
    T = [(t.string, t.type == tokenize.COMMENT, (t.start[0] - 1, t.start[1]), (t.end[0] - 1, t.end[1])) for t in ts]
    seps = ((';',) if kind == 'stmt' else (',', '(', ')')) + tuple(extra_seps)
    inside = [i for i, t in enumerate(T) if t[2] >= s and t[3] <= e and s != e]
    before = [i for i, t in enumerate(T) if t[3] <= s and i not in inside]
    after = [i for i, t in enumerate(T) if t[2] >= e and i not in inside]
    allowed = set(inside) | {i for i, t in enumerate(T) if t[2] in allow_pos}
    # walk back over the gap: comments and separators until the previous code token
    gap_b, gap_a = [], []
    for i in reversed(before):
        st, isc = T[i][0], T[i][1]
        if isc or st in seps:
            gap_b.append(i)
        else:
            break
    prev_code_line = T[before[len(before) - len(gap_b) - 1]][3][0] if len(before) > len(gap_b) else -1
    for i in after:
        st, isc = T[i][0], T[i][1]
        if isc or st in seps:
            gap_a.append(i)
        else:
            break
    next_code_line = T[after[len(gap_a)]][2][0] if len(after) > len(gap_a) else len(lines)
    for i in gap_b + gap_a:
        if not T[i][1]:
            allowed.add(i)                    # separators / parentheses next to the element
    sep_lines_a = {T[i][2][0] for i in gap_a if not T[i][1]}
    if kind == 'expr' and op != 'insert':     # comments sandwiched between the element and its adjoining separator
        firstsep = [k for k, i in enumerate(gap_a) if T[i][0] == ',']
        if firstsep:
            allowed.update(i for i in gap_a[:firstsep[0]] if T[i][1])
    if kind == 'expr':                        # comments inside the element's own parentheses
        far = [k for k, i in enumerate(gap_b) if T[i][0] == '(']
        if far:
            allowed.update(i for i in gap_b[:far[-1]] if T[i][1])
        far = [k for k, i in enumerate(gap_a) if T[i][0] == ')']
        if far:
            allowed.update(i for i in gap_a[:far[-1]] if T[i][1])
    if True:
        starts_line = lines[s[0]][:s[1]].strip(' \t\x0c(') == ''
        # leading comments: own-line comments strictly between the previous code line and the element line
        own_b = [i for i in gap_b if T[i][1] and prev_code_line < T[i][2][0] < s[0] and lines[T[i][2][0]][:T[i][2][1]].strip() == '']
        if starts_line and lead_mode != 'none' and op != 'insert':     # a pure insertion overwrites nothing: no leading trivia either
            if lead_mode == 'block':
                ln = s[0] - 1
                by_line = {T[i][2][0]: i for i in own_b}
                while ln in by_line:
                    allowed.add(by_line[ln])
                    ln -= 1
            elif lead_mode == 'all':
                allowed.update(own_b)
            elif isinstance(lead_mode, int):
                allowed.update(i for i in own_b if T[i][2][0] >= lead_mode)
            else:
                allowed.update(own_b)         # unknown mode: be generous
        # trailing comments (not for an insertion)
        for i in (gap_a if op != 'insert' else []):
            if not T[i][1]:
                continue
            cl = T[i][2][0]
            if cl >= next_code_line:
                continue
            if cl == e[0] or cl in sep_lines_a:   # the line comment (after the element or after its separator)
                if compound or trail_mode in ('line', 'block', 'all') or (isinstance(trail_mode, int) and trail_mode >= cl):
                    allowed.add(i)
            elif trail_mode == 'all':
                allowed.add(i)
            elif isinstance(trail_mode, int) and cl <= trail_mode:
                allowed.add(i)
        if trail_mode == 'block' and op != 'insert':
            by_line = {T[i][2][0]: i for i in gap_a if T[i][1] and T[i][2][0] > e[0] and T[i][2][0] < next_code_line}
            ln = e[0] + 1
            while ln in by_line:
                allowed.add(by_line[ln])
                ln += 1
    protected = [(T[i][0], T[i][1]) for i in range(len(T)) if i not in allowed]
    touched = set(range(s[0], e[0] + 1)) | set(extra_lines)
    for i in allowed:
        touched.update(range(T[i][2][0], T[i][3][0] + 1))
    if kind == 'stmt':          # statements sharing a logical line (`;`): the neighbour is re-laid out with the edit
        if any(T[i][0] == ';' for i in gap_a):
            touched.update(range(e[0], min(next_code_line, len(lines) - 1) + 1))
        if any(T[i][0] == ';' for i in gap_b):
            touched.update(range(max(prev_code_line, 0), s[0] + 1))
    lo, hi = min(touched), max(touched)
    if op == 'insert':      # the new element may be placed anywhere between the neighbouring code tokens
        lo = min(lo, max(prev_code_line, 0))
        hi = max(hi, min(next_code_line, len(lines) - 1))
    return protected, touched, lo, hi


def _partners(src):
    """comment text -> string of the last non-separator code token before it on its own line (None: the comment owns its line)"""
    out = {}
    last = {}
    shape = {}          # line -> [number of separators before the last code token, bracket balance]: one whole element on the line?
    prev_code = None
    for t in toks(src):
        if t.type in NONSIG:
            continue
        ln = t.start[0]
        if ln not in shape:
            shape[ln] = [1 if prev_code == ':' else 0, 0, False]     # continues a `key:` of the line above: not a whole element
        sh = shape[ln]
        if t.type != tokenize.COMMENT:
            prev_code = t.string
        if t.type == tokenize.COMMENT:
            # only the unambiguous case: the line holds exactly one element (at most a trailing separator, no bracket left open or
            # closed from another line) - then its line comment belongs to that element
            out[t.string] = (last.get(ln), sh[0] == 0 and sh[1] == 0 and not sh[2]) if ln in last else (None, True)
            continue
        if sh[2] is False and t.string in (',', ';'):
            sh[2] = 'sep'
        elif sh[2] == 'sep':
            sh[0] += 1          # code after a separator: a second element on the line
        if t.string in '([{':
            sh[1] += 1
        elif t.string in ')]}':
            sh[1] -= 1
        if t.string not in (',', ';', ')', ']', '}') and t.end[0] == t.start[0]:
            last[ln] = t.string
        elif t.end[0] != t.start[0]:
            last[t.end[0]] = t.string[-12:]        # a multi-line token ends on this line
    return out


def comment_line_partner_changed(src, new_src, new_comments=(), force=(), skip=()):
    """for a PURE insertion: every original comment still follows the same code on its line (or still owns its line)"""
    try:
        a, b = _partners(src), _partners(new_src)
    except Exception:
        return None
    cl = {t.string: t.start[0] - 1 for t in toks(src) if t.type == tokenize.COMMENT} if (force or skip) else {}
    for c, (p, single) in a.items():
        ln = cl.get(c)
        if ln in skip:
            continue
        if c in b and c not in new_comments and (single or ln in force) and b[c][0] != p:
            return (c, p, b[c][0])
    return None


def judge(src, new_src, s, e, kind, op, trivia, compound, new_comments=(), extra_lines=(), extra_seps=(), first_undelim_gap=None,
          allow_pos=(), reindent=False, new_literals=(), partner_force=(), partner_skip=()):
    """-> list of violations [{'cls', 'what', 'detail'}]"""
    out = []
    try:
        protected, touched, lo, hi = analyse(src, s, e, kind, op, trivia, compound, extra_lines, extra_seps, allow_pos)
        A = [(t.string, t.type == tokenize.COMMENT) for t in toks(new_src) if t.type not in NONSIG]
    except (tokenize.TokenError, SyntaxError, IndentationError):
        return None
    # (1) tokens: protected tokens are a subsequence of the new token stream
    j = 0
    for st, isc in protected:
        k = j
        while k < len(A) and A[k][0] != st:
            k += 1
        if k == len(A):
            if isc:
                present = any(a[0] == st for a in A)
                out.append({'cls': 'comment-moved' if present else 'comment-lost',
                            'what': f'comment {st!r} not selected by trivia={trivia!r} ' +
                                    ('changed its order relative to other tokens' if present else 'is lost'),
                            'detail': st})
            else:
                if '\n' in st and st.lstrip('rbfuRBFU')[:1] in ('"', "'"):
                    out.append({'cls': 'literal-changed', 'what': f'multi-line literal {st[:40]!r} outside the edited element was rewritten', 'detail': st})
                else:
                    out.append({'cls': 'token-lost', 'what': f'token {st!r} outside the edited element is lost or reordered', 'detail': st})
            break
        j = k + 1
    if first_undelim_gap is not None:
        # deleting the first element of an undelimited tuple (subscript index, comprehension / for target): comments between
        # the element and the next one get their own narrow class
        cpos = {t.string: (t.start[0] - 1, t.start[1]) for t in toks(src) if t.type == tokenize.COMMENT}
        for v in out:
            if v['cls'] == 'comment-lost' and s <= cpos.get(v['detail'], (-1, -1)) < first_undelim_gap:
                v['cls'] = 'comment-lost@first-of-undelimited-tuple'
    # no comment duplicated (comment texts are unique in the input)
    seen = {}
    for st, isc in A:
        if isc:
            seen[st] = seen.get(st, 0) + 1
    before_comments = {t.string for t in toks(src) if t.type == tokenize.COMMENT}
    for st, n in seen.items():
        if n > 1 and st in before_comments and st not in new_comments:
            out.append({'cls': 'comment-duplicated', 'what': f'comment {st!r} appears {n} times after the edit', 'detail': st})
            break
    # multi-line string / bytes literals of the NEW code (not docstrings) arrive byte for byte: indenting the new code must not
    # touch the lines inside them
    astr = {a[0] for a in A}
    for lit in new_literals:
        if lit not in astr:
            out.append({'cls': 'new-literal-changed', 'what': f'multi-line literal {lit[:40]!r} of the put code was rewritten', 'detail': lit})
            break
    if op == 'insert' and not out:
        mv = comment_line_partner_changed(src, new_src, new_comments, partner_force, partner_skip)
        if mv:
            out.append({'cls': 'comment-moved-off-its-line', 'what': f'after a pure insertion the comment {mv[0]!r} no longer follows {mv[1]!r} on its '
                        f'line (now {mv[2]!r})', 'detail': list(mv)})
    if reindent:        # the edit legitimately re-indents a neighbouring block (elif <-> else: if): tokens only
        return out
    # (2) lines
    bl = src.split('\n')
    al = new_src.split('\n')
    prot_idx = [i for i, l in enumerate(bl) if i not in touched and l.strip() != '']
    nb_after = [l for l in al if l.strip() != '']
    j = 0
    for i in prot_idx:
        k = j
        while k < len(nb_after) and nb_after[k] != bl[i]:
            k += 1
        if k == len(nb_after):
            cls = 'line-changed'
            if first_undelim_gap is not None and s[0] <= i <= first_undelim_gap[0] and bl[i].strip().startswith('#'):
                cls = 'line-changed@first-of-undelimited-tuple'
            out.append({'cls': cls, 'what': f'line {i} {bl[i]!r} does not touch the edit but is not preserved byte for byte in order',
                        'detail': [i, bl[i]]})
            break
        j = k + 1
    head = [i for i in prot_idx if i < lo]
    tail = [i for i in prot_idx if i > hi]
    if head and not any(v['cls'].startswith('line-changed') for v in out):
        h = head[-1] + 1
        if al[:h] != bl[:h]:
            out.append({'cls': 'far-blank-lines', 'what': f'lines before line {h} (not adjacent to the edit) changed', 'detail': [h]})
    if tail and not any(v['cls'].startswith('line-changed') or v['cls'] == 'far-blank-lines' for v in out):
        t = tail[0]
        n = len(bl) - t
        if al[len(al) - n:] != bl[t:]:
            out.append({'cls': 'far-blank-lines', 'what': f'lines from line {t} on (not adjacent to the edit) changed', 'detail': [t]})
    return out


# ---------------------------------------------------------------------------------------------------------------------
# targets (CPython ast only)

STMT_FIELDS = ('body', 'orelse', 'finalbody', 'handlers')
EXPR_FIELDS = {'List': 'elts', 'Tuple': 'elts', 'Set': 'elts', 'Call': 'args', 'Delete': 'targets', 'Import': 'names',
               'ImportFrom': 'names', 'ClassDef': 'bases', 'MatchSequence': 'patterns', 'With': 'items'}
COMPOUND = (ast.If, ast.For, ast.While, ast.Try, ast.With, ast.FunctionDef, ast.AsyncFunctionDef, ast.ClassDef, ast.Match,
            ast.AsyncFor, ast.AsyncWith, ast.ExceptHandler, ast.match_case) + ((ast.TryStar,) if hasattr(ast, 'TryStar') else ())

NEW_STMTS = ['zz = 9  # new1', 'if nn:  # new2\n    pass  # new3', 'def nf():  # new4\n    """Doc\n    more"""\n    return 1', 'nn()',
             '# newlead\nzz = 8']
NEW_EXPRS = ['zz', 'nf(1)', '(zz)']
NEW_STMTS += ['nb = b"""\\x00h\n  two\ntail"""  # new5', 'if nn:  # new2\n    ns = """a\n  b\nc"""\n    nb = b\'\'\'x\n  y\'\'\'  # new6',
              "ns = 'a\\\n  b'  # new7"]

LITERALS = ['blob{k} = b"""\\x00head\n  two-space payload\ntail"""', "txt{k} = \'\'\'multi\n  line\n\'\'\'", 'raw{k} = rb"""a\\n\n    b"""',
            "cont{k} = b'one\\\n  two'", 'fs{k} = f"""a{{x}}\n  b"""']


def inject_literals(src, rng, p=0.5):
    """insert assignments of multi-line str / bytes literals in front of random statements (any block depth)"""
    if rng.random() > p:
        return src
    cur = src
    for k in range(rng.randint(1, 3)):
        try:
            ts = toks(cur)
        except Exception:
            return cur
        starts = sorted({t.end[0] for t in ts if t.type == tokenize.NEWLINE} | {0})
        lines = cur.split('\n')
        cand = [i for i in starts if i < len(lines) and lines[i].strip() and not lines[i].lstrip().startswith(('#', 'elif', 'else', 'except', 'finally', 'case', '@', 'def ', 'class ', 'async '))]
        rng.shuffle(cand)
        for i in cand[:6]:
            ind = lines[i][:len(lines[i]) - len(lines[i].lstrip())]
            lit = rng.choice(LITERALS).format(k=k)
            new = '\n'.join(lines[:i] + [ind + lit + rng.choice(['', '  # lit'])] + lines[i:])
            try:
                ast.parse(new)
            except Exception:
                continue
            cur = new
            break
    return cur



def _path(tree, node):
    """path from the module to `node` as [(field, idx|None)]"""
    def go(n, acc):
        if n is node:
            return acc
        for name, val in ast.iter_fields(n):
            if isinstance(val, list):
                for i, c in enumerate(val):
                    if isinstance(c, ast.AST):
                        r = go(c, acc + [(name, i)])
                        if r is not None:
                            return r
            elif isinstance(val, ast.AST):
                r = go(val, acc + [(name, None)])
                if r is not None:
                    return r
        return None
    return go(tree, [])


def _span(lines, n, toklist=None):
    """char span of an ast node (statements: including decorators' `@`)"""
    sl, sc = n.lineno - 1, n.col_offset
    if getattr(n, 'decorator_list', None):
        d = n.decorator_list[0]
        sl, sc = d.lineno - 1, d.col_offset
        # the `@` token before the decorator expression (which may be parenthesized or on a later line)
        dpos = (sl, _char_col(lines[sl], sc))
        ats = [t for t in _toks_cached('\n'.join(lines)) if t.type == tokenize.OP and t.string == '@' and (t.start[0] - 1, t.start[1]) < dpos]
        if ats:
            sl, sc = ats[-1].start[0] - 1, len(lines[ats[-1].start[0] - 1][:ats[-1].start[1]].encode())
    s = (sl, _char_col(lines[sl], sc))
    e = (n.end_lineno - 1, _char_col(lines[n.end_lineno - 1], n.end_col_offset))
    return s, e


def targets(src):
    """[(kind, parent_path, parent_kind, field, idx, n_in_field, node)]"""
    tree = ast.parse(src)
    out = []
    for p in ast.walk(tree):
        for fld in STMT_FIELDS:
            lst = getattr(p, fld, None)
            if isinstance(lst, list) and lst and all(isinstance(x, (ast.stmt, ast.ExceptHandler, ast.match_case)) for x in lst):
                for i, c in enumerate(lst):
                    out.append(('stmt', p, type(p).__name__, fld, i, len(lst), c))
        fld = EXPR_FIELDS.get(type(p).__name__)
        if fld:
            lst = getattr(p, fld)
            if all(hasattr(x, 'end_col_offset') or isinstance(x, ast.withitem) for x in lst):
                for i, c in enumerate(lst):
                    out.append(('expr', p, type(p).__name__, fld, i, len(lst), c))
    return tree, out


def _node_span(lines, c):
    if isinstance(c, tuple):            # a key: value pair of a Dict / MatchMapping
        s, _ = _span(lines, c[0])
        _, e = _span(lines, c[1])
        return s, e
    if isinstance(c, ast.withitem):
        a = c.context_expr
        b = c.optional_vars or c.context_expr
        s, _ = _span(lines, a)
        _, e = _span(lines, b)
        return s, e
    return _span(lines, c)


_CALLS = []
_PATCHED = [False]


def _patch():
    if _PATCHED[0]:
        return
    from fst import FST
    orig = FST._put_src

    def rec(self, src, ln, col, end_ln, end_col, *a, **k):
        lines = self.root._lines
        ok = 0 <= ln <= end_ln < len(lines) and (ln, col) <= (end_ln, end_col) and 0 <= col <= len(lines[ln]) and 0 <= end_col
        if not ok:
            _CALLS.append([ln, col, end_ln, end_col, len(lines)])
        return orig(self, src, ln, col, end_ln, end_col, *a, **k)

    FST._put_src = rec
    _PATCHED[0] = True


def run_edit(src, edit, root=None):
    """perform one real edit; `edit` = {'op','kind','path','field','idx','code','trivia', options...}; returns item dict"""
    from fst import FST
    _patch()
    del _CALLS[:]
    tree, tg = targets(src)
    lines = src.split('\n')
    item = {'src': src, 'edit': edit, 'op': edit['op'], 'field': edit['pkind'] + '.' + edit['field'], 'violations': [], 'changed': False,
            'outcome': 'ok'}
    # locate by path
    parent = tree
    for name, i in edit['path']:
        parent = getattr(parent, name) if i is None else getattr(parent, name)[i]
    if edit['field'] == '_pairs':
        lst = list(zip(parent.keys, parent.values if isinstance(parent, ast.Dict) else parent.patterns))
    else:
        lst = getattr(parent, edit['field'])
    idx = edit['idx']
    kind = edit['kind']
    op = edit['op']
    if op == 'insert':
        # the insertion point: anywhere between the neighbours; take the end of the previous sibling / start of the next
        if idx < len(lst):
            s, _ = _node_span(lines, lst[idx])
        else:
            _, s = _node_span(lines, lst[idx - 1])
        e = s
        compound = False
        extra_lines = {s[0]}
        if idx > 0:
            extra_lines.add(_node_span(lines, lst[idx - 1])[1][0])
    else:
        s, e = _node_span(lines, lst[idx])
        compound = isinstance(lst[idx], COMPOUND)
        extra_lines = set()
    if kind == 'expr':
        if idx > 0:
            extra_lines.update(range(_node_span(lines, lst[idx - 1])[0][0], s[0] + 1))
        nxt = idx + 1 if op != 'insert' else idx
        if nxt < len(lst):
            extra_lines.update(range(e[0], _node_span(lines, lst[nxt])[1][0] + 1))
        if hasattr(parent, 'end_lineno') and kind == 'expr' and edit['pkind'] in ('List', 'Tuple', 'Set', 'Call', 'MatchSequence', 'Dict', 'MatchMapping'):
            extra_lines.update(range(e[0], parent.end_lineno))
    if idx < len(lst) and getattr(lst[idx], 'decorator_list', None):
        # start at the `@` token of the first decorator (the expression may be parenthesized / on a later line)
        d = lst[idx].decorator_list[0]
        dpos = (d.lineno - 1, _char_col(lines[d.lineno - 1], d.col_offset))
        ats = [t for t in toks(src) if t.type == tokenize.OP and t.string == '@' and (t.start[0] - 1, t.start[1]) < dpos]
        if ats:
            s = min(s, (ats[-1].start[0] - 1, ats[-1].start[1]))
            if op == 'insert':
                e = s
    k = s[0] - 1
    while k >= 0 and lines[k].rstrip().endswith('\\'):      # a continuation chain leading to the element is repaired with it
        extra_lines.add(k)
        k -= 1
    extra_seps = ()
    if kind == 'stmt' and edit['field'] == 'orelse' and edit['pkind'] == 'If':
        extra_seps = ('else', ':', 'elif')     # `else:` + lone `if` <-> `elif` header rewriting (option elif_)
    if root is None:
        root = FST(src, 'exec')
    f = root
    for name, i in edit['path']:
        f = getattr(f.a, name).f if i is None else getattr(f.a, name)[i].f
    opts = dict(edit.get('options', {}))
    tr = edit['trivia']
    if tr is not None:
        opts['trivia'] = tuple(tr) if isinstance(tr, list) else tr
    try:
        if edit.get('via') == 'slice':       # addressed as a slice of the container (works for Dict / MatchMapping pairs too)
            fa = edit.get('fieldarg')
            if op == 'delete':
                f.put_slice(None, idx, idx + 1, fa, **opts)
            elif op == 'replace':
                f.put_slice(edit['code'], idx, idx + 1, fa, one=edit.get('one', True), **opts)
            else:
                f.put_slice(edit['code'], idx, idx, fa, one=edit.get('one', True), **opts)
        elif op == 'delete' and edit.get('how') == 'cut':
            item['cut'] = getattr(f.a, edit['field'])[idx].f.cut(**opts).src
        elif op == 'delete':
            getattr(f.a, edit['field'])[idx].f.remove(**opts)
        elif op == 'replace':
            getattr(f.a, edit['field'])[idx].f.replace(edit['code'], **opts)
        else:
            f.put_slice(edit['code'], idx, idx, edit['field'], one=(kind == 'expr'), **opts)
        new_src = root.src
    except Exception as ex:
        item['outcome'] = 'raised:' + type(ex).__name__
        item['bad_spans'] = list(_CALLS)
        return item
    item['bad_spans'] = list(_CALLS)
    item['after'] = new_src
    item['changed'] = new_src != src
    if kind == 'expr':
        # the source text of every OTHER element of the container is still there (judged before the parse gate: damage to a sibling,
        # e.g. a string literal cut at a '#', often leaves source that no longer parses or tokenizes)
        flat_new = ''.join(new_src.split())
        for j, sib in enumerate(lst):
            if j == idx and op != 'insert':
                continue
            ss, se = _node_span(lines, sib)
            seg = '\n'.join([lines[ss[0]][ss[1]:]] + lines[ss[0] + 1:se[0]] + [lines[se[0]][:se[1]]]) if se[0] > ss[0] else lines[ss[0]][ss[1]:se[1]]
            if ''.join(seg.split()) not in flat_new:
                item['violations'] = [{'cls': 'sibling-text-changed', 'what': f'the text of the untouched element {seg[:60]!r} is no longer in the source',
                                       'detail': seg}]
                item['outcome'] = 'violation'
                return item
    if op == 'delete' and kind == 'stmt':
        # a deleted statement leaves no NEW text behind: every non-blank line of the result is a line of the original, a protected
        # comment that lost its statement, a `pass` filler, or the remains of a line the statement shared with other code
        before_set = {l.strip() for l in lines}
        before_comments = {t.string.strip() for t in toks(src) if t.type == tokenize.COMMENT}
        shares = lines[s[0]][:s[1]].strip() != '' or (lines[e[0]][e[1]:].strip() != '' and not lines[e[0]][e[1]:].strip().startswith('#'))
        if not shares:
            for l in new_src.split('\n'):
                t = l.strip()
                if t and t not in before_set and t not in before_comments and t != 'pass':
                    item['violations'] = [{'cls': 'line-appeared', 'what': f'after deleting a whole statement the new line {l!r} exists which is '
                                           'neither a line of the original nor a kept comment', 'detail': l}]
                    item['outcome'] = 'violation'
                    return item
    try:
        ast.parse(new_src)
    except SyntaxError:
        item['outcome'] = 'unparsable'
        return item
    new_comments = {t.string for t in toks(edit.get('code') or '') if t.type == tokenize.COMMENT} if edit.get('code') else set()
    tv = opts.get('trivia', True)
    gap = None
    if op == 'delete' and edit['pkind'] == 'Tuple' and idx == 0 and len(lst) > 1:
        ts0 = (parent.lineno - 1, _char_col(lines[parent.lineno - 1], parent.col_offset))
        if lines[ts0[0]][ts0[1]:ts0[1] + 1] != '(':
            gap = _node_span(lines, lst[1])[0]
    new_literals = []
    if edit.get('code'):
        ct = [t for t in toks(edit['code']) if t.type not in NONSIG]
        new_literals = [t.string for k, t in enumerate(ct) if t.type == tokenize.STRING and '\n' in t.string and k and ct[k - 1].string == '=']
    allow_pos = ()
    if edit.get('reindent'):
        allow_pos = {_node_span(lines, lst[0])[0]}          # the `elif` keyword becomes `else:` + `if`
        # option docstr: True = every multi-line Expr string may be re-indented with its block, 'strict' = only those in docstring
        # position, False = none; all other string literals never
        dv = opts.get('docstr', edit.get('docstr_effective', True))
        if dv:
            for n in ast.walk(tree):
                body = getattr(n, 'body', None)
                if not isinstance(body, list):
                    continue
                for k, st in enumerate(body):
                    if isinstance(st, ast.Expr) and isinstance(st.value, ast.Constant) and isinstance(st.value.value, str) and st.end_lineno > st.lineno:
                        if dv is True or (k == 0 and isinstance(n, (ast.FunctionDef, ast.AsyncFunctionDef, ast.ClassDef, ast.Module))):
                            allow_pos.add(_span(lines, st.value)[0])
            for n in ast.walk(tree):            # Expr strings in orelse / finalbody / handlers bodies as well
                for fld_ in ('orelse', 'finalbody'):
                    for st in getattr(n, fld_, []) or []:
                        if dv is True and isinstance(st, ast.Expr) and isinstance(st.value, ast.Constant) and isinstance(st.value.value, str) \
                                and st.end_lineno > st.lineno:
                            allow_pos.add(_span(lines, st.value)[0])
    pforce, pskip = set(), set()
    if op == 'insert' and kind == 'expr' and idx > 0:
        # the line comment after the previous element belongs to it exactly when that element starts its own line (ast extent)
        ps, pe = _node_span(lines, lst[idx - 1])
        (pforce if lines[ps[0]][:ps[1]].strip() == '' else pskip).add(pe[0])
    v = judge(src, new_src, s, e, kind, op, tv, compound, new_comments, extra_lines, extra_seps, gap, allow_pos,
              bool(edit.get('reindent')), new_literals, pforce, pskip)
    if v and op == 'insert' and kind == 'expr' and idx == len(lst) and idx > 0 and isinstance(parent, ast.Tuple) and \
            lines[parent.lineno - 1].encode()[parent.col_offset:parent.col_offset + 1] != b'(':
        # an undelimited tuple ends at its last element: a comment after it is outside the container and an appended element goes
        # in front of it (not judged)
        pend = _node_span(lines, lst[idx - 1])[1][0]
        cpos = {t.string: t.start[0] - 1 for t in toks(src) if t.type == tokenize.COMMENT}
        v = [x for x in v if not (x['cls'] == 'comment-moved-off-its-line' and cpos.get(x['detail'][0]) == pend)]
    if v and op == 'insert' and kind == 'expr' and idx < len(lst):
        # inserting in front of an element that has leading comment lines: the (empty) target slice's LEADING trivia is that comment
        cpos = {t.string: t.start[0] - 1 for t in toks(src) if t.type == tokenize.COMMENT}
        lo_ = _node_span(lines, lst[idx - 1])[1][0] if idx > 0 else -1
        hi_ = _node_span(lines, lst[idx])[0][0]
        for x in v:
            if x['cls'] == 'comment-lost' and lo_ < cpos.get(x['detail'], -9) < hi_:
                x['cls'] = 'comment-lost@insert-before-leading-comment'
            elif x['cls'] == 'line-changed' and lo_ < x['detail'][0] < hi_ and str(x['detail'][1]).strip().startswith('#'):
                x['cls'] = 'line-changed@insert-before-leading-comment'
    if v and op == 'insert' and kind == 'expr' and idx == len(lst) and idx > 0:
        # appending after the last element: the (empty) target slice's trailing trivia is the previous element's line comment
        cpos = {t.string: t.start[0] - 1 for t in toks(src) if t.type == tokenize.COMMENT}
        pend = _node_span(lines, lst[idx - 1])[1][0]
        for x in v:
            if x['cls'] == 'comment-lost' and cpos.get(x['detail']) == pend:
                x['cls'] = 'comment-lost@append-after-line-comment'
    if v is None:
        item['outcome'] = 'untokenizable'
        return item
    item['violations'] = v
    if v:
        item['outcome'] = 'violation'
    return item


def edit_cases(arg):
    src0, seed, per = arg
    rng = random.Random(seed)
    src = renumber_comments(inject_literals(src0, rng))
    if src is None:
        return []
    try:
        tree, tg = targets(src)
    except Exception:
        return []
    if not tg:
        return []
    out = []
    rng.shuffle(tg)
    lines = src.split('\n')

    def is_elif(t):
        kind, p, pkind, fld, i, n, c = t
        return pkind == 'If' and fld == 'orelse' and isinstance(c, ast.If) and n == 1 and \
            lines[c.lineno - 1].encode()[c.col_offset:].decode(errors='ignore').startswith('elif')

    # an `elif` chain: inserting there legitimately re-indents the chain (elif -> else: + if); every such place is edited and
    # judged by tokens only (multi-line literals inside the re-indented block must arrive byte for byte)
    for t in [t for t in tg if is_elif(t)][:4]:
        kind, p, pkind, fld, i, n, c = t
        path = _path(tree, p)
        if path is None:
            continue
        edit = {'op': 'insert', 'kind': 'stmt', 'path': path, 'pkind': pkind, 'field': fld, 'idx': rng.choice([0, 1, 1]),
                'code': rng.choice(['done = True  # newd', 'nn()']), 'trivia': rng.choice([True, False, 'all']),
                'options': rng.choice([{}, {'docstr': False}, {'docstr': 'strict'}, {'docstr': True}]), 'reindent': True}
        try:
            out.append(run_edit(src, edit))
        except Exception as ex:
            out.append({'src': src, 'edit': edit, 'op': 'insert', 'field': pkind + '.' + fld, 'violations': [], 'changed': False,
                        'outcome': 'harness:' + type(ex).__name__ + ':' + str(ex)[:80], 'bad_spans': []})
    for (kind, p, pkind, fld, i, n, c) in [t for t in tg if not is_elif(t)][:per]:
        path = _path(tree, p)
        if path is None:
            continue
        ops = ['replace', 'insert'] + (['delete'] if n >= 2 else [])
        if pkind in ('Import', 'ImportFrom', 'With', 'MatchSequence') or fld in ('handlers', 'cases'):
            ops = [o for o in ops if o == 'delete'] or ['delete']
            if n < 2:
                continue
        op = rng.choice(ops)
        tr = rng.choice(TRIVIA_VALUES)
        sl = (c.context_expr.lineno if isinstance(c, ast.withitem) else c.lineno) - 1
        el = (getattr(c, 'end_lineno', None) or sl + 1) - 1

        def ln_of(x, lead):
            return (max(0, sl - rng.randint(0, 3)) if lead else el + rng.randint(0, 3)) if x == 'LN' else x

        if tr == 'LN':
            tr = ln_of('LN', True)
        elif isinstance(tr, tuple):
            tr = [ln_of(x, k == 0 and len(tr) == 2) for k, x in enumerate(tr)]
        options = {}
        if kind == 'stmt':
            if rng.random() < 0.4:
                options['pep8space'] = rng.choice([True, False, 1])
            if rng.random() < 0.3:
                options['docstr'] = rng.choice([True, False, 'strict'])
            if rng.random() < 0.3:
                options['elif_'] = rng.choice([True, False])
        code = None
        if op != 'delete':
            code = rng.choice(NEW_STMTS if kind == 'stmt' else NEW_EXPRS)
            if kind == 'stmt' and fld == 'orelse' and pkind == 'If' and rng.random() < 0.5:
                code = 'if nn:  # new2\n    pass  # new3'
        if op == 'insert' and rng.random() < 0.5:
            i = i + 1 if i + 1 <= n else i
            if i >= n:
                continue            # appending at the end: the insertion point is after the last element; keep to inner gaps
        edit = {'op': op, 'kind': kind, 'path': path, 'pkind': pkind, 'field': fld, 'idx': i, 'code': code,
                'trivia': tr, 'options': options}
        try:
            out.append(run_edit(src, edit))
        except Exception as ex:
            out.append({'src': src, 'edit': edit, 'op': op, 'field': pkind + '.' + fld, 'violations': [], 'changed': False,
                        'outcome': 'harness:' + type(ex).__name__ + ':' + str(ex)[:80], 'bad_spans': []})
    import hashlib
    for it in out:      # keep the parent process small: full texts only for items that will be reported
        it['key'] = hashlib.blake2b((it['src'] + repr(it['edit'])).encode(), digest_size=8).hexdigest()
        if not it['violations'] and not it.get('bad_spans'):
            it.pop('after', None)
            it['src'] = it['src'][:300]
    return out


def classify(it):
    """-> [(signature, what, witness)] for one executed edit (shared by the sweep and by replay)"""
    out = []
    bad = it.get('bad_spans', [])
    if bad:
        # `_put_src` called with an unordered span (end_ln = ln - 1, or -1 which wraps to the last line): the hypothesis
        # ValidSpan of the theorems is violated by the caller; text outside the element is at risk. One signature.
        out.append((f'C04|{it["op"]}|stmt|put_src-unordered-span',
                    f'_put_src called with unordered span {bad[0][:4]} ({bad[0][4]} lines) during {it["op"]} with trivia='
                    f'{it["edit"].get("trivia")!r}: text outside the edited element is destroyed or duplicated',
                    {'src': it['src'], 'edit': it['edit'], 'after': it.get('after'), 'span': bad[0],
                     'oracle': [v['cls'] for v in it['violations']]}))
        return out
    for v in it['violations']:
        out.append((f'C04|{it["op"]}|{it["field"].rstrip(".")}|{v["cls"]}', v['what'],
                    {'src': it['src'], 'edit': it['edit'], 'after': it.get('after'), 'detail': v.get('detail')}))
    return out


# ---------------------------------------------------------------------------------------------------------------------
# two-step histories: replace an expression by a call, then edit a child of the NEW node.  The second edit is addressed
# through the positions the first edit gave to the new nodes, so wrong placement (e.g. character instead of byte columns
# after multi-byte text on the line) makes it overwrite text that is not part of the edited element.

KW_COMPOUND = ('if', 'for', 'while', 'def', 'class', 'with', 'try', 'match', 'async', '@', 'elif', 'else', 'except', 'finally',
               'case')
MB_PREFIXES = ['ü = "é"; ', 'ñ("日本", "héllo wörld"); ', '名前 = "ß"; ']
STEP1 = [('nf(p1, p2)', 'nf(zz, p2)'), ('nf(p1,\n   p2)', 'nf(zz,\n   p2)'), ('ñf("é", p2)', 'ñf(zz, p2)')]


def expr_targets(tree):
    """[(path, parent kind, field, node)] Load-context expressions that a call may replace one for one"""
    out = []

    def go(n, path):
        for name, val in ast.iter_fields(n):
            items = [(i, c) for i, c in enumerate(val)] if isinstance(val, list) else [(None, val)]
            for i, c in items:
                if not isinstance(c, ast.AST):
                    continue
                p2 = path + [(name, i)]
                if isinstance(c, ast.expr) and isinstance(getattr(c, 'ctx', ast.Load()), ast.Load) and \
                        not isinstance(c, (ast.Starred, ast.Slice, ast.JoinedStr, ast.FormattedValue, ast.Yield, ast.YieldFrom, ast.Await)) and \
                        (type(n).__name__, name) in (('Assign', 'value'), ('AugAssign', 'value'), ('Return', 'value'), ('Expr', 'value'),
                                                     ('Call', 'args'), ('List', 'elts'), ('Tuple', 'elts'), ('Set', 'elts'),
                                                     ('BinOp', 'left'), ('BinOp', 'right'), ('Compare', 'left'), ('keyword', 'value'),
                                                     ('Dict', 'values'), ('Subscript', 'slice'), ('IfExp', 'body'), ('AnnAssign', 'value')):
                    out.append((p2, type(n).__name__, name, c))
                if not isinstance(c, (ast.JoinedStr, ast.FormattedValue)):
                    go(c, p2)

    go(tree, [])
    return out


def add_multibyte_prefix(src, rng):
    """put a simple statement with non-ASCII text in front of some simple statements ON THE SAME LINE (`é = "ñ"; stmt`)"""
    try:
        ts = toks(src)
    except Exception:
        return src
    lines = src.split('\n')
    starts = sorted({t.end[0] for t in ts if t.type == tokenize.NEWLINE} | {0})
    cand = [i for i in starts if i < len(lines) and lines[i].strip() and not lines[i].lstrip().startswith(KW_COMPOUND + ('#',))]
    rng.shuffle(cand)
    cur = src
    done = 0
    for i in cand:
        ls = cur.split('\n')
        ind = ls[i][:len(ls[i]) - len(ls[i].lstrip())]
        new = '\n'.join(ls[:i] + [ind + rng.choice(MB_PREFIXES) + ls[i][len(ind):]] + ls[i + 1:])
        try:
            ast.parse(new)
        except Exception:
            continue
        cur = new
        done += 1
        if done >= 3:
            break
    return cur


def _nav(root, path):
    f = root
    for name, i in path:
        f = getattr(f.a, name).f if i is None else getattr(f.a, name)[i].f
    return f


def _tree_vs_parse(root):
    import util
    try:
        return util.tree_equals_parse(root)
    except Exception as ex:
        return 'tree comparison raised ' + type(ex).__name__


def run_two_step(src, edit):
    """edit = {'op': 'replace2', 'path', 'pkind', 'field', 'code', 'final'}"""
    from fst import FST
    _patch()
    del _CALLS[:]
    item = {'src': src, 'edit': edit, 'op': 'replace2', 'field': edit['pkind'] + '.' + edit['field'], 'violations': [], 'changed': False,
            'outcome': 'ok', 'bad_spans': []}
    tree = ast.parse(src)
    node = tree
    for name, i in edit['path']:
        node = getattr(node, name) if i is None else getattr(node, name)[i]
    lines = src.split('\n')
    s, e = _span(lines, node)
    a1 = sum(len(x) + 1 for x in lines[:s[0]]) + s[1]
    a2 = sum(len(x) + 1 for x in lines[:e[0]]) + e[1]
    # the element's own grouping parentheses belong to it (generous: every balanced pair directly around it)
    T = [(t.string, (t.start[0] - 1, t.start[1]), (t.end[0] - 1, t.end[1])) for t in toks(src) if t.type not in NONSIG and t.type != tokenize.COMMENT]
    inside = [k for k, t in enumerate(T) if t[1] >= s and t[2] <= e]
    if inside:
        a, b = inside[0], inside[-1]
        while a > 0 and b + 1 < len(T) and T[a - 1][0] == '(' and T[b + 1][0] == ')':
            a -= 1
            b += 1
        if a != inside[0]:          # (token ends of multi-line strings after non-ASCII text are unreliable in 3.12: keep ast's)
            s, e = T[a][1], T[b][2]
    o1 = sum(len(x) + 1 for x in lines[:s[0]]) + s[1]
    o2 = sum(len(x) + 1 for x in lines[:e[0]]) + e[1]
    item['mb_before'] = not lines[s[0]][:s[1]].isascii()
    root = FST(src, 'exec')
    try:
        _nav(root, edit['path']).replace(edit['code'], raw=False)
    except Exception as ex:
        item['outcome'] = 'raised:' + type(ex).__name__
        return item
    src1 = root.src
    v = []

    def outside(new, step):
        if not (new.startswith(src[:o1]) and new.endswith(src[o2:]) and len(new) >= o1 + len(src) - o2):
            v.append({'cls': 'outside-text-changed', 'what': f'after step {step} the text before / after the replaced expression is not '
                      'byte-identical', 'detail': [step, new[max(0, o1 - 30):o1 + 60]]})
            return True
        return False

    bad = outside(src1, 1)
    if not bad and (d := _tree_vs_parse(root)):
        v.append({'cls': 'tree!=parse', 'what': 'after the replacement the node positions / tree differ from a fresh parse of the '
                  'source: ' + d[:300], 'detail': [1, d[:300]]})
    if not bad:         # the second edit is addressed through the positions the first one left behind
        try:
            _nav(root, edit['path']).args[0].replace('zz', raw=False)
        except Exception as ex:
            item['outcome'] = 'raised2:' + type(ex).__name__
            item['after'] = src1
            return item
        src2 = root.src
        item['after'] = src2
        nv = len(v)
        if not outside(src2, 2):
            mid = src2[o1:len(src2) - (len(src) - o2)]
            m_, f_ = ''.join(mid.split()), ''.join(edit['final'].split())
            # what surrounded the element inside its (generously taken) own parentheses may stay or go (parentheses, comments and
            # continuations inside them belong to the element), nothing foreign may appear
            rest, pool = m_.replace(f_, '', 1), iter(''.join((src[o1:a1] + src[a2:o2]).split()))
            if f_ not in m_ or not all(ch in pool for ch in rest if ch not in '()'):
                v.append({'cls': 'outside-text-changed', 'what': f'the second edit (args[0] of the new call := zz) produced {mid!r} instead of '
                          f'{edit["final"]!r}', 'detail': [2, mid]})
            elif not v and (d := _tree_vs_parse(root)):
                v.append({'cls': 'tree!=parse', 'what': 'after the second edit the tree differs from a fresh parse: ' + d[:300],
                          'detail': [2, d[:300]]})
        if len(v) > nv and v[-1]['cls'] == 'outside-text-changed':
            v.insert(0, v.pop())        # text damage outside the element is the headline
    else:
        item['after'] = src1
    item['bad_spans'] = list(_CALLS)
    item['changed'] = True
    item['violations'] = v
    if v:
        item['outcome'] = 'violation'
    return item


def two_step_cases(arg):
    src0, seed, per = arg
    rng = random.Random(seed)
    src = add_multibyte_prefix(src0, rng) if rng.random() < 0.7 else src0
    try:
        tree = ast.parse(src)
        tg = expr_targets(tree)
    except Exception:
        return []
    lines = src.split('\n')

    def mb(t):
        c = t[3]
        return not lines[c.lineno - 1].encode()[:c.col_offset].isascii()

    rng.shuffle(tg)
    tg.sort(key=lambda t: not mb(t))            # targets with multi-byte text before them on the line first
    out = []
    for path, pkind, fld, c in tg[:per]:
        code, final = rng.choice(STEP1)
        edit = {'op': 'replace2', 'path': path, 'pkind': pkind, 'field': fld, 'code': code, 'final': final}
        try:
            out.append(run_two_step(src, edit))
        except Exception as ex:
            out.append({'src': src, 'edit': edit, 'op': 'replace2', 'field': pkind + '.' + fld, 'violations': [], 'changed': False,
                        'outcome': 'harness:' + type(ex).__name__ + ':' + str(ex)[:80], 'bad_spans': []})
    import hashlib
    for it in out:
        it['key'] = hashlib.blake2b((it['src'] + repr(it['edit'])).encode(), digest_size=8).hexdigest()
        if not it['violations']:
            it.pop('after', None)
            it['src'] = it['src'][:300]
    return out


# ---------------------------------------------------------------------------------------------------------------------
# histories with trivia-changing ACCESSORS: reads that fill the caches of every ancestor, an accessor that changes trivia
# text of a statement (line comment, docstring, parentheses), then a structural edit of an enclosing block on the SAME live
# tree.  After every step everything outside the affected element is byte-identical.

ACC_COMMENTS = ['the current state of the world, explained at length', 'x', '  # full one', None, '']


def _fill_caches(root, f):
    """what a user does when looking around: source / location of the node and of everything above it"""
    n = f
    while n is not None:
        try:
            _ = n.loc, n.bloc
            _ = n.src if n.parent is not None else None
            if n.is_stmtlike:
                _ = n.own_src() if hasattr(n, 'own_src') else None
        except Exception:
            pass
        n = n.parent
    _ = root.lines, root.src


def run_history(src, hist):
    """hist = {'op': 'history', 'path' (to a statement list owner), 'pkind', 'field', 'idx', 'acc': accessor spec,
    'up': how many enclosing statements above to edit, 'edit': 'cut'|'remove'|'replace', 'trivia'}"""
    from fst import FST
    _patch()
    item = {'src': src, 'edit': hist, 'op': 'history', 'field': hist['pkind'] + '.' + hist['field'], 'violations': [], 'changed': True,
            'outcome': 'ok', 'bad_spans': []}
    root = FST(src, 'exec')
    f = _nav(root, hist['path'])
    stmt = getattr(f.a, hist['field'])[hist['idx']].f
    _fill_caches(root, stmt)
    lines = src.split('\n')
    acc = hist['acc']
    try:
        if acc[0] == 'comment':
            stmt.put_line_comment(acc[1], full=acc[2]) if acc[2] else stmt.put_line_comment(acc[1])
        elif acc[0] == 'docstr':
            stmt.put_docstr(acc[1])
        elif acc[0] == 'par':
            v = getattr(stmt.a, 'value', None)
            if v is None:
                item['outcome'] = 'skipped'
                return item
            v.f.par(force=True) if acc[1] else v.f.unpar()
        src2 = root.src
    except Exception as ex:
        item['outcome'] = 'raised-accessor:' + type(ex).__name__
        return item
    item['after_accessor'] = src2
    # oracle for the accessor step: only lines of the statement itself may change
    st = ast.parse(src)
    node = st
    for name, i in hist['path']:
        node = getattr(node, name) if i is None else getattr(node, name)[i]
    sn = getattr(node, hist['field'])[hist['idx']]
    s0, e0 = _span(lines, sn)
    l2 = src2.split('\n')
    shares = lines[s0[0]][:s0[1]].strip() != '' or (lines[e0[0]][e0[1]:].strip() != '' and not lines[e0[0]][e0[1]:].strip().startswith('#')) \
        or (s0[0] > 0 and lines[s0[0] - 1].rstrip().endswith('\\') and
            not any(t.type == tokenize.COMMENT and t.start[0] == s0[0] for t in toks(src)))
    if shares:
        # the statement shares its logical line with other code: the accessor may legitimately re-lay out that line (block
        # normalisation); only tokens are compared: every token but the statement's own line comment survives in order
        try:
            tb = [t.string for t in toks(src) if t.type not in NONSIG and not (t.type == tokenize.COMMENT and t.start[0] - 1 == e0[0])]
            ta = [t.string for t in toks(src2) if t.type not in NONSIG]
        except Exception:
            tb = ta = []
        it_ = iter(ta)
        if not all(x in it_ for x in tb if x not in (';', '(', ')')):
            item['violations'] = [{'cls': 'accessor-outside-text-changed', 'what': f'{acc[0]} accessor lost a token outside its statement',
                                   'detail': acc}]
            item['outcome'] = 'violation'
            item['after'] = src2
            return item
    elif l2[:s0[0]] != lines[:s0[0]] or l2[len(l2) - (len(lines) - e0[0] - 1):] != lines[e0[0] + 1:]:
        item['violations'] = [{'cls': 'accessor-outside-text-changed', 'what': f'{acc[0]} accessor changed lines outside its statement',
                               'detail': acc}]
        item['outcome'] = 'violation'
        item['after'] = src2
        return item
    try:
        tree2 = ast.parse(src2)
    except SyntaxError:
        item['outcome'] = 'unparsable-accessor'
        return item
    # structural edit of an enclosing statement (same live tree); judged against src2 with the single-edit oracle
    path = list(hist['path'])
    fld, idx = hist['field'], hist['idx']
    for _ in range(hist['up']):
        # go up to the statement list that contains the owner of (fld, idx)
        while path and not (path[-1][1] is not None and path[-1][0] in STMT_FIELDS):
            path.pop()
        if not path:
            break
        fld, idx = path.pop()
    owner = tree2
    for name, i in path:
        owner = getattr(owner, name) if i is None else getattr(owner, name)[i]
    if not isinstance(getattr(owner, fld, None), list) or (len(getattr(owner, fld)) < 2 and hist['edit'] != 'replace'):
        item['outcome'] = 'no-enclosing'
        return item
    edit = {'op': 'replace' if hist['edit'] == 'replace' else 'delete', 'how': hist['edit'], 'kind': 'stmt', 'path': path,
            'pkind': type(owner).__name__, 'field': fld, 'idx': idx, 'code': 'zz = 9  # new1' if hist['edit'] == 'replace' else None,
            'trivia': hist['trivia'], 'options': {}}
    it2 = run_edit(src2, edit, root=root)
    # the same structural edit on a FRESH parse of the same source (nothing cached) must give the same text: what the live tree
    # remembers from before the accessor may not influence which text an edit removes
    it3 = run_edit(src2, edit)
    if it2['outcome'].split(':')[0] != 'raised' and it3['outcome'].split(':')[0] != 'raised' and \
            (it2.get('after'), it2.get('cut')) != (it3.get('after'), it3.get('cut')):
        item['violations'] = [{'cls': 'live-vs-fresh-differs', 'what': f'{hist["edit"]} of the enclosing statement after a {acc[0]} accessor gives a '
                               'different text on the live tree than on a fresh parse of the same source', 'detail':
                               {'live': [it2.get('after'), it2.get('cut')], 'fresh': [it3.get('after'), it3.get('cut')]}}]
        item['outcome'] = 'violation'
        item['after'] = it2.get('after')
        item['field'] = edit['pkind'] + '.' + fld
        return item
    item['outcome'] = it2['outcome']
    item['violations'] = it2['violations']
    item['bad_spans'] = it2.get('bad_spans', [])
    item['after'] = it2.get('after')
    if it2.get('cut') is not None and acc[0] == 'comment' and acc[1] and hist['up'] >= 1 and not it2['violations']:
        # the new comment travels with the cut block, whole and exactly once
        txt = acc[1].strip().lstrip('#').strip()
        if (it2['cut'] + '\n' + (it2.get('after') or '')).count(txt) != 1 and src2.count(txt) == 1:
            item['violations'] = [{'cls': 'comment-split', 'what': 'the comment put on the last statement is not whole / not exactly once in '
                                   '(cut block + rest)', 'detail': txt}]
            item['outcome'] = 'violation'
    item['field'] = edit['pkind'] + '.' + fld
    return item


def history_cases(arg):
    src0, seed, per = arg
    rng = random.Random(seed)
    src = renumber_comments(src0)
    if src is None:
        return []
    try:
        tree, tg = targets(src)
    except Exception:
        return []
    # statements nested in a block (so that there is an enclosing statement to edit), the LAST of their block first
    cands = [t for t in tg if t[0] == 'stmt' and t[2] != 'Module' and t[3] in ('body', 'orelse', 'finalbody') and isinstance(t[6], ast.stmt)]
    rng.shuffle(cands)
    cands.sort(key=lambda t: t[4] != t[5] - 1)
    out = []
    lines = src.split('\n')
    for (kind, p, pkind, fld, i, n, c) in cands[:per]:
        path = _path(tree, p)
        if path is None:
            continue
        has_comment = '#' in lines[c.end_lineno - 1][c.end_col_offset:] if c.end_lineno - 1 < len(lines) else False
        accs = [('comment', rng.choice(ACC_COMMENTS[:2]), False), ('comment', rng.choice(ACC_COMMENTS), False)]
        if has_comment:
            accs += [('comment', ACC_COMMENTS[0], False), ('comment', None, False), ('comment', '  # full one, also longer than before', True)]
        if isinstance(c, (ast.FunctionDef, ast.ClassDef, ast.AsyncFunctionDef)):
            accs.append(('docstr', rng.choice(['New doc\n  with lines', None])))
        if isinstance(c, (ast.Assign, ast.Return, ast.Expr)) and getattr(c, 'value', None) is not None:
            accs.append(('par', rng.random() < 0.7))
        for acc in accs:
            if acc[0] == 'comment' and isinstance(c, COMPOUND):
                continue            # the line comment of a block statement is its header's: keep to simple statements
            hist = {'op': 'history', 'path': path, 'pkind': pkind, 'field': fld, 'idx': i, 'acc': list(acc),
                    'up': rng.choice([1, 1, 1, 2, 0]), 'edit': rng.choice(['cut', 'remove', 'replace']),
                    'trivia': rng.choice([True, False, 'all', ['none', 'none'], ['block', 'line']])}
            try:
                out.append(run_history(src, hist))
            except Exception as ex:
                out.append({'src': src, 'edit': hist, 'op': 'history', 'field': pkind + '.' + fld, 'violations': [], 'changed': False,
                            'outcome': 'harness:' + type(ex).__name__ + ':' + str(ex)[:80], 'bad_spans': []})
    import hashlib
    for it in out:
        it['key'] = hashlib.blake2b((it['src'] + repr(it['edit'])).encode(), digest_size=8).hexdigest()
        if not it['violations'] and not it.get('bad_spans'):
            it.pop('after', None)
            it.pop('after_accessor', None)
            it['src'] = it['src'][:300]
    return out


# ---------------------------------------------------------------------------------------------------------------------
# option channels: the same edit with the same effective option value, given per call / `with FST.options()` /
# `FST.set_options()`, has the same outcome (put paths: replace / remove / insert / slice delete; get paths: copy / cut)

CHANNEL_OPTS = [('trivia', (False, False)), ('trivia', False), ('trivia', 'all'), ('trivia', ('none', 'all')), ('trivia', 'block+'),
                ('trivia', ('all+', 'block+1')), ('pep8space', False), ('pep8space', 1), ('docstr', False), ('docstr', 'strict'),
                ('elif_', False), ('pars', False), ('pars', True)]
CHANNEL_OPS = ['replace', 'remove', 'insert', 'delslice', 'cut', 'copy']


def _do_channel_op(root, path, fld, idx, op, code, opts):
    f = _nav(root, path)
    tgt = getattr(f.a, fld)[idx].f
    extra = None
    if op == 'replace':
        tgt.replace(code, **opts)
    elif op == 'remove':
        tgt.remove(**opts)
    elif op == 'insert':
        f.put_slice(code, idx, idx, fld, **opts)
    elif op == 'delslice':
        f.put_slice(None, idx, idx + 1, fld, **opts)
    elif op == 'cut':
        extra = tgt.cut(**opts).src
    elif op == 'copy':
        extra = tgt.copy(**opts).src
    return root.src, extra


def run_channels(src, spec):
    """spec = {'op': 'channels', 'path', 'pkind', 'field', 'idx', 'eop', 'code', 'opt': [name, value]}"""
    from fst import FST
    name, val = spec['opt']
    val = tuple(val) if isinstance(val, list) else val
    item = {'src': src, 'edit': spec, 'op': 'channels', 'field': spec['pkind'] + '.' + spec['field'], 'violations': [], 'changed': False,
            'outcome': 'ok', 'bad_spans': []}
    res = {}
    for ch in ('call', 'with', 'set'):
        try:
            root = FST(src, 'exec')
            if ch == 'call':
                r = _do_channel_op(root, spec['path'], spec['field'], spec['idx'], spec['eop'], spec['code'], {name: val})
            elif ch == 'with':
                with FST.options(**{name: val}):
                    r = _do_channel_op(root, spec['path'], spec['field'], spec['idx'], spec['eop'], spec['code'], {})
            else:
                old = FST.set_options(**{name: val})
                try:
                    r = _do_channel_op(root, spec['path'], spec['field'], spec['idx'], spec['eop'], spec['code'], {})
                finally:
                    FST.set_options(**old)
        except Exception as ex:
            r = ('raised:' + type(ex).__name__, None)
        res[ch] = r
    item['changed'] = res['call'][0] != src
    if res['call'][0].startswith('raised:') and res['with'][0].startswith('raised:') and res['set'][0].startswith('raised:'):
        item['outcome'] = 'raised'
        return item
    for ch in ('with', 'set'):
        if res[ch] != res['call']:
            item['violations'] = [{'cls': f'option-channel-differs@{name}', 'what': f'{spec["eop"]} with {name}={val!r} given per call and via '
                                   f'{"FST.options()" if ch == "with" else "FST.set_options()"} have different results', 'detail':
                                   {'per_call': res['call'], ch: res[ch]}}]
            item['outcome'] = 'violation'
            item['after'] = res[ch][0]
            break
    return item


def channel_cases(arg):
    src0, seed, per = arg
    rng = random.Random(seed)
    src = renumber_comments(src0)
    if src is None:
        return []
    try:
        tree, tg = targets(src)
    except Exception:
        return []
    cands = [t for t in tg if t[0] == 'stmt' or t[2] in ('List', 'Tuple', 'Set', 'Call')]
    rng.shuffle(cands)
    out = []
    k = 0
    for (kind, p, pkind, fld, i, n, c) in cands[:per]:
        path = _path(tree, p)
        if path is None:
            continue
        for eop in CHANNEL_OPS:            # deterministic product ops x options, every channel
            if eop in ('remove', 'delslice', 'cut') and n < 2:
                continue
            if kind == 'stmt' and fld in ('handlers',) and eop in ('replace', 'insert'):
                continue
            for name, val in CHANNEL_OPTS:
                if kind == 'expr' and name in ('pep8space', 'docstr', 'elif_'):
                    continue
                if kind == 'stmt' and name == 'pars':
                    continue
                k += 1
                code = ('zz = 9  # new1' if kind == 'stmt' else 'zz') if eop in ('replace', 'insert') else None
                if kind == 'stmt' and fld == 'orelse' and name == 'elif_':
                    code = 'if nn:  # new2\n    pass'
                spec = {'op': 'channels', 'path': path, 'pkind': pkind, 'field': fld, 'idx': i, 'eop': eop, 'code': code,
                        'opt': [name, list(val) if isinstance(val, tuple) else val]}
                try:
                    out.append(run_channels(src, spec))
                except Exception as ex:
                    out.append({'src': src, 'edit': spec, 'op': 'channels', 'field': pkind + '.' + fld, 'violations': [], 'changed': False,
                                'outcome': 'harness:' + type(ex).__name__ + ':' + str(ex)[:80], 'bad_spans': []})
    import hashlib
    for it in out:
        it['key'] = hashlib.blake2b((it['src'] + repr(it['edit'])).encode(), digest_size=8).hexdigest()
        if not it['violations']:
            it.pop('after', None)
            it['src'] = it['src'][:200]
    return out


# ---------------------------------------------------------------------------------------------------------------------
# pure insertion into every EMPTY optional block x trailing decorations of the preceding last statement x nesting depth
# (deterministic product).  A pure insertion keeps every comment token and every non-blank original line, in order.

EB_TEMPLATES = [     # (name, source with {B} = the decorated last statement of the preceding block, kind, field, new code)
    ('if', 'if c:\n    a = 0\n{B}', 'If', 'orelse', 'zz = 9  # new1'),
    ('for', 'for i in x:\n    a = 0\n{B}', 'For', 'orelse', 'zz = 9  # new1'),
    ('while', 'while c:\n{B}', 'While', 'orelse', 'zz = 9  # new1'),
    ('try-else', 'try:\n    a = 0\nexcept E:\n{B}', 'Try', 'orelse', 'zz = 9  # new1'),
    ('try-finally', 'try:\n    a = 0\nexcept E:\n{B}', 'Try', 'finalbody', 'zz = 9  # new1'),
    ('try-else-finally', 'try:\n    a = 0\nexcept E:\n    b = 0\nelse:\n{B}', 'Try', 'finalbody', 'zz = 9  # new1'),
    ('try-handlers', 'try:\n{B}\nfinally:\n    f = 0', 'Try', 'handlers', 'except ZZ:\n    pass  # new1'),
    ('if-headline', 'if c: {H}', 'If', 'orelse', 'zz = 9  # new1'),
    ('for-headline', 'for i in x: {H}', 'For', 'orelse', 'zz = 9  # new1'),
    ('elif', 'if c:\n    a = 0\nelif d:\n{B}', 'If', 'orelse', 'zz = 9  # new1'),
]
EB_LAST = ['t += 1', 't += 1;', 't += 1; ', 't += 1  # c1', 't += 1;  # c1', 't += 1 ; # c1 é', 't += 1 ;  # c1 keep \\', 't += \\\n        1',
           't += \\\n        1 ;  # c1', 'u = 0; t += 1;  # c1', 't += 1 \\\n    ;  # c1', 't = (1,  # in\n         2) ;  # c1']
EB_AFTER = ['', '\n', '\n{I}# c2', '\n{L}# c2', '\n{I}    # c2', '\n\n{I}# c2\n', '\n{I}# c2\n\n{L}# c3', '\n{L}# c2 \\']
EB_WRAPS = [('', ''), ('def f():\n', '    '), ('class K:\n    def m(self):\n', '        '), ('if q:\n    pass\nelse:\n', '    ')]
EB_TAILS = ['', '\n{L}done = 1', '\n{L}done = 1  # c9\n']


def empty_block_programs():
    """[(source, path to the compound statement, kind, field, code)] the whole product (about 10k, a few hundred distinct shapes)"""
    out = []
    for (name, tmpl, kind, fld, code) in EB_TEMPLATES:
        for last in EB_LAST:
            for after in EB_AFTER:
                for (wrap, ind) in EB_WRAPS:
                    for tail in EB_TAILS:
                        I, L = ind + '    ', ind
                        body_last = '    ' + last
                        if '{H}' in tmpl:
                            if '\n' in last:
                                continue
                            src = tmpl.replace('{H}', last)
                        else:
                            src = tmpl.replace('{B}', body_last)
                        src = '\n'.join(ind + l if l else l for l in src.split('\n'))
                        if name == 'try-handlers':
                            # decorations go after the try body's last statement, before `finally:`
                            head, fin = src.split('\n' + ind + 'finally:')
                            src = head + after.replace('{I}', I).replace('{L}', L) + '\n' + ind + 'finally:' + fin + tail.replace('{L}', L)
                        else:
                            src = src + after.replace('{I}', I).replace('{L}', L) + tail.replace('{L}', L)
                        src = wrap + src
                        try:
                            tree = ast.parse(src)
                        except SyntaxError:
                            continue
                        # path: the compound statement is the last statement of the wrapper body
                        path = []
                        n = tree
                        if wrap.startswith('def'):
                            path = [('body', 0)]
                        elif wrap.startswith('class'):
                            path = [('body', 0), ('body', 0)]
                        elif wrap.startswith('if q'):
                            path = [('body', 0)]
                        for nm, i in path:
                            n = getattr(n, nm)[i]
                        lst = n.orelse if wrap.startswith('if q') else n.body
                        idx = [k for k, x in enumerate(lst) if type(x).__name__ == kind]
                        if not idx:
                            continue
                        path = path + [('orelse' if wrap.startswith('if q') else 'body', idx[0])]
                        tgt = lst[idx[0]]
                        if name == 'elif':
                            tgt = tgt.orelse[0]
                            path = path + [('orelse', 0)]
                        if getattr(tgt, fld):
                            continue            # (a trailing `done = 1` may have been absorbed): the field must be empty
                        out.append((src, path, kind, fld, code))
    return out


def run_empty_block(src, edit):
    """edit = {'op': 'insert-empty', 'path', 'pkind', 'field', 'code'}"""
    from fst import FST
    item = {'src': src, 'edit': edit, 'op': 'insert-empty', 'field': edit['pkind'] + '.' + edit['field'], 'violations': [], 'changed': True,
            'outcome': 'ok', 'bad_spans': []}
    root = FST(src, 'exec')
    try:
        _nav(root, edit['path']).put_slice(edit['code'], 0, 0, edit['field'])
        new = root.src
    except Exception as ex:
        item['outcome'] = 'raised:' + type(ex).__name__
        return item
    item['after'] = new
    v = []
    try:
        cb = [t.string for t in toks(src) if t.type == tokenize.COMMENT]
        ca = [t.string for t in toks(new) if t.type == tokenize.COMMENT]
    except Exception:
        item['outcome'] = 'untokenizable'
        cb = ca = None
    if cb is not None:
        it_ = iter(ca)
        lost = [c for c in cb if c not in it_]
        if lost:
            v.append({'cls': 'comment-lost', 'what': f'pure insertion into the empty {edit["field"]} lost / reordered comment {lost[0]!r}', 'detail': lost})
    if not v and (mv := comment_line_partner_changed(src, new)):
        v.append({'cls': 'comment-moved-off-its-line', 'what': f'after a pure insertion the comment {mv[0]!r} no longer follows {mv[1]!r} on its line '
                  f'(now {mv[2]!r})', 'detail': list(mv)})
    bl = [l for l in src.split('\n') if l.strip()]
    al = [l for l in new.split('\n') if l.strip()]
    it_ = iter(al)
    gone = [l for l in bl if l not in it_]
    if gone and not v:
        # header-line bodies are legitimately moved to their own line when the block gets a sibling clause: compare those by tokens
        tb = [t.string for t in toks(src) if t.type not in NONSIG]
        ta = iter([t.string for t in toks(new) if t.type not in NONSIG]) if item['outcome'] == 'ok' else iter([])
        if not all(x in ta for x in tb if x != ';'):
            v.append({'cls': 'line-changed', 'what': f'pure insertion into the empty {edit["field"]} changed the original line {gone[0]!r}', 'detail': gone[:3]})
    item['violations'] = v
    if v:
        item['outcome'] = 'violation'
    return item


def empty_block_cases(arg):
    chunk = arg
    out = []
    for (src, path, kind, fld, code) in chunk:
        edit = {'op': 'insert-empty', 'path': path, 'pkind': kind, 'field': fld, 'code': code}
        try:
            it = run_empty_block(src, edit)
        except Exception as ex:
            it = {'src': src, 'edit': edit, 'op': 'insert-empty', 'field': kind + '.' + fld, 'violations': [], 'changed': False,
                  'outcome': 'harness:' + type(ex).__name__ + ':' + str(ex)[:80], 'bad_spans': []}
        import hashlib
        it['key'] = hashlib.blake2b((src + fld).encode(), digest_size=8).hexdigest()
        if not it['violations']:
            it.pop('after', None)
        out.append(it)
    return out


# ---------------------------------------------------------------------------------------------------------------------
# deterministic product over comma-separated containers (incl. key: value containers and the undelimited subscript tuple):
# container x element shape x layout of comments x delete / insert at every position x trivia values

XP_CONTAINERS = [   # (kind, prefix, suffix, path from module to the container, field for my spans, field arg for pfst, insert code, one)
    ('List', 'x = [', ']', [('body', 0), ('value', None)], 'elts', None, 'zz', True),
    ('Tuple', 'x = (', ')', [('body', 0), ('value', None)], 'elts', None, 'zz', True),
    ('Set', 'x = {', '}', [('body', 0), ('value', None)], 'elts', None, 'zz', True),
    ('Call', 'f(', ')', [('body', 0), ('value', None)], 'args', 'args', 'zz', True),
    ('Tuple', 'y[', ']', [('body', 0), ('value', None), ('slice', None)], 'elts', None, 'zz', True),
    ('Dict', 'x = {', '}', [('body', 0), ('value', None)], '_pairs', None, '{zz: 9}', False),
    ('MatchSequence', 'match v:\n    case [', ']: pass', [('body', 0), ('cases', 0), ('pattern', None)], 'patterns', None, 'zz', True),
    ('MatchMapping', 'match v:\n    case {', '}: pass', [('body', 0), ('cases', 0), ('pattern', None)], '_pairs', None, '{9: zz}', False),
]
XP_SEQ_ELEMS = [['aa', 'bb', 'cc'], ['aa', '(bb +\n        b2)', 'cc'], ['a1', 'b1[\n        0]', 'c1[\n        0]']]
XP_PAIR_ELEMS = [['1: aa', '2: bb', '3: cc'], ['1:\n        aa', '2:\n        bb', '3:\n        cc'],
                 ['1: aa', '2: (bb +\n        b2)', '3: (cc +\n        c2)']]
XP_MATCH_SEQ = [['aa', 'bb', 'cc'], ['aa', '[bb,\n        b2]', 'cc']]
XP_MATCH_PAIR = [['1: aa', '2: bb', '3: cc'], ['1:\n        aa', '2:\n        bb', '3:\n        cc'], ['1: aa', '2: [bb,\n        b2]', '3: [cc,\n        c2]']]
XP_TRIVIA = [True, False, [False, False], ['block', 'none'], ['none', 'line'], ['all', 'all'], 'all']


def _xp_layouts(e, ind):
    a, b, c = e
    return [
        f'\n{ind}{a},  # c1\n{ind}{b},  # c2\n{ind}{c},  # c3\n',
        f'\n{ind}# o1\n{ind}{a},\n{ind}# o2\n{ind}{b},\n{ind}# o3\n{ind}{c}\n',
        f'{a}, {b}, {c}',
        f'{a},  # c1\n{ind}{b}, {c}  # c3\n',
        f'\n{ind}{a},  # c1\n\n{ind}# o2\n{ind}{b}  # c2\n{ind},  # s2\n{ind}{c}  # c3\n',
    ]


def expr_product():
    out = []
    for (kind, pre, suf, path, fld, fa, code, one) in XP_CONTAINERS:
        elems = XP_PAIR_ELEMS if kind == 'Dict' else XP_MATCH_PAIR if kind == 'MatchMapping' else XP_MATCH_SEQ if kind == 'MatchSequence' else XP_SEQ_ELEMS
        ind = '    ' if not kind.startswith('Match') else '        '
        for e in elems:
            for lay in _xp_layouts(e, ind):
                src = pre + lay + suf + '\n'
                try:
                    ast.parse(src)
                except SyntaxError:
                    continue
                for op, idxs in (('delete', (0, 1, 2)), ('insert', (0, 1, 2, 3))):
                    for i in idxs:
                        for tr in XP_TRIVIA:
                            out.append((src, {'op': op, 'kind': 'expr', 'path': path, 'pkind': kind, 'field': fld, 'idx': i,
                                              'code': code if op == 'insert' else None, 'trivia': tr, 'options': {}, 'via': 'slice',
                                              'fieldarg': fa, 'one': one}))
    return out


def expr_product_cases(chunk):
    out = []
    import hashlib
    for src0, edit in chunk:
        src = renumber_comments(src0) or src0
        try:
            it = run_edit(src, edit)
        except Exception as ex:
            it = {'src': src, 'edit': edit, 'op': edit['op'], 'field': edit['pkind'] + '.' + edit['field'], 'violations': [], 'changed': False,
                  'outcome': 'harness:' + type(ex).__name__ + ':' + str(ex)[:80], 'bad_spans': []}
        it['key'] = hashlib.blake2b((src + repr(edit)).encode(), digest_size=8).hexdigest()
        if not it['violations'] and not it.get('bad_spans'):
            it.pop('after', None)
        out.append(it)
    return out


# ---------------------------------------------------------------------------------------------------------------------
# re-indenting insertions (elif -> else: + if) x what the re-indented block contains x docstr option x channel

RI_BLOCKS = ['    """doc\n  like\n    """\n    y = 2', '    y = 2\n    """mid\n  str\n"""\n    z = 3', "    s = \'\'\'as\n  signed\n\'\'\'",
             '    b = b"""by\n  tes"""  # cy', '    def g():\n        """real doc\n          string\n        """\n        return 1',
             '    f"""f\n  {y}\n"""', '    x = [\n  1,  # c1\n        2]']


def reindent_product():
    out = []
    for blk in RI_BLOCKS:
        for tail in ['', '\nelse:\n    w = 4  # cw']:
            for wrap, ind in (('', ''), ('def f():\n', '    ')):
                src = 'if a:\n    x = 1\nelif b:  # cb\n' + blk + tail
                src = wrap + '\n'.join(ind + l if l.strip() and not _in_string_line(src, k) else l for k, l in enumerate(src.split('\n'))) + '\n'
                try:
                    ast.parse(src)
                except SyntaxError:
                    continue
                path = [('body', 0)] + ([('body', 0)] if wrap else [])
                for idx in (0, 1):
                    for dv in (True, False, 'strict'):
                        for ch in ('call', 'with'):
                            out.append((src, {'op': 'insert', 'kind': 'stmt', 'path': path, 'pkind': 'If', 'field': 'orelse', 'idx': idx,
                                              'code': 'done = True  # newd', 'trivia': True, 'options': {'docstr': dv} if ch == 'call' else {},
                                              'docstr_effective': dv, 'channel': ch, 'reindent': True}))
    return out


def _in_string_line(src, k):
    """is line k (0-based) of src a continuation line inside a multi-line string token?"""
    try:
        for t in toks(src):
            if t.type == tokenize.STRING or tokenize.tok_name[t.type].startswith('FSTRING'):
                if t.start[0] - 1 < k <= t.end[0] - 1:
                    return True
    except Exception:
        pass
    return False


def reindent_product_cases(chunk):
    from fst import FST
    import hashlib
    out = []
    for src, edit in chunk:
        try:
            if edit['channel'] == 'with':
                with FST.options(docstr=edit['docstr_effective']):
                    it = run_edit(src, edit)
            else:
                it = run_edit(src, edit)
        except Exception as ex:
            it = {'src': src, 'edit': edit, 'op': 'insert', 'field': 'If.orelse', 'violations': [], 'changed': False,
                  'outcome': 'harness:' + type(ex).__name__ + ':' + str(ex)[:80], 'bad_spans': []}
        it['key'] = hashlib.blake2b((src + repr(edit)).encode(), digest_size=8).hexdigest()
        out.append(it)
    return out


# unenclosed comma lists that get line continuations when a multi-line slice is put: string literals with '#' on the same line

LC_STMTS = [   # (kind, source, path to container, my field, pfst field arg)
    ('Delete', 'del aa, bb.c["x # y"], cc["# z"]  # c9\n', [('body', 0)], 'targets', None),
    ('Tuple', 'x = aa, bb["x # y"], cc["# z"]  # c9\n', [('body', 0), ('value', None)], 'elts', None),
    ('Tuple', 'def f():\n    return aa, bb["x # y"], cc("# z")  # c9\n', [('body', 0), ('body', 0), ('value', None)], 'elts', None),
    ('Tuple', 'for i in aa, bb["x # y"], cc["# z"]: pass  # c9\n', [('body', 0), ('iter', None)], 'elts', None),
    ('With', 'with aa, bb("x # y"), cc("# z"): pass  # c9\n', [('body', 0)], 'items', 'items'),
    ('Import', 'import aa, bb as b2, cc  # c9 "#"\n', [('body', 0)], 'names', None),
    ('ImportFrom', 'from m import aa, bb as b2, cc  # c9\n', [('body', 0)], 'names', None),
    ('Tuple', 'x = aa, "p # q" "r # s", cc, f"{dd} # t"  # c9\n', [('body', 0), ('value', None)], 'elts', None),
]


def linecont_product():
    out = []
    for (kind, src, path, fld, fa) in LC_STMTS:
        n = 4 if 'f"{dd}' in src else 3
        codes = ['q,\nr', 'q, \\\nr'] if kind not in ('Import', 'ImportFrom') else ['q,\nr']
        for code in codes:
            for i in range(n):
                for op in ('replace', 'insert'):
                    for tr in (True, [False, False]):
                        out.append((src, {'op': op, 'kind': 'expr', 'path': path, 'pkind': kind, 'field': fld, 'idx': i, 'code': code,
                                          'trivia': tr, 'options': {}, 'via': 'slice', 'fieldarg': fa, 'one': False}))
            out.append((src, {'op': 'insert', 'kind': 'expr', 'path': path, 'pkind': kind, 'field': fld, 'idx': n, 'code': code,
                              'trivia': True, 'options': {}, 'via': 'slice', 'fieldarg': fa, 'one': False}))
    return out


# ---------------------------------------------------------------------------------------------------------------------
# par / unpar accessors on nested EXPRESSIONS, then a second edit on the parent expression (same live tree): after every
# step the tree equals a fresh parse, only the two parenthesis tokens change, and the second edit gives the same text as on a
# fresh parse of the same source

UP_TEMPLATES = ['x = a or(b)if c else d', 'x = k<(b)if c else d', 'x = a+(b)if c else d', 'x = not(b)if c else d', 'x = a if(b)else c',
                'x = [i for i in(a)if c]', 'x = a and(b)or c', 'x = é or(ü)if c else d', 'x = a or (b) if c else d', 'x = -(b)if c else d',
                'x = a<b<(c)if d else e', 'x = (a)if b else c', 'x = f(a or(b)if c else d, 1)', 'assert a or(b), m', 'x = a or(b)\ny = 1',
                'x = a or(  # c\n b)if c else d', 'x = a if b else(c)\n', 'x = lambda: a or(b)if c else d']
UP_SECOND = ['replace', 'par', 'copy', 'replace_self']


def squeeze_parens(src, rng, p=0.8):
    """delete the blanks between a parenthesis and an adjoining alphanumeric token (`a or (b) if c` -> `a or(b)if c`), same AST"""
    try:
        ref = ast.dump(ast.parse(src))
        ts = [t for t in toks(src) if t.type not in NONSIG]
    except Exception:
        return src
    lines = src.split('\n')
    cuts = []
    for k in range(len(ts) - 1):
        a, b = ts[k], ts[k + 1]
        if a.end[0] != b.start[0] or b.start[1] <= a.end[1] or a.type == tokenize.COMMENT:
            continue
        if (a.string == ')' and (b.string[:1].isalnum() or b.string[:1] == '_')) or (b.string == '(' and a.type == tokenize.NAME and
                                                                                       a.string in ('or', 'and', 'not', 'in', 'if', 'else', 'is')):
            if rng.random() < p:
                cuts.append((a.end[0] - 1, a.end[1], b.start[1]))
    for ln, c1, c2 in sorted(cuts, reverse=True):
        new = lines[:]
        new[ln] = new[ln][:c1] + new[ln][c2:]
        try:
            if ast.dump(ast.parse('\n'.join(new))) == ref:
                lines = new
        except Exception:
            pass
    return '\n'.join(lines)


def run_unpar_history(src, hist):
    """hist = {'op': 'unpar-history', 'path', 'pkind', 'field', 'second'}"""
    from fst import FST
    item = {'src': src, 'edit': hist, 'op': 'unpar-history', 'field': hist['pkind'], 'violations': [], 'changed': False, 'outcome': 'ok',
            'bad_spans': []}
    root = FST(src, 'exec')
    f = _nav(root, hist['path'])
    _fill_caches(root, f)
    try:
        if f.pars().n:
            f.unpar()
        else:
            f.par(force=True)
    except Exception as ex:
        item['outcome'] = 'raised:' + type(ex).__name__
        return item
    src2 = root.src
    item['after'] = src2
    item['changed'] = src2 != src
    v = []
    try:
        if ast.dump(ast.parse(src2)) != ast.dump(ast.parse(src)):
            item['outcome'] = 'changes-structure'       # removing parentheses that were needed is the caller's request, not judged
            return item
    except SyntaxError:
        item['outcome'] = 'unparsable-accessor'
        return item
    try:
        tb = [t.string for t in toks(src) if t.type not in NONSIG]
        ta = [t.string for t in toks(src2) if t.type not in NONSIG]
        nb, na = [x for x in tb if x not in '()'], [x for x in ta if x not in '()']
        it_ = iter(nb)
        if not (all(x in it_ for x in na) and all(x.startswith('#') for x in nb if x not in na)) or abs(len(tb) - len(ta)) > 2 * 3 + 2:
            # (comments inside the removed parentheses may go with them)
            v.append({'cls': 'outside-text-changed', 'what': 'par / unpar changed tokens other than parentheses', 'detail': [src2]})
    except Exception:
        item['outcome'] = 'untokenizable'
        return item
    if not v and (d := _tree_vs_parse(root)):
        v.append({'cls': 'tree!=parse', 'what': 'after par / unpar of a nested expression the tree differs from a fresh parse: ' + d[:300],
                  'detail': [d[:300]]})
    if not (v and v[0]['cls'] == 'outside-text-changed') and len(hist['path']) > 1:
        # second edit on the parent expression: live tree vs fresh parse of the same source
        ppath = hist['path'][:-1]
        res = []
        for r in (root, FST(src2, 'exec')):
            try:
                p = _nav(r, ppath if hist['second'] != 'replace_self' else hist['path'])
                if not p.is_expr:
                    res.append(None)
                    continue
                if hist['second'] in ('replace', 'replace_self'):
                    p.replace('"s"', raw=False)
                    res.append((r.src, None))
                elif hist['second'] == 'par':
                    p.par(force=True)
                    res.append((r.src, None))
                else:
                    res.append((r.src, p.copy().src))
            except Exception as ex:
                res.append(('raised:' + type(ex).__name__, None))
        if res[0] is not None and res[1] is not None and res[0] != res[1] and not (res[0][0].startswith('raised') and res[1][0].startswith('raised')):
            v.append({'cls': 'live-vs-fresh-differs', 'what': f'{hist["second"]} of the parent expression after par / unpar of its child gives '
                      f'{res[0]!r} on the live tree and {res[1]!r} on a fresh parse of the same source', 'detail': {'live': res[0], 'fresh': res[1]}})
            item['after'] = res[0][0]
            v.insert(0, v.pop())        # text consequences first
    item['violations'] = v
    if v:
        item['outcome'] = 'violation'
    return item


def _paren_targets(src):
    """paths of expression nodes that carry grouping parentheses (chosen with pfst's own pars(); the oracle does not use it)"""
    from fst import FST
    try:
        tree = ast.parse(src)
        root = FST(src, 'exec')
    except Exception:
        return []
    out = []
    for n in ast.walk(root.a):
        if isinstance(n, ast.expr) and not isinstance(n, (ast.Starred, ast.Slice)) and getattr(n, 'f', None) is not None:
            try:
                if n.f.pars().n and n.f.parent is not None:
                    pth = root.child_path(n.f)
                    out.append(([(af.name, af.idx) for af in pth], type(n.f.parent.a).__name__))
            except Exception:
                pass
    return out


def unpar_history_cases(arg):
    src0, seed, per = arg
    rng = random.Random(seed)
    src = squeeze_parens(src0, rng)
    tg = _paren_targets(src)
    rng.shuffle(tg)
    out = []
    import hashlib
    for path, pkind in tg[:per]:
        for second in (UP_SECOND if per > 50 else [rng.choice(UP_SECOND)]):
            hist = {'op': 'unpar-history', 'path': path, 'pkind': pkind, 'field': '', 'second': second}
            try:
                it = run_unpar_history(src, hist)
            except Exception as ex:
                it = {'src': src, 'edit': hist, 'op': 'unpar-history', 'field': pkind, 'violations': [], 'changed': False,
                      'outcome': 'harness:' + type(ex).__name__ + ':' + str(ex)[:80], 'bad_spans': []}
            it['key'] = hashlib.blake2b((src + repr(hist)).encode(), digest_size=8).hexdigest()
            if not it['violations']:
                it.pop('after', None)
                it['src'] = it['src'][:300]
            out.append(it)
    return out


def unpar_product_cases(_=None):
    out = []
    for t in UP_TEMPLATES:
        out += unpar_history_cases((t, 0, 99))
    return out
