"""C17 helpers: the small pattern language shared by the Lean model, the real matcher and the `re` oracle.

List patterns (JSON-able, exactly what lean/Pfst/Drv/C17.lean parses):
    element   ['lit', n] | ['any'] | ['cap', t, element] | ['ref', t]          n: letter number, t: tag number
    item      ['e', element] | ['qs', q, element] | ['ql', q, [item, ...]]
    q         {'mn': int, 'mx': int|None, 'g': bool, 'tag': int|None, 'st': [[t, value], ...]}
Tag number t is the tag name f't{t}'.  Letters: 0 -> 'a', 1 -> 'b', 2 -> 'c'.
"""

from __future__ import annotations

import ast
import itertools
import re

LETTERS = 'abcdefgh'


def tname(t):
    return f't{t}'


class Timeout(Exception):
    pass


def call_with_timeout(sec, fn, *args):
    """run fn(*args) in this (worker main) thread; raise Timeout if it does not return in `sec` seconds"""
    import signal

    def handler(signum, frame):
        raise Timeout(f'no result after {sec}s')

    old = signal.signal(signal.SIGALRM, handler)
    signal.alarm(sec)
    try:
        return fn(*args)
    finally:
        signal.alarm(0)
        signal.signal(signal.SIGALRM, old)


# ---------------------------------------------------------------------------------------------------------------------
# building the real pfst pattern

def build_elem(e, lit_as='str'):
    from fst import match as M
    k = e[0]
    if k == 'lit':
        s = LETTERS[e[1]]
        if lit_as == 'str':
            return s
        if lit_as == 'MName':
            return M.MName(s)
        return ast.Name(id=s, ctx=ast.Load())
    if k == 'any':
        return ...
    if k == 'miss':
        return M.Mexpr(id=M.M(**{tname(9): ...}), zz_no_such_field=1) if lit_as == 'str' else M.MAST(zz_no_such_field=M.M(**{tname(9): ...}))
    if k == 'cap':
        return M.M(**{tname(e[1]): build_elem(e[2], lit_as)})
    if k == 'ref':
        return M.MTAG(tname(e[1]))
    if k in ('and2', 'or2'):
        cls = M.MAND if k == 'and2' else M.MOR
        t1, e1, t2, e2 = e[1:]
        if t1 is not None and t2 is None:
            raise ValueError('an anonymous member cannot follow a keyword member')
        anon = [build_elem(x, lit_as) for t, x in ((t1, e1), (t2, e2)) if t is None]
        tagged = {tname(t): build_elem(x, lit_as) for t, x in ((t1, e1), (t2, e2)) if t is not None}
        return cls(*anon, **tagged)
    raise ValueError(e)


def build_q(q, body, variant=0):
    """variant selects between the generic MQ and the shortcut classes (same semantics by documentation)"""
    from fst import match as M
    mn, mx, g = q['mn'], q['mx'], q['g']
    kw = {}
    args = []
    if q.get('tag') is not None:
        kw[tname(q['tag'])] = body          # first keyword = pattern + tag
    else:
        args.append(body)
    for t, v in q.get('st', []):
        kw[tname(t)] = v
    cls = None
    extra = {}
    if variant % 2 == 0:
        if (mn, mx) == (0, None):
            cls = M.MQSTAR
        elif (mn, mx) == (1, None):
            cls = M.MQPLUS
        elif (mn, mx) == (0, 1):
            cls = M.MQOPT
        elif mx is None:
            cls, extra = M.MQMIN, {'min': mn}
        elif mn == 0:
            cls, extra = M.MQMAX, {'max': mx}
        elif mn == mx:
            cls, extra = M.MQN, {'n': mn}
    if cls is None:
        cls, extra = M.MQ, {'min': mn, 'max': mx}
    if not g:
        cls = cls.NG
    if body is ... and not kw and not extra and variant % 4 == 0:
        return cls                           # bare class as a standalone quantifier
    return cls(*args, **extra, **kw)


def build_item(it, lit_as='str', variant=0):
    k = it[0]
    if k == 'e':
        return build_elem(it[1], lit_as)
    if k == 'qs':
        return build_q(it[1], build_elem(it[2], lit_as), variant)
    if k == 'ql':
        return build_q(it[1], [build_item(x, lit_as, variant) for x in it[2]], variant)
    raise ValueError(it)


def build_list_pattern(ps, lit_as='str', variant=0):
    from fst import match as M
    return M.MList(elts=[build_item(p, lit_as, variant) for p in ps])


# ---------------------------------------------------------------------------------------------------------------------
# encoding a real result like Pfst.Match.encDict

def _idx(f):
    pf = f.pfield
    return pf.idx


def _letter(f):
    a = getattr(f, 'a', f)
    return LETTERS.index(a.id)


def _tnum(k):
    if not (k.startswith('t') and k[1:].isdigit()):
        raise ValueError(f'unexpected tag {k!r}')
    return int(k[1:])


def enc_val(v, index_of):
    from fst.match import FSTMatch
    if isinstance(v, bool) or isinstance(v, int):
        return [1, int(v)]
    if isinstance(v, list):
        out = [len(v)]
        for m in v:
            if not isinstance(m, FSTMatch):
                raise ValueError('list tag holds a non-FSTMatch')
            mt = m.matched
            if isinstance(mt, list):
                if not mt:
                    raise ValueError('empty slice')
                s, e = index_of(mt[0]), index_of(mt[-1]) + 1
            else:
                s = index_of(mt)
                e = s + 1
            out += [s, e] + enc_dict(m.tags, index_of)
        return [2] + out
    if isinstance(v, str):
        return [3, len(v)]          # a captured identifier string (only a leaked capture can be one here)
    i = index_of(v)
    return [0, i, _letter(v)]


def enc_dict(tags, index_of):
    items = sorted((_tnum(k), v) for k, v in tags.items())
    out = [len(items)]
    for k, v in items:
        out += [k] + enc_val(v, index_of)
    return out


def real_list_match(pat, tgt, index_of=_idx):
    """-> None | encoded dict | {'exc': name}"""
    try:
        m = pat.match(tgt)
    except Exception as e:          # noqa: BLE001
        return {'exc': type(e).__name__}
    if m is None:
        return None
    return enc_dict(m.tags, index_of)


def all_targets(maxlen, nletters=3):
    out = []
    for n in range(maxlen + 1):
        for t in itertools.product(range(nletters), repeat=n):
            out.append(list(t))
    return out


def target_src(xs):
    return '[' + ', '.join(LETTERS[x] for x in xs) + ']'


# ---------------------------------------------------------------------------------------------------------------------
# pattern families

def q(mn, mx, g=True, tag=None, st=()):
    return {'mn': mn, 'mx': mx, 'g': g, 'tag': tag, 'st': [list(x) for x in st]}


ATOMS = [['lit', 0], ['lit', 1], ['any'], ['cap', 0, ['any']], ['cap', 0, ['lit', 0]], ['ref', 0],
         ['and2', None, ['any'], 1, ['cap', 0, ['any']]],            # MAND(..., t1=M(t0=...)): a capture inside a keyword member
         ['or2', 1, ['cap', 0, ['lit', 0]], 2, ['lit', 1]],           # MOR(t1=M(t0='a'), t2='b')
         ['or2', None, ['miss'], 1, ['cap', 0, ['any']]]]             # MOR(<node pattern with a missing field>, t1=M(t0=...))
QUANTS = [(0, None), (1, None), (0, 1), (1, 2), (0, 2), (2, 2), (2, 3), (2, None)]
QUANTS_CORE = [(0, None), (1, None), (0, 1), (1, 2)]
SUB_BODIES = [
    [['e', ['lit', 0]], ['e', ['lit', 1]]],
    [['e', ['lit', 0]], ['e', ['any']]],
    [['e', ['any']], ['e', ['any']]],
    [['e', ['cap', 0, ['any']]], ['e', ['ref', 0]]],
    [['e', ['cap', 0, ['any']]], ['e', ['lit', 1]]],
    [['e', ['lit', 0]]],
    # with an inner quantifier (choice point inside the iteration)
    [['e', ['lit', 0]], ['qs', q(0, None), ['lit', 1]]],
    [['qs', q(0, None), ['lit', 0]], ['e', ['lit', 1]]],
    [['qs', q(0, 1), ['lit', 0]], ['e', ['lit', 1]]],
    [['e', ['lit', 0]], ['qs', q(0, None, False), ['any']]],
    [['e', ['any']], ['qs', q(1, 2), ['lit', 1]]],
]


def core_items():
    """the exhaustively enumerated family"""
    items = [['e', a] for a in ATOMS]
    for a in ATOMS:
        for mn, mx in QUANTS_CORE:
            for g in (True, False):
                items.append(['qs', q(mn, mx, g), a])
    for b in SUB_BODIES:
        for mn, mx in QUANTS_CORE:
            for g in (True, False):
                items.append(['ql', q(mn, mx, g), b])
    return items


def nullable_item(it):
    k = it[0]
    if k == 'e':
        return False
    if it[1]['mn'] == 0:
        return True
    if k == 'qs':
        return False
    return all(nullable_item(x) for x in it[2])


def valid_item(it):
    """what MQ.__init__ accepts, and (our restriction) no sublist body that can match the empty sequence"""
    if it[0] == 'ql':
        if all(nullable_item(x) for x in it[2]):
            return False
        return all(valid_item(x) for x in it[2])
    return True


def rand_elem(rng, depth=0):
    c = rng.random()
    if c < 0.04:
        return ['miss']
    if c < 0.3:
        return ['lit', rng.randrange(3)]
    if c < 0.45:
        return ['any']
    if c < 0.7 and depth < 2:
        return ['cap', rng.randrange(3), rand_elem(rng, depth + 1)]
    if c < 0.8:
        return ['ref', rng.randrange(3)]
    if c < 0.93 and depth < 2:
        t1 = rng.choice([None, None, rng.randrange(3)])
        t2 = rng.choice([t for t in range(3) if t != t1]) if (t1 is not None or rng.random() < 0.6) else None
        return [rng.choice(['and2', 'or2']), t1, rand_elem(rng, depth + 1), t2, rand_elem(rng, depth + 1)]
    return ['lit', rng.randrange(2)]


def rand_q(rng, allow_static=True):
    mn, mx = rng.choice(QUANTS)
    tag = rng.randrange(3) if rng.random() < 0.2 else None
    st = []
    if allow_static and rng.random() < 0.25:
        st = [[rng.choice([3, 4, 0]), rng.randrange(1, 4)]]
        if tag is not None and st[0][0] == tag:
            st = []
    return q(mn, mx, rng.random() < 0.6, tag, st)


def rand_item(rng, depth=0):
    c = rng.random()
    if c < 0.4:
        return ['e', rand_elem(rng)]
    if c < 0.75 or depth >= 2:
        return ['qs', rand_q(rng), rand_elem(rng)]
    for _ in range(20):
        body = [rand_item(rng, depth + 1) for _ in range(rng.choice([1, 2, 2, 3]))]
        it = ['ql', rand_q(rng), body]
        if valid_item(it):
            return it
    return ['qs', rand_q(rng), rand_elem(rng)]


def rand_seq(rng, maxlen=3):
    return [rand_item(rng) for _ in range(rng.randint(1, maxlen))]


# ---------------------------------------------------------------------------------------------------------------------
# shape classification (for signatures)

def _walk_items(ps):
    for it in ps:
        yield it
        if it[0] == 'ql':
            yield from _walk_items(it[2])


def shape(ps):
    """narrow shape class of a pattern sequence, most specific defect-relevant feature first"""
    has_sub = has_inner = has_static_finite = False
    for it in _walk_items(ps):
        if it[0] == 'ql':
            has_sub = True
            if any(x[0] != 'e' for x in it[2]):
                has_inner = True
        if it[0] != 'e':
            qq = it[1]
            if qq['st'] and qq['tag'] is None and qq['mx'] is not None:
                has_static_finite = True
    if has_inner:
        return 'sublist-inner-quantifier'
    if has_sub:
        return 'sublist-body'
    if has_static_finite:
        return 'static-tags-finite-max'
    return 'single-body'


# ---------------------------------------------------------------------------------------------------------------------
# `re` oracle

class NoOracle(Exception):
    pass


def to_regex(ps):
    """-> (regex source, {group name: ('elem', tag) | ('span', tag)}).  Raises NoOracle when the pattern has no faithful
    `re` rendering (a tag captured at two places, a reference that is not after its capture, a reference across the
    boundary of a tagged quantifier)."""
    caps = {}
    order = []          # events in pattern order: ('cap', t, hidden_by) / ('ref', t, hidden_by)
    counter = [0]

    def elem(e, hidden):
        k = e[0]
        if k == 'lit':
            return LETTERS[e[1]]
        if k == 'any':
            return '.'
        if k == 'miss':
            return '(?!)'
        if k == 'cap':
            t = e[1]
            if t in caps:
                raise NoOracle('tag captured twice')
            inner = elem(e[2], hidden)
            caps[t] = hidden
            order.append(('cap', t, hidden))
            return f'(?P<e{t}>{inner})'
        if k == 'ref':
            t = e[1]
            if t not in caps:
                raise NoOracle('reference before capture')
            if caps[t] != hidden[:len(caps[t])]:
                raise NoOracle('reference across a tagged quantifier')
            return f'(?P=e{t})'
        if k in ('and2', 'or2'):
            t1, e1, t2, e2 = e[1:]
            parts = []
            for t, x in ((t1, e1), (t2, e2)):
                if t is not None and t in caps:
                    raise NoOracle('tag captured twice')
                r = elem(x, hidden)
                if t is not None:
                    caps[t] = hidden
                    order.append(('cap', t, hidden))
                    r = f'(?P<e{t}>{r})'
                parts.append(r)
            if k == 'and2':
                return f'(?={parts[0]}){parts[1]}'       # both members look at the same element
            return f'(?>{parts[0]}|{parts[1]})'         # MOR commits to the first member that matches (documented): atomic
        raise ValueError(e)

    def quant(qq):
        mn, mx = qq['mn'], qq['mx']
        if (mn, mx) == (0, None):
            s = '*'
        elif (mn, mx) == (1, None):
            s = '+'
        elif (mn, mx) == (0, 1):
            s = '?'
        else:
            s = '{%d,%s}' % (mn, '' if mx is None else mx)
        return s + ('' if qq['g'] else '?')

    def item(it, hidden):
        k = it[0]
        if k == 'e':
            return elem(it[1], hidden)
        qq = it[1]
        h2 = hidden
        if qq['tag'] is not None:
            if qq['tag'] in caps:
                raise NoOracle('tag captured twice')
            counter[0] += 1
            h2 = hidden + (counter[0],)
            caps[qq['tag']] = hidden + ('span',)
        if k == 'qs':
            body = elem(it[2], h2)
            if it[2][0] in ('cap', 'ref', 'and2', 'or2'):
                body = f'(?:{body})'
        else:
            body = '(?:' + ''.join(item(x, h2) for x in it[2]) + ')'
        for t, _ in qq['st']:
            if t in caps:
                raise NoOracle('static tag shadows a capture')
        out = body + quant(qq)
        if qq['tag'] is not None:
            caps[qq['tag']] = hidden + ('span',)
            out = f'(?P<s{qq["tag"]}>{out})'
        for t, _ in qq['st']:
            caps[t] = hidden + ('static',)
        return out

    src = ''.join(item(it, ()) for it in ps)
    return src, caps


def statics_of(ps):
    """static tags that every successful match must report: those of the top-level quantifiers (later overrides
    earlier); a quantifier nested in a sublist may never run"""
    out = {}
    for it in ps:
        if it[0] != 'e':
            for t, v in it[1]['st']:
                out[t] = v
    return out


def has_oracle(ps):
    try:
        re_oracle(ps, [])
        return True
    except NoOracle:
        return False


def re_oracle(ps, xs, cache={}):
    """-> None (reject) | {'elem': {t: (idx, letter)}, 'span': {t: (start, stop)}}"""
    key = repr(ps)
    if key not in cache:
        try:
            src, caps = to_regex(ps)
            cache[key] = (re.compile(src), caps, src)
        except NoOracle as e:
            cache[key] = e
        except re.error as e:
            cache[key] = NoOracle(f're: {e}')
    c = cache[key]
    if isinstance(c, Exception):
        raise c
    rx, caps, _ = c
    m = rx.fullmatch(''.join(LETTERS[x] for x in xs))
    if m is None:
        return None
    out = {'elem': {}, 'span': {}}
    for name, val in m.groupdict().items():
        t = int(name[1:])
        hidden = caps[t][:-1] if caps[t] and caps[t][-1] in ('span', 'static') else caps[t]
        if hidden:
            continue            # inside a tagged quantifier: not visible at top level
        if name[0] == 'e':
            if val is not None:
                out['elem'][t] = (m.start(name), LETTERS.index(val))
        else:
            out['span'][t] = (m.start(name), m.end(name))
    return out


def decode_top(enc):
    """top-level view of an encoded dict: {'elem': {t: (idx, letter)}, 'span': {t: (start, stop)|None}, 'static': {t: v}}"""
    pos = [0]

    def rd():
        v = enc[pos[0]]
        pos[0] += 1
        return v

    def val():
        k = rd()
        if k == 0:
            return ('elem', (rd(), rd()))
        if k == 1:
            return ('static', rd())
        if k == 3:
            return ('leaked-str', rd())
        n = rd()
        ents = []
        for _ in range(n):
            s, e = rd(), rd()
            d = dct()
            ents.append((s, e, d))
        return ('ms', ents)

    def dct():
        n = rd()
        d = {}
        for _ in range(n):
            k = rd()
            d[k] = val()
        return d

    d = dct()
    out = {'elem': {}, 'span': {}, 'static': {}}
    for t, (k, v) in d.items():
        if k == 'elem':
            out['elem'][t] = v
        elif k == 'static':
            out['static'][t] = v
        elif k == 'leaked-str':
            out['elem'][t] = ('leaked', v)
        else:
            out['span'][t] = (v[0][0], v[-1][1]) if v else None
    return out


# ---------------------------------------------------------------------------------------------------------------------
# trees for the structural part

_KT = None


def kind_tables():
    """names (index = kind number), AST2ASTSLEAF / issubclass / ALL as numbers"""
    global _KT
    if _KT is None:
        _KT = _kind_tables()
    return _KT


def _kind_tables():
    from fst.asttypes import AST2ASTSLEAF, ASTS_LEAF__ALL
    classes = sorted(AST2ASTSLEAF, key=lambda c: c.__name__)
    num = {c: i for i, c in enumerate(classes)}
    leaf = [sorted(num[c] for c in AST2ASTSLEAF[k]) for k in classes]
    allk = sorted(num[c] for c in ASTS_LEAF__ALL)
    inst = [sorted(num[c] for c in ASTS_LEAF__ALL if issubclass(c, k)) for k in classes]
    return classes, num, leaf, inst, allk


class TreeSer:
    """serialise real ASTs / AST patterns to the generic trees of Pfst.Match (one interning table per case)"""

    def __init__(self):
        self.classes, self.num, self.leaf, self.inst, self.allk = kind_tables()
        n = len(self.classes)
        self.NONE = n
        self.LIST = n + 1
        self.prims = {}
        self.ids = {}
        self.count = 0

    def prim(self, v):
        key = (type(v).__name__, repr(v))
        if key not in self.prims:
            self.prims[key] = len(self.classes) + 2 + len(self.prims)
        return self.prims[key]

    def tree(self, v):
        i = self.count
        self.count += 1
        if v is None:
            return [i, self.NONE, []]
        if isinstance(v, list):
            return [i, self.LIST, [self.tree(x) for x in v]]
        if isinstance(v, ast.AST):
            self.ids[id(v)] = i
            return [i, self.num[v.__class__], [self.tree(getattr(v, f, None)) for f in v._fields]]
        return [i, self.prim(v), []]

    def pat_of_ast(self, v):
        """the pattern an `AST` instance is (ctx=False: an expr_context instance matches any expr_context)"""
        if v is None:
            return ['node', self.NONE, []]
        if isinstance(v, list):
            return ['node', self.LIST, [self.pat_of_ast(x) for x in v]]
        if isinstance(v, ast.expr_context):
            return ['type', self.num[ast.expr_context]]
        if isinstance(v, ast.AST):
            return ['node', self.num[v.__class__], [self.pat_of_ast(getattr(v, f, None)) for f in v._fields]]
        return ['node', self.prim(v), []]
