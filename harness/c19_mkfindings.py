"""Regenerate harness/props/C19_findings.json: run the thorough sweep on the tree named by PFST_REPO (default /repo), attribute every failure to one
of the confirmed root causes below (by failure class and operand), and write one entry per root cause with the exact
signature list and a REPLAYABLE witness (the dict `props.C19.replay` takes).  A failure that matches no rule is printed
and NOT written: it has to be triaged by hand.

    /venv/bin/python -B harness/c19_mkfindings.py
"""
import collections
import json
import sys
import warnings
from pathlib import Path

warnings.filterwarnings('ignore')
sys.path.insert(0, str(Path(__file__).resolve().parent))
sys.setrecursionlimit(10000)
import framework  # noqa: E402

framework.setup_repo_path()
import importlib  # noqa: E402

mod = importlib.import_module('props.C19')

F = {
    'C19-F1': ('expr -> pattern: a `|` whose left operand is parenthesised in source, `(a | b) | c`, becomes a nested MatchOr on the '
               'formatted route and a flat MatchOr on the pure-AST route (structurally different results for the same tree; each result is '
               'valid on its own). Kept: flattening on the formatted route too (3 lines, removes the parentheses) changes 4 golden '
               'recordings of the pinned suite (test_put_one_from_data, test_put_one_raw_from_put_one_data, test_code_as_coerce, ...)',
               'C19|BinOp->pattern|s2/both|fmt!=pure(MatchOr nesting)'),
    'C19-F2': ('pattern -> expr: a MatchSequence written `a, b` or `(a, b)` becomes a Tuple on the formatted route and a List on the '
               'pure-AST route (any expression-like target)',
               'C19|MatchSequence->expr|s3/both|fmt!=pure(Tuple vs List)'),
    'C19-F3': ('expr -> pattern on the formatted route accepts a Dict with an Ellipsis key and returns a MatchMapping whose source '
               '`{...: a}` is not a pattern (the pure-AST route refuses); the same through a coercing put',
               'C19|Dict->pattern|s9/fst|no-parse'),
    'C19-F4': ('expr -> pattern on the formatted route: in `x | y` the right alternative is built before parentheses in the left '
               'operand are removed from the source, so its positions are stale (result tree does not match its own source, verify() fails)',
               'C19|BinOp->pattern|s10/fst|positions'),
    'C19-F5': ('a pure-AST Interactive with more than one statement coerced to Module/stmts/exec/strict (or rebuilt with mode None) '
               'keeps only the last statement: _coerce_to_stmts / code_as_all unparse the Interactive node itself',
               'C19|Interactive->exec|s2/ast|leaves'),
    'C19-F6': ('coercing a pure-AST `arguments` with a default to `keyword` pops the default out of the AST that was passed in '
               '(documented: the AST passed in is never consumed)',
               'C19|arguments->keyword|s4/ast|operand-mutated'),
    'C19-F7': ('pattern -> expr on the formatted route: a MatchOr of three or more alternatives whose first alternative is parenthesised, '
               '`(a)|b|c`, gives an inner BinOp that starts after the parenthesis (positions do not match the source, verify() fails)',
               'C19|MatchOr->expr|s7/fst|positions'),
    'C19-F8': ('expr -> pattern on the formatted route keeps parentheses around a Name where the pattern grammar wants a bare name '
               '(`(f)(a)` as class, `**(r)` as mapping rest): the returned source is not a pattern',
               'C19|Call->pattern|s12/fst|no-parse'),
    'C19-F9': ('a keyword / default named `_` that follows a positional element (`f(a, _=v)`, arguments `a, _=1`, _arglikes `a, _=v`) '
               'coerced to a class pattern on the formatted route gives `C(a, _=v)`, which CPython\'s pattern grammar rejects '
               '(`C(_=v)` alone is accepted): the returned source does not parse as a pattern (the pure-AST route refuses); the same '
               'through a coercing put. Kept: refusing it would special-case a grammar quirk in 6 places',
               'C19|Call->pattern|x15/fst|no-parse'),
    'C19-F10': ('_type_params -> _arglikes on the formatted route keeps the element order: `**P, T` / `**P, *Ts` become `**P, T` / '
                '`**P, *Ts` argument lists, which are not valid call arguments (returned source does not parse as _arglikes)',
                'C19|_type_params->_arglikes|x35/fst|no-parse'),
    'C19-F11': ('a container operand with a trailing comment line (`a, b  # line\\n# post` as _arglikes / arguments / _withitems / '
                '_type_params / _pattern_attrlikes / _decorator_list / _comprehension_ifs) coerced to _Assign_targets on the formatted '
                'route ends in a line continuation followed by the comment line (`a = b = \\\\\\n# post`): the returned source does not parse '
                'as _Assign_targets',
                'C19|_arglikes->_Assign_targets|t1/fst|no-parse'),
}


# repaired by fixes/C19-<id>.diff: kind "fixed", witness kept (it must pass on replay)
FIXED = {
    'C19-F3': {'kind': 'Dict', 'si': 's9', 'pmode': 'Dict', 'src': '{...: a}', 'target': 'pattern', 'route': 'fst', 'class': 'no-parse'},
    'C19-F4': {'kind': 'BinOp', 'si': 's10', 'pmode': 'BinOp', 'src': '[(a).b] | [x]', 'target': 'pattern', 'route': 'fst', 'class': 'positions'},
    'C19-F5': {'kind': 'Interactive', 'si': 's2', 'pmode': 'single', 'src': 'a; b', 'target': 'exec', 'route': 'ast', 'class': 'leaves'},
    'C19-F6': {'kind': 'arguments', 'si': 's4', 'pmode': 'arguments', 'src': 'a=1', 'target': 'keyword', 'route': 'ast', 'class': 'operand-mutated'},
    'C19-F7': {'kind': 'MatchOr', 'si': 's7', 'pmode': 'pattern', 'src': '(a)|b|c', 'target': 'expr', 'route': 'fst', 'class': 'positions'},
    'C19-F8': {'kind': 'Call', 'si': 's12', 'pmode': 'Call', 'src': '(f)(a)', 'target': 'pattern', 'route': 'fst', 'class': 'no-parse'},
}


def rule(sig, w):
    parts = sig.split('|')
    cls = parts[-1]
    kind = parts[1].split('->')[0].replace('put:', '')
    src = w.get('src', '')
    np = cls in ('no-parse', 'put-no-parse')
    if cls == 'fmt!=pure(MatchOr nesting)':
        return 'C19-F1'
    if cls == 'fmt!=pure(Tuple vs List)':
        return 'C19-F2'
    if np and '...' in src:
        return 'C19-F3'
    if cls == 'positions' and w.get('kind') == 'BinOp':
        return 'C19-F4'
    if w.get('kind') == 'Interactive' and src == 'a; b' and cls in ('leaves', 'fmt!=pure'):
        return 'C19-F5'
    if cls == 'operand-mutated' and parts[1] == 'arguments->keyword':
        return 'C19-F6'
    if cls == 'positions' and w.get('kind') == 'MatchOr':
        return 'C19-F7'
    if np and src in ('(f)(a)', '{1: a, **(r)}'):
        return 'C19-F8'
    if np and '_=' in src:
        return 'C19-F9'
    if cls == 'no-parse' and parts[1] == '_type_params->_arglikes':
        return 'C19-F10'
    if cls == 'no-parse' and parts[1].endswith('->_Assign_targets') and parts[2].startswith('t') and '# post' in src:
        return 'C19-F11'
    return None


def main():
    ctx = framework.Ctx('C19', 'thorough', 0)
    mod.sweep(ctx)
    sigs = collections.defaultdict(list)
    wit = {}
    other = []
    for f in ctx.failures:
        k = rule(f.sig, f.witness)
        if k is None:
            other.append((f.sig, f.what))
            continue
        if f.sig not in sigs[k]:
            sigs[k].append(f.sig)
        if f.sig == F[k][1]:
            wit[k] = dict(f.witness)
    # the same root causes met by the wider search on generated operands (signature shape `generated/<route>`)
    EK = ['BinOp', 'List', 'Tuple', 'Set', 'Dict', 'Call']
    PK = ['MatchSequence', 'MatchOr', 'MatchMapping', 'MatchClass']
    for k0 in EK:
        for t in ['pattern', 'List', 'Tuple', 'Set', '_arglikes']:
            sigs['C19-F1'].append(f'C19|{k0}->{t}|generated/both|fmt!=pure(MatchOr nesting)')
    for k0 in PK:
        for t in ['expr', 'List', 'Tuple', '_arglikes']:
            sigs['C19-F2'].append(f'C19|{k0}->{t}|generated/both|fmt!=pure(Tuple vs List)')
    out = []
    for k, (what, canon) in F.items():
        if k in FIXED:
            if sigs.get(k):
                print('STILL FAILING although listed as fixed:', k, sigs[k][:3])
            out.append({'id': k, 'property': 'C19', 'kind': 'fixed', 'commit': '<to be filled by me>', 'what': what,
                        'record': f'fixed: property=C19 <commit> {what}', 'witness': FIXED[k]})
            print(k, 'fixed')
            continue
        if k not in wit:
            print('NO WITNESS for', k, canon)
        out.append({'id': k, 'property': 'C19', 'kind': 'known', 'signatures': sorted(set(sigs[k])), 'what': what,
                    'witness': wit.get(k)})
        print(k, len(set(sigs[k])), wit.get(k))
    p = Path(__file__).resolve().parent / 'props' / 'C19_findings.json'
    p.write_text(json.dumps(out, indent=1) + '\n')
    print('UNATTRIBUTED', len(other))
    for o in other[:40]:
        print('  ', o[0], '::', o[1][:200])


main()
