"""merge harness/props/Cxx_findings.json entries into known_findings.json (new ids appended, existing ids kept)"""
import json
import sys
from pathlib import Path
ROOT = Path(__file__).resolve().parent.parent
k = json.load(open(ROOT / 'known_findings.json'))
ids = {e['id'] for e in k['findings']}
for fn in sorted((ROOT / 'harness' / 'props').glob('C??_findings.json')):
    f = json.load(open(fn))
    f = f if isinstance(f, list) else f.get('findings', f)
    for e in f:
        if e['id'] not in ids:
            k['findings'].append(e)
            ids.add(e['id'])
            print('added', e['id'])
json.dump(k, open(ROOT / 'known_findings.json', 'w'), indent=1)
