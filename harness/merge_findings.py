"""merge harness/props/Cxx_findings.json entries into known_findings.json.
New ids are appended; an existing id is REPLACED when the per-property file changed its kind (known -> fixed) or when
--replace is given. Commit hashes for fixed entries can be supplied as id=hash arguments."""
import json
import sys
from pathlib import Path
ROOT = Path(__file__).resolve().parent.parent
k = json.load(open(ROOT / 'known_findings.json'))
commits = dict(a.split('=') for a in sys.argv[1:] if '=' in a)
replace_all = '--replace' in sys.argv
idx = {e['id']: i for i, e in enumerate(k['findings'])}
for fn in sorted((ROOT / 'harness' / 'props').glob('C??_findings.json')):
    f = json.load(open(fn))
    lst = f if isinstance(f, list) else f.get('findings', f)
    changed = False
    for e in lst:
        if e['id'] in commits:
            e['commit'] = commits[e['id']]
            if 'record' in e:
                e['record'] = e['record'].replace('<commit>', commits[e['id']]).replace('<to be filled by me>', commits[e['id']])
            changed = True
        if e['id'] not in idx:
            k['findings'].append(e)
            idx[e['id']] = len(k['findings']) - 1
            print('added', e['id'])
        elif replace_all or k['findings'][idx[e['id']]].get('kind') != e.get('kind') or e['id'] in commits:
            k['findings'][idx[e['id']]] = e
            print('replaced', e['id'], e.get('kind'))
    if changed:
        json.dump(f, open(fn, 'w'), indent=1)
json.dump(k, open(ROOT / 'known_findings.json', 'w'), indent=1)
