"""Random but fully seed-determined structured edits on real FST trees (shared by the C01 sweep and others).

Every edit is described by a small JSON-able record so that it can be replayed exactly:
  {'op': ..., 'path': [[field, idx], ...], 'code_src': ..., 'form': 'src'|'ast'|'fst', 'extra': {...}}
"""

from __future__ import annotations

import ast
import copy
import random

BASES = (ast.expr, ast.stmt, ast.pattern, ast.arg, ast.keyword, ast.alias, ast.withitem, ast.excepthandler,
         ast.match_case, ast.comprehension, ast.type_param)


def base_of(a):
    for b in BASES:
        if isinstance(a, b):
            return b.__name__
    return None


def path_of(root_ast, target):
    """[(field, idx|None)] from root to target (identity search)"""
    def go(n, acc):
        if n is target:
            return acc
        for f, v in ast.iter_fields(n):
            if isinstance(v, list):
                for i, c in enumerate(v):
                    if isinstance(c, ast.AST):
                        r = go(c, acc + [(f, i)])
                        if r is not None:
                            return r
            elif isinstance(v, ast.AST):
                r = go(v, acc + [(f, None)])
                if r is not None:
                    return r
        return None
    return go(root_ast, [])


def nav(root_ast, path):
    n = root_ast
    for f, i in path:
        n = getattr(n, f)
        if i is not None:
            n = n[i]
    return n


class Donors:
    """Pool of donor code by category, built once from corpus programs (texts + parse modes)."""

    def __init__(self, programs):
        from fst import FST
        self.by_base = {}
        for src in programs:
            try:
                root = FST(src, 'exec')
            except Exception:
                continue
            for f in root.walk(True):
                a = f.a
                b = base_of(a)
                if b is None or isinstance(a, (ast.expr_context,)):
                    continue
                if isinstance(a, ast.expr) and not isinstance(getattr(a, 'ctx', ast.Load()), ast.Load):
                    continue
                try:
                    c = f.copy()
                    text = c.src
                except Exception:
                    continue
                if len(text) > 400:
                    continue
                self.by_base.setdefault(b, []).append((text, a.__class__.__name__))
        for b in self.by_base:
            # de-duplicate, stable order
            seen = set()
            lst = []
            for t in self.by_base[b]:
                if t not in seen:
                    seen.add(t)
                    lst.append(t)
            self.by_base[b] = lst

    def pick(self, rng, base):
        lst = self.by_base.get(base)
        if not lst:
            return None
        return rng.choice(lst)


def make_code(text, base, form, kind=None):
    """donor text -> code object in the requested form (may raise)"""
    from fst import FST
    if form == 'src':
        return text
    mode = kind or base
    if base == 'expr' and text.lstrip().startswith('*'):
        mode = 'expr_arglike'
    f = FST(text, mode)
    if form == 'fst':
        return f
    from fst.astutil import copy_ast
    return copy_ast(f.a)


def list_fields(a):
    out = []
    for f, v in ast.iter_fields(a):
        if isinstance(v, list) and (not v or isinstance(v[0], ast.AST) or v[0] is None):
            out.append(f)
    return out


def random_edit(rng, root, donors, ops=None):
    """choose one edit on `root` (an FST Module root); returns the edit record or None"""
    nodes = [f for f in root.walk(True) if f is not root and base_of(f.a)]
    if not nodes:
        return None
    ops = ops or ['replace', 'replace', 'replace', 'remove', 'insert', 'put_slice', 'cut', 'append', 'setattr', 'delitem',
                  'setslice']
    op = rng.choice(ops)
    tgt = rng.choice(nodes)
    a = tgt.a
    base = base_of(a)
    form = rng.choice(['src', 'src', 'fst', 'ast'])
    rec = {'op': op, 'form': form}
    if op in ('replace', 'setattr'):
        d = donors.pick(rng, base)
        if d is None:
            return None
        rec.update(path=path_of(root.a, a), code_src=d[0], base=base, donor_kind=d[1])
        return rec
    if op in ('remove', 'cut', 'delitem'):
        rec.update(path=path_of(root.a, a), base=base)
        return rec
    # list-field ops: pick a parent with a list field
    parents = [f for f in root.walk(True) if list_fields(f.a)]
    if not parents:
        return None
    p = rng.choice(parents)
    field = rng.choice(list_fields(p.a))
    lst = getattr(p.a, field)
    sample = next((x for x in lst if isinstance(x, ast.AST)), None)
    ebase = base_of(sample) if sample is not None else {'body': 'stmt', 'orelse': 'stmt', 'finalbody': 'stmt',
                                                        'elts': 'expr', 'args': 'expr', 'keywords': 'keyword',
                                                        'decorator_list': 'expr', 'bases': 'expr', 'targets': 'expr',
                                                        'handlers': 'excepthandler', 'names': 'alias'}.get(field)
    if ebase is None:
        return None
    n = len(lst)
    k = rng.choice([1, 1, 2, 3]) if op in ('put_slice', 'setslice') else 1
    ds = [donors.pick(rng, ebase) for _ in range(k)]
    if any(d is None for d in ds):
        return None
    start = rng.randint(0, n)
    stop = min(n, start + rng.choice([0, 1, 1, 2]))
    rec.update(path=path_of(root.a, p.a), field=field, start=start, stop=stop, base=ebase,
               code_srcs=[d[0] for d in ds], donor_kinds=[d[1] for d in ds], parent_kind=p.a.__class__.__name__)
    return rec


def _join_slice_src(base, srcs):
    if base == 'stmt':
        return '\n'.join(srcs)
    if base in ('excepthandler', 'match_case'):
        return '\n'.join(srcs)
    return ', '.join(srcs)


def apply_edit(root, rec, options=None):
    """perform the edit described by `rec` on `root`; returns a short description; raises what pfst raises"""
    from fst import FST
    options = dict(options or {})
    options.setdefault('norm', True)
    with FST.options(**options):     # view / attribute forms take their options from the (thread-local) defaults
        return _apply_edit(root, rec, options)


def _apply_edit(root, rec, options):
    op = rec['op']
    tgt_ast = nav(root.a, [tuple(p) for p in rec['path']])
    tgt = tgt_ast.f
    form = rec.get('form', 'src')
    if op == 'replace':
        code = make_code(rec['code_src'], rec['base'], form, rec.get('donor_kind'))
        tgt.replace(code, **options)
    elif op == 'setattr':
        parent = tgt.parent
        field, idx = tgt.pfield
        code = make_code(rec['code_src'], rec['base'], form, rec.get('donor_kind'))
        if idx is None:
            setattr(parent, field, code)
        else:
            getattr(parent, field)[idx] = code
    elif op == 'remove':
        tgt.remove(**options)
    elif op == 'cut':
        tgt.cut(**options)
    elif op == 'delitem':
        parent = tgt.parent
        field, idx = tgt.pfield
        if idx is None:
            delattr(parent, field)
        else:
            del getattr(parent, field)[idx]
    elif op in ('insert', 'append'):
        code = make_code(rec['code_srcs'][0], rec['base'], form, rec['donor_kinds'][0])
        if op == 'append':
            tgt.append(code, rec['field'], **options) if hasattr(tgt, 'append') else tgt.put_slice(code, 'end', 'end', rec['field'], one=True, **options)
        else:
            tgt.insert(code, rec['start'], rec['field'], **options)
    elif op in ('put_slice', 'setslice'):
        srcs = rec['code_srcs']
        if len(srcs) == 1 and form != 'src':
            code = make_code(srcs[0], rec['base'], form, rec['donor_kinds'][0])
            one = True
        else:
            code = _join_slice_src(rec['base'], srcs)
            one = False
            if rec['base'] == 'expr' and len(srcs) == 1:
                one = True
        if op == 'put_slice':
            tgt.put_slice(code, rec['start'], rec['stop'], rec['field'], one=one, **options)
        else:
            view = getattr(tgt, rec['field'])
            view[rec['start']:rec['stop']] = code
    else:
        raise ValueError(op)
    return op


FAMILY = {'replace': 'one', 'setattr': 'one', 'remove': 'del', 'cut': 'del', 'delitem': 'del',
          'insert': 'slice', 'append': 'slice', 'put_slice': 'slice', 'setslice': 'slice'}


def _in_debug_fstring(root_ast, path):
    """is some node on the path a FormattedValue of a self-documenting field `{expr=}` (or below one)?"""
    n = root_ast
    for f, i in path:
        parent = n
        n = getattr(n, f)
        if i is not None:
            n = n[i]
        if isinstance(parent, ast.JoinedStr) and isinstance(n, ast.FormattedValue) and i:
            prev = parent.values[i - 1]
            if isinstance(prev, ast.Constant) and isinstance(prev.value, str) and prev.value.rstrip().endswith('='):
                return True
    return False


def edit_signature(root_before_ast, rec):
    """(family, slot, what): slot = [Grandparent>]ParentKind.field[@tag...], what = donor kind(s) or deleted kind"""
    try:
        path = [tuple(p) for p in rec['path']]
        tgt = nav(root_before_ast, path)
        fam = FAMILY[rec['op']]
        tags = ''
        if _in_debug_fstring(root_before_ast, path):
            tags += '@in-debug-fstring'
        if fam in ('one', 'del'):
            parent = nav(root_before_ast, path[:-1]) if path else None
            field = path[-1][0] if path else ''
            slot = f'{parent.__class__.__name__}.{field}'
            if isinstance(parent, (ast.arguments, ast.arg)) and len(path) >= 2:
                gp = nav(root_before_ast, path[:-2])
                if isinstance(parent, ast.arg) and len(path) >= 3:
                    gp = nav(root_before_ast, path[:-3])
                slot = f'{gp.__class__.__name__}>{slot}'
            ctx = getattr(tgt, 'ctx', None)
            if ctx is not None and not isinstance(ctx, ast.Load):
                slot += f'@{ctx.__class__.__name__}'
            if fam == 'del' and isinstance(parent, (ast.Try, getattr(ast, 'TryStar', ast.Try))) and field == 'handlers' \
                    and len(parent.handlers) == 1 and parent.orelse:
                slot += '@last-handler-with-else'
            if fam == 'del' and isinstance(tgt, ast.stmt) and path[-1][1] == 0 and isinstance(parent, ast.stmt) \
                    and tgt.lineno == parent.lineno and len(getattr(parent, field)) > 1 \
                    and getattr(parent, field)[1].lineno > tgt.end_lineno:
                # the block body starts on the header line and goes on, after `;` and a backslash continuation, on the next line
                slot += '@header-line-first-then-continuation'
            what = rec.get('donor_kind') if fam == 'one' else tgt.__class__.__name__
            return fam, slot + tags, what
        slot = f'{tgt.__class__.__name__}.{rec["field"]}'
        ctx = getattr(tgt, 'ctx', None)
        if ctx is not None and not isinstance(ctx, ast.Load):
            slot += f'@{ctx.__class__.__name__}'
        if isinstance(tgt, (ast.Try, getattr(ast, 'TryStar', ast.Try))) and rec['field'] == 'orelse' and not tgt.handlers:
            slot += '@no-handlers'
        if isinstance(tgt, ast.Tuple) and path:
            parent = nav(root_before_ast, path[:-1])
            if isinstance(parent, ast.withitem) and parent.optional_vars is None and path[-1][0] == 'context_expr':
                slot += '@with-sole-tuple'
        return fam, slot + tags, '+'.join(sorted(set(rec.get('donor_kinds', []))))
    except Exception:
        return '?', '?', '?'
