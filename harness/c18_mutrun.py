#!/usr/bin/env python3
"""c18_mutrun.py <operator> <file relative to src/fst> [first_line last_line]
Same mutation operators, procedure and result format as harness/mutants.py (suite first, then ./check C18 on survivors),
restricted to a line range (the sub()/subn()/_sub_* part of match.py) and able to mutate files in sub-directories
(fst/cli/sub.py).  Results: seeded/mutants/C18_<operator>.json.  Env: MUT_PER_FILE, MUT_SEED, MUT_ONLY_MISSED."""
import json, os, random, re, shutil, subprocess, sys, tempfile
from pathlib import Path
ROOT = Path(__file__).resolve().parent.parent
op, rel = sys.argv[1], sys.argv[2]
lo, hi = (int(sys.argv[3]), int(sys.argv[4])) if len(sys.argv) > 4 else (1, 10 ** 9)
SRC = Path('/repo/src/fst')
out_path = ROOT / 'seeded' / 'mutants' / f'C18_{op}.json'
out_path.parent.mkdir(parents=True, exist_ok=True)
results = json.loads(out_path.read_text()) if out_path.exists() else {}


def sites(text):
    out = []
    if op == 'bytechar':
        for pat in (r'(\w[\w\.\[\]]*)\.c2b\(', r'(\w[\w\.\[\]]*)\.b2c\('):
            for m in re.finditer(pat, text):
                i = m.end(); depth = 1; j = i
                while depth and j < len(text):
                    depth += text[j] == '('; depth -= text[j] == ')'; j += 1
                out.append((m.start(), j, '(' + text[i:j - 1] + ')'))
        for m in re.finditer(r'\.encode\(\)\)', text):
            out.append((m.start(), m.end() - 1, ''))
    elif op == 'dropcall':
        for m in re.finditer(r'^([ \t]+)((?:self|parent|root|fst_|self\.root|parenta\.f|ast\.f|[a-z_]+)\.(?:_touch|_touchall|_offset|_set_end_pos|_set_start_pos|_fix_\w+|_maybe_\w+|_unmake_fst_tree|_make_fst_tree|_reparse_docstr_Constants)\([^\n]*\))[ \t]*(#[^\n]*)?$', text, re.M):
            if m.group(2).count('(') == m.group(2).count(')'):
                out.append((m.start(2), m.end(2), 'pass'))
    elif op == 'swapidx':
        for m in re.finditer(r'\[(-1|0)\](?!\s*=[^=])', text):
            out.append((m.start(), m.end(), '[0]' if m.group(1) == '-1' else '[-1]'))
    elif op == 'notnone':
        for m in re.finditer(r'\bif ([\w\.]+) is not None:', text):
            out.append((m.start(), m.end(), f'if {m.group(1)}:'))
        for m in re.finditer(r'\bif ([\w\.]+) is None:', text):
            out.append((m.start(), m.end(), f'if not {m.group(1)}:'))
    elif op == 'boolflip':
        for m in re.finditer(r'(?<=[(, ])(True|False)(?=[,)])', text):
            out.append((m.start(), m.end(), 'False' if m.group(1) == 'True' else 'True'))
    elif op == 'plusone':
        for m in re.finditer(r'(?<=[\w\)\]]) ([+-]) 1\b(?!\d)', text):
            out.append((m.start(), m.end(), ''))
    elif op == 'offby':
        for m in re.finditer(r'(?<![\w\.])(end_col|col|end_ln|ln|idx|start|stop) ([<>])=? ', text):
            s = m.group(0)
            new = s.replace(m.group(2) + '= ', m.group(2) + ' ') if '= ' in s[len(m.group(1)) + 1:] else s.replace(m.group(2) + ' ', m.group(2) + '= ')
            out.append((m.start(), m.end(), new))
    # ---- operators beyond the shared tool, for the substitution driver
    elif op == 'isnot':            # `x is not False/None/True` and `is` <-> its negation
        for m in re.finditer(r' is not (?=False|None|True|_SENTINEL)', text):
            out.append((m.start(), m.end(), ' is '))
        for m in re.finditer(r' is (?=False\b|None\b|True\b|_SENTINEL\b)', text):
            out.append((m.start(), m.end(), ' is not '))
    elif op == 'dropnot':          # `if not X` -> `if X`, `and not X` -> `and X`
        for m in re.finditer(r'\b(if|elif|and|or|while) not ', text):
            out.append((m.start(), m.end(), m.group(1) + ' '))
    elif op == 'dropkw':           # drop one `name=name,` forwarding line of a call
        for m in re.finditer(r'^[ \t]+(\w+)=(\1|args\.\1),\n', text, re.M):
            out.append((m.start(), m.end(), ''))
    elif op == 'dropstmt':         # replace a simple assignment / augmented assignment / continue / break statement by pass
        for m in re.finditer(r'^([ \t]+)((?:[\w\.]+ (?:\+|-)?= [^\n]+)|continue|break)[ \t]*(#[^\n]*)?$', text, re.M):
            if m.group(2).count('(') == m.group(2).count(')') and m.group(2).count('[') == m.group(2).count(']'):
                out.append((m.start(2), m.end(2), 'pass'))
    return out


rnd = random.Random(int(os.environ.get('MUT_SEED', '1')))
per_file = int(os.environ.get('MUT_PER_FILE', '0'))
f = SRC / rel
text = f.read_text()
ss = [s for s in sites(text) if lo <= text.count('\n', 0, s[0]) + 1 <= hi]
if per_file and len(ss) > per_file:
    ss = sorted(rnd.sample(ss, per_file))
print(len(ss), 'sites', flush=True)
for (a, b, new) in ss:
    line = text.count('\n', 0, a) + 1
    key = f'{rel}:{line}:{a}'
    if os.environ.get('MUT_ONLY_MISSED'):
        old = results.get(key)
        if not old or old.get('suite') != 'passes' or any(x in ('caught', 'no-input') for x in old.get('checks', {}).values()):
            continue
    elif key in results:
        continue
    S = Path(tempfile.mkdtemp(prefix='mut-C18-', dir='/var/tmp'))
    try:
        shutil.copytree('/repo/src', S / 'src')
        shutil.copytree('/repo/tests', S / 'tests')
        for extra in ('pyproject.toml', 'setup.cfg', 'pytest.ini', 'conftest.py', 'tox.ini'):
            if Path('/repo', extra).exists():
                shutil.copy(Path('/repo', extra), S / extra)
        (S / 'src' / 'fst' / rel).write_text(text[:a] + new + text[b:])
        rec = {'file': rel, 'line': line, 'old': text[a:b][:120], 'new': new[:120]}
        c = subprocess.run(['/venv/bin/python', '-m', 'py_compile', str(S / 'src' / 'fst' / rel)], capture_output=True)
        if c.returncode:
            rec['suite'] = 'does-not-compile'
        else:
            t = subprocess.run(['/venv/bin/python', '-m', 'pytest', '-q', '-x', '-p', 'no:cacheprovider', '--timeout=900',
                                '--deselect', 'tests/test_one.py::TestFSTPut::test_get_format_spec', '--deselect', 'tests/test_one.py::TestFSTPut::test_get_one_special',
                                '--deselect', 'tests/doctests/test_misc_non_expr_compatible_coerce.txt'],
                               cwd=S, env=dict(os.environ, PYTHONPATH=str(S / 'src')), capture_output=True, text=True)
            tail = (t.stdout.strip().splitlines() or ['?'])[-1]
            rec['suite'] = 'passes' if t.returncode == 0 else 'killed: ' + tail[:100]
        if rec['suite'] == 'passes':
            env = dict(os.environ, PFST_REPO=str(S), VERIF_EVIDENCE_DIR=str(S / 'evidence'))
            (S / 'evidence').mkdir(exist_ok=True)
            p = subprocess.run([str(ROOT / 'check'), 'C18'], capture_output=True, text=True, env=env, cwd=ROOT)
            lines = [l for l in p.stdout.splitlines() if l.startswith('VIOLATION')]
            rec['checks'] = {'C18': 'HELD' if p.returncode == 0 else ('no-input' if lines and lines[-1].endswith('no-failing-input-found') else 'caught' if lines else f'exit{p.returncode}')}
        if os.environ.get('MUT_ONLY_MISSED') and out_path.exists():
            results = json.loads(out_path.read_text())
        results[key] = rec
        print(key, rec.get('suite'), rec.get('checks'), repr(rec['old'][:70]), flush=True)
    finally:
        shutil.rmtree(S, ignore_errors=True)
        out_path.write_text(json.dumps(results, indent=1, sort_keys=True))
