"""C20: the public API surface: EVERY public entry point of FST and FSTView that takes **options, each on receivers where
options matter (statements with trivia, parenthesised elements, a Set).  Used for the rule: an option passed to the
call and the same option as thread/block default give the same result."""

MOD = 'x = 1\n\n# c\ndef f(): pass  # t\n\ny = [(a), b, c]\n'
DEF = 'def g(): pass'


def _exc(e):
    return 'EXC ' + type(e).__name__ + ': ' + str(e)[:80]


def _r(ret, tree):
    src = getattr(ret, 'src', None)
    return (src if isinstance(src, str) else repr(ret) if isinstance(ret, (str, list, type(None))) else '<obj>') + '\x00' + tree.src


def entries(F):
    """[(name, func(o) -> str)]"""
    from fst.match import M, MCall
    L = lambda: F('[(a), b, c]')
    S = lambda: F('{a, b}')
    m = lambda: F(MOD, 'exec')
    E = []

    def add(name, fn):
        def run(o):
            try:
                return fn(o)
            except Exception as e:
                return _exc(e)
        E.append((name, run))

    # FST methods
    add('FST.append/list', lambda o: (t := L(), _r(t.append('(d)', **o), t))[1])
    add('FST.append/body', lambda o: (t := m(), _r(t.append(DEF, 'body', **o), t))[1])
    add('FST.prepend/list', lambda o: (t := L(), _r(t.prepend('(d)', **o), t))[1])
    add('FST.prepend/body', lambda o: (t := m(), _r(t.prepend(DEF, 'body', **o), t))[1])
    add('FST.extend/list', lambda o: (t := L(), _r(t.extend('[(d), e]', **o), t))[1])
    add('FST.extend/body', lambda o: (t := m(), _r(t.extend(DEF + '\nz = 2', 'body', **o), t))[1])
    add('FST.prextend/list', lambda o: (t := L(), _r(t.prextend('[(d), e]', **o), t))[1])
    add('FST.prextend/body', lambda o: (t := m(), _r(t.prextend(DEF + '\nz = 2', 'body', **o), t))[1])
    add('FST.insert/list', lambda o: (t := L(), _r(t.insert('(d)', 1, **o), t))[1])
    add('FST.insert/body', lambda o: (t := m(), _r(t.insert(DEF, 1, 'body', **o), t))[1])
    add('FST.put/list', lambda o: (t := L(), _r(t.put('(d)', 1, **o), t))[1])
    add('FST.put/delete', lambda o: (t := L(), _r(t.put(None, 1, **o), t))[1])
    add('FST.put_slice/set-empty', lambda o: (t := S(), _r(t.put_slice(None, 0, 2, **o), t))[1])
    add('FST.put_slice/body', lambda o: (t := m(), _r(t.put_slice(DEF, 1, 2, 'body', **o), t))[1])
    add('FST.get/elt', lambda o: (t := L(), _r(t.get(0, **o), t))[1])
    add('FST.get/elt-cut', lambda o: (t := L(), _r(t.get(0, cut=True, **o), t))[1])
    add('FST.get/stmt-cut', lambda o: (t := m(), _r(t.get(1, 'body', cut=True, **o), t))[1])
    add('FST.get/field-cut', lambda o: (t := F('return (x)'), _r(t.get('value', cut=True, **o), t))[1])
    add('FST.get_slice/list-cut', lambda o: (t := L(), _r(t.get_slice(0, 2, cut=True, **o), t))[1])
    add('FST.get_slice/set-all-cut', lambda o: (t := S(), _r(t.get_slice(0, 2, cut=True, **o), t))[1])
    add('FST.get_slice/body-cut', lambda o: (t := m(), _r(t.get_slice(1, 2, 'body', cut=True, **o), t))[1])
    add('FST.copy/elt', lambda o: (t := L(), _r(t.elts[0].copy(**o), t))[1])
    add('FST.copy/stmt', lambda o: (t := m(), _r(t.body[1].copy(**o), t))[1])
    add('FST.cut/elt', lambda o: (t := L(), _r(t.elts[0].cut(**o), t))[1])
    add('FST.cut/stmt', lambda o: (t := m(), _r(t.body[1].cut(**o), t))[1])
    add('FST.cut/field', lambda o: (t := F('return (x)'), _r(t.value.cut(**o), t))[1])
    add('FST.remove/elt', lambda o: (t := L(), _r(t.elts[0].remove(**o), t))[1])
    add('FST.remove/stmt', lambda o: (t := m(), _r(t.body[1].remove(**o), t))[1])
    add('FST.replace/elt', lambda o: (t := L(), _r(t.elts[1].replace('(d)', **o), t))[1])
    add('FST.replace/stmt', lambda o: (t := m(), _r(t.body[1].replace(DEF, **o), t))[1])
    add('FST.replace/binop', lambda o: (t := F('a * b'), _r(t.left.replace('c + d', **o), t))[1])
    add('FST.as_/copy', lambda o: (t := F('[(a), b]'), _r(t.as_('Tuple', True, **o), t))[1])
    add('FST.put_docstr', lambda o: (t := F('def f():\n    pass'), _r(t.put_docstr('doc\nstring', **o), t))[1])
    add('FST.sub', lambda o: (t := F('y = f(a + b)\n', 'exec'), _r(t.sub(MCall(func='f', args=[M(arg=...)]), '__FST_arg * 2', **o), t))[1])
    add('FST.subn', lambda o: (t := F('y = f((a))\n', 'exec'), repr(t.subn(MCall(func='f', args=[M(arg=...)]), 'g(__FST_arg)', **o)[1]) + t.src)[1])
    # FSTView methods (a list's elements and a module body)
    add('View.append/list', lambda o: (t := L(), _r(t.elts.append('(d)', **o), t))[1])
    add('View.append/body', lambda o: (t := m(), _r(t.body.append(DEF, **o), t))[1])
    add('View.prepend/list', lambda o: (t := L(), _r(t.elts.prepend('(d)', **o), t))[1])
    add('View.prepend/body', lambda o: (t := m(), _r(t.body.prepend(DEF, **o), t))[1])
    add('View.extend/list', lambda o: (t := L(), _r(t.elts.extend('[(d), e]', **o), t))[1])
    add('View.extend/body', lambda o: (t := m(), _r(t.body.extend(DEF + '\nz = 2', **o), t))[1])
    add('View.prextend/list', lambda o: (t := L(), _r(t.elts.prextend('[(d), e]', **o), t))[1])
    add('View.prextend/body', lambda o: (t := m(), _r(t.body.prextend(DEF + '\nz = 2', **o), t))[1])
    add('View.insert/list', lambda o: (t := L(), _r(t.elts.insert('(d)', 1, **o), t))[1])
    add('View.insert/body', lambda o: (t := m(), _r(t.body.insert(DEF, 1, **o), t))[1])
    add('View.copy/list', lambda o: (t := L(), _r(t.elts[0:2].copy(**o), t))[1])
    add('View.copy/body', lambda o: (t := m(), _r(t.body[1:2].copy(**o), t))[1])
    add('View.cut/list', lambda o: (t := L(), _r(t.elts[0:2].cut(**o), t))[1])
    add('View.cut/set-all', lambda o: (t := S(), _r(t.elts[0:2].cut(**o), t))[1])
    add('View.cut/body', lambda o: (t := m(), _r(t.body[1:2].cut(**o), t))[1])
    add('View.remove/list', lambda o: (t := L(), _r(t.elts[0:2].remove(**o), t))[1])
    add('View.remove/body', lambda o: (t := m(), _r(t.body[1:2].remove(**o), t))[1])
    add('View.replace/list', lambda o: (t := L(), _r(t.elts[0:2].replace('[(d)]', **o), t))[1])
    add('View.replace/body', lambda o: (t := m(), _r(t.body[1:2].replace(DEF, **o), t))[1])
    return E
