"""Program corpus for the correspondence harnesses: hand-written snippets covering every node type, a random AST
generator (unparsed by CPython), layout mutators that keep the parse, and real stdlib files.

Every random choice derives from the `random.Random` passed in.
"""

from __future__ import annotations

import ast
import io
import os
import sys
import tokenize
from pathlib import Path

STDLIB = Path(os.path.dirname(os.__file__))

SNIPPETS = [
    'x = 1',
    'a, b = c, d',
    'x: int = 3',
    'x += f(a, *b, c=1, **d)',
    'del a, b[0], c.d',
    'def f(a, /, b: int = 1, *c, d, e=2, **g) -> int:\n    """doc"""\n    return a + b\n',
    'async def g(x):\n    await x\n    async for i in x:\n        pass\n    async with a as b, c:\n        pass\n',
    '@deco\n@other(1)\nclass C(Base, metaclass=M):\n    """cls doc"""\n    x = 1\n\n    def m(self):\n        pass\n',
    'class D[T, *Ts, **P](A, B, k=v): pass',
    'def h[T: int, U](x: T) -> U: ...',
    'type Alias[T] = list[T]',
    'if a:\n    b\nelif c:\n    d\nelse:\n    e\n',
    'for i in range(10):\n    continue\nelse:\n    pass\n',
    'while x < 3:\n    x += 1\n    break\n',
    'try:\n    a\nexcept E as e:\n    b\nexcept (F, G):\n    c\nelse:\n    d\nfinally:\n    f\n',
    'try:\n    a\nexcept* E:\n    b\n',
    'with open(f) as g, h() as (i, j):\n    pass\n',
    'with (a as b, c as d):\n    pass\n',
    'match x:\n    case 1 | 2:\n        pass\n    case [a, *b]:\n        pass\n    case {"k": v, **rest}:\n        pass\n    case C(p, q=r) as s if s:\n        pass\n    case None | True:\n        pass\n    case a.b:\n        pass\n    case _:\n        pass\n',
    'import a, b.c as d',
    'from . import x',
    'from ..m import (y as z, w)',
    'from m import *',
    'global g1, g2',
    'def o():\n    v = 1\n    def i():\n        nonlocal v\n        v = 2\n    return i\n',
    'raise E from c',
    'assert a, "m"',
    'return_ = lambda x, *y, z=1, **k: (x, y)',
    'r = [i for i in a if i if j]',
    's = {i: j for i, j in a for k in b}',
    't = {i async for i in a}',
    'g = (i for i in a)',
    'y = a if b else c',
    'z = a and b or not c',
    'w = a < b <= c != d is not e not in f',
    'v = -a ** +b * ~c // d % e @ f << g >> h & i ^ j | k',
    'u = a[1:2, ::3, b:c:d]',
    'q = a.b.c(d)[e].f',
    'p = (yield)',
    'def gen():\n    x = yield 1\n    yield from x\n',
    'n = (a := 1)',
    'm = [*a, *b]',
    'l = {**a, "b": c, **d}',
    'k = {1, 2, *s}',
    'j = f"a{b!r:>{w}}c{d=}" f\'e\'',
    "i = 'a' 'b' \"c\"",
    'h = b"x" b"y"',
    'g = 1 + 2j - 3.5e3 * 0x1F',
    'f = ...',
    'e = None, True, False',
    'd = (a,)',
    'c = ()',
    'b = [], {}, set()',
    'a = x if y else lambda: z',
    'print(*args, sep="", **kw)',
    'f(a)(b)(c)',
    'x = (\n    a +\n    b  # c\n)',
    'x = [\n    1,  # one\n    2,\n    # three\n    3,\n]',
    'call(a,\n     b,  # bb\n     c=d,\n     )',
    'if x: y; z = 1',
    'a = 1; b = 2; c = 3',
    'x = a \\\n    + b',
    'for a, b in c: pass',
    'with a: pass',
    'class E:\n    # comment\n    x = 1  # trailing\n\n    # another\n    y = 2\n',
    'def f():\n    # pre\n    a = 1\n    if a:\n        # inner\n        return 2  # ret\n    # post\n',
    'é = "ñ" + ü("日本語", 😀="x") if ß else b"\\xff"' .replace('😀', 'ж'),
    'x = """multi\nline\n  string"""\ny = 2',
    'def f():\n    """Doc\n\n    more\n    """\n    s = f"""a\n{b}\n  c"""\n    return s\n',
    'async def f():\n    return [await x async for x in y]\n',
    'x = a if b else (c if d else e)',
    'lambda: (yield)',
    'x[a, b] = y[()]',
    'x = not a, -b, +c, ~d',
    'f(*a, b, *c, d=e, **f, g=h)',
    'class F(*bases, **kw): pass',
    '@a.b\n@c(d)\ndef f(): pass',
    'try:\n    pass\nfinally:\n    pass\n',
    'if a:\n    pass\nelse:\n    if b:\n        pass\n',
    'x = a[b][c:d]',
    'x = (a).b',
    'x = ((a) + (b))',
    'x = 1 .real',
    'x = [a for a in (b, c)]',
    'x = {a: b for a, b in c.items() if a}',
    'def f(a=1, *, b=2): pass',
    'def f(*, a): pass',
    'def f(*a): pass',
    'def f(**k): pass',
    'f = lambda a, /, b, *, c: 0',
    'match a:\n    case (1, 2): pass\n    case [1, [2, 3]]: pass\n    case -1: pass\n    case 1+2j: pass\n    case "s" "t": pass\n    case {1: _}: pass\n    case C(): pass\n    case (a): pass\n    case *_, : pass\n',
    'while True:\n    pass\nelse:\n    pass\n',
    'x = a if b else c, d',
    '@deco(f(a),\n      b)\n@other(\n    c\n)\ndef g(): pass',
    '@reg(\n    k(1), m[2]\n)\nclass K: pass',
    "x = f'é{a = }'",
    "print(f'日本語: {a+b=}', f'{x !r:>{w}} ü {y+1=:>5}')",
    "s = f'''ñ{\n  a +\n  b = } {c}'''",
    'x = yield_ = [(yield) for _ in ()] if 0 else 0' .replace('[(yield) for _ in ()]', '[]'),
]

# "Hard shapes": layouts the seeded-change rounds showed to be blind spots of random generation.  They are NOT part of
# `programs()` (whose output stream must stay stable for the triaged fixed corpora); packages opt in explicitly by
# appending `hard_snippets()` AFTER their existing inputs.  Entries that do not parse on this interpreter are dropped.
HARD_SNIPPETS = [
    # interleaved starred / keyword arguments, several of each after the last of the other kind, one-line and multi-line
    'f(a=1, *b, c=2, d=3, e=4)', 'f(x, k=1, *a, j=2, *b, *c, *d)', 'f(k=1, *a, *b, *c, **kw)', 'r = f("é", k="ü", *a, j=2, *b, l=3, m=4)',
    'f(a, key=1,\n  *b, last=2)', 'f(\n    a=1,\n    *b,\n    c=2,  # é\n    d=3,\n    e=4,\n)',
    'class C(a, m=1, *b, n=2, o=3, p=4): pass', 'class C(m=1, *a, *b, *c): pass', 'class C(x, key=1,\n  *b, last=2): pass',
    '@d(a=1, *b, c=2, d=3)\n@e\ndef f(p, /, q=1, *r, s=2, **t): pass',
    # multi-byte text BEFORE things on the same line
    'é = "é"; x = f(a, b)  # é', 'ü = "日本"; y = [a, b, (c)]', 'if é: s = "é" ; y = 2', 'x = "é" if é else f(é, "ü", k=1)',
    'def f(é: "é", è="è", *, ü="ü"): return "é", é', 'class É(Ü, k="é"): "é"; x = 1', 'x = {"é": é, **ü, "k": [é, "é"]}',
    'lambda é, è="é": (é, "è", è)', 'with open("é") as é, ü("ü") as (a, b): pass', 'f(größe=1, 日本=x, *é)',
    'match é:\n    case "é" | É(ü, k="é") | {"é": è, **r} | [é, *è]: pass', 'type É[É: "é", *Ü] = dict["é", É]',
    # trailing semicolons, header-line bodies, elif chains
    'if x:\n    a = 1 ;\n    s = "é" ;\n    y = 2\n', 'if a: b; c', 'def f(): a; b', 'try: a\nexcept E: b\nelse: c\nfinally: d', 'if a: b\nelif c: d\nelse: e',
    'for i in j: a; b;\nelse: c', 'while x: a;\n', 'class C: a = 1; b = 2', 'if x: y; \\\n  z', 'with a: b; c',
    'if a:\n    pass\nelse:  # c1\n    # c2\n    if b:\n        pass\n',
    # except* spellings, try shapes
    'try:\n    pass\nexcept *E as e:\n    pass\n', 'try:\n    pass\nexcept  * (A, B) as e:\n    pass\n', 'try:\n    pass\nexcept \\\n  * (A, B) as e:\n    pass\n',
    'try   :\n    pass\nfinally  :\n    pass\n', 'try:\n    a\nexcept:\n    b\n', 'try:\n    a\nexcept E:\n    b\nelse:\n    c\n',
    # tight / empty containers and keyword-adjacent forms
    'x = lambda: 0', 'x = lambda*a: 0', 'x = lambda**k: 0', 'x = lambda *, d: 0', 'f()', 'class C(): pass', 'x = []', 'x = ()', 'x = {}',
    'x = p if(a)else q', 'x = [(a)for b in(c)if(d)]', 'x = not(a)', 'def f():\n    return(a)', 'x = a if b else-c', 'assert(a), (b)',
    'del(a), b', 'for(a)in(b): pass', 'print(a)if b else(c)', 'x = (yield)', 'x = [*(a), b]', 'x = {**(a)}', 'x = f(k=(a))',
    # targets sharing delimiters with the parent
    'x = f(i for i in a)', 'x = f((i for i in a))', 'x = f((a))', 'class c((a)): pass', 'x = s[a, b]', 'x = s[(a)]', 'x = s[a:b, c]', 'x = s[(a, b)]',
    'with (a): pass', 'with (a) as b: pass', 'with (a, b): pass', 'with (a as b): pass', 'with (\n    a as b,\n    c,\n): pass', 'from m import (a)', 'from m import (a as b)',
    'match s:\n    case C((1)): pass', 'match s:\n    case (1) as z: pass', 'match s:\n    case (1) | 2: pass', 'match s:\n    case 1, 2: pass', 'match s:\n    case (1, 2): pass',
    # undelimited sequences whose end elements carry their own delimiters; parenthesised first element on an earlier line
    'x = [p], [q]', 'x = (p), (q)', 'x = (p, q), (r, s)', 'for [a], [b] in c: pass', 'x = (\na\n),\\\nb', 'match s:\n    case [p], [q]: pass', 'match s:\n    case (p), *q: pass',
    'x = (p)(q)', 'x = (p)[q]', 'x = (p) + (q)', 'x = (p) if q else (r)', 'x = (p).q',
    # multi-line strings / bytes as statements, continuation lines indented less / more than the block
    'def f():\n    b"""x\n  y\n      z"""\n    return 1\n', 'class C:\n    """doc\nless\n        more"""\n    b"""a\n b"""\n', 'if x:\n    "s" \\\n  "t"\n    y = b"a" \\\nb"b"\n',
    'def f():\n    x = """a\n  b"""\n    f"""c\n{d}\n e"""\n',
    # signatures with every marker shape
    'def f(a, b, /, c, d=1, *, e, f=2, g=3, **k): pass', 'def f(a, *, b=1, c=2, d=3): pass', 'def f(a, /): pass', 'def f(a, /, *, b): pass', 'def f(*a, b=1, c): pass',
    'def __eq__(self, other, /): pass', 'x = lambda x, /: -x', 'x = lambda item, *, key=order: key(item)', 'def f(a: int = 1, /, *b: c, **d: e) -> f: pass',
    # comprehensions as iterables of comprehensions, walrus in comprehensions / lambdas
    'x = [k for k in {key(x): x for x in items}]', 'x = [y for y in [z for z in w] if (t := y)]', 'def f(z): return [(lambda: (y := 1)) for x in z]',
    'async def f():\n    return [i async for i in a if await b]',
    # dicts and patterns with ** in the middle positions
    'x = {a: b, **c}', 'x = {a: b, **c, d: e}', 'x = {**a}', 'match s:\n    case {1: a, **r}: pass',
    # f-strings
    'x = f"{a}"', 'x = f"{a!r:>{w}} é {b=}"', 'x = f"{ {1: 2}[1] }"', 'x = f"{a:{b}{c}}"', 'x = f"{\'é\'}" f"{b = }"', 'x = f"""{\n a\n}"""',
    # comments ending in a backslash, continuation before block colons, blank lines with whitespace, tabs
    'x = (a  # see C:\\tmp\\\n + b)', 'if a \\\n   :\n    pass', 'x = [\n    a,   \n\n    b,\n]', 'def f():\n\tif x:\n\t\treturn 1\n\treturn 2\n',
    'import a  \\\n', 'global a, \\\n  b', 'a = b = \\\n  c', 'x = a \\\n  if b \\\n  else c',
    # decorators / returns / annotations
    '@(a)\ndef f(): pass', '@a\n\n@b\nclass C: pass', 'def f() -> (a): pass', 'x: (a) = (b)', 'def f(x: "é" = "é") -> "é": pass',
    # identifiers that CPython normalises (NFKC)
    'global ℌ', 'def f():\n    ﬁ = 1\n    return fi',
]


def hard_snippets():
    """the hard shapes that parse on this interpreter"""
    out = []
    for s in HARD_SNIPPETS:
        try:
            ast.parse(s)
        except SyntaxError:
            continue
        out.append(s)
    return out


NAMES = ['a', 'b', 'c', 'x', 'y', 'foo', 'bar', 'é', 'ñu', 'v1']


class Gen:
    """Random AST generator.  Depth-bounded, produces ASTs that `ast.unparse` turns into valid source."""

    def __init__(self, rng, maxdepth=3):
        self.r = rng
        self.maxdepth = maxdepth

    def name(self, ctx=None):
        return ast.Name(self.r.choice(NAMES), ctx or ast.Load())

    def const(self):
        r = self.r
        return ast.Constant(r.choice([0, 1, 23, 1.5, 2j, 'a', 'é"\'', b'x', None, True, False, ..., 'long string']))

    def expr(self, d=0, simple=False):
        r = self.r
        if d >= self.maxdepth or simple:
            return r.choice([self.name, self.const, self.name])()
        k = r.randrange(26)
        e = lambda: self.expr(d + 1)
        if k == 0:
            return ast.BinOp(e(), r.choice([ast.Add, ast.Sub, ast.Mult, ast.Div, ast.FloorDiv, ast.Mod, ast.Pow, ast.LShift,
                                            ast.RShift, ast.BitOr, ast.BitXor, ast.BitAnd, ast.MatMult])(), e())
        if k == 1:
            return ast.UnaryOp(r.choice([ast.Not, ast.USub, ast.UAdd, ast.Invert])(), e())
        if k == 2:
            return ast.BoolOp(r.choice([ast.And, ast.Or])(), [e() for _ in range(r.randint(2, 4))])
        if k == 3:
            n = r.randint(1, 3)
            ops = [r.choice([ast.Eq, ast.NotEq, ast.Lt, ast.LtE, ast.Gt, ast.GtE, ast.Is, ast.IsNot, ast.In, ast.NotIn])()
                   for _ in range(n)]
            return ast.Compare(e(), ops, [e() for _ in range(n)])
        if k == 4:
            args = []
            for _ in range(r.randint(0, 3)):
                args.append(ast.Starred(e(), ast.Load()) if r.random() < 0.25 else e())
            kws = []
            for _ in range(r.randint(0, 2)):
                kws.append(ast.keyword(None if r.random() < 0.3 else r.choice(NAMES), e()))
            return ast.Call(self.expr(d + 1, r.random() < 0.6), args, kws)
        if k == 5:
            return ast.Attribute(self.expr(d + 1, r.random() < 0.5), r.choice(NAMES), ast.Load())
        if k == 6:
            sl = r.choice([e, lambda: ast.Slice(r.choice([None, e()]), r.choice([None, e()]), r.choice([None, e()])),
                           lambda: ast.Tuple([e(), ast.Slice(None, e(), None)], ast.Load())])()
            return ast.Subscript(self.expr(d + 1, r.random() < 0.5), sl, ast.Load())
        if k == 7:
            return ast.IfExp(e(), e(), e())
        if k == 8:
            return ast.Lambda(self.arguments(d + 1, lam=True), e())
        if k == 9:
            return ast.Tuple([e() for _ in range(r.randint(0, 3))], ast.Load())
        if k == 10:
            return ast.List([ast.Starred(e(), ast.Load()) if r.random() < 0.2 else e() for _ in range(r.randint(0, 3))], ast.Load())
        if k == 11:
            return ast.Set([e() for _ in range(r.randint(1, 3))])
        if k == 12:
            n = r.randint(0, 3)
            return ast.Dict([None if r.random() < 0.25 else e() for _ in range(n)], [e() for _ in range(n)])
        if k == 13:
            return ast.ListComp(e(), self.comps(d + 1))
        if k == 14:
            return ast.SetComp(e(), self.comps(d + 1))
        if k == 15:
            return ast.DictComp(e(), e(), self.comps(d + 1))
        if k == 16:
            return ast.GeneratorExp(e(), self.comps(d + 1))
        if k == 17:
            return ast.NamedExpr(self.name(ast.Store()), e())
        if k == 18:
            return ast.JoinedStr([ast.Constant('s'), ast.FormattedValue(e(), r.choice([-1, 114, 115, 97]),
                                  r.choice([None, ast.JoinedStr([ast.Constant('>3')])])), ast.Constant('t')])
        if k == 19:
            return ast.Await(e())
        if k == 20:
            return ast.Yield(r.choice([None, e()]))
        if k == 21:
            return ast.YieldFrom(e())
        if k == 22:
            return self.const()
        return self.name()

    def comps(self, d):
        r = self.r
        out = []
        for _ in range(r.randint(1, 2)):
            out.append(ast.comprehension(self.target(d), self.expr(d + 1), [self.expr(d + 1) for _ in range(r.randint(0, 2))], 0))
        return out

    def target(self, d=0):
        r = self.r
        k = r.randrange(6)
        if k == 0 and d < self.maxdepth:
            return ast.Tuple([self.target(d + 1) for _ in range(r.randint(1, 3))], ast.Store())
        if k == 1 and d < self.maxdepth:
            return ast.List([self.target(d + 1) for _ in range(r.randint(1, 2))], ast.Store())
        if k == 2:
            return ast.Attribute(self.name(), r.choice(NAMES), ast.Store())
        if k == 3:
            return ast.Subscript(self.name(), self.expr(self.maxdepth - 1), ast.Store())
        return self.name(ast.Store())

    def arguments(self, d=0, lam=False):
        r = self.r
        names = NAMES[:]
        r.shuffle(names)
        it = iter(names)

        def arg():
            return ast.arg(next(it), None if lam or r.random() < 0.6 else self.expr(d + 1))

        po = [arg() for _ in range(r.choice([0, 0, 1]))]
        aa = [arg() for _ in range(r.randint(0, 2))]
        nd = r.randint(0, len(po) + len(aa))
        defaults = [self.expr(d + 1) for _ in range(nd)]
        va = arg() if r.random() < 0.3 else None
        ko = [arg() for _ in range(r.choice([0, 0, 1, 2]))]
        kd = [None if r.random() < 0.5 else self.expr(d + 1) for _ in ko]
        kw = arg() if r.random() < 0.3 else None
        return ast.arguments(po, aa, va, ko, kd, kw, defaults)

    def pattern(self, d=0):
        r = self.r
        k = r.randrange(9) if d < 2 else r.choice([0, 1, 7])
        p = lambda: self.pattern(d + 1)
        if k == 0:
            return ast.MatchValue(r.choice([ast.Constant(1), ast.Constant('s'), ast.Attribute(self.name(), 'b', ast.Load()),
                                            ast.UnaryOp(ast.USub(), ast.Constant(2))]))
        if k == 1:
            return ast.MatchSingleton(r.choice([None, True, False]))
        if k == 2:
            elts = [p() for _ in range(r.randint(0, 3))]
            if elts and r.random() < 0.4:
                elts[r.randrange(len(elts))] = ast.MatchStar(r.choice([None, 'rest']))
            return ast.MatchSequence(elts)
        if k == 3:
            n = r.randint(0, 2)
            return ast.MatchMapping([ast.Constant(i) for i in range(n)], [p() for _ in range(n)], r.choice([None, 'kw']))
        if k == 4:
            na = r.randint(0, 2)
            return ast.MatchClass(self.name(), [p() for _ in range(r.randint(0, 2))], [f'k{i}' for i in range(na)], [p() for _ in range(na)])
        if k == 5:
            return ast.MatchOr([self.pattern(max(d + 1, 2)) for _ in range(r.randint(2, 3))])
        if k == 6:
            return ast.MatchAs(self.pattern(max(d + 1, 2)), 'cap')
        if k == 7:
            return ast.MatchAs(None, r.choice([None, 'nm', 'other']))
        return ast.MatchValue(ast.Constant(3))

    def body(self, d, fn=False, loop=False):
        return [self.stmt(d + 1, fn, loop) for _ in range(self.r.randint(1, 3))]

    def stmt(self, d=0, fn=False, loop=False):
        r = self.r
        e = lambda: self.expr(1)
        k = r.randrange(24) if d < 2 else r.randrange(10)
        if k == 0:
            return ast.Assign([self.target() for _ in range(r.randint(1, 2))], e(), lineno=1)
        if k == 1:
            return ast.AugAssign(r.choice([self.name(ast.Store()), ast.Attribute(self.name(), 'z', ast.Store())]),
                                 r.choice([ast.Add, ast.Sub, ast.BitOr, ast.Pow])(), e())
        if k == 2:
            return ast.AnnAssign(self.name(ast.Store()), e(), r.choice([None, e()]), 1)
        if k == 3:
            return ast.Expr(e())
        if k == 4:
            return ast.Return(r.choice([None, e()])) if fn else ast.Pass()
        if k == 5:
            return ast.Delete([self.target() for _ in range(r.randint(1, 2))])
        if k == 6:
            return ast.Assert(e(), r.choice([None, e()]))
        if k == 7:
            return ast.Raise(e(), r.choice([None, e()])) if r.random() < 0.8 else ast.Raise(None, None)
        if k == 8:
            return r.choice([ast.Import([ast.alias('m', None), ast.alias('p.q', 'r')]),
                             ast.ImportFrom('mod', [ast.alias('n', r.choice([None, 'o']))], r.randint(0, 2)),
                             ast.Global(['g1', 'g2'])])
        if k == 9:
            return r.choice([ast.Break(), ast.Continue()]) if loop else ast.Pass()
        if k == 10:
            return ast.If(e(), self.body(d, fn, loop), r.choice([[], self.body(d, fn, loop), [ast.If(e(), self.body(d, fn, loop), [])]]))
        if k == 11:
            return ast.For(self.target(), e(), self.body(d, fn, True), r.choice([[], self.body(d, fn, loop)]), lineno=1)
        if k == 12:
            return ast.While(e(), self.body(d, fn, True), r.choice([[], self.body(d, fn, loop)]))
        if k == 13:
            hs = [ast.ExceptHandler(r.choice([None, e()]) if i == 0 else e(), None, self.body(d, fn, loop)) for i in range(r.randint(0, 2))]
            hs.reverse()
            for h in hs:
                if h.type is not None and r.random() < 0.5:
                    h.name = 'exc'
            fin = self.body(d, fn, loop) if (not hs or r.random() < 0.3) else []
            return ast.Try(self.body(d, fn, loop), hs, self.body(d, fn, loop) if hs and r.random() < 0.3 else [], fin)
        if k == 14:
            items = [ast.withitem(e(), r.choice([None, self.target()])) for _ in range(r.randint(1, 2))]
            return ast.With(items, self.body(d, fn, loop), lineno=1)
        if k == 15:
            return ast.FunctionDef(r.choice(NAMES), self.arguments(), self.body(d, True, False),
                                   [e() for _ in range(r.choice([0, 0, 1, 2]))], r.choice([None, e()]), lineno=1, type_params=[])
        if k == 16:
            return ast.ClassDef(r.choice(NAMES), [e() for _ in range(r.randint(0, 2))],
                                [ast.keyword(r.choice([None, 'metaclass']), e())] if r.random() < 0.3 else [],
                                self.body(d, False, False), [e() for _ in range(r.choice([0, 0, 1]))], type_params=[])
        if k == 17:
            cases = [ast.match_case(self.pattern(), r.choice([None, e()]), self.body(d, fn, loop)) for _ in range(r.randint(1, 3))]
            return ast.Match(e(), cases)
        if k == 18:
            return ast.AsyncFunctionDef('af', self.arguments(), self.body(d, True, False), [], None, lineno=1, type_params=[])
        return ast.Expr(e())

    def module(self, n=None):
        m = ast.Module([self.stmt(0) for _ in range(n or self.r.randint(1, 4))], [])
        return m


def _valid_ctx(src):
    """reject programs with await/yield outside functions etc. (compile-level), keep what ast.parse accepts."""
    try:
        ast.parse(src)
        return True
    except (SyntaxError, ValueError, RecursionError):
        return False


def gen_program(rng, maxdepth=3):
    for _ in range(50):
        g = Gen(rng, maxdepth)
        try:
            m = g.module()
            ast.fix_missing_locations(m)
            src = ast.unparse(m)
        except Exception:
            continue
        if _valid_ctx(src):
            try:
                if ast.dump(ast.parse(src)) == ast.dump(ast.parse(ast.unparse(ast.parse(src)))):
                    return src
            except Exception:
                continue
    return 'x = 1'


def gen_expr_src(rng, maxdepth=3):
    for _ in range(50):
        g = Gen(rng, maxdepth)
        try:
            e = g.expr(0)
            src = ast.unparse(ast.fix_missing_locations(ast.Expression(e)))
            ast.parse(src, mode='eval')
            return src
        except Exception:
            continue
    return 'a'


# ---------------------------------------------------------------------------------------------------------------------
# layout mutators (keep the parse)

def _tokens(src):
    return list(tokenize.generate_tokens(io.StringIO(src).readline))


def mutate_layout(src, rng, intensity=0.15):
    """Insert spaces / comments+newlines inside brackets / redundant parentheses are not added here (token level only);
    the result is accepted only if it parses to the same AST (without attributes)."""
    try:
        toks = _tokens(src)
        ref = ast.dump(ast.parse(src))
    except Exception:
        return src
    out = []
    depth = 0
    prev_end = (1, 0)
    lines = src.split('\n')
    fdepth = 0
    for t in toks:
        tt, ts, (sl, sc), (el, ec), _ = t
        if tt in (tokenize.ENDMARKER,):
            break
        if tt in (tokenize.INDENT, tokenize.DEDENT):
            continue
        # original inter-token text
        if (sl, sc) >= prev_end:
            if sl == prev_end[0]:
                gap = lines[sl - 1][prev_end[1]:sc]
            else:
                gap = lines[prev_end[0] - 1][prev_end[1]:] + '\n' + '\n'.join(lines[prev_end[0]:sl - 1]) + ('\n' if sl - 1 > prev_end[0] else '') + lines[sl - 1][:sc]
        else:
            gap = ''
        name = tokenize.tok_name[tt]
        if name == 'FSTRING_START':
            fdepth += 1
        in_f = fdepth > 0
        if not in_f and tt not in (tokenize.NEWLINE, tokenize.NL, tokenize.COMMENT) and out and rng.random() < intensity \
                and '\n' not in gap and sc > 0 and lines[sl - 1][:sc].strip() != '':
            c = rng.random()
            if depth > 0 and c < 0.35:
                gap = gap + rng.choice([' # cmt', '']) + '\n' + ' ' * rng.randint(0, 8)
            elif c < 0.5:
                gap = gap + ' \\\n' + ' ' * rng.randint(0, 6)
            elif c < 0.8:
                gap = gap + ' ' * rng.randint(1, 3)
            elif depth > 0:
                gap = gap + '\n\n' + ' ' * rng.randint(0, 4)
        out.append(gap)
        out.append(ts)
        if name == 'FSTRING_END':
            fdepth -= 1
        if tt == tokenize.OP and not in_f:
            if ts in '([{':
                depth += 1
            elif ts in ')]}':
                depth -= 1
        prev_end = (el, ec)
    new = ''.join(out)
    try:
        if ast.dump(ast.parse(new)) == ref:
            return new
    except Exception:
        pass
    return src


def add_comments(src, rng, p=0.2):
    """Append trailing comments to simple lines and insert comment/blank lines between statements (parse preserved)."""
    try:
        ref = ast.dump(ast.parse(src))
    except Exception:
        return src
    lines = src.split('\n')
    # lines inside multi-line strings / brackets must not be touched: use tokenize NEWLINE tokens as safe line ends
    safe_end = set()
    safe_start = set()
    try:
        for t in _tokens(src):
            if t.type == tokenize.NEWLINE:
                safe_end.add(t.start[0] - 1)
                safe_start.add(t.end[0])
    except Exception:
        return src
    out = []
    for i, l in enumerate(lines):
        if i in safe_start and rng.random() < p:
            ind = l[:len(l) - len(l.lstrip())]
            out.append(rng.choice([ind + '# lead ' + str(i), '', ind + '# l1\n' + ind + '# l2']))
        if i in safe_end and rng.random() < p and not l.rstrip().endswith('\\') and '#' not in l:
            l = l + rng.choice(['  # t', ' # trailing é', '   #x'])
        out.append(l)
    new = '\n'.join(out)
    try:
        if ast.dump(ast.parse(new)) == ref:
            return new
    except Exception:
        pass
    return src


def add_parens(src, rng, p=0.15):
    """Wrap random expression nodes in redundant parentheses (parse preserved, without attributes)."""
    try:
        tree = ast.parse(src)
        ref = ast.dump(tree)
    except Exception:
        return src
    lines = src.split('\n')
    cands = []
    for n in ast.walk(tree):
        if isinstance(n, ast.expr) and not isinstance(n, (ast.Starred, ast.Slice, ast.JoinedStr, ast.FormattedValue)) \
                and isinstance(getattr(n, 'ctx', ast.Load()), ast.Load) and rng.random() < p:
            cands.append(n)
    # apply from the end so positions stay valid; skip overlapping
    cands.sort(key=lambda n: (n.end_lineno, n.end_col_offset), reverse=True)
    cur = src
    for n in cands[:4]:
        ls = cur.split('\n')
        try:
            bl = [l.encode() for l in ls]
            a = bl[n.lineno - 1][:n.col_offset].decode()
            b = bl[n.end_lineno - 1][:n.end_col_offset].decode()
        except Exception:
            continue
        ls2 = ls[:]
        ls2[n.end_lineno - 1] = b + ')' + ls[n.end_lineno - 1][len(b):]
        l0 = ls2[n.lineno - 1]
        ls2[n.lineno - 1] = l0[:len(a)] + '(' + l0[len(a):]
        new = '\n'.join(ls2)
        try:
            t2 = ast.parse(new)
            if ast.dump(t2) == ref:
                cur = new
                # positions of earlier (in text) nodes on the same line before `n` are unaffected
        except Exception:
            pass
        # re-parse to refresh positions is skipped: candidates are processed end-to-start, nested ones may be stale
        try:
            if cur == new:
                tree2 = ast.parse(cur)
        except Exception:
            pass
        break_after = False
        if break_after:
            break
    return cur


def stdlib_files(rng=None, n=None, maxsize=60000):
    files = sorted(p for p in STDLIB.glob('*.py') if p.stat().st_size < maxsize)
    if rng is not None:
        files = files[:]
        rng.shuffle(files)
    return files[:n] if n else files


def stdlib_chunks(rng, n, maxlines=60):
    """top-level statements (functions, classes, ...) of stdlib files, as standalone source."""
    out = []
    files = stdlib_files(rng)
    fi = 0
    while len(out) < n and fi < len(files):
        p = files[fi]
        fi += 1
        try:
            src = p.read_text(encoding='utf-8')
            tree = ast.parse(src)
        except Exception:
            continue
        lines = src.split('\n')
        stmts = [s for s in tree.body if s.end_lineno - s.lineno < maxlines]
        rng.shuffle(stmts)
        for s in stmts[:max(1, n // 20)]:
            start = s.lineno - 1
            if getattr(s, 'decorator_list', None):
                start = s.decorator_list[0].lineno - 1
            chunk = '\n'.join(lines[start:s.end_lineno])
            try:
                ast.parse(chunk)
            except Exception:
                continue
            out.append(chunk)
    return out[:n]


def programs(rng, n, *, snippets=True, generated=True, stdlib=0, layouts=True, maxdepth=3):
    """A mixed list of `n` program sources."""
    out = []
    pool = []
    if snippets:
        pool.extend(SNIPPETS)
    rng_s = rng
    while len(out) < n:
        c = rng_s.random()
        if snippets and (c < 0.35 or not generated):
            k = rng_s.randint(1, 3)
            src = '\n'.join(s.rstrip('\n') for s in rng_s.sample(SNIPPETS, k))
        else:
            src = gen_program(rng_s, maxdepth)
        if layouts:
            c = rng_s.random()
            if c < 0.5:
                src = mutate_layout(src, rng_s)
            if rng_s.random() < 0.3:
                src = add_parens(src, rng_s)
            if rng_s.random() < 0.3:
                src = add_comments(src, rng_s)
        try:
            ast.parse(src)
        except Exception:
            continue
        out.append(src)
    if stdlib:
        out.extend(stdlib_chunks(rng, stdlib))
    return out


if __name__ == '__main__':
    import random
    r = random.Random(1)
    bad = 0
    for s in SNIPPETS:
        try:
            ast.parse(s)
        except SyntaxError as e:
            bad += 1
            print('BAD SNIPPET', repr(s), e)
    ps = programs(r, 200, stdlib=20)
    print(len(ps), 'programs;', bad, 'bad snippets')
    for p in ps[:6]:
        print('-----')
        print(p)
