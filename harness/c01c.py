"""C01c extraction: what pfst's `_can_del_all` (src/fst/slice_stmtlike.py) answers, with normalisation enabled and disabled,
for every (block statement kind, field, presence of handlers / else / finally), next to what CPython says about the
statement after that field has been emptied.  Printed as a Lean literal (lean/Pfst/Gen/CanDelAll.lean) on every run."""
import ast
import itertools

KINDS = {  # kind -> (source template pieces, node class name); {H} handlers, {E} else, {F} finally
    'module': None, 'funcdef': 'def f():\n    a', 'classdef': 'class C:\n    a', 'ifS': 'if x:\n    a{E}', 'forS': 'for i in j:\n    a{E}',
    'whileS': 'while x:\n    a{E}', 'withS': 'with x:\n    a', 'tryS': 'try:\n    a{H}{E}{F}', 'tryStar': 'try:\n    a{H}{E}{F}',
    'matchS': 'match s:\n    case 1:\n        a\n    case 2:\n        b', 'handler': 'try:\n    a\nexcept E:\n    b\n    c',
    'matchCase': 'match s:\n    case 1:\n        a\n        b', 'exceptHandlers': None, 'matchCases': None,
}
CLS = {'module': 'Module', 'funcdef': 'FunctionDef', 'classdef': 'ClassDef', 'ifS': 'If', 'forS': 'For', 'whileS': 'While', 'withS': 'With',
       'tryS': 'Try', 'tryStar': 'TryStar', 'matchS': 'Match', 'handler': 'ExceptHandler', 'matchCase': 'match_case',
       'exceptHandlers': '_ExceptHandlers', 'matchCases': '_match_cases'}
FIELDS = {'module': ['body'], 'funcdef': ['body'], 'classdef': ['body'], 'ifS': ['body', 'orelse'], 'forS': ['body', 'orelse'],
          'whileS': ['body', 'orelse'], 'withS': ['body'], 'tryS': ['body', 'handlers', 'orelse', 'finalbody'],
          'tryStar': ['body', 'handlers', 'orelse', 'finalbody'], 'matchS': ['cases'], 'handler': ['body'], 'matchCase': ['body'],
          'exceptHandlers': ['handlers'], 'matchCases': ['cases']}


def _src(kind, h, e, f):
    if kind == 'module':
        return 'a\nb'
    t = KINDS[kind]
    star = '*' if kind == 'tryStar' else ''
    hs = ''.join(f'\nexcept{star} E{i}:\n    h{i}' for i in range(h))
    return t.replace('{H}', hs).replace('{E}', '\nelse:\n    e' if e else '').replace('{F}', '\nfinally:\n    f' if f else '')


def _emptied(kind, field, h, e, f):
    """source of the statement after `field` has been emptied, written in plain Python (None: not expressible)"""
    if kind == 'module':
        return ''
    if kind in ('exceptHandlers', 'matchCases'):
        return None
    if field == 'body':
        lines = _src(kind, h, e, f).split('\n')
        if kind in ('handler', 'matchCase'):
            return '\n'.join(l for l in lines if l.strip() not in ('b', 'c', 'a') or (kind == 'handler' and l.strip() == 'a'))
        return '\n'.join(l for l in lines if l != '    a')
    if field == 'cases':
        return 'match s:'
    return _src(kind, 0 if field == 'handlers' else h, e and field != 'orelse', f and field != 'finalbody')


def shapes():
    for kind in KINDS:
        if kind in ('tryS', 'tryStar'):
            for h, e, f in itertools.product((0, 1, 2), (False, True), (False, True)):
                try:
                    ast.parse(_src(kind, h, e, f))
                except SyntaxError:
                    continue
                if kind == 'tryStar' and not h:
                    continue                # without `except*` the statement is a plain Try
                yield kind, h, e, f
        elif kind in ('ifS', 'forS', 'whileS'):
            for e in (False, True):
                yield kind, 0, e, False
        else:
            yield kind, 0, False, False


def table():
    from fst import FST
    from fst import slice_stmtlike
    rows = []
    for kind, h, e, f in shapes():
        if kind == 'exceptHandlers':
            node = FST('except E:\n    a\nexcept F:\n    b', '_ExceptHandlers')
        elif kind == 'matchCases':
            node = FST('case 1:\n    a\ncase 2:\n    b', '_match_cases')
        else:
            root = FST(_src(kind, h, e, f), 'exec')
            node = root if kind == 'module' else next(n for n in root.walk(True) if n.a.__class__.__name__ == CLS[kind])
        assert node.a.__class__.__name__ == CLS[kind], (kind, node.a.__class__.__name__)
        for field in FIELDS[kind]:
            if not getattr(node.a, field):
                continue                   # an empty field cannot be emptied
            can_norm = bool(slice_stmtlike._can_del_all(node, field, {'norm': True}))
            can_raw = bool(slice_stmtlike._can_del_all(node, field, {'norm': False}))
            after = _emptied(kind, field, h, e, f)
            if after is None:
                parses = True               # the special containers may be empty
            else:
                try:
                    ast.parse(after)
                    parses = True
                except SyntaxError:
                    parses = False
            # when the emptying is allowed under normalisation: do it for real (delete and cut) and ask CPython which statement
            # class the resulting source has (all `except*` handlers gone with a `finally` left: a plain Try)
            cls_ok = True
            if can_norm and KINDS.get(kind) and kind not in ('module',):
                for how in ('delete', 'cut'):
                    r2 = FST(_src(kind, h, e, f), 'exec')
                    n2 = next(n for n in r2.walk(True) if n.a.__class__.__name__ == CLS[kind])
                    try:
                        if how == 'delete':
                            n2.put_slice(None, 0, 'end', field, norm=True)
                        else:
                            n2.get_slice(0, 'end', field, cut=True, norm=True)
                        live = r2.a.body[0].__class__.__name__
                        parsed = ast.parse(r2.src).body[0].__class__.__name__
                        cls_ok = cls_ok and live == parsed
                    except Exception:
                        cls_ok = False
            rows.append({'clsOk': cls_ok, 'kind': kind, 'field': field, 'handlers': h > 0, 'orelse': bool(e), 'finalbody': bool(f), 'canNorm': can_norm,
                         'canRaw': can_raw, 'parsesAfter': parses, 'src': _src(kind, h, e, f) if KINDS[kind] or kind == 'module' else '', 'h': h})
    return rows


def lean_text(rows):
    b = lambda x: 'true' if x else 'false'
    out = ['import Pfst.CanDel', '-- GENERATED by harness/c01c.py from the working tree of pfst on every run; do not edit',
           '/-! What `_can_del_all` (src/fst/slice_stmtlike.py) answers on real nodes, with normalisation on (`canNorm`) and off',
           '(`canRaw`), for every block statement kind × list field × presence of handlers / else / finally; `parsesAfter` is CPython\'s',
           'verdict on the statement written with that field emptied. -/',
           'namespace Pfst.Gen.CanDelAll', 'open Pfst.CanDel', '',
           'structure Row where', '  shape : Shape', '  field : Field', '  canNorm : Bool', '  canRaw : Bool', '  parsesAfter : Bool',
           '  clsOk : Bool   -- after really emptying the field (delete and cut, normalisation on) the live statement class is the class CPython parses',
           'deriving DecidableEq, Repr', '', 'def rows : List Row := [']
    for r in rows:
        out.append(f"  ⟨⟨.{r['kind']}, {b(r['handlers'])}, {b(r['orelse'])}, {b(r['finalbody'])}⟩, .{r['field']}, {b(r['canNorm'])}, {b(r['canRaw'])}, {b(r['parsesAfter'])}, {b(r['clsOk'])}⟩,")
    out[-1] = out[-1].rstrip(',')
    out += [']', '', 'end Pfst.Gen.CanDelAll', '']
    return '\n'.join(out)
