"""C17: search() yields exactly the walk events of the nodes match() accepts, with that node's own tags, for every
`on` in {'enter', 'leave', 'both'} x nested x back x scope.

Oracle: the un-prefiltered `walk(True, on, back=, scope=)` of the real tree (the walk itself is the subject of C14/C15)
driven by hand in plain Python: an event of node n is expected iff `match(pattern, n)` accepts, with the tags of THAT
call; for `nested=False` recursion is declined with send(False) after a matched event.  scope=True exists only for
on='enter'.
Model: Pfst.Match.searchEvents (nested=True) for the three `on` modes.
"""

from __future__ import annotations

import ast
import random

import c17_lib as L
import corpus

TN = L.tname

NESTED_SRCS = [
    '[a, [1]]', '[1, [b]]', '[a, [b, [1, [c]]]]', '[[a], 1]', 'f(a, g(1), [b, [2]])', 'f(1, g(a))',
    'x = [a, [1]]\ny = [1, [b]]', '(a + 1) * (2 + b)', 'def f():\n    [a, [1]]\n    def g():\n        [1, [b]]\n    return [g, [2]]\n',
    'class C:\n    x = [a, [1]]\n    def m(self):\n        return [1, [self]]\n', 'lambda: [a, [lambda: [1, [b]]]]',
    '[[x for x in [a, [1]]], [1, [y for y in b]]]',
    # the same structure in different expression contexts (match option ctx)
    'a = a + 1\ndel a\nfor a in a: a.b = a.b\nwith a as a: a[0] = a[0]; del a[0], a.b',
    # comprehensions whose first iterable (it belongs to the enclosing scope) is not a bare name
    'def f(self):\n    return [r for r in self.rows()]\n',
    'def g(d):\n    return {k: v for k, v in d.items() if k}, (x for x in a.b[c])\n',
    'z = [y for y in [q for q in w.q]]\nt = [x for x in (lambda: m)()]',
    'class C:\n    z = [i for i in range(n) for j in k.l]\n    def m(self):\n        return {s for s in self.s[0].t}\n',
    'lambda o: [(u := x) for x in o.attr[i] if (w := x)]',
    'def h():\n    return sum(e.v for e in it.chain(p(), [1, q.r]))\n',
]

ON = ['enter', 'leave', 'both']


def patterns(ser):
    """[(name, real factory, json | None)]: verdict differs between a node and its descendants; tagged captures"""
    from fst import match as M
    n = ser.num
    LIST, NONE = ser.LIST, ser.NONE
    # list field patterns need quantifiers, which the tree model has not: oracle only (json None)
    return [
        ('MList[first=Name,*]', lambda: M.MList(elts=[M.M(**{TN(0): ast.Name}), M.MQSTAR]), None),
        ('MList[*,last=List]', lambda: M.MList(elts=[M.MQSTAR, M.M(**{TN(0): ast.List})]), None),
        ('MList[*,Constant,*]', lambda: M.MList(elts=[M.MQSTAR, M.M(**{TN(1): ast.Constant}), M.MQSTAR], **{}), None),
        ('MCall[*,last=Constant]', lambda: M.MCall(args=[M.MQSTAR, M.M(**{TN(0): ast.Constant})]), None),
        ('MCall(func=Name)', lambda: M.MCall(func=M.M(**{TN(0): ast.Name})),
         ['node', n[ast.Call], [['m', ['type', n[ast.Name]], 0, []], ['wild'], ['wild']]]),
        ('M(t0=BinOp(left=t1:Name))', lambda: M.M(**{TN(0): M.MBinOp(left=M.M(**{TN(1): ast.Name}))}),
         ['m', ['node', n[ast.BinOp], [['m', ['type', n[ast.Name]], 1, []], ['wild'], ['wild']]], 0, []]),
        ('MOR(t0=List,t1=Call)', lambda: M.MOR(**{TN(0): ast.List, TN(1): ast.Call}),
         ['mor', [[0, ['type', n[ast.List]]], [1, ['type', n[ast.Call]]]]]),
        ('M(t0=expr,t5=1)', lambda: M.M(**{TN(0): ast.expr, TN(5): 1}), ['m', ['type', n[ast.expr]], 0, [[5, 1]]]),
        ('MNOT(t2=List;Name)', lambda: M.MAND(M.MNOT(**{TN(2): ast.Name}), ast.expr),
         ['mand', [[None, ['mnot', ['type', n[ast.Name]], 2, []]], [None, ['type', n[ast.expr]]]]]),
        ('MTYPES(List,Tuple;elts=[Name,*])', lambda: M.MTYPES((ast.List, ast.Tuple), elts=[M.M(**{TN(0): ast.Name}), M.MQSTAR]), None),
        ('Mstmt(body=[t0,*])', lambda: M.Mstmt(body=[M.M(**{TN(0): ast.Expr}), M.MQSTAR]), None),
        ('MFunctionDef', lambda: M.M(**{TN(0): M.MFunctionDef}), ['m', ['type', n[ast.FunctionDef]], 0, []]),
        # AST instances with expr_context instances: with ctx=True the context must be the same, with ctx=False any
        ('Name(a,Store())', lambda: ast.Name(id='a', ctx=ast.Store()),
         ['node', n[ast.Name], [['node', ser.prim('a'), []], ['type', n[ast.expr_context]]]]),
        ('M(t0=Name(a,Load()))', lambda: M.M(**{TN(0): ast.Name(id='a', ctx=ast.Load())}),
         ['m', ['node', n[ast.Name], [['node', ser.prim('a'), []], ['type', n[ast.expr_context]]]], 0, []]),
        ('Store()', lambda: ast.Store(), ['ctx']),
        ('MOR(t0=Del(),t1=Attribute(a.b,Store()))',
         lambda: M.MOR(**{TN(0): ast.Del(), TN(1): ast.Attribute(value=ast.Name(id='a', ctx=ast.Load()), attr='b', ctx=ast.Store())}), None),
        # patterns search() can pre-filter down to one or two node types
        ('Name', lambda: ast.Name, ['type', n[ast.Name]]),
        ('M(t0=MName)', lambda: M.M(**{TN(0): M.MName}), ['m', ['type', n[ast.Name]], 0, []]),
        ('MAttribute(value=t0:Name)', lambda: M.MAttribute(value=M.M(**{TN(0): ast.Name})),
         ['node', n[ast.Attribute], [['m', ['type', n[ast.Name]], 0, []], ['wild'], ['wild']]]),
        ('MOR(t0=Name,t1=Constant)', lambda: M.MOR(**{TN(0): ast.Name, TN(1): ast.Constant}),
         ['mor', [[0, ['type', n[ast.Name]]], [1, ['type', n[ast.Constant]]]]]),
        ('MReturn(value=t0)', lambda: M.MReturn(value=M.M(**{TN(0): ast.List})),
         ['node', n[ast.Return], [['m', ['type', n[ast.List]], 0, []]]]),
    ]


def canon_tags(m, ids):
    out = []
    for k, v in m.tags.items():
        a = getattr(v, 'a', v)
        out.append([int(k[1:]), ['n', ids[id(a)]] if isinstance(a, ast.AST) else ['s', int(v)] if isinstance(v, int) else ['o', repr(v)[:40]]])
    return out


CTX_SENSITIVE = ('Name(a,Store())', 'M(t0=Name(a,Load()))', 'Store()', 'MOR(t0=Del(),t1=Attribute(a.b,Store()))')


def expected(root, pat, ids, on, nested, back, scope, ctxopt=False):
    """plain walk driven by hand: every event is judged by match() on its own node; nested=False declines recursion
    with send(False) after a matched event, exactly what search() documents (the reaction of walk() to send() is the
    subject of C14/C15 and is taken from the real walk)"""
    gen = root.walk(True, on, back=back, scope=scope)
    out = []
    for r in gen:
        f, leaving = r if on == 'both' else (r, on == 'leave')
        m = f.match(pat, ctx=ctxopt)
        if m is None:
            continue
        out.append([ids[id(f.a)], leaving, canon_tags(m, ids)])
        if not nested:
            gen.send(False)
    return out


def actual(root, pat, ids, on, nested, back, scope, ctxopt=False):
    out = []
    for r in root.search(pat, nested, on=on, back=back, scope=scope, ctx=ctxopt):
        if on == 'both':
            m, leaving = r
        else:
            m, leaving = r, on == 'leave'
        out.append([ids[id(m.matched.a)], leaving, canon_tags(m, ids)])
    return out


def _case(arg):
    src, seed, quick = arg
    from fst import FST
    rng = random.Random(seed)
    out = []
    try:
        root = FST(src, 'exec')
    except Exception:       # noqa: BLE001
        return out
    ser = L.TreeSer()
    tree = ser.tree(root.a)
    ids = ser.ids
    # search from the module, and from a nested scope node (scope=True walks only that scope)
    starts = [root]
    defs = [f for f in root.walk(True) if isinstance(f.a, (ast.FunctionDef, ast.ClassDef, ast.Lambda))]
    if defs:
        starts.append(rng.choice(defs))
    pats = patterns(ser)
    if quick and len(src) > 200:
        pats = rng.sample(pats, 6)
    for name, mk, js in pats:
        pat = mk()
        for start in starts:
            for on in ON:
                for nested in (True, False):
                    for back in (False, True):
                        for scope, ctxopt in [(sc, cx) for sc in (False, True) for cx in ((False, True) if name in CTX_SENSITIVE else (False,))]:
                            if scope and on != 'enter':
                                continue        # NotImplementedError by design: scope=True is only supported for on='enter'
                            if start is not root and not scope and rng.random() < 0.5:
                                continue
                            item = {'name': name, 'src': src, 'start': ids[id(start.a)], 'on': on, 'nested': nested, 'back': back,
                                    'scope': scope, 'ctx': ctxopt}
                            try:
                                item['got'] = L.call_with_timeout(20, actual, start, pat, ids, on, nested, back, scope, ctxopt)
                                item['want'] = L.call_with_timeout(20, expected, start, pat, ids, on, nested, back, scope, ctxopt)
                            except L.Timeout as e:
                                item['exc'] = 'does-not-terminate: ' + str(e)
                                out.append(item)
                                return out          # do not spend the budget on more non-terminating calls
                            except Exception as e:      # noqa: BLE001
                                item['exc'] = type(e).__name__ + ': ' + str(e)[:120]
                            if js and start is root and nested and not back and not scope and not ctxopt:
                                item['case'] = {'f': 'C17.searchOn', 'p': js, 't': tree, 'on': on}
                            out.append(item)
    return out


def _runs(ctx):
    if getattr(ctx, '_c17_events', None) is None:
        from framework import pmap
        rng = random.Random(ctx.rng.random())
        progs = list(NESTED_SRCS)
        progs += corpus.programs(rng, 40 if ctx.quick else 150, stdlib=0, maxdepth=2)
        hs = corpus.hard_snippets()
        progs += rng.sample(hs, min(len(hs), 10 if ctx.quick else 40))
        res = pmap(_case, [(p, ctx.rng.randrange(1 << 30), ctx.quick) for p in progs])
        ctx._c17_events = [it for lst in res for it in lst]
    return ctx._c17_events


def _mode(it):
    return f'on={it["on"]},nested={it["nested"]},back={it["back"]},scope={it["scope"]},ctx={it.get("ctx", False)}'


def classify(got, want):
    g = [(e[0], e[1]) for e in got]
    w = [(e[0], e[1]) for e in want]
    if g == w:
        return 'wrong-tags'
    if sorted(g) == sorted(w):
        return 'wrong-order'
    missing = [e for e in w if e not in g]
    extra = [e for e in g if e not in w]
    if missing and extra:
        return 'missing-and-spurious-events'
    return 'missing-event' if missing else 'spurious-event'


def correspondence(ctx):
    name = 'search(pattern, on=enter|leave|both) events vs Pfst.Match.searchEvents'
    items = [it for it in _runs(ctx) if 'case' in it and 'got' in it]
    try:
        outs = ctx.lean([it['case'] for it in items])
    except Exception as e:      # noqa: BLE001
        ctx.brk('correspondence', name, f'driver error: {e}')
        return
    bad = 0
    first = None
    for it, mo in zip(items, outs):
        m = mo.get('out', mo)
        ctx.corr_cases += 1
        ctx.count(('E', it['name'], it['on'], it['src']), bool(it['got']))
        # the model walks fields in _fields order, the implementation in syntactic order: compare as multisets
        # (the order is the oracle's business); tags canonical: sorted by tag number
        mine = sorted([e[0], e[1], sorted(e[2])] for e in it['got'])
        theirs = sorted([e[0], e[1], e[2]] for e in m.get('events', [['x']])) if isinstance(m, dict) else None
        if mine != theirs:
            bad += 1
            first = first or {'corr': name, 'pattern': it['name'], 'on': it['on'], 'src': it['src'][:300], 'impl': mine, 'model': theirs}
            if len(ctx.corr_disagreements) < 20:
                ctx.corr_disagreements.append(first if bad == 1 else {'corr': name, 'pattern': it['name'], 'on': it['on'], 'src': it['src'][:200]})
            ctx.hints.append((name, it['name']))
    ctx.dist.setdefault('correspondence_cases', {})[name] = len(items)
    if bad:
        ctx.brk('correspondence', name, f'{bad}/{len(items)} cases differ; first: ' + str(first)[:1500])


def sweep(ctx):
    seen = {}
    n = 0
    for it in _runs(ctx):
        n += 1
        ctx.count(None)
        ctx.tally('search_events_on', it['on'])
        w = {'kind': 'events', 'src': it['src'], 'pattern': it['name'], 'start': it['start'], 'on': it['on'], 'nested': it['nested'],
             'back': it['back'], 'scope': it['scope'], 'ctx': it.get('ctx', False)}
        if 'exc' in it:
            sig = f'C17|search-events|on={it["on"]},nested={it["nested"]}|' + ('does-not-terminate' if it['exc'].startswith('does-not') else 'raised')
            seen[sig] = seen.get(sig, 0) + 1
            if seen[sig] <= 2:
                ctx.fail(sig, f'search({it["name"]}, {_mode(it)}) raised {it["exc"]}', w)
            continue
        if it['got'] == it['want']:
            continue
        cls = classify(it['got'], it['want'])
        sig = f'C17|search-events|on={it["on"]},nested={it["nested"]}' + (',ctx=True' if it.get('ctx') else '') + f'|{cls}'
        seen[sig] = seen.get(sig, 0) + 1
        if seen[sig] <= 2:
            ctx.fail(sig, f'search({it["name"]}, {_mode(it)}) on {it["src"][:80]!r}: yields events (node, leaving, tags) {it["got"]}, '
                          f'the walk filtered by match() gives {it["want"]}', w)
    ctx.notes['search_event_cases'] = n
    ctx.notes['search_event_failures_by_signature'] = seen


def replay(ctx, w):
    from fst import FST
    root = FST(w['src'], 'exec')
    ser = L.TreeSer()
    ser.tree(root.a)
    ids = ser.ids
    start = next(f for f in root.walk(True) if ids[id(f.a)] == w['start'])
    for name, mk, js in patterns(ser):
        if name == w['pattern']:
            pat = mk()
            got = actual(start, pat, ids, w['on'], w['nested'], w['back'], w['scope'], w.get('ctx', False))
            want = expected(start, pat, ids, w['on'], w['nested'], w['back'], w['scope'], w.get('ctx', False))
            if got != want:
                ctx.fail('replay', f'search events {got}, expected {want}', w)
            return
    print('unknown pattern', w['pattern'])
